(* C14 proofs. *)
From Coq Require Import List ZArith String Ascii Bool Arith Lia Sorted Permutation.
From Verif Require Import Lib.Sexp Model.C14_finder.
Import ListNotations.
Open Scope string_scope.
Open Scope list_scope.

(* ------------------------------------------------------------------------------------------------------------- *)
(* boolean equalities *)
Lemma lstr_eqb_refl : forall a, lstr_eqb a a = true.
Proof. induction a; simpl; auto. rewrite String.eqb_refl. auto. Qed.

Lemma lstr_eqb_eq : forall a b, lstr_eqb a b = true <-> a = b.
Proof.
  induction a; destruct b; simpl; split; intro H; try discriminate; auto.
  - apply andb_true_iff in H. destruct H as [H1 H2]. apply String.eqb_eq in H1. apply IHa in H2. subst. auto.
  - inversion H; subst. rewrite String.eqb_refl. simpl. apply IHa. auto.
Qed.

Lemma lstr_eqb_neq : forall a b, lstr_eqb a b = false <-> a <> b.
Proof.
  intros. split; intro H.
  - intro E. apply lstr_eqb_eq in E. congruence.
  - destruct (lstr_eqb a b) eqn:E; auto. apply lstr_eqb_eq in E. contradiction.
Qed.

Lemma path_eqb_eq : forall p q, path_eqb p q = true <-> p = q.
Proof.
  intros [i a] [j b]. unfold path_eqb. simpl. rewrite andb_true_iff, Nat.eqb_eq, lstr_eqb_eq.
  split; intro H. destruct H; subst; auto. inversion H; auto.
Qed.

Lemma path_eqb_refl : forall p, path_eqb p p = true.
Proof. intro. apply path_eqb_eq. auto. Qed.

(* ------------------------------------------------------------------------------------------------------------- *)
(* Part A.  find_package against PathFinder/FileFinder *)

(* what a search directory may offer for the top-level name so that the two finders are expected to agree *)
Definition top_ok (U : universe) (name : string) (i : nat) : bool :=
  let L := root U i in
  forallb (fun s => negb (has_file (name ++ s)%string L)) compiled_suffixes &&
  match lookup_entry (name ++ ".py")%string L with Some (Dir _) => false | _ => true end &&
  match lookup_entry name L with
  | None => true
  | Some (File _ _) => false
  | Some (Dir inner) =>
      forallb (fun s => negb (has_file ("__init__" ++ s)%string inner)) compiled_suffixes &&
      match lookup_entry "__init__.py" inner with
      | None => negb (has_entry "__init__.pyi" inner)          (* no stub-only package *)
      | Some (File ns _) => negb ns                             (* no pkgutil-style declaration *)
      | Some (Dir _) => false
      end
  end.

Definition find_agree (f : found) (s : pyspec) : Prop :=
  match f, s with
  | FPkg p _, PyPkg init locs => p = init /\ locs = [(fst p, removelast (snd p))]
  | FPkg p _, PyMod q => p = q
  | FNs ds, PyNs ds' => ds = ds'
  | FNone, PyNone => True
  | _, _ => False
  end.

Lemma listing_at_root : forall U i, listing_at U (i, []) = Some (root U i).
Proof. intros. unfold listing_at, node_at. simpl. reflexivity. Qed.

Lemma has_file_entry : forall n L, has_file n L = true -> has_entry n L = true.
Proof. intros n L. unfold has_file, has_entry. destruct (lookup_entry n L) as [[|]|]; auto. Qed.

Lemma find_eq_gen :
  forall U name paths nsacc all,
  forallb (top_ok U name) paths = true ->
  find_agree (g_find U name paths nsacc) (py_find_loop U name all (top_dirs paths) nsacc).
Proof.
  intros U name paths. induction paths as [|i r IH]; intros nsacc all Hok.
  - simpl. destruct nsacc; simpl; auto.
  - simpl in Hok. apply andb_true_iff in Hok. destruct Hok as [Hi Hr].
    unfold top_ok in Hi. apply andb_true_iff in Hi. destruct Hi as [Hi Hdir].
    apply andb_true_iff in Hi. destruct Hi as [Hcomp Hpy].
    simpl in Hcomp. repeat rewrite andb_true_iff in Hcomp. destruct Hcomp as (C1 & C2 & C3 & C4 & _).
    apply negb_true_iff in C1, C2, C3, C4.
    simpl top_dirs. simpl py_find_loop. unfold file_finder. rewrite listing_at_root.
    simpl g_find.
    assert (Hmod : first_file_with name py_suffixes (root U i) =
                   if has_entry (name ++ ".py")%string (root U i) then Some (name ++ ".py")%string else None).
    { simpl. rewrite C1, C2, C3, C4.
      unfold has_file, has_entry. destruct (lookup_entry (name ++ ".py")%string (root U i)) as [[|]|]; auto. discriminate. }
    rewrite Hmod. clear Hmod.
    destruct (lookup_entry name (root U i)) as [[ns pth|inner]|] eqn:Hname.
    + discriminate.
    + apply andb_true_iff in Hdir. destruct Hdir as [Hc2 Hinit].
      simpl in Hc2. repeat rewrite andb_true_iff in Hc2. destruct Hc2 as (D1 & D2 & D3 & D4 & _).
      apply negb_true_iff in D1, D2, D3, D4.
      assert (Hff : first_file_with "__init__" py_suffixes inner =
                    if has_file "__init__.py" inner then Some "__init__.py" else None).
      { simpl. rewrite D1, D2, D3, D4. reflexivity. }
      rewrite Hff. clear Hff. unfold has_file at 1.
      destruct (lookup_entry "__init__.py" inner) as [[ns pth|?]|] eqn:Hinit_e.
      * apply negb_true_iff in Hinit. subst ns.
        unfold init_declares_ns, node_at, sub. cbn [fst snd app get_node].
        rewrite Hname. cbn [get_node]. rewrite Hinit_e. cbn. auto.
      * discriminate.
      * apply negb_true_iff in Hinit. rewrite Hinit.
        destruct (has_entry (name ++ ".py")%string (root U i)).
        -- cbn. auto.
        -- unfold sub. cbn [fst snd app]. apply IH. auto.
    + destruct (has_entry (name ++ ".py")%string (root U i)).
      * cbn. auto.
      * apply IH. auto.
Qed.

Theorem find_eq_cpython :
  forall U name paths,
  forallb (top_ok U name) paths = true ->
  find_agree (g_find U name paths []) (py_find U name (top_dirs paths)).
Proof. intros. unfold py_find. apply find_eq_gen. auto. Qed.

(* ------------------------------------------------------------------------------------------------------------- *)
(* Part C.  The loader's fold over the depth-sorted submodule list, characterised key by key (regular top module) *)

Lemma lookup_set_same : forall k v M, lookup_m k (set_m k v M) = Some v.
Proof.
  induction M as [|[k' w] r IH]; simpl.
  - rewrite lstr_eqb_refl. auto.
  - destruct (lstr_eqb k' k) eqn:E; simpl; rewrite E; auto.
Qed.

Lemma lookup_set_other : forall k k' v M, k' <> k -> lookup_m k' (set_m k v M) = lookup_m k' M.
Proof.
  induction M as [|[k0 w] r IH]; simpl; intro Hn.
  - destruct (lstr_eqb k k') eqn:E; auto. apply lstr_eqb_eq in E. congruence.
  - destruct (lstr_eqb k0 k) eqn:E; simpl.
    + apply lstr_eqb_eq in E. subst k0.
      destruct (lstr_eqb k k') eqn:E2; auto. apply lstr_eqb_eq in E2. congruence.
    + destruct (lstr_eqb k0 k'); auto.
Qed.

Definition all_files (M : mstate) : Prop := forall k v, lookup_m k M = Some v -> exists p, v = MFile p.

Definition init_path (p : path) : bool := is_init_name (last (snd p) "").

(* every parent on the way is present AND is a package (__init__ module) *)
Fixpoint prefixes_present (M : mstate) (cur todo : list string) : bool :=
  match todo with
  | [] => true
  | p :: r => match lookup_m (cur ++ [p]) M with
              | Some (MFile f) => init_path f && prefixes_present M (cur ++ [p]) r
              | _ => false
              end
  end.

Lemma goc_regular : forall todo M cur k mfp, all_files M ->
  goc M cur todo k mfp = (M, if prefixes_present M cur todo then Some (cur ++ todo) else None).
Proof.
  induction todo as [|p r IH]; intros M cur k mfp HM; simpl.
  - rewrite app_nil_r. auto.
  - destruct (lookup_m (cur ++ [p]) M) as [[q|ps]|] eqn:E.
    + unfold init_path. destruct (is_init_name (last (snd q) "")); simpl; auto.
      rewrite IH by auto. rewrite <- app_assoc. simpl. auto.
    + apply HM in E. destruct E as [q E]. discriminate.
    + destruct (lookup_m cur M) as [[q|ps]|] eqn:E2; auto.
      apply HM in E2. destruct E2 as [q E2]. discriminate.
Qed.

Definition merge_path (old : option path) (newp : path) : path :=
  match old with
  | None => newp
  | Some oldp => if path_eqb oldp newp then newp
                 else if path_suffix oldp =? ".pyi" then newp
                 else if path_suffix newp =? ".pyi" then oldp
                 else newp
  end.

Definition file_of (o : option minfo) : option path :=
  match o with Some (MFile p) => Some p | _ => None end.

Lemma set_member_lookup_same : forall M key newp, all_files M ->
  lookup_m key (set_member M key newp) = Some (MFile (merge_path (file_of (lookup_m key M)) newp)).
Proof.
  intros M key newp HM. unfold set_member.
  destruct (lookup_m key M) as [[oldp|ps]|] eqn:E; simpl.
  - destruct (path_eqb oldp newp). apply lookup_set_same.
    destruct (path_suffix oldp =? ".pyi"). apply lookup_set_same.
    destruct (path_suffix newp =? ".pyi"); auto. apply lookup_set_same.
  - apply HM in E. destruct E as [q E]. discriminate.
  - apply lookup_set_same.
Qed.

Lemma set_member_lookup_other : forall M key k newp, k <> key ->
  lookup_m k (set_member M key newp) = lookup_m k M.
Proof.
  intros M key k newp Hn. unfold set_member.
  destruct (lookup_m key M) as [[oldp|ps]|]; try (apply lookup_set_other; auto).
  destruct (path_eqb oldp newp). apply lookup_set_other; auto.
  destruct (path_suffix oldp =? ".pyi"). apply lookup_set_other; auto.
  destruct (path_suffix newp =? ".pyi"); auto. apply lookup_set_other; auto.
Qed.

Lemma set_member_all_files : forall M key newp, all_files M -> all_files (set_member M key newp).
Proof.
  intros M key newp HM k v Hl.
  destruct (lstr_eqb k key) eqn:E.
  - apply lstr_eqb_eq in E. subst. rewrite set_member_lookup_same in Hl by auto. inversion Hl. eauto.
  - apply lstr_eqb_neq in E. rewrite set_member_lookup_other in Hl by auto. eauto.
Qed.

Lemma removelast_last : forall (l : list string), l <> [] -> removelast l ++ [last l ""] = l.
Proof. intros. symmetry. apply app_removelast_last. auto. Qed.

Lemma load_entry_regular : forall M e, all_files M -> e_parts e <> [] ->
  load_entry false M e =
    if entry_ok e && prefixes_present M [] (removelast (e_parts e))
    then set_member M (e_parts e) (e_abs e) else M.
Proof.
  intros M e HM Hne. unfold load_entry, entry_ok.
  destruct (existsb has_dot (e_parts e)); simpl; auto.
  rewrite goc_regular by auto.
  destruct (prefixes_present M [] (removelast (e_parts e))); simpl.
  - rewrite removelast_last by auto. rewrite orb_false_r.
    destruct (static_loadable (e_abs e)); auto.
  - rewrite andb_false_r. auto.
Qed.

(* ---- the declarative description ---- *)
Definition cand (k : list string) (e : entry) : bool := lstr_eqb (e_parts e) k && entry_ok e.
Definition cands (k : list string) (E : list entry) : list entry := filter (cand k) E.
Definition pickseq (l : list entry) : option path := fold_left (fun o e => Some (merge_path o (e_abs e))) l None.

(* the name q is taken by a package: the merge of its candidate files is an __init__ module *)
Definition init_at (E : list entry) (q : list string) : bool :=
  match pickseq (cands q E) with Some p => init_path p | None => false end.

Fixpoint chain (E : list entry) (cur todo : list string) : bool :=
  match todo with
  | [] => true
  | p :: r => init_at E (cur ++ [p]) && chain E (cur ++ [p]) r
  end.

Definition spec_lookup (top : path) (E : list entry) (k : list string) : option minfo :=
  match k with
  | [] => Some (MFile top)
  | _ => if chain E [] (removelast k) then option_map MFile (pickseq (cands k E)) else None
  end.

Definition sorted (E : list entry) : Prop :=
  forall E1 e E2, E = E1 ++ e :: E2 -> forall x, In x E1 -> depth x <= depth e.

Lemma sorted_snoc : forall E e, sorted (E ++ [e]) -> sorted E /\ forall x, In x E -> depth x <= depth e.
Proof.
  intros E e H. split.
  - intros E1 a E2 Heq x Hx. apply (H E1 a (E2 ++ [e])); auto. rewrite Heq. rewrite <- app_assoc. auto.
  - intros x Hx. apply (H E e []); auto.
Qed.

Lemma chain_app : forall E t1 c t2, chain E c (t1 ++ t2) = chain E c t1 && chain E (c ++ t1) t2.
Proof.
  induction t1 as [|p r IH]; intros; simpl.
  - rewrite app_nil_r. auto.
  - rewrite IH. rewrite <- app_assoc. simpl. rewrite andb_assoc. auto.
Qed.

Lemma chain_ext : forall E1 E2 todo cur,
  (forall j, 0 < j <= List.length todo -> cands (cur ++ firstn j todo) E1 = cands (cur ++ firstn j todo) E2) ->
  chain E1 cur todo = chain E2 cur todo.
Proof.
  induction todo as [|p r IH]; intros cur H; simpl; auto.
  pose proof (H 1) as H1. simpl in H1. unfold init_at. rewrite H1 by lia. f_equal.
  apply IH. intros j Hj. specialize (H (S j)). simpl in H. rewrite <- !app_assoc. simpl. apply H. lia.
Qed.

Lemma pickseq_nil_iff : forall l, pickseq l = None <-> l = [].
Proof.
  intros l. split; intro H; [|subst; auto].
  destruct l as [|a r]; auto. exfalso.
  destruct (exists_last (l := a :: r)) as (l' & z & Hl); [discriminate|].
  rewrite Hl in H. unfold pickseq in H. rewrite fold_left_app in H. simpl in H. discriminate.
Qed.

Lemma pickseq_snoc : forall l e, pickseq (l ++ [e]) = Some (merge_path (pickseq l) (e_abs e)).
Proof. intros. unfold pickseq. rewrite fold_left_app. auto. Qed.

Lemma cands_snoc : forall E e q, cands q (E ++ [e]) = cands q E ++ (if cand q e then [e] else []).
Proof. intros. unfold cands. rewrite filter_app. simpl. destruct (cand q e); auto. Qed.

Lemma spec_lookup_ne : forall top E k, k <> [] ->
  spec_lookup top E k = if chain E [] (removelast k) then option_map MFile (pickseq (cands k E)) else None.
Proof. intros top E k H. destruct k; [congruence|reflexivity]. Qed.

Lemma prefixes_present_chain : forall top E M,
  (forall k, lookup_m k M = spec_lookup top E k) ->
  forall todo cur, chain E [] cur = true -> prefixes_present M cur todo = chain E cur todo.
Proof.
  intros top E M HM. induction todo as [|p r IH]; intros cur Hc; simpl; auto.
  rewrite HM. rewrite spec_lookup_ne by (destruct cur; discriminate).
  rewrite List.removelast_last, Hc. unfold init_at.
  destruct (pickseq (cands (cur ++ [p]) E)) as [f|] eqn:Ep; simpl; auto.
  destruct (init_path f) eqn:Ei; simpl; auto.
  apply IH. rewrite chain_app, Hc. simpl. unfold init_at. rewrite Ep, Ei. reflexivity.
Qed.

Definition M0 (top : path) : mstate := [([], MFile top)].
Definition run (top : path) (E : list entry) : mstate := fold_left (load_entry false) E (M0 top).

Lemma cand_not_ok : forall q e, entry_ok e = false -> cand q e = false.
Proof. intros. unfold cand. rewrite H. apply andb_false_r. Qed.

Lemma length_removelast : forall (l : list string), l <> [] -> List.length l = S (List.length (removelast l)).
Proof.
  intros l H. rewrite (app_removelast_last "" H) at 1. rewrite app_length. simpl. lia.
Qed.

Lemma lstr_eqb_length : forall a b, lstr_eqb a b = true -> List.length a = List.length b.
Proof. intros a b H. apply lstr_eqb_eq in H. subst. auto. Qed.

Lemma spec_same_cands : forall top E1 E2 k,
  (forall q, cands q E1 = cands q E2) -> spec_lookup top E1 k = spec_lookup top E2 k.
Proof.
  intros top E1 E2 k Hc. destruct k as [|a r]; auto. unfold spec_lookup.
  rewrite Hc. rewrite (chain_ext E1 E2); auto.
Qed.

Lemma spec_not_ok : forall top E e k, entry_ok e = false -> spec_lookup top (E ++ [e]) k = spec_lookup top E k.
Proof.
  intros. apply spec_same_cands. intro q. rewrite cands_snoc, cand_not_ok; auto. apply app_nil_r.
Qed.

(* keys shorter than the parts of e keep their candidates *)
Lemma cands_snoc_shorter : forall E e q, List.length q <> List.length (e_parts e) -> cands q (E ++ [e]) = cands q E.
Proof.
  intros E e q H. rewrite cands_snoc. unfold cand.
  destruct (lstr_eqb (e_parts e) q) eqn:Eq. apply lstr_eqb_length in Eq. congruence. simpl. apply app_nil_r.
Qed.

Lemma chain_shorter_same : forall E e k,
  List.length k < List.length (e_parts e) -> chain (E ++ [e]) [] k = chain E [] k.
Proof.
  intros E e k H. apply chain_ext. intros j Hj. simpl. apply cands_snoc_shorter. rewrite firstn_length. lia.
Qed.

Lemma spec_other : forall top E e k,
  sorted (E ++ [e]) -> k <> e_parts e -> spec_lookup top (E ++ [e]) k = spec_lookup top E k.
Proof.
  intros top E e k Hs Hk. destruct k as [|a r]; auto.
  assert (Hc : cands (a :: r) (E ++ [e]) = cands (a :: r) E).
  { rewrite cands_snoc. unfold cand. destruct (lstr_eqb (e_parts e) (a :: r)) eqn:Eq.
    - apply lstr_eqb_eq in Eq. congruence.
    - simpl. apply app_nil_r. }
  unfold spec_lookup. rewrite Hc.
  destruct (cands (a :: r) E) as [|x l] eqn:Ec.
  - change (pickseq []) with (@None path).
    destruct (chain (E ++ [e]) [] (removelast (a :: r))), (chain E [] (removelast (a :: r))); reflexivity.
  - assert (Hx : In x (cands (a :: r) E)) by (rewrite Ec; left; auto).
    unfold cands in Hx. apply filter_In in Hx. destruct Hx as [HxE Hxc].
    unfold cand in Hxc. apply andb_true_iff in Hxc. destruct Hxc as [Hxp _]. apply lstr_eqb_eq in Hxp.
    apply sorted_snoc in Hs. destruct Hs as [_ Hle]. specialize (Hle x HxE). unfold depth in Hle. rewrite Hxp in Hle.
    rewrite chain_shorter_same; auto.
    pose proof (length_removelast (a :: r)) as Hl. specialize (Hl ltac:(discriminate)). lia.
Qed.

Lemma file_of_map : forall o : option path, file_of (option_map MFile o) = o.
Proof. destruct o; reflexivity. Qed.

Theorem run_spec : forall top E,
  sorted E -> (forall e, In e E -> e_parts e <> []) ->
  all_files (run top E) /\ forall k, lookup_m k (run top E) = spec_lookup top E k.
Proof.
  intros top E. induction E as [|e E IH] using rev_ind; intros Hs Hne.
  - split.
    + intros k v H. unfold run, M0 in H. simpl in H. destruct k; inversion H. eauto.
    + intros k. unfold run, M0. destruct k as [|c k]. reflexivity.
      unfold spec_lookup. change (cands (c :: k) []) with (@nil entry). change (pickseq []) with (@None path).
      destruct (chain [] [] (removelast (c :: k))); reflexivity.
  - pose proof (sorted_snoc _ _ Hs) as [HsE _].
    assert (HneE : forall x, In x E -> e_parts x <> []) by (intros; apply Hne; apply in_or_app; auto).
    destruct (IH HsE HneE) as [Haf Hlk]. clear IH.
    assert (Hpe : e_parts e <> []) by (apply Hne; apply in_or_app; right; left; auto).
    unfold run in *. rewrite fold_left_app. simpl.
    set (M := fold_left (load_entry false) E (M0 top)) in *.
    rewrite load_entry_regular by auto.
    rewrite (prefixes_present_chain top E M Hlk) by auto.
    assert (Hrl : chain (E ++ [e]) [] (removelast (e_parts e)) = chain E [] (removelast (e_parts e))).
    { apply chain_shorter_same. pose proof (length_removelast _ Hpe). lia. }
    destruct (entry_ok e) eqn:Hok; simpl.
    + destruct (chain E [] (removelast (e_parts e))) eqn:Hpp.
      * split. apply set_member_all_files; auto.
        intro k. destruct (lstr_eqb k (e_parts e)) eqn:Ek.
        -- apply lstr_eqb_eq in Ek. subst k.
           rewrite set_member_lookup_same by auto. rewrite Hlk.
           rewrite !spec_lookup_ne by auto. rewrite Hrl, Hpp. rewrite file_of_map.
           rewrite cands_snoc. unfold cand. rewrite lstr_eqb_refl, Hok. simpl.
           rewrite pickseq_snoc. reflexivity.
        -- apply lstr_eqb_neq in Ek. rewrite set_member_lookup_other by auto.
           rewrite Hlk. symmetry. apply spec_other; auto.
      * split; auto. intro k. rewrite Hlk.
        destruct (lstr_eqb k (e_parts e)) eqn:Ek.
        -- apply lstr_eqb_eq in Ek. subst k. rewrite !spec_lookup_ne by auto. rewrite Hrl, Hpp. reflexivity.
        -- apply lstr_eqb_neq in Ek. symmetry. apply spec_other; auto.
    + split; auto. intro k. rewrite Hlk. symmetry. apply spec_not_ok. auto.
Qed.

(* ------------------------------------------------------------------------------------------------------------- *)
(* Part D.  The result depends on the SET of submodule entries only, provided no two files claim one module name *)

(* two candidates of one name are the same file, or a regular module and its stubs *)
Definition compat (l : list entry) : Prop :=
  forall a b, In a l -> In b l -> is_pyi a = is_pyi b -> e_abs a = e_abs b.

Definition pick_rel (l : list entry) (p : path) : Prop :=
  (exists a, In a l /\ is_pyi a = false /\ e_abs a = p) \/
  ((forall a, In a l -> is_pyi a = true) /\ exists a, In a l /\ e_abs a = p).

Lemma compat_app_l : forall l1 l2, compat (l1 ++ l2) -> compat l1.
Proof. intros l1 l2 H a b Ha Hb. apply H; apply in_or_app; auto. Qed.

Lemma pickseq_sound : forall l p, compat l -> pickseq l = Some p -> pick_rel l p.
Proof.
  induction l as [|e l IH] using rev_ind; intros p Hc Hp.
  - discriminate.
  - rewrite pickseq_snoc in Hp. inversion Hp as [Hm]. clear Hp.
    assert (Hin_e : In e (l ++ [e])) by (apply in_or_app; right; left; auto).
    destruct (pickseq l) as [old|] eqn:Hold.
    + specialize (IH old (compat_app_l _ _ Hc) eq_refl).
      unfold merge_path.
      destruct (path_eqb old (e_abs e)) eqn:Heq.
      * apply path_eqb_eq in Heq.
        destruct (is_pyi e) eqn:He.
        -- right. split.
           ++ intros a Ha. apply in_app_or in Ha. destruct Ha as [Ha|[Ha|[]]]; [|subst; auto].
              destruct IH as [(b & Hb & Hbp & Hbo)|[Hall _]]; [|auto].
              exfalso. unfold is_pyi in *. rewrite Hbo, Heq in Hbp. congruence.
           ++ exists e. auto.
        -- left. exists e. auto.
      * destruct (path_suffix old =? ".pyi") eqn:Hop.
        -- destruct IH as [(b & Hb & Hbp & Hbo)|[Hall (b & Hb & Hbo)]].
           ++ exfalso. unfold is_pyi in Hbp. rewrite Hbo in Hbp. congruence.
           ++ destruct (is_pyi e) eqn:He.
              ** exfalso. assert (e_abs b = e_abs e).
                 { apply Hc; auto. apply in_or_app; auto. rewrite He. auto. }
                 assert (Hoe : old = e_abs e) by congruence. rewrite Hoe in Heq. rewrite path_eqb_refl in Heq. discriminate.
              ** left. exists e. auto.
        -- destruct IH as [(b & Hb & Hbp & Hbo)|[Hall (b & Hb & Hbo)]].
           ++ destruct (path_suffix (e_abs e) =? ".pyi") eqn:He.
              ** left. exists b. split; [apply in_or_app; auto|auto].
              ** exfalso. assert (e_abs b = e_abs e).
                 { apply Hc; auto. apply in_or_app; auto. unfold is_pyi. rewrite He. auto. }
                 assert (Hoe : old = e_abs e) by congruence. rewrite Hoe in Heq. rewrite path_eqb_refl in Heq. discriminate.
           ++ exfalso. specialize (Hall b Hb). unfold is_pyi in Hall. rewrite Hbo in Hall. congruence.
    + apply pickseq_nil_iff in Hold. subst l. simpl in *.
      destruct (is_pyi e) eqn:He.
      * right. split. intros a [Ha|[]]; subst; auto. exists e. auto.
      * left. exists e. auto.
Qed.

Lemma pick_rel_fun : forall l p q, compat l -> pick_rel l p -> pick_rel l q -> p = q.
Proof.
  intros l p q Hc [(a & Ha & Hap & Hao)|[Hall (a & Ha & Hao)]] [(b & Hb & Hbp & Hbo)|[Hall' (b & Hb & Hbo)]].
  - subst. apply Hc; auto. congruence.
  - specialize (Hall' a Ha). congruence.
  - specialize (Hall b Hb). congruence.
  - subst. apply Hc; auto. rewrite Hall, Hall'; auto.
Qed.

Lemma pick_rel_same : forall l1 l2 p, (forall x, In x l1 <-> In x l2) -> pick_rel l1 p -> pick_rel l2 p.
Proof.
  intros l1 l2 p H [(a & Ha & Hap & Hao)|[Hall (a & Ha & Hao)]].
  - left. exists a. split; auto. apply H; auto.
  - right. split. intros b Hb. apply Hall. apply H; auto. exists a. split; auto. apply H; auto.
Qed.

Lemma pickseq_same : forall l1 l2, compat l1 -> (forall x, In x l1 <-> In x l2) -> pickseq l1 = pickseq l2.
Proof.
  intros l1 l2 Hc H.
  assert (Hc2 : compat l2) by (intros a b Ha Hb; apply Hc; apply H; auto).
  destruct (pickseq l1) as [p|] eqn:P1; destruct (pickseq l2) as [q|] eqn:P2; auto.
  - f_equal. apply (pick_rel_fun l2); auto.
    + apply (pick_rel_same l1); auto. apply pickseq_sound; auto.
    + apply pickseq_sound; auto.
  - apply pickseq_nil_iff in P2. subst l2. destruct l1 as [|a r]; [discriminate|].
    exfalso. apply (H a). left; auto.
  - apply pickseq_nil_iff in P1. subst l1. destruct l2 as [|a r]; [discriminate|].
    exfalso. apply (H a). left; auto.
Qed.

Definition same_elems (E1 E2 : list entry) : Prop := forall x, In x E1 <-> In x E2.

Definition no_clash (E : list entry) : Prop :=
  forall a b, In a E -> In b E -> entry_ok a = true -> entry_ok b = true -> e_parts a = e_parts b ->
              is_pyi a = is_pyi b -> e_abs a = e_abs b.

Lemma pick_same_elems : forall E1 E2 q, same_elems E1 E2 -> no_clash E1 ->
  pickseq (cands q E1) = pickseq (cands q E2).
Proof.
  intros E1 E2 q Hs Hn. apply pickseq_same.
  - intros x y Hx Hy Hp. unfold cands in Hx, Hy. apply filter_In in Hx, Hy.
    destruct Hx as [Hx Hcx], Hy as [Hy Hcy]. unfold cand in Hcx, Hcy.
    apply andb_true_iff in Hcx, Hcy. destruct Hcx as [Px Ox], Hcy as [Py Oy].
    apply lstr_eqb_eq in Px, Py. apply Hn; auto. congruence.
  - intro x. unfold cands. rewrite !filter_In. split; intros [Hx Hc]; split; auto; apply Hs; auto.
Qed.

Lemma chain_pick_ext : forall E1 E2, (forall q, pickseq (cands q E1) = pickseq (cands q E2)) ->
  forall todo cur, chain E1 cur todo = chain E2 cur todo.
Proof.
  intros E1 E2 H. induction todo as [|p r IH]; intros cur; simpl; auto.
  unfold init_at. rewrite H, IH. reflexivity.
Qed.

Theorem spec_order_invariant : forall top E1 E2,
  same_elems E1 E2 -> no_clash E1 -> forall k, spec_lookup top E1 k = spec_lookup top E2 k.
Proof.
  intros top E1 E2 Hs Hn k. destruct k as [|a r]; auto. unfold spec_lookup.
  rewrite (chain_pick_ext E1 E2) by (intro; apply pick_same_elems; auto).
  rewrite (pick_same_elems E1 E2); auto.
Qed.

Theorem run_order_invariant : forall top E1 E2,
  sorted E1 -> sorted E2 -> (forall e, In e E1 -> e_parts e <> []) ->
  same_elems E1 E2 -> no_clash E1 ->
  forall k, lookup_m k (run top E1) = lookup_m k (run top E2).
Proof.
  intros top E1 E2 S1 S2 Hne Hs Hn k.
  destruct (run_spec top E1 S1 Hne) as [_ H1].
  destruct (run_spec top E2 S2) as [_ H2]. { intros e He. apply Hne. apply Hs. auto. }
  rewrite H1, H2. apply spec_order_invariant; auto.
Qed.

(* depth_sort: sorted, same elements *)
Lemma max_depth_ge : forall l x, In x l -> depth x <= max_depth l.
Proof.
  induction l; simpl; intros x H; [contradiction|]. destruct H as [H|H]; subst. lia. specialize (IHl x H). lia.
Qed.

Lemma depth_sort_In : forall l x, In x (depth_sort l) <-> In x l.
Proof.
  intros l x. unfold depth_sort. rewrite in_flat_map. split.
  - intros (d & _ & Hx). apply filter_In in Hx. tauto.
  - intro Hx. exists (depth x). split.
    + apply in_seq. pose proof (max_depth_ge l x Hx). lia.
    + apply filter_In. split; auto. apply Nat.eqb_refl.
Qed.

Lemma sorted_levels : forall l ds,
  StronglySorted lt ds ->
  forall E1 e E2, flat_map (fun d => filter (fun x => (depth x =? d)%nat) l) ds = E1 ++ e :: E2 ->
  forall x, In x E1 -> depth x <= depth e.
Proof.
  intros l ds Hds. induction Hds as [|d ds Hs IH Hall]; intros E1 e E2 Heq x Hx.
  - simpl in Heq. destruct E1; discriminate.
  - simpl in Heq.
    assert (Hfront : forall y, In y (filter (fun x => (depth x =? d)%nat) l) -> depth y = d).
    { intros y Hy. apply filter_In in Hy. destruct Hy as [_ Hy]. apply Nat.eqb_eq in Hy. auto. }
    assert (Hback : forall y, In y (flat_map (fun d => filter (fun x => (depth x =? d)%nat) l) ds) -> d < depth y).
    { intros y Hy. apply in_flat_map in Hy. destruct Hy as (d' & Hd' & Hy). apply filter_In in Hy. destruct Hy as [_ Hy].
      apply Nat.eqb_eq in Hy. rewrite Forall_forall in Hall. specialize (Hall d' Hd'). lia. }
    remember (filter (fun x => (depth x =? d)%nat) l) as A. remember (flat_map (fun d => filter (fun x => (depth x =? d)%nat) l) ds) as B.
    (* where does e fall? *)
    assert (Hsplit : (exists A2, A = E1 ++ e :: A2 /\ E2 = A2 ++ B) \/ (exists B1, E1 = A ++ B1 /\ B = B1 ++ e :: E2)).
    { clear -Heq. revert E1 Heq. induction A as [|a A IHA]; intros E1 Heq; simpl in *.
      - right. exists E1. auto.
      - destruct E1 as [|z E1]; simpl in *.
        + inversion Heq; subst. left. exists A. auto.
        + inversion Heq; subst. destruct (IHA E1 H1) as [(A2 & -> & ->)|(B1 & -> & ->)].
          * left. exists A2. auto.
          * right. exists B1. auto. }
    destruct Hsplit as [(A2 & HA & _)|(B1 & HE1 & HB)].
    + assert (In x A) by (rewrite HA; apply in_or_app; auto).
      assert (In e A) by (rewrite HA; apply in_or_app; right; left; auto).
      rewrite (Hfront x), (Hfront e); auto.
    + rewrite HE1 in Hx. apply in_app_or in Hx. destruct Hx as [Hx|Hx].
      * assert (In e B) by (rewrite HB; apply in_or_app; right; left; auto).
        rewrite (Hfront x Hx). specialize (Hback e H). lia.
      * apply (IH B1 e E2); auto.
Qed.

Lemma seq_sorted : forall n s, StronglySorted lt (seq s n).
Proof.
  induction n; intros; simpl; constructor; auto.
  apply Forall_forall. intros x Hx. apply in_seq in Hx. lia.
Qed.

Lemma depth_sort_sorted : forall l, sorted (depth_sort l).
Proof.
  intros l E1 e E2 Heq x Hx. unfold depth_sort in Heq.
  eapply sorted_levels; eauto. apply seq_sorted.
Qed.

(* ------------------------------------------------------------------------------------------------------------- *)
(* Part E.  Permuting directory listings *)

Inductive perm_node : node -> node -> Prop :=
| PN_refl : forall x, perm_node x x
| PN_dir : forall es es', perm_listing es es' -> perm_node (Dir es) (Dir es')
with perm_listing : listing -> listing -> Prop :=
| PL_refl : forall l, perm_listing l l
| PL_cons : forall n x y l l', perm_node x y -> perm_listing l l' -> perm_listing ((n, x) :: l) ((n, y) :: l')
| PL_swap : forall a b l, perm_listing (a :: b :: l) (b :: a :: l)
| PL_trans : forall l1 l2 l3, perm_listing l1 l2 -> perm_listing l2 l3 -> perm_listing l1 l3.

Scheme perm_node_mut := Minimality for perm_node Sort Prop
  with perm_listing_mut := Minimality for perm_listing Sort Prop.

(* what one directory entry contributes to os.walk *)
Definition contrib (pre : list string) (e : string * node) : list (list string) :=
  (if is_file (snd e) && accepted (fst e) then [pre ++ [fst e]] else []) ++
  (let '(nm, x) := e in
   match x with
   | Dir _ => if nm =? "__pycache__" then [] else walk (pre ++ [nm]) x
   | File _ _ => []
   end).

Lemma walk_dir_in : forall pre es r,
  In r (walk pre (Dir es)) <-> exists e, In e es /\ In r (contrib pre e).
Proof.
  intros pre es r. simpl. rewrite in_app_iff. unfold walk_files. rewrite !in_flat_map. unfold contrib. split.
  - intros [(e & He & Hr)|(e & He & Hr)]; exists e; split; auto; apply in_or_app; [left|right]; auto.
  - intros (e & He & Hr). apply in_app_or in Hr. destruct Hr as [Hr|Hr]; [left|right]; exists e; auto.
Qed.

Lemma walk_perm : forall x y, perm_node x y ->
  is_file x = is_file y /\ forall pre r, In r (walk pre x) <-> In r (walk pre y).
Proof.
  apply (perm_node_mut
    (fun x y => is_file x = is_file y /\ forall pre r, In r (walk pre x) <-> In r (walk pre y))
    (fun l l' => forall pre r, (exists e, In e l /\ In r (contrib pre e)) <-> (exists e, In e l' /\ In r (contrib pre e)))).
  - intros. split; tauto.
  - intros es es' _ H. split; auto. intros. rewrite !walk_dir_in. apply H.
  - intros. tauto.
  - intros n x y l l' _ [Hk Hw] _ Hl pre r.
    assert (Hc : In r (contrib pre (n, x)) <-> In r (contrib pre (n, y))).
    { unfold contrib. simpl. rewrite !in_app_iff. rewrite Hk.
      destruct x, y; simpl in Hk; try discriminate; try tauto.
      destruct (n =? "__pycache__"); [tauto|]. rewrite (Hw (pre ++ [n]) r). tauto. }
    split; intros (e & [He|He] & Hr).
    + subst e. exists (n, y). split; [left; auto|]. apply Hc; auto.
    + destruct (proj1 (Hl pre r)) as (e' & He' & Hr'). exists e; auto. exists e'. split; [right|]; auto.
    + subst e. exists (n, x). split; [left; auto|]. apply Hc; auto.
    + destruct (proj2 (Hl pre r)) as (e' & He' & Hr'). exists e; auto. exists e'. split; [right|]; auto.
  - intros a b l pre r. split; intros (e & He & Hr); exists e; split; auto; simpl in *; tauto.
  - intros l1 l2 l3 _ H12 _ H23 pre r. rewrite H12. apply H23.
Qed.

(* looking a name up in a permuted listing (names are unique in a directory) *)
Definition rel_opt (a b : option node) : Prop :=
  match a, b with
  | Some x, Some y => perm_node x y
  | None, None => True
  | _, _ => False
  end.

Lemma lookup_entry_notin : forall n l, ~ In n (map fst l) -> lookup_entry n l = None.
Proof.
  induction l as [|[k v] r IH]; simpl; intro H; auto.
  destruct (k =? n) eqn:E. apply String.eqb_eq in E. subst. tauto. apply IH. tauto.
Qed.

Lemma lookup_perm : forall l l', perm_listing l l' ->
  Permutation (map fst l) (map fst l') /\
  (NoDup (map fst l) -> forall n, rel_opt (lookup_entry n l) (lookup_entry n l')).
Proof.
  apply (perm_listing_mut (fun x y => perm_node x y)
    (fun l l' => Permutation (map fst l) (map fst l') /\
                 (NoDup (map fst l) -> forall n, rel_opt (lookup_entry n l) (lookup_entry n l')))).
  - apply PN_refl.
  - intros. apply PN_dir. auto.
  - intros l. split; auto. intros _ n. destruct (lookup_entry n l); simpl; auto. apply PN_refl.
  - intros n x y l l' Hxy _ _ [Hp Hl]. split. simpl. auto.
    intros Hnd k. simpl in *. inversion Hnd; subst.
    destruct (n =? k); simpl; auto.
  - intros [na xa] [nb xb] l. split. simpl. apply perm_swap.
    intros Hnd k. simpl in *. inversion Hnd as [|? ? Hna Hnd']; subst. simpl in Hna.
    destruct (na =? k) eqn:Ea; destruct (nb =? k) eqn:Eb; simpl; try apply PN_refl.
    + apply String.eqb_eq in Ea, Eb. subst. exfalso. apply Hna. left; auto.
    + destruct (lookup_entry k l); simpl; auto. apply PN_refl.
  - intros l1 l2 l3 _ [P12 H12] _ [P23 H23]. split. eapply perm_trans; eauto.
    intros Hnd k. specialize (H12 Hnd k).
    assert (Hnd2 : NoDup (map fst l2)) by (eapply Permutation_NoDup; eauto).
    specialize (H23 Hnd2 k).
    destruct (lookup_entry k l1), (lookup_entry k l2), (lookup_entry k l3); simpl in *; try tauto.
    (* transitivity of perm_node *)
    clear -H12 H23. revert n1 H23. induction H12; intros; auto.
    inversion H23; subst. apply PN_dir; auto. apply PN_dir. eapply PL_trans; eauto.
Qed.

Inductive wf_node : node -> Prop :=
| WF_file : forall a b, wf_node (File a b)
| WF_dir : forall es, NoDup (map fst es) -> (forall n x, In (n, x) es -> wf_node x) -> wf_node (Dir es).

Lemma lookup_entry_In : forall n l x, lookup_entry n l = Some x -> exists k, In (k, x) l.
Proof.
  induction l as [|[k v] r IH]; simpl; intros x H; [discriminate|].
  destruct (k =? n). inversion H; subst. eauto. destruct (IH x H) as [k' Hk]. eauto.
Qed.

Lemma perm_node_file_inv : forall a b y, perm_node (File a b) y -> y = File a b.
Proof. intros. inversion H; auto. Qed.

Lemma perm_node_dir_inv : forall l y, perm_node (Dir l) y -> exists l', y = Dir l' /\ perm_listing l l'.
Proof. intros. inversion H; subst. exists l. split; auto. apply PL_refl. eauto. Qed.

Lemma get_node_perm : forall comps l l', perm_listing l l' -> wf_node (Dir l) ->
  rel_opt (get_node l comps) (get_node l' comps).
Proof.
  induction comps as [|c r IH]; intros l l' Hp Hwf; simpl.
  - apply PN_dir. auto.
  - inversion Hwf as [|es Hnd Hsub]; subst.
    pose proof (proj2 (lookup_perm l l' Hp) Hnd c) as Hl.
    destruct (lookup_entry c l) as [x|] eqn:E1; destruct (lookup_entry c l') as [y|] eqn:E2; simpl in Hl; try tauto.
    destruct x as [a b|l1].
    + apply perm_node_file_inv in Hl. subst y. destruct r; simpl; auto. apply PN_refl.
    + apply perm_node_dir_inv in Hl. destruct Hl as (l1' & -> & Hl1).
      apply IH; auto. destruct (lookup_entry_In _ _ _ E1) as [k Hk]. eapply Hsub; eauto.
Qed.

Definition perm_universe (U U' : universe) : Prop :=
  Forall2 (fun a b => fst a = fst b /\ perm_listing (snd a) (snd b)) U U'.
Definition wf_universe (U : universe) : Prop := forall i l, In (i, l) U -> wf_node (Dir l).

Lemma root_perm : forall U U' i, perm_universe U U' -> perm_listing (root U i) (root U' i).
Proof.
  intros U U' i H. unfold root. induction H as [|[j l] [j' l'] U U' [Hj Hl] _ IH]; simpl.
  - apply PL_refl.
  - simpl in Hj, Hl. subst j'. destruct (j =? i)%nat; auto.
Qed.

Lemma lookup_nat_In : forall (U : universe) i l, lookup_nat i U = Some l -> In (i, l) U.
Proof.
  induction U as [|[j m] r IH]; simpl; intros i l H; [discriminate|].
  destruct (j =? i)%nat eqn:E. apply Nat.eqb_eq in E. inversion H; subst. auto. right. auto.
Qed.

Lemma root_wf : forall U i, wf_universe U -> wf_node (Dir (root U i)).
Proof.
  intros U i H. unfold root. destruct (lookup_nat i U) eqn:E.
  - apply lookup_nat_In in E. eapply H; eauto.
  - constructor. constructor. intros ? ? [].
Qed.

Lemma node_at_perm : forall U U' p, perm_universe U U' -> wf_universe U ->
  rel_opt (node_at U p) (node_at U' p).
Proof.
  intros. unfold node_at. apply get_node_perm. apply root_perm; auto. apply root_wf; auto.
Qed.

Lemma portion_files_perm : forall U U' d, perm_universe U U' -> wf_universe U ->
  forall r, In r (portion_files U d) <-> In r (portion_files U' d).
Proof.
  intros U U' d Hp Hw r. unfold portion_files.
  pose proof (node_at_perm U U' d Hp Hw) as H.
  destruct (node_at U d), (node_at U' d); simpl in H; try tauto.
  apply walk_perm; auto.
Qed.

(* iter_submodules of a regular package as a set *)
Definition yields (base : path) (rel : list string) (e : entry) : Prop :=
  match name_to_yield rel with
  | YInit parts | YMod parts => e = mkE parts base rel
  | _ => False
  end.

(* since dot-files are skipped, iterating the files of a portion never fails *)
Lemma iter_files_total : forall base skip files seen, exists es s, iter_files base skip files seen = Ok (es, s).
Proof.
  induction files as [|rel r IH]; intros seen; simpl. eauto.
  destruct (mem_lstr (removelast rel) skip). apply IH.
  destruct (name_to_yield rel).
  - apply IH.
  - destruct (IH (seen ++ [removelast rel])) as (es & s & ->). eauto.
  - destruct (IH seen) as (es & s & ->). eauto.
Qed.

Lemma iter_files_noskip : forall base files seen,
  match iter_files base [] files seen with
  | Ok (es, _) => forall e, In e es <-> exists rel, In rel files /\ yields base rel e
  | Err _ => False
  end.
Proof.
  intros base files. induction files as [|rel r IH]; intros seen; simpl.
  - intros e. split. intros []. intros (rel & [] & _).
  - unfold yields in *. destruct (name_to_yield rel) as [|parts|parts] eqn:Ey.
    + specialize (IH seen). destruct (iter_files base [] r seen) as [[es s]|x]; auto.
      intro e. rewrite IH. split; intros (rel' & Hr & Hy).
      * exists rel'. auto.
      * destruct Hr as [<-|Hr]. rewrite Ey in Hy. contradiction. eauto.
    + specialize (IH (seen ++ [removelast rel])). destruct (iter_files base [] r (seen ++ [removelast rel])) as [[es s]|x]; auto.
      intro e. simpl. rewrite IH. split.
      * intros [<-|(rel' & Hr & Hy)]. exists rel. rewrite Ey. auto. exists rel'. auto.
      * intros (rel' & [<-|Hr] & Hy). rewrite Ey in Hy. auto. right. eauto.
    + specialize (IH seen). destruct (iter_files base [] r seen) as [[es s]|x]; auto.
      intro e. simpl. rewrite IH. split.
      * intros [<-|(rel' & Hr & Hy)]. exists rel. rewrite Ey. auto. exists rel'. auto.
      * intros (rel' & [<-|Hr] & Hy). rewrite Ey in Hy. auto. right. eauto.
Qed.

Section NodeInd.
  Variable P : node -> Prop.
  Hypothesis Hf : forall a b, P (File a b).
  Hypothesis Hd : forall es, (forall n x, In (n, x) es -> P x) -> P (Dir es).
  Fixpoint node_ind' (n : node) : P n :=
    match n with
    | File a b => Hf a b
    | Dir es => Hd es ((fix go (l : listing) : forall n x, In (n, x) l -> P x :=
                          match l with
                          | [] => fun n x H => False_ind _ H
                          | (k, v) :: r => fun n x H =>
                              match H with
                              | or_introl E => eq_ind v P (node_ind' v) x (f_equal snd E)
                              | or_intror H' => go r n x H'
                              end
                          end) es)
    end.
End NodeInd.

Lemma walk_nonempty : forall n pre r, In r (walk pre n) -> r <> [].
Proof.
  induction n as [a b|es IH] using node_ind'; intros pre r H. simpl in H. contradiction.
  apply walk_dir_in in H. destruct H as ([nm x] & He & Hr). unfold contrib in Hr. simpl in Hr.
  apply in_app_or in Hr. destruct Hr as [Hr|Hr].
  - destruct (is_file x && accepted nm); simpl in Hr; [|contradiction]. destruct Hr as [<-|[]]. destruct pre; discriminate.
  - destruct x as [a b|es']; [contradiction|]. destruct (nm =? "__pycache__"); [contradiction|].
    eapply IH; eauto.
Qed.

Lemma yields_parts_nonempty : forall base rel e, rel <> [] -> yields base rel e -> e_parts e <> [].
Proof.
  intros base rel e Hrel Hy. unfold yields, name_to_yield in Hy.
  set (stem := if pl_suffix (last rel "") =? ".py" then pl_stem (last rel "") else before_first_dot (pl_stem (last rel ""))) in *.
  destruct (stem =? "__init__").
  - destruct (List.length rel =? 1)%nat eqn:El; [contradiction|]. subst e. simpl.
    destruct rel as [|a [|b r]]; try congruence. simpl in El. discriminate. simpl. discriminate.
  - destruct (pl_suffix (last rel "") =? ".py").
    + subst e. simpl. destruct (removelast rel); discriminate.
    + destruct (stem =? ""); [contradiction|]. subst e. simpl. destruct (removelast rel); discriminate.
Qed.

Lemma no_clashb_sound : forall E, no_clashb E = true -> no_clash E.
Proof.
  intros E H a b Ha Hb Oa Ob Hp Hi. unfold no_clashb in H. rewrite forallb_forall in H.
  specialize (H a Ha). rewrite forallb_forall in H. specialize (H b Hb).
  rewrite Oa, Ob, Hp, lstr_eqb_refl, Hi, Bool.eqb_reflx in H. simpl in H. apply path_eqb_eq. auto.
Qed.

Definition same_tree (a b : loaded) : Prop :=
  match a, b with
  | LOk M, LOk M' => forall k, lookup_m k M = lookup_m k M'
  | LErr x, LErr y => x = y
  | LNotFound, LNotFound => True
  | _, _ => False
  end.

Theorem listing_order_invariant_regular :
  forall U U' p st,
  perm_universe U U' -> wf_universe U ->
  (forall es, iter_regular U p = Ok es -> no_clash es) ->
  same_tree (load_found false U (FPkg p st)) (load_found false U' (FPkg p st)).
Proof.
  intros U U' p st Hp Hw Hnc. unfold load_found.
  pose proof (node_at_perm U U' p Hp Hw) as Hn.
  destruct (node_at U p) as [[a b|l]|]; destruct (node_at U' p) as [y|]; simpl in Hn; try tauto;
    try (apply perm_node_file_inv in Hn; subst y); try (apply perm_node_dir_inv in Hn; destruct Hn as (l' & -> & _));
    simpl; auto.
  unfold iter_regular in *. destruct (start_dir p) as [d|]; simpl.
  - pose proof (portion_files_perm U U' d Hp Hw) as Hf.
    pose proof (iter_files_noskip d (portion_files U d) []) as H1.
    pose proof (iter_files_noskip d (portion_files U' d) []) as H2.
    destruct (iter_files d [] (portion_files U d) []) as [[es s]|x]; [|contradiction].
    destruct (iter_files d [] (portion_files U' d) []) as [[es' s']|x']; [|contradiction].
    simpl.
    assert (Hse : same_elems es es').
    { intro e. rewrite H1, H2. split; intros (rel & Hr & Hy); exists rel; split; auto; apply Hf; auto. }
    apply (run_order_invariant p (depth_sort es) (depth_sort es')).
    * apply depth_sort_sorted.
    * apply depth_sort_sorted.
    * intros e He. apply (proj1 (depth_sort_In _ _)) in He. apply (proj1 (H1 e)) in He. destruct He as (rel & Hr & Hy).
      eapply yields_parts_nonempty; eauto. unfold portion_files in Hr.
      destruct (node_at U d); [|contradiction]. eapply walk_nonempty; eauto.
    * intro e. rewrite !depth_sort_In. apply Hse.
    * specialize (Hnc es eq_refl). intros x y Hx Hy. apply (proj1 (depth_sort_In _ _)) in Hx. apply (proj1 (depth_sort_In _ _)) in Hy. apply Hnc; auto.
  - simpl. intro k. auto.
Qed.

(* find_package only looks names up: it does not depend on the listing order *)
Definition regular_init_of (inner : listing) : bool :=
  match lookup_entry "__init__.py" inner with
  | Some (File ns _) => negb ns
  | Some (Dir _) => true
  | None => false
  end.

Definition top_obs (name : string) (L : listing) : option (bool * bool) * bool * bool :=
  (match lookup_entry name L with
   | None => None
   | Some nd => let inner := match nd with Dir l => l | File _ _ => [] end in
                Some (regular_init_of inner, has_entry "__init__.pyi" inner)
   end,
   has_entry (name ++ ".py")%string L, has_entry (name ++ ".pyi")%string L).

Definition g_step (name : string) (i : nat) (obs : option (bool * bool) * bool * bool)
           (rest : list path -> found) (nsacc : list path) : found :=
  let '(o, py, pyi) := obs in
  let second acc := if py then FPkg (i, [(name ++ ".py")%string]) (if pyi then Some (i, [(name ++ ".pyi")%string]) else None)
                    else rest acc in
  match o with
  | None => second nsacc
  | Some (reg, stub) =>
      if reg then FPkg (i, [name; "__init__.py"]) (if stub then Some (i, [name; "__init__.pyi"]) else None)
      else if stub then FPkg (i, [name; "__init__.pyi"]) None
      else second (nsacc ++ [(i, [name])])
  end.

Lemma g_find_cons : forall U name i r nsacc,
  g_find U name (i :: r) nsacc = g_step name i (top_obs name (root U i)) (g_find U name r) nsacc.
Proof.
  intros. simpl. unfold g_step, top_obs, regular_init_of.
  destruct (lookup_entry name (root U i)) as [[ns pth|l]|]; auto.
Qed.

Lemma rel_opt_shape : forall a b, rel_opt a b ->
  match a with
  | Some (File ns pth) => b = Some (File ns pth)
  | Some (Dir l) => exists l', b = Some (Dir l') /\ perm_listing l l'
  | None => b = None
  end.
Proof.
  intros [[ns pth|l]|] [y|] H; simpl in H; try tauto.
  - apply perm_node_file_inv in H. subst. auto.
  - apply perm_node_dir_inv in H. destruct H as (l' & -> & H). eauto.
Qed.

Lemma has_entry_perm : forall l l' n, perm_listing l l' -> NoDup (map fst l) -> has_entry n l = has_entry n l'.
Proof.
  intros l l' n Hp Hnd. unfold has_entry. pose proof (proj2 (lookup_perm l l' Hp) Hnd n) as H.
  destruct (lookup_entry n l), (lookup_entry n l'); simpl in H; tauto.
Qed.

Lemma top_obs_perm : forall name L L', perm_listing L L' -> wf_node (Dir L) -> top_obs name L = top_obs name L'.
Proof.
  intros name L L' Hp Hwf. inversion Hwf as [|es Hnd Hsub]; subst. unfold top_obs.
  rewrite (has_entry_perm L L' (name ++ ".py")%string), (has_entry_perm L L' (name ++ ".pyi")%string) by auto.
  pose proof (rel_opt_shape _ _ (proj2 (lookup_perm L L' Hp) Hnd name)) as H.
  destruct (lookup_entry name L) as [[ns pth|l]|] eqn:E.
  - rewrite H. auto.
  - destruct H as (l' & -> & Hl). destruct (lookup_entry_In _ _ _ E) as [k Hk].
    pose proof (Hsub _ _ Hk) as Hwl. inversion Hwl as [|es Hndl _]; subst.
    rewrite (has_entry_perm l l' "__init__.pyi") by auto.
    unfold regular_init_of.
    pose proof (rel_opt_shape _ _ (proj2 (lookup_perm l l' Hl) Hndl "__init__.py")) as H2.
    destruct (lookup_entry "__init__.py" l) as [[ns pth|l2]|].
    + rewrite H2. auto.
    + destruct H2 as (l2' & -> & _). auto.
    + rewrite H2. auto.
  - rewrite H. auto.
Qed.

Theorem find_order_invariant : forall U U' name paths nsacc,
  perm_universe U U' -> wf_universe U ->
  g_find U name paths nsacc = g_find U' name paths nsacc.
Proof.
  intros U U' name paths. induction paths as [|i r IH]; intros nsacc Hp Hw. reflexivity.
  rewrite !g_find_cons. rewrite (top_obs_perm name (root U i) (root U' i)).
  - unfold g_step. destruct (top_obs name (root U' i)) as [[[[reg stub]|] py] pyi]; simpl;
      repeat match goal with |- context [if ?b then _ else _] => destruct b end; auto.
  - apply root_perm; auto.
  - apply root_wf; auto.
Qed.

(* the whole static load of a regular package, search paths given *)
Theorem load_order_invariant_regular :
  forall U U' name paths,
  perm_universe U U' -> wf_universe U ->
  (forall p st es, g_find U name paths [] = FPkg p st -> iter_regular U p = Ok es -> no_clash es) ->
  (forall ds, g_find U name paths [] <> FNs ds) ->
  same_tree (load_found false U (g_find U name paths [])) (load_found false U' (g_find U' name paths [])).
Proof.
  intros U U' name paths Hp Hw Hnc Hns.
  rewrite <- (find_order_invariant U U' name paths [] Hp Hw).
  destruct (g_find U name paths []) as [p st|ds|] eqn:Ef.
  - apply listing_order_invariant_regular; auto. intros es He. eapply Hnc; eauto.
  - exfalso. eapply Hns; eauto.
  - simpl. auto.
Qed.

(* ------------------------------------------------------------------------------------------------------------- *)
(* Part F.  The full statements, their refutations on the unchanged code (one witness per finding), non-vacuity *)

(* does CPython import what Griffe put at this dotted name? *)
Definition agrees (v : minfo) (s : pyspec) : bool :=
  match v, s with
  | MFile p, PyMod q => path_eqb p q
  | MFile p, PyPkg q _ => path_eqb p q
  | MFile p, PyNone => path_suffix p =? ".pyi"           (* stub-only module *)
  | MFile p, PyNs _ => path_suffix p =? ".pyi"           (* stub-only package *)
  | MNs ps, PyNs qs => negb (match ps with [] => true | _ => false end) && forallb (fun p => mem_path p qs) ps
  | _, _ => false
  end.

Definition loaded_importable (U : universe) (sps : list nat) (name : string) : bool :=
  match load false U sps name with
  | LOk M => forallb (fun kv => agrees (snd kv) (py_import U (top_dirs (py_paths U sps)) (name :: fst kv))) M
  | LErr _ => false
  | LNotFound => true
  end.

Definition F0 : node := File false [].
Definition pkg (es : listing) : node := Dir (("__init__.py", F0) :: es).

(* F1 *)
Definition U_F1 : universe := [(0, [("aa", pkg [("bar.py", F0); ("bar", Dir [("inner.py", F0)])])])].
Example loaded_importable_repaired_F1 : loaded_importable U_F1 [0] "aa" = true /\
  exists M, load false U_F1 [0] "aa" = LOk M /\ lookup_m ["bar"; "inner"] M = None /\ lookup_m ["bar"] M = Some (MFile (0, ["aa"; "bar.py"])).
Proof. split. vm_compute; reflexivity. eexists. split. vm_compute; reflexivity. split; vm_compute; reflexivity. Qed.

(* F3, F8, F10: namespace packages over two portions (F9 repaired) *)
Definition U_F3 : universe :=
  [(0, [("aa", Dir [("sub", pkg [("a.py", F0)])])]);
   (1, [("aa", Dir [("sub", Dir [("x.py", F0); ("other", pkg [("z.py", F0)])])])])].
Lemma namespace_first_portion_wins_refuted_F3 :
  exists U sps name, gaps U sps name = ["F3"] /\ loaded_importable U sps name = false.
Proof. exists U_F3, [0; 1], "aa". split; vm_compute; reflexivity. Qed.

Definition U_F8 : universe := [(0, [("aa", Dir [("n.py", F0); ("x.py", F0)])]); (1, [("aa", Dir [("n.py", F0)])])].
Lemma namespace_first_portion_wins_refuted_F8 :
  exists U sps name, gaps U sps name = ["F8"] /\ loaded_importable U sps name = false.
Proof. exists U_F8, [0; 1], "aa". split; vm_compute; reflexivity. Qed.

Definition U_F9 : universe :=
  [(0, [("aa", Dir [("sub", Dir [("deep", Dir [(("__init__" ++ ext_suffix)%string, F0)])])])]);
   (1, [("aa", Dir [("sub", Dir [("b.py", F0)])])])].
Example namespace_portion_dirs_repaired_F9 : loaded_importable U_F9 [0; 1] "aa" = true /\
  exists M, load false U_F9 [0; 1] "aa" = LOk M /\ lookup_m ["sub"] M = Some (MNs [(0, ["aa"; "sub"]); (1, ["aa"; "sub"])]).
Proof. split. vm_compute; reflexivity. eexists. split; vm_compute; reflexivity. Qed.

Definition U_F10 : universe :=
  [(0, [("aa", Dir [("sub", Dir [("early.py", F0)])])]); (1, [("aa", Dir [("sub", pkg [("late.py", F0)])])])].
Lemma namespace_first_portion_wins_refuted_F10 :
  exists U sps name, gaps U sps name = ["F10"] /\ loaded_importable U sps name = false.
Proof. exists U_F10, [0; 1], "aa". split; vm_compute; reflexivity. Qed.

(* F4 repaired: a dot-file with a module extension is skipped *)
Definition U_F4 : universe := [(0, [("aa", pkg [("m.py", F0); (".x.pyi", F0)])])].
Example load_total_repaired_F4 :
  exists M, load false U_F4 [0] "aa" = LOk M /\ lookup_m ["m"] M = Some (MFile (0, ["aa"; "m.py"])) /\ loaded_importable U_F4 [0] "aa" = true.
Proof. eexists. split. vm_compute; reflexivity. split; vm_compute; reflexivity. Qed.

(* F5: listing order decides between two stub files of one name *)
Definition U_F5a : universe := [(0, [("aa", pkg [("r.pyi", F0); ("r.x.pyi", F0)])])].
Definition U_F5b : universe := [(0, [("aa", pkg [("r.x.pyi", F0); ("r.pyi", F0)])])].
Lemma perm_F5 : perm_universe U_F5a U_F5b.
Proof.
  constructor; [|constructor]. split; auto. simpl.
  apply PL_cons; [|apply PL_refl]. apply PN_dir. apply PL_cons. apply PN_refl. apply PL_swap.
Qed.
Lemma wf_F5 : wf_universe U_F5a.
Proof.
  intros i l [H|[]]. inversion H; subst. clear H.
  constructor. repeat constructor; simpl; tauto.
  intros n x [H|[]]. inversion H; subst. constructor.
  repeat constructor; simpl; intuition discriminate.
  intros n' x' G. simpl in G. destruct G as [G|[G|[G|[]]]]; inversion G; subst; constructor.
Qed.
Lemma listing_order_refuted_F5 :
  exists U U' sps name, perm_universe U U' /\ wf_universe U /\ any_listing gapL_F5 U = true /\
                        ~ same_tree (load false U sps name) (load false U' sps name).
Proof.
  exists U_F5a, U_F5b, [0], "aa". split; [apply perm_F5|]. split; [apply wf_F5|]. split; [vm_compute; reflexivity|].
  vm_compute. intro H. specialize (H ["r"]). vm_compute in H. discriminate.
Qed.

(* F6, F7: .pth handling (F2 repaired: sorted order) *)
Definition pkgdir (m : string) : listing := [("aa", pkg [(m, F0)])].
Definition U_F2a : universe := [(0, [("a.pth", File false [(false, 2)]); ("b.pth", File false [(false, 1)])]); (1, pkgdir "one.py"); (2, pkgdir "two.py")].
Definition U_F2b : universe := [(0, [("b.pth", File false [(false, 1)]); ("a.pth", File false [(false, 2)])]); (1, pkgdir "one.py"); (2, pkgdir "two.py")].
Example paths_order_repaired_F2 :
  perm_universe U_F2a U_F2b /\
  g_paths U_F2a [0] = Some [0; 2; 1] /\ g_paths U_F2b [0] = Some [0; 2; 1] /\ py_paths U_F2b [0] = [0; 2; 1] /\
  same_tree (load false U_F2a [0] "aa") (load false U_F2b [0] "aa").
Proof.
  split. { constructor. split; auto. simpl. apply PL_swap. constructor. split; auto. apply PL_refl.
           constructor. split; auto. apply PL_refl. constructor. }
  split; [vm_compute; reflexivity|]. split; [vm_compute; reflexivity|]. split; [vm_compute; reflexivity|].
  vm_compute. intro k. reflexivity.
Qed.

Definition U_F6 : universe := [(0, [("a.pth", File false [(true, 1)])]); (1, pkgdir "m.py")].
Lemma paths_eq_refuted_F6 : gapU_F6 U_F6 = true /\ g_paths U_F6 [0] = Some [0] /\ py_paths U_F6 [0] = [0; 1].
Proof. repeat split; vm_compute; reflexivity. Qed.

Definition U_F7 : universe := [(0, [("a.pth", File false [(false, 1)])]); (1, [("b.pth", File false [(false, 2)])]); (2, pkgdir "m.py")].
Lemma paths_eq_refuted_F7 : gapU_F7 U_F7 = true /\ g_paths U_F7 [0] = Some [0; 1; 2] /\ py_paths U_F7 [0] = [0; 1].
Proof. repeat split; vm_compute; reflexivity. Qed.

(* the finder precedence theorem needs its hypotheses: compiled top-level module, stub-only package, pkgutil namespace *)
Lemma find_eq_refuted_outside_scope :
  (exists U, ~ find_agree (g_find U "aa" [0] []) (py_find U "aa" (top_dirs [0]))) /\
  (exists U, g_find U "aa" [0; 1] [] = FPkg (0, ["aa"; "__init__.pyi"]) None /\ py_find U "aa" (top_dirs [0; 1]) = PyMod (1, ["aa.py"])) /\
  (exists U, g_find U "aa" [0] [] = FNs [(0, ["aa"])] /\ exists l, py_find U "aa" (top_dirs [0]) = PyPkg (0, ["aa"; "__init__.py"]) l).
Proof.
  split; [|split].
  - exists [(0, [("aa.so", F0)])]. vm_compute. tauto.
  - exists [(0, [("aa", Dir [("__init__.pyi", F0)])]); (1, [("aa.py", F0)])]. split; vm_compute; reflexivity.
  - exists [(0, [("aa", Dir [("__init__.py", File true [])])])]. split. vm_compute; reflexivity. eexists. vm_compute. reflexivity.
Qed.

(* non-vacuity: the hypotheses of the positive theorems hold of an ordinary layout, and the conclusions are not trivial *)
Definition U_ok : universe :=
  [(0, [("aa", Dir [("m.py", F0)])]);
   (1, [("README", F0); ("aa", pkg [("m.py", F0); ("m.pyi", F0); ("sub", pkg [("x.py", F0); ("__pycache__", Dir [("x.cpython-312.pyc", F0)])]);
                                   ("noinit", Dir [("y.py", F0)]); ("n.py", F0); ("n", pkg [])])])].
Example top_ok_example : forallb (top_ok U_ok "aa") [0; 1] = true.
Proof. vm_compute. reflexivity. Qed.
Example find_example : g_find U_ok "aa" [0; 1] [] = FPkg (1, ["aa"; "__init__.py"]) None /\
                       exists l, py_find U_ok "aa" (top_dirs [0; 1]) = PyPkg (1, ["aa"; "__init__.py"]) l.
Proof. split. vm_compute. reflexivity. eexists. vm_compute. reflexivity. Qed.
Definition U_ok2 : universe :=
  [(1, [("aa", pkg [("m.py", F0); ("m.pyi", F0); ("sub", pkg [("x.py", F0); ("__init__.pyi", F0)]); ("noinit", Dir [("y.py", F0)]); ("n", pkg [])])])].
Example no_clash_example :
  match iter_regular U_ok2 (1, ["aa"; "__init__.py"]) with Ok es => no_clashb es = true /\ List.length es = 7 | Err _ => False end.
Proof. vm_compute. auto. Qed.
Example loaded_example :
  exists M, load false U_ok [0; 1] "aa" = LOk M /\
            lookup_m ["m"] M = Some (MFile (1, ["aa"; "m.py"])) /\
            lookup_m ["n"] M = Some (MFile (1, ["aa"; "n"; "__init__.py"])) /\
            lookup_m ["sub"; "x"] M = Some (MFile (1, ["aa"; "sub"; "x.py"])) /\
            lookup_m ["noinit"; "y"] M = None /\
            loaded_importable U_ok [0; 1] "aa" = true.
Proof. eexists. split. vm_compute. reflexivity. repeat split; vm_compute; reflexivity. Qed.

(* ------------------------------------------------------------------------------------------------------------- *)
(* Part G.  The .pth loop runs over the list it extends: the fuel g_paths passes always suffices *)

Lemma mem_nat_In : forall x l, mem_nat x l = true <-> In x l.
Proof.
  intros. unfold mem_nat. rewrite existsb_exists. split.
  - intros (y & Hy & E). apply Nat.eqb_eq in E. subst. auto.
  - intro H. exists x. split; auto. apply Nat.eqb_refl.
Qed.

Lemma add_new_spec : forall xs known,
  NoDup (add_new xs known) /\ forall x, In x (add_new xs known) -> In x xs /\ ~ In x known.
Proof.
  induction xs as [|a r IH]; intros known; simpl.
  - split. constructor. intros x [].
  - destruct (mem_nat a known) eqn:E.
    + destruct (IH known) as [H1 H2]. split; auto. intros x Hx. destruct (H2 x Hx). auto.
    + destruct (IH (known ++ [a])) as [H1 H2]. split.
      * constructor; auto. intro Ha. destruct (H2 a Ha) as [_ Hn]. apply Hn. apply in_or_app. right. left. auto.
      * intros x [<-|Hx].
        -- split; auto. intro Hk. apply mem_nat_In in Hk. congruence.
        -- destruct (H2 x Hx) as [Hr Hn]. split; auto. intro Hk. apply Hn. apply in_or_app. auto.
Qed.

Lemma NoDup_app_disj : forall (l1 l2 : list nat),
  NoDup l1 -> NoDup l2 -> (forall x, In x l2 -> ~ In x l1) -> NoDup (l1 ++ l2).
Proof.
  induction l1 as [|a r IH]; intros l2 H1 H2 Hd; simpl; auto.
  inversion H1; subst. constructor.
  - intro Ha. apply in_app_or in Ha. destruct Ha as [Ha|Ha]; auto. apply (Hd a Ha). left; auto.
  - apply IH; auto. intros x Hx Hr. apply (Hd x Hx). right; auto.
Qed.

Definition all_targets (U : universe) : list nat := flat_map (fun il : nat * listing => pth_targets_griffe (snd il)) U.

Lemma total_pth_lines_length : forall U, total_pth_lines U = List.length (all_targets U).
Proof.
  induction U as [|[i l] r IH]; simpl; auto. unfold total_pth_lines in *. simpl. rewrite app_length. rewrite IH. auto.
Qed.

Lemma root_targets_incl : forall U p, incl (pth_targets_griffe (root U p)) (all_targets U).
Proof.
  intros U p x Hx. unfold root in Hx. destruct (lookup_nat p U) as [l|] eqn:E.
  - apply lookup_nat_In in E. unfold all_targets. apply in_flat_map. exists (p, l). auto.
  - simpl in Hx. contradiction.
Qed.

Lemma g_paths_loop_fuel : forall U S f done todo,
  incl (all_targets U) S ->
  NoDup (done ++ todo) -> incl (done ++ todo) S -> List.length S + 1 <= f + List.length done ->
  g_paths_loop f U done todo <> None.
Proof.
  intros U S f. induction f as [|f IH]; intros done todo HS Hnd Hin Hf.
  - destruct todo as [|p r]; simpl. discriminate.
    exfalso. pose proof (NoDup_incl_length Hnd Hin) as Hl. rewrite app_length in Hl. simpl in *. lia.
  - destruct todo as [|p r]; simpl. discriminate.
    destruct (add_new_spec (pth_targets_griffe (root U p)) (done ++ p :: r)) as [Hn1 Hn2].
    apply IH; auto.
    + rewrite <- app_assoc. simpl. rewrite app_comm_cons. rewrite app_assoc.
      apply NoDup_app_disj; auto. intros x Hx. destruct (Hn2 x Hx). auto.
    + rewrite <- app_assoc. simpl. rewrite app_comm_cons. rewrite app_assoc.
      apply incl_app; auto. intros x Hx. destruct (Hn2 x Hx) as [Hx' _].
      apply HS. eapply root_targets_incl; eauto.
    + rewrite app_length. simpl. lia.
Qed.

Theorem g_paths_fuel_sufficient : forall U sps, g_paths U sps <> None.
Proof.
  intros U sps. unfold g_paths.
  destruct (add_new_spec sps []) as [Hn _].
  apply (g_paths_loop_fuel U (add_new sps [] ++ all_targets U)).
  - apply incl_appr. apply incl_refl.
  - simpl. auto.
  - simpl. apply incl_appl. apply incl_refl.
  - rewrite app_length, total_pth_lines_length. simpl. lia.
Qed.

Lemma iter_portions_total : forall U ds seen, exists es, iter_portions U ds seen = Ok es.
Proof.
  induction ds as [|d r IH]; intros seen; simpl. eauto.
  destruct (start_dir d) as [d'|]; [|apply IH].
  destruct (iter_files_total d' seen (portion_files U d') seen) as (es & s & ->).
  destruct (IH s) as (es' & ->). eauto.
Qed.

(* Static loading is total: the only error left is reading a directory that is called like the package's module file *)
Theorem load_total : forall insp U sps name e, load insp U sps name = LErr e -> e = "LoadingError".
Proof.
  intros insp U sps name e. unfold load. pose proof (g_paths_fuel_sufficient U sps) as H.
  destruct (g_paths U sps) as [ps|]; [|congruence].
  unfold load_found. destruct (g_find U name ps []) as [p st|ds|]; try discriminate.
  - destruct (node_at U p) as [[a b|l]|]; try (intro H0; inversion H0; reflexivity).
    unfold iter_regular. destruct (start_dir p) as [d|]; try discriminate.
    destruct (iter_files_total d [] (portion_files U d) []) as (es & s & ->). discriminate.
  - destruct (iter_portions_total U ds []) as (es & ->). discriminate.
Qed.

Corollary load_never_out_of_fuel : forall insp U sps name, load insp U sps name <> LErr "OutOfFuel".
Proof. intros insp U sps name H. apply load_total in H. discriminate. Qed.

(* ------------------------------------------------------------------------------------------------------------- *)
(* Part H.  Regular packages: every loaded module is importable by CPython from that file, or is stub-only --
   modulo the shape of finding F1 and on source-form layouts *)

(* strings *)
Lemma split_last_dot_app : forall s a b, split_last_dot s = Some (a, b) -> s = (a ++ b)%string.
Proof.
  induction s as [|c r IH]; simpl; intros a b H. discriminate.
  destruct (split_last_dot r) as [[a' b']|] eqn:E.
  - inversion H; subst. simpl. f_equal. apply IH. auto.
  - destruct (is_dot c); inversion H; subst. reflexivity.
Qed.

Lemma pl_split_app : forall s, (pl_stem s ++ pl_suffix s)%string = s.
Proof.
  intros s. unfold pl_stem, pl_suffix, pl_split.
  destruct (split_last_dot s) as [[a b]|] eqn:E.
  - destruct (negb (a =? "") && (2 <=? String.length b)%nat); simpl.
    + symmetry. apply split_last_dot_app. auto.
    + clear. induction s; simpl; auto. f_equal. auto.
  - simpl. clear. induction s; simpl; auto. f_equal. auto.
Qed.

Lemma split_last_dot_py : forall m, split_last_dot (m ++ ".py")%string = Some (m, ".py").
Proof. induction m as [|c r IH]; simpl. reflexivity. rewrite IH. reflexivity. Qed.

Lemma pl_split_py : forall m, m <> "" -> pl_split (m ++ ".py")%string = (m, ".py").
Proof.
  intros m Hm. unfold pl_split. rewrite split_last_dot_py.
  destruct (m =? "") eqn:E. apply String.eqb_eq in E. contradiction. reflexivity.
Qed.

Lemma all_dots_has_dot : forall m, m <> "" -> has_dot m = false -> all_dots m = false.
Proof. destruct m as [|c r]; simpl; intros H1 H2. contradiction. apply orb_false_iff in H2. destruct H2 as [-> _]. reflexivity. Qed.

Lemma os_ext_py : forall m, m <> "" -> has_dot m = false -> os_ext (m ++ ".py")%string = ".py".
Proof. intros m H1 H2. unfold os_ext. rewrite split_last_dot_py. rewrite all_dots_has_dot; auto. Qed.

(* navigation *)
Lemma get_node_snoc : forall q l c,
  get_node l (q ++ [c]) =
    match get_node l q with
    | Some (Dir lq) => lookup_entry c lq
    | _ => None
    end.
Proof.
  induction q as [|a r IH]; intros l c; simpl.
  - destruct (lookup_entry c l) as [[ns pth|l']|]; auto.
  - destruct (lookup_entry a l) as [[ns pth|l']|] eqn:E.
    + destruct r; simpl; auto.
    + apply IH.
    + reflexivity.
Qed.

Lemma lookup_entry_In_iff : forall l n x, NoDup (map fst l) -> (lookup_entry n l = Some x <-> In (n, x) l).
Proof.
  induction l as [|[k v] r IH]; simpl; intros n x Hnd. split; [discriminate|tauto].
  inversion Hnd; subst. destruct (k =? n) eqn:E.
  - apply String.eqb_eq in E. subst. split.
    + intro H. inversion H; auto.
    + intros [H|H]. inversion H; auto. exfalso. apply H1. apply (in_map fst) in H. auto.
  - rewrite IH by auto. split; auto. intros [H|H]; auto. inversion H; subst. rewrite String.eqb_refl in E. discriminate.
Qed.

(* os.walk as path resolution: r is yielded iff it is q ++ [fn] where q leads through directories (none called
   __pycache__) to a directory that holds the accepted file fn *)
Definition reaches (L : listing) (q : list string) (Lq : listing) : Prop :=
  get_node L q = Some (Dir Lq) /\ ~ In "__pycache__" q.

Definition deep_nodup (L : listing) : Prop := forall q Lq, get_node L q = Some (Dir Lq) -> NoDup (map fst Lq).

Lemma deep_nodup_sub : forall L n inner, deep_nodup L -> lookup_entry n L = Some (Dir inner) -> deep_nodup inner.
Proof.
  intros L n inner H Hl q Lq Hq. apply (H (n :: q)). simpl. rewrite Hl. auto.
Qed.

Lemma walk_resolves : forall nd pre r, match nd with Dir L => deep_nodup L | _ => True end ->
  (In r (walk pre nd) <->
   match nd with
   | File _ _ => False
   | Dir L => exists q fn Lq, r = pre ++ q ++ [fn] /\ reaches L q Lq /\ has_file fn Lq = true /\ accepted fn = true
   end).
Proof.
  induction nd as [a b|es IH] using node_ind'; intros pre r Hdn. simpl. tauto.
  rewrite walk_dir_in. split.
  - intros ([nm x] & He & Hr). unfold contrib in Hr. simpl in Hr. apply in_app_or in Hr. destruct Hr as [Hr|Hr].
    + destruct (is_file x && accepted nm) eqn:E; simpl in Hr; [|contradiction]. destruct Hr as [<-|[]].
      apply andb_true_iff in E. destruct E as [E1 E2].
      exists [], nm, es. split; auto. split. split; simpl; auto. split; auto.
      unfold has_file. pose proof (Hdn [] es eq_refl) as Hnd.
      apply (proj2 (lookup_entry_In_iff es nm x Hnd)) in He. rewrite He. destruct x; simpl in *; congruence.
    + destruct x as [a b|es']; [contradiction|]. destruct (nm =? "__pycache__") eqn:Epc; [contradiction|].
      pose proof (Hdn [] es eq_refl) as Hnd.
      pose proof (proj2 (lookup_entry_In_iff es nm (Dir es') Hnd) He) as Hl.
      apply (IH nm (Dir es') He (pre ++ [nm]) r (deep_nodup_sub es nm es' Hdn Hl)) in Hr.
      destruct Hr as (q & fn & Lq & -> & [Hg Hpc] & Hf & Ha).
      exists (nm :: q), fn, Lq. split. rewrite <- app_assoc. reflexivity.
      split; auto. split. simpl. rewrite Hl. auto.
      intros [H|H]; auto. subst. rewrite String.eqb_refl in Epc. discriminate.
  - intros (q & fn & Lq & -> & [Hg Hpc] & Hf & Ha).
    pose proof (Hdn [] es eq_refl) as Hnd.
    destruct q as [|nm q].
    + simpl in Hg. inversion Hg; subst Lq. unfold has_file in Hf.
      destruct (lookup_entry fn es) as [[a b|?]|] eqn:E; try discriminate.
      exists (fn, File a b). split. apply lookup_entry_In_iff; auto.
      unfold contrib. simpl. rewrite Ha. simpl. auto.
    + simpl in Hg. destruct (lookup_entry nm es) as [[a b|es']|] eqn:E; try discriminate.
      { destruct q; discriminate. }
      exists (nm, Dir es'). split. apply lookup_entry_In_iff; auto.
      unfold contrib. cbn [fst snd is_file andb app].
      destruct (nm =? "__pycache__") eqn:Epc. apply String.eqb_eq in Epc. exfalso. apply Hpc. left. auto.
      apply (IH nm (Dir es') (proj1 (lookup_entry_In_iff es nm (Dir es') Hnd) E) (pre ++ [nm])).
      eapply deep_nodup_sub; eauto.
      exists q, fn, Lq. split. rewrite <- app_assoc. reflexivity.
      split; auto. split; auto. intro H. apply Hpc. right. auto.
Qed.

Lemma get_node_app_dir : forall a l la b, get_node l a = Some (Dir la) -> get_node l (a ++ b) = get_node la b.
Proof.
  induction a as [|c r IH]; intros l la b H; simpl in *.
  - inversion H; subst. reflexivity.
  - destruct (lookup_entry c l) as [[ns pth|l']|] eqn:E; try discriminate.
    + destruct r; discriminate.
    + eapply IH; eauto.
Qed.

Lemma first_file_with_src : forall n L,
  (forall s, In s compiled_suffixes -> has_file (n ++ s)%string L = false) ->
  first_file_with n py_suffixes L = if has_file (n ++ ".py")%string L then Some (n ++ ".py")%string else None.
Proof.
  intros n L H. simpl.
  rewrite (H ext_suffix), (H ".abi3.so"), (H ".so"), (H ".pyc") by (simpl; auto 6). reflexivity.
Qed.

Lemma is_proper_prefix_app : forall (a b : list string), b <> [] -> is_proper_prefix a (a ++ b) = true.
Proof.
  induction a as [|x r IH]; intros b Hb; simpl.
  - destruct b; congruence.
  - rewrite String.eqb_refl. simpl. apply IH. auto.
Qed.

Section Importable.
  Variable U : universe.
  Variable D : path.
  Variable L0 : listing.
  Hypothesis HD : listing_at U D = Some L0.
  Hypothesis Hdn : deep_nodup L0.
  (* source-form package tree: no compiled file names, no pkgutil-style declaration *)
  Hypothesis Hsrc : forall q Lq, get_node L0 q = Some (Dir Lq) ->
    (forall n s, In s compiled_suffixes -> has_file (n ++ s)%string Lq = false) /\
    (forall ns pth, lookup_entry "__init__.py" Lq = Some (File ns pth) -> ns = false).
  Variable es : list entry.
  Hypothesis Hes : forall e, In e es <-> exists rel, In rel (walk [] (Dir L0)) /\ yields D rel e.
  Hypothesis Hnc : no_clash es.

  Definition Dq (q : list string) : path := (fst D, snd D ++ q).

  Definition comp_ok (c : string) : Prop := c <> "" /\ has_dot c = false /\ c <> "__init__" /\ c <> "__pycache__".

  Lemma listing_at_Dq : forall q Lq, get_node L0 q = Some (Dir Lq) -> listing_at U (Dq q) = Some Lq.
  Proof.
    intros q Lq H. unfold listing_at, node_at, Dq in *. simpl.
    destruct (get_node (root U (fst D)) (snd D)) as [[ns pth|l]|] eqn:E; try discriminate.
    inversion HD; subst l. rewrite (get_node_app_dir _ _ _ q E). rewrite H. reflexivity.
  Qed.

  Lemma node_at_Dq_file : forall q Lq fn, get_node L0 q = Some (Dir Lq) ->
    node_at U (Dq (q ++ [fn])) = lookup_entry fn Lq.
  Proof.
    intros q Lq fn H. unfold node_at, Dq. simpl. unfold listing_at, node_at in HD.
    destruct (get_node (root U (fst D)) (snd D)) as [[ns pth|l]|] eqn:E; try discriminate.
    inversion HD; subst l. rewrite (get_node_app_dir _ _ _ (q ++ [fn]) E). rewrite get_node_snoc, H. reflexivity.
  Qed.

  Lemma sub_Dq : forall q c, sub (Dq q) c = Dq (q ++ [c]).
  Proof. intros. unfold sub, Dq. simpl. rewrite app_assoc. reflexivity. Qed.

  Lemma no_dots_app : forall (q : list string) n, existsb has_dot (q ++ [n]) = false ->
    existsb has_dot q = false /\ has_dot n = false.
  Proof. intros q n H. rewrite existsb_app in H. simpl in H. rewrite orb_false_r in H. apply orb_false_iff in H. auto. Qed.

  (* C1: a file n.py in a reachable directory is yielded as the plain module q.n *)
  Lemma module_file_entry : forall q Lq n,
    reaches L0 q Lq -> has_file (n ++ ".py")%string Lq = true -> comp_ok n -> existsb has_dot q = false ->
    exists e, In e es /\ entry_ok e = true /\ e_parts e = q ++ [n] /\ is_pyi e = false /\
              e_abs e = Dq (q ++ [(n ++ ".py")%string]) /\ name_to_yield (e_rel e) = YMod (e_parts e).
  Proof.
    intros q Lq n Hr Hf (Hn1 & Hn2 & Hn3 & Hn4) Hq.
    set (fn := (n ++ ".py")%string). set (rel := q ++ [fn]).
    assert (Hy : name_to_yield rel = YMod (q ++ [n])).
    { unfold name_to_yield, rel. rewrite last_last, List.removelast_last.
      unfold pl_suffix, pl_stem, fn. rewrite pl_split_py by auto. simpl.
      destruct (n =? "__init__") eqn:E. apply String.eqb_eq in E. contradiction. reflexivity. }
    exists (mkE (q ++ [n]) D rel). split; [|split; [|split; [|split; [|split]]]]; simpl; auto.
    - apply Hes. exists rel. split.
      + apply (walk_resolves (Dir L0) [] rel Hdn). exists q, fn, Lq. split; auto. split; auto. split; auto.
        unfold accepted, fn. rewrite os_ext_py by auto. reflexivity.
      + unfold yields. rewrite Hy. reflexivity.
    - unfold entry_ok. simpl. rewrite existsb_app. simpl. rewrite Hq, Hn2. simpl.
      unfold static_loadable, path_suffix, e_abs. simpl. unfold rel. rewrite app_assoc, last_last.
      unfold pl_suffix, fn. rewrite pl_split_py by auto. reflexivity.
    - unfold is_pyi, path_suffix, e_abs. simpl. unfold rel. rewrite app_assoc, last_last.
      unfold pl_suffix, fn. rewrite pl_split_py by auto. reflexivity.
  Qed.

  (* C2: an __init__.py in a reachable sub-directory n is yielded as the package q.n *)
  Lemma init_file_entry : forall q Lq n Lm,
    reaches L0 q Lq -> lookup_entry n Lq = Some (Dir Lm) -> has_file "__init__.py" Lm = true ->
    comp_ok n -> existsb has_dot q = false ->
    exists e, In e es /\ entry_ok e = true /\ e_parts e = q ++ [n] /\ is_pyi e = false /\
              e_abs e = Dq (q ++ [n; "__init__.py"]) /\ name_to_yield (e_rel e) = YInit (e_parts e).
  Proof.
    intros q Lq n Lm [Hg Hpc] Hl Hf (Hn1 & Hn2 & Hn3 & Hn4) Hq.
    set (rel := (q ++ [n]) ++ ["__init__.py"]).
    assert (Hy : name_to_yield rel = YInit (q ++ [n])).
    { unfold name_to_yield, rel. rewrite last_last, List.removelast_last. simpl.
      rewrite app_length. simpl. rewrite app_length. simpl.
      destruct (List.length q + 1 + 1 =? 1)%nat eqn:E; [apply Nat.eqb_eq in E; lia|]. reflexivity. }
    exists (mkE (q ++ [n]) D rel). split; [|split; [|split; [|split; [|split]]]]; simpl; auto.
    - apply Hes. exists rel. split.
      + apply (walk_resolves (Dir L0) [] rel Hdn). exists (q ++ [n]), "__init__.py", Lm. split; auto. split; [|split; auto].
        split. rewrite get_node_snoc, Hg. auto.
        intro H. apply in_app_or in H. destruct H as [H|[H|[]]]; auto.
      + unfold yields. rewrite Hy. reflexivity.
    - unfold entry_ok. simpl. rewrite existsb_app. simpl. rewrite Hq, Hn2. simpl.
      unfold static_loadable, path_suffix, e_abs. simpl. unfold rel. rewrite app_assoc, last_last. reflexivity.
    - unfold is_pyi, path_suffix, e_abs. simpl. unfold rel. rewrite app_assoc, last_last. reflexivity.
    - unfold e_abs, Dq. simpl. unfold rel. rewrite <- app_assoc. reflexivity.
  Qed.

  Definition stem_of (rel : list string) : string :=
    let fn := last rel "" in
    if pl_suffix fn =? ".py" then pl_stem fn else before_first_dot (pl_stem fn).

  Lemma name_to_yield_init : forall rel p, name_to_yield rel = YInit p ->
    p = removelast rel /\ stem_of rel = "__init__".
  Proof.
    intros rel p H. unfold name_to_yield in H. fold (stem_of rel) in H.
    destruct (stem_of rel =? "__init__") eqn:E.
    - apply String.eqb_eq in E. destruct (List.length rel =? 1)%nat; inversion H. auto.
    - destruct (pl_suffix (last rel "") =? ".py"); [discriminate|]. destruct (stem_of rel =? ""); discriminate.
  Qed.

  Lemma name_to_yield_mod : forall rel p, name_to_yield rel = YMod p ->
    p = removelast rel ++ [stem_of rel] /\ stem_of rel <> "__init__".
  Proof.
    intros rel p H. unfold name_to_yield in H. fold (stem_of rel) in H.
    destruct (stem_of rel =? "__init__") eqn:E.
    - destruct (List.length rel =? 1)%nat; discriminate.
    - apply String.eqb_neq in E. destruct (pl_suffix (last rel "") =? ".py").
      + inversion H. auto.
      + destruct (stem_of rel =? ""); inversion H. auto.
  Qed.

  (* where a yielded entry lives *)
  Lemma entry_shape : forall e q n, In e es -> e_parts e = q ++ [n] ->
    e_base e = D /\
    ((exists fn Lq, reaches L0 q Lq /\ has_file fn Lq = true /\ e_rel e = q ++ [fn] /\
                    name_to_yield (e_rel e) = YMod (e_parts e) /\ stem_of (e_rel e) = n) \/
     (exists fn Lq Lm, reaches L0 q Lq /\ lookup_entry n Lq = Some (Dir Lm) /\ n <> "__pycache__" /\ has_file fn Lm = true /\
                       e_rel e = q ++ [n; fn] /\ name_to_yield (e_rel e) = YInit (e_parts e) /\ stem_of (e_rel e) = "__init__")).
  Proof.
    intros e q n He Hp. apply Hes in He. destruct He as (rel & Hw & Hy).
    apply (walk_resolves (Dir L0) [] rel Hdn) in Hw. destruct Hw as (q' & fn & Lq' & Hrel & [Hg Hpc] & Hf & Ha).
    simpl in Hrel. unfold yields in Hy.
    destruct (name_to_yield rel) as [|parts|parts] eqn:Ey; try contradiction; subst e; simpl in *; split; auto.
    - right. destruct (name_to_yield_init _ _ Ey) as [Hparts Hst]. subst rel. rewrite List.removelast_last in Hparts.
      subst parts q'. rewrite get_node_snoc in Hg.
      destruct (get_node L0 q) as [[a b|Lq]|] eqn:Eq; try discriminate.
      exists fn, Lq, Lq'. repeat split; auto.
      + intro H. apply Hpc. apply in_or_app. auto.
      + intro H. apply Hpc. apply in_or_app. right. left. auto.
      + rewrite <- app_assoc. reflexivity.
    - left. destruct (name_to_yield_mod _ _ Ey) as [Hparts Hst]. subst rel. rewrite List.removelast_last in Hparts.
      subst parts. apply app_inj_tail in Hparts. destruct Hparts as [-> Hn].
      exists fn, Lq'. repeat split; auto.
  Qed.

  (* FileFinder in a source-form directory *)
  Lemma ff_src : forall q Lq n, get_node L0 q = Some (Dir Lq) ->
    file_finder U (Dq q) n =
      match lookup_entry n Lq with
      | Some (Dir Lm) =>
          if has_file "__init__.py" Lm then FFPkg (Dq (q ++ [n; "__init__.py"])) (Dq (q ++ [n]))
          else if has_file (n ++ ".py")%string Lq then FFMod (Dq (q ++ [(n ++ ".py")%string]))
          else FFPortion (Dq (q ++ [n]))
      | _ => if has_file (n ++ ".py")%string Lq then FFMod (Dq (q ++ [(n ++ ".py")%string])) else FFNothing
      end.
  Proof.
    intros q Lq n Hg. unfold file_finder. rewrite (listing_at_Dq q Lq Hg).
    destruct (Hsrc q Lq Hg) as [Hc _].
    rewrite (first_file_with_src n Lq (Hc n)).
    destruct (lookup_entry n Lq) as [[a b|Lm]|] eqn:El.
    - destruct (has_file (n ++ ".py")%string Lq); auto. rewrite sub_Dq. reflexivity.
    - assert (Hgm : get_node L0 (q ++ [n]) = Some (Dir Lm)) by (rewrite get_node_snoc, Hg; auto).
      destruct (Hsrc _ _ Hgm) as [Hcm _].
      rewrite (first_file_with_src "__init__" Lm (Hcm "__init__")).
      change ("__init__" ++ ".py")%string with "__init__.py".
      destruct (has_file "__init__.py" Lm).
      + rewrite !sub_Dq. rewrite <- app_assoc. reflexivity.
      + destruct (has_file (n ++ ".py")%string Lq); rewrite sub_Dq; reflexivity.
    - destruct (has_file (n ++ ".py")%string Lq); auto. rewrite sub_Dq. reflexivity.
  Qed.

  Lemma py_find_single : forall n d,
    py_find U n [d] =
      match file_finder U d n with
      | FFPkg init x => PyPkg init (if init_declares_ns U init then extend_path U [d] n x else [x])
      | FFMod f => PyMod f
      | FFPortion x => PyNs [x]
      | FFNothing => PyNone
      end.
  Proof. intros. unfold py_find. simpl. destruct (file_finder U d n); reflexivity. Qed.

  Lemma path_suffix_abs : forall e r fn, e_rel e = r ++ [fn] -> path_suffix (e_abs e) = pl_suffix fn.
  Proof. intros e r fn H. unfold path_suffix, e_abs. simpl. rewrite H. rewrite app_assoc, last_last. reflexivity. Qed.

  Lemma Dq_neq : forall q a b c, Dq (q ++ [a]) <> Dq (q ++ [b; c]).
  Proof.
    intros q a b c H. unfold Dq in H. inversion H as [H1]. apply app_inv_head in H1. apply app_inv_head in H1. discriminate.
  Qed.

  Lemma has_file_lookup : forall fn L, has_file fn L = true -> exists ns pth, lookup_entry fn L = Some (File ns pth).
  Proof. intros fn L H. unfold has_file in H. destruct (lookup_entry fn L) as [[ns pth|?]|]; try discriminate. eauto. Qed.

  Lemma reaches_fun : forall q L1 L2, reaches L0 q L1 -> reaches L0 q L2 -> L1 = L2.
  Proof. intros q L1 L2 [H1 _] [H2 _]. congruence. Qed.

  (* which file the loader keeps for the name q: the regular candidate if there is one, else a stub *)
  Definition picked (q : list string) (p : path) : Prop :=
    (exists a, In a es /\ entry_ok a = true /\ e_parts a = q /\ is_pyi a = false /\ e_abs a = p) \/
    ((forall b, In b es -> entry_ok b = true -> e_parts b = q -> is_pyi b = true) /\
     exists a, In a es /\ entry_ok a = true /\ e_parts a = q /\ e_abs a = p).

  Lemma picked_entry : forall q p, picked q p ->
    exists a, In a es /\ entry_ok a = true /\ e_parts a = q /\ e_abs a = p /\
              (is_pyi a = true -> forall b, In b es -> entry_ok b = true -> e_parts b = q -> is_pyi b = true).
  Proof.
    intros q p [(a & H1 & H2 & H3 & H4 & H5)|[Hall (a & H1 & H2 & H3 & H5)]]; exists a; repeat split; auto.
    intro. congruence.
  Qed.

  (* a regular candidate for q forces the kept file to be that candidate *)
  Lemma picked_regular : forall q p e, picked q p -> In e es -> entry_ok e = true -> e_parts e = q -> is_pyi e = false -> p = e_abs e.
  Proof.
    intros q p e [(a & H1 & H2 & H3 & H4 & H5)|[Hall _]] He Hok Hp Hn.
    - subst p. apply Hnc; auto; congruence.
    - rewrite (Hall e He Hok Hp) in Hn. discriminate.
  Qed.

  Lemma leaf_agrees : forall q Lq n f,
    reaches L0 q Lq -> picked (q ++ [n]) f -> comp_ok n ->
    agrees (MFile f) (py_find U n [Dq q]) = true.
  Proof.
    intros q Lq n f Hr Hpick Hn.
    destruct (picked_entry _ _ Hpick) as (a & Ha & Hok & Hp & Hf0 & Hall). subst f.
    assert (Hdots : existsb has_dot q = false).
    { unfold entry_ok in Hok. apply andb_true_iff in Hok. destruct Hok as [Hd _]. apply negb_true_iff in Hd.
      rewrite Hp in Hd. apply no_dots_app in Hd. tauto. }
    assert (K1 : has_file (n ++ ".py")%string Lq = true -> exists e, In e es /\ entry_ok e = true /\ e_parts e = q ++ [n] /\
                   is_pyi e = false /\ e_abs e = Dq (q ++ [(n ++ ".py")%string])).
    { intro Hf. destruct (module_file_entry q Lq n Hr Hf Hn Hdots) as (e & H1 & H2 & H3 & H4 & H5 & _). eauto 8. }
    assert (K2 : forall Lm, lookup_entry n Lq = Some (Dir Lm) -> has_file "__init__.py" Lm = true ->
                 exists e, In e es /\ entry_ok e = true /\ e_parts e = q ++ [n] /\ is_pyi e = false /\
                           e_abs e = Dq (q ++ [n; "__init__.py"])).
    { intros Lm Hl Hf. destruct (init_file_entry q Lq n Lm Hr Hl Hf Hn Hdots) as (e & H1 & H2 & H3 & H4 & H5 & _). eauto 8. }
    rewrite py_find_single. rewrite (ff_src q Lq n (proj1 Hr)).
    destruct (entry_shape a q n Ha Hp) as [Hbase [(fn & Lq' & Hr' & Hf & Hrel & Hy & Hst)|(fn & Lq' & Lm & Hr' & Hl & Hnpc & Hf & Hrel & Hy & Hst)]];
      pose proof (reaches_fun _ _ _ Hr Hr'); subst Lq'.
    - (* a is the module file fn of the directory *)
      pose proof (path_suffix_abs a q fn Hrel) as Hsuf.
      assert (Habs : e_abs a = Dq (q ++ [fn])) by (unfold e_abs, Dq; rewrite Hbase, Hrel; reflexivity).
      pose proof Hok as Hok0. unfold entry_ok in Hok. apply andb_true_iff in Hok. destruct Hok as [_ Hload]. unfold static_loadable in Hload. rewrite Hsuf in Hload.
      unfold stem_of in Hst. rewrite Hrel, last_last in Hst.
      destruct (pl_suffix fn =? ".py") eqn:Epy.
      + apply String.eqb_eq in Epy.
        assert (Hfn : fn = (n ++ ".py")%string) by (rewrite <- (pl_split_app fn), Hst, Epy; reflexivity).
        subst fn.
        assert (Hnp : is_pyi a = false) by (unfold is_pyi; rewrite Hsuf, Epy; reflexivity).
        rewrite Hf.
        destruct (lookup_entry n Lq) as [[x y|Lm]|] eqn:El; simpl; try (rewrite Habs; apply path_eqb_refl).
        destruct (has_file "__init__.py" Lm) eqn:Ei; simpl; try (rewrite Habs; apply path_eqb_refl).
        exfalso. destruct (K2 Lm eq_refl Ei) as (e & H1 & H2 & H3 & H4 & H5).
        assert (e_abs a = e_abs e) by (apply Hnc; auto; congruence).
        rewrite Habs, H5 in H. eapply Dq_neq; eauto.
      + simpl in Hload.
        assert (Hpyi : is_pyi a = true) by (unfold is_pyi; rewrite Hsuf; auto).
        specialize (Hall Hpyi).
        assert (N1 : has_file (n ++ ".py")%string Lq = false).
        { destruct (has_file (n ++ ".py")%string Lq) eqn:E; auto. destruct (K1 eq_refl) as (e & H1 & H2 & H3 & H4 & _).
          rewrite (Hall e H1 H2 H3) in H4. discriminate. }
        rewrite N1.
        assert (Hres : path_suffix (e_abs a) =? ".pyi" = true) by (rewrite Hsuf; auto).
        destruct (lookup_entry n Lq) as [[x y|Lm]|] eqn:El; simpl; auto.
        destruct (has_file "__init__.py" Lm) eqn:Ei; simpl; auto.
        exfalso. destruct (K2 Lm eq_refl Ei) as (e & H1 & H2 & H3 & H4 & _). rewrite (Hall e H1 H2 H3) in H4. discriminate.
    - (* a is an __init__ file of the sub-directory n *)
      assert (Hrel' : e_rel a = (q ++ [n]) ++ [fn]) by (rewrite Hrel, <- app_assoc; reflexivity).
      pose proof (path_suffix_abs a (q ++ [n]) fn Hrel') as Hsuf.
      assert (Habs : e_abs a = Dq (q ++ [n; fn])) by (unfold e_abs, Dq; rewrite Hbase, Hrel; reflexivity).
      pose proof Hok as Hok0. unfold entry_ok in Hok. apply andb_true_iff in Hok. destruct Hok as [_ Hload]. unfold static_loadable in Hload. rewrite Hsuf in Hload.
      unfold stem_of in Hst. rewrite Hrel', last_last in Hst.
      rewrite Hl.
      destruct (pl_suffix fn =? ".py") eqn:Epy.
      + apply String.eqb_eq in Epy.
        assert (Hfn : fn = "__init__.py") by (rewrite <- (pl_split_app fn), Hst, Epy; reflexivity).
        subst fn. rewrite Hf. simpl. rewrite Habs. apply path_eqb_refl.
      + simpl in Hload.
        assert (Hpyi : is_pyi a = true) by (unfold is_pyi; rewrite Hsuf; auto).
        specialize (Hall Hpyi).
        assert (N1 : has_file (n ++ ".py")%string Lq = false).
        { destruct (has_file (n ++ ".py")%string Lq) eqn:E; auto. destruct (K1 eq_refl) as (e & H1 & H2 & H3 & H4 & _).
          rewrite (Hall e H1 H2 H3) in H4. discriminate. }
        assert (N2 : has_file "__init__.py" Lm = false).
        { destruct (has_file "__init__.py" Lm) eqn:E; auto. destruct (K2 Lm Hl E) as (e & H1 & H2 & H3 & H4 & _).
          rewrite (Hall e H1 H2 H3) in H4. discriminate. }
        rewrite N1, N2. simpl. rewrite Hsuf. auto.
  Qed.

  Lemma step_descend : forall q Lq m Lm r0 rest,
    get_node L0 q = Some (Dir Lq) -> lookup_entry m Lq = Some (Dir Lm) ->
    (has_file "__init__.py" Lm = false -> has_file (m ++ ".py")%string Lq = false) ->
    py_import U [Dq q] (m :: r0 :: rest) = py_import U [Dq (q ++ [m])] (r0 :: rest).
  Proof.
    intros q Lq m Lm r0 rest Hg Hl Hno.
    change (py_import U [Dq q] (m :: r0 :: rest)) with
      (match py_find U m [Dq q] with
       | PyPkg init locs => if executable init then py_import U locs (r0 :: rest) else PyErr
       | PyNs ds => py_import U ds (r0 :: rest)
       | PyMod f => if executable f then PyNone else PyErr
       | PyNone => PyNone
       | PyErr => PyErr
       end).
    rewrite py_find_single, (ff_src q Lq m Hg), Hl.
    destruct (has_file "__init__.py" Lm) eqn:Ei.
    - assert (Hgm : get_node L0 (q ++ [m]) = Some (Dir Lm)) by (rewrite get_node_snoc, Hg; auto).
      destruct (has_file_lookup _ _ Ei) as (ns & pth & Hli).
      destruct (Hsrc _ _ Hgm) as [_ Hdecl]. pose proof (Hdecl ns pth Hli). subst ns.
      assert (Hnd : init_declares_ns U (Dq (q ++ [m; "__init__.py"])) = false).
      { unfold init_declares_ns. replace (q ++ [m; "__init__.py"]) with ((q ++ [m]) ++ ["__init__.py"]) by (rewrite <- app_assoc; reflexivity).
        rewrite (node_at_Dq_file (q ++ [m]) Lm "__init__.py" Hgm), Hli. reflexivity. }
      rewrite Hnd.
      assert (Hex : executable (Dq (q ++ [m; "__init__.py"])) = true).
      { unfold executable, path_suffix, Dq. simpl. replace (snd D ++ q ++ [m; "__init__.py"]) with ((snd D ++ q ++ [m]) ++ ["__init__.py"]).
        rewrite last_last. reflexivity. rewrite <- !app_assoc. reflexivity. }
      rewrite Hex. reflexivity.
    - rewrite (Hno eq_refl). reflexivity.
  Qed.

  (* strings: the name before the first dot of  stem ++ ".py" / stem ++ ".pyi" *)
  Lemma bfd_app_dot : forall a r, before_first_dot (a ++ String "."%char r)%string = before_first_dot a.
  Proof.
    induction a as [|c a IH]; intros r; simpl. reflexivity.
    destruct (is_dot c); auto. f_equal. apply IH.
  Qed.

  Lemma bfd_nodot : forall a, has_dot a = false -> before_first_dot a = a.
  Proof.
    induction a as [|c a IH]; simpl; intro H; auto. apply orb_false_iff in H. destruct H as [H1 H2].
    rewrite H1. f_equal. auto.
  Qed.

  (* an entry yielded as a plain module is not kept as an __init__ module *)
  Lemma ymod_not_init : forall x q m, In x es -> entry_ok x = true -> e_parts x = q ++ [m] ->
    name_to_yield (e_rel x) = YMod (e_parts x) -> init_path (e_abs x) = false.
  Proof.
    intros x q m Hx Hok Hp Hy.
    destruct (name_to_yield_mod _ _ Hy) as [Hparts Hne].
    destruct (entry_shape x q m Hx Hp) as [_ [(fn & Lq & Hr & Hf & Hrel & _ & Hst)|(fn & Lq & Lm & _ & _ & _ & _ & _ & Hy2 & _)]];
      [|rewrite Hy in Hy2; discriminate].
    unfold init_path, is_init_name, e_abs. simpl. rewrite Hrel, app_assoc, last_last.
    pose proof (path_suffix_abs x q fn Hrel) as Hsuf.
    unfold entry_ok in Hok. apply andb_true_iff in Hok. destruct Hok as [Hd Hload]. apply negb_true_iff in Hd.
    rewrite Hp in Hd. apply no_dots_app in Hd. destruct Hd as [_ Hdm].
    unfold static_loadable in Hload. rewrite Hsuf in Hload.
    unfold stem_of in Hst, Hne. rewrite Hrel, last_last in Hst, Hne.
    rewrite <- (pl_split_app fn).
    destruct (pl_suffix fn =? ".py") eqn:Epy.
    - apply String.eqb_eq in Epy. rewrite Epy. change ".py" with (String "."%char "py"). rewrite bfd_app_dot.
      rewrite Hst, bfd_nodot by auto. apply String.eqb_neq. rewrite <- Hst. auto.
    - simpl in Hload. apply String.eqb_eq in Hload. rewrite Hload. change ".pyi" with (String "."%char "pyi"). rewrite bfd_app_dot.
      apply String.eqb_neq. auto.
  Qed.

  Lemma descend_agrees : forall rest q Lq f,
    reaches L0 q Lq -> rest <> [] -> picked (q ++ rest) f ->
    (forall c, In c rest -> comp_ok c) ->
    (forall q' m post, q ++ rest = q' ++ m :: post -> post <> [] ->
                       exists p, init_path p = true /\ picked (q' ++ [m]) p) ->
    agrees (MFile f) (py_import U [Dq q] rest) = true.
  Proof.
    induction rest as [|m rest IH]; intros q Lq f Hr Hne Hpick Hc Hpre. congruence.
    destruct rest as [|r0 rest'].
    - change (py_import U [Dq q] [m]) with (py_find U m [Dq q]).
      eapply leaf_agrees; eauto. apply Hc. left. auto.
    - destruct (picked_entry _ _ Hpick) as (a & Ha & Hok & Hp & _ & _).
      assert (Hdots : existsb has_dot q = false).
      { unfold entry_ok in Hok. apply andb_true_iff in Hok. destruct Hok as [Hd _]. apply negb_true_iff in Hd.
        rewrite Hp, existsb_app in Hd. apply orb_false_iff in Hd. tauto. }
      destruct (Hpre q m (r0 :: rest') eq_refl) as (p & Hinit & Hpm). discriminate.
      destruct (picked_entry _ _ Hpm) as (x & Hx & Hxok & Hxp & Hxa & _).
      destruct (entry_shape x q m Hx Hxp) as [_ [(fn & Lq' & Hr' & Hf & Hrel & Hy & Hst)|(fn & Lq' & Lm & Hr' & Hl & Hnpc & Hf & Hrel & Hy & Hst)]].
      + exfalso. rewrite <- Hxa in Hinit. rewrite (ymod_not_init x q m Hx Hxok Hxp Hy) in Hinit. discriminate.
      + pose proof (reaches_fun _ _ _ Hr Hr'). subst Lq'.
        rewrite (step_descend q Lq m Lm r0 rest' (proj1 Hr) Hl).
        * apply (IH (q ++ [m]) Lm f); auto.
          -- split. rewrite get_node_snoc, (proj1 Hr). auto.
             intro H. apply in_app_or in H. destruct H as [H|[H|[]]]; auto. destruct Hr as [_ Hpc]. auto.
          -- discriminate.
          -- rewrite <- app_assoc. exact Hpick.
          -- intros c Hcin. apply Hc. right. auto.
          -- intros q' m' post Heq Hpost. apply (Hpre q' m' post); auto. rewrite <- Heq, <- app_assoc. reflexivity.
        * intros _. destruct (has_file (m ++ ".py")%string Lq) eqn:E; auto. exfalso.
          destruct (module_file_entry q Lq m Hr E (Hc m (or_introl eq_refl)) Hdots) as (e & H1 & H2 & H3 & H4 & H5 & H6).
          pose proof (picked_regular _ _ e Hpm H1 H2 H3 H4) as Hpe. rewrite Hpe in Hinit.
          rewrite (ymod_not_init e q m H1 H2 H3 H6) in Hinit. discriminate.
  Qed.
End Importable.

Lemma chain_prefix : forall E todo cur, chain E cur todo = true ->
  forall t1 x t2, todo = t1 ++ x :: t2 -> init_at E (cur ++ t1 ++ [x]) = true.
Proof.
  induction todo as [|p r IH]; intros cur H t1 x t2 Heq. destruct t1; discriminate.
  simpl in H. apply andb_true_iff in H. destruct H as [H1 H2].
  destruct t1 as [|y t1]; simpl in Heq; inversion Heq; subst.
  - simpl. auto.
  - specialize (IH (cur ++ [y]) H2 t1 x t2 eq_refl). rewrite <- app_assoc in IH. simpl in IH. auto.
Qed.

Lemma removelast_app_cons : forall (q : list string) m post, post <> [] ->
  removelast (q ++ m :: post) = q ++ m :: removelast post.
Proof.
  intros q m post H. rewrite removelast_app by discriminate. f_equal.
  simpl. destruct post; [congruence|reflexivity].
Qed.

(* Every module the static loader puts below a regular package is the module CPython imports at that dotted name
   from that file, or is stub-only -- on source-form package trees in which no two files claim one module name. *)
Theorem loaded_importable_regular :
  forall U D L0 es top k f,
  listing_at U D = Some L0 -> deep_nodup L0 ->
  (forall q Lq, get_node L0 q = Some (Dir Lq) ->
     (forall n s, In s compiled_suffixes -> has_file (n ++ s)%string Lq = false) /\
     (forall ns pth, lookup_entry "__init__.py" Lq = Some (File ns pth) -> ns = false)) ->
  (forall e, In e es <-> exists rel, In rel (walk [] (Dir L0)) /\ yields D rel e) ->
  no_clash es ->
  lookup_m k (run top (depth_sort es)) = Some (MFile f) -> k <> [] ->
  (forall c, In c k -> c <> "" /\ c <> "__init__" /\ c <> "__pycache__") ->
  agrees (MFile f) (py_import U [D] k) = true.
Proof.
  intros U D L0 es top k f HD Hdn Hsrc Hes Hnc Hlk Hk Hcomp.
  assert (Hne : forall e, In e (depth_sort es) -> e_parts e <> []).
  { intros e He. apply (proj1 (depth_sort_In _ _)) in He. apply Hes in He. destruct He as (rel & Hw & Hy).
    apply (yields_parts_nonempty D rel e); auto. apply (walk_nonempty (Dir L0) [] rel Hw). }
  destruct (run_spec top (depth_sort es) (depth_sort_sorted es) Hne) as [_ Hspec].
  rewrite Hspec in Hlk. rewrite spec_lookup_ne in Hlk by auto.
  destruct (chain (depth_sort es) [] (removelast k)) eqn:Hch; [|discriminate].
  destruct (pickseq (cands k (depth_sort es))) as [p|] eqn:Hpick; [|discriminate].
  simpl in Hlk. inversion Hlk; subst p. clear Hlk.
  (* from the merge of the candidates to the set-level description *)
  assert (Hpicked : forall q p, pickseq (cands q (depth_sort es)) = Some p -> picked es q p).
  { intros q p Hp.
    assert (Hcompat : compat (cands q (depth_sort es))).
    { intros x y Hx Hy Hpi. unfold cands in Hx, Hy. apply filter_In in Hx, Hy.
      destruct Hx as [Hx Hcx], Hy as [Hy Hcy]. unfold cand in Hcx, Hcy.
      apply andb_true_iff in Hcx, Hcy. destruct Hcx as [Px Ox], Hcy as [Py Oy].
      apply lstr_eqb_eq in Px, Py. apply (proj1 (depth_sort_In _ _)) in Hx. apply (proj1 (depth_sort_In _ _)) in Hy.
      apply Hnc; auto. congruence. }
    assert (Hin : forall a, In a (cands q (depth_sort es)) <-> In a es /\ entry_ok a = true /\ e_parts a = q).
    { intro a. unfold cands. rewrite filter_In, depth_sort_In. unfold cand. rewrite andb_true_iff, lstr_eqb_eq. tauto. }
    destruct (pickseq_sound _ _ Hcompat Hp) as [(a & Ha & Hap & Hao)|[Hall (a & Ha & Hao)]].
    - left. apply Hin in Ha. destruct Ha as (H1 & H2 & H3). exists a. auto.
    - right. split.
      + intros b Hb Hbo Hbp. apply Hall. apply Hin. auto.
      + apply Hin in Ha. destruct Ha as (H1 & H2 & H3). exists a. auto. }
  replace D with (Dq D []) by (unfold Dq; destruct D; simpl; rewrite app_nil_r; reflexivity).
  apply (descend_agrees U D L0 HD Hdn Hsrc es Hes Hnc k [] L0 f); auto.
  - split; simpl; auto.
  - intros c Hc.
    destruct (picked_entry es _ _ (Hpicked k f Hpick)) as (a & Ha & Hok & Hp & _ & _).
    assert (has_dot c = false).
    { unfold entry_ok in Hok. apply andb_true_iff in Hok. destruct Hok as [Hd _]. apply negb_true_iff in Hd.
      rewrite Hp in Hd. destruct (has_dot c) eqn:E; auto.
      assert (existsb has_dot k = true) by (apply existsb_exists; exists c; auto). congruence. }
    destruct (Hcomp c Hc) as (H1 & H2 & H3). unfold comp_ok. repeat split; auto.
  - intros q' m post Heq Hpost. simpl in Heq.
    assert (Hrl : removelast k = q' ++ m :: removelast post) by (rewrite Heq; apply removelast_app_cons; auto).
    pose proof (chain_prefix _ _ _ Hch q' m (removelast post) Hrl) as Hi. simpl in Hi.
    unfold init_at in Hi. destruct (pickseq (cands (q' ++ [m]) (depth_sort es))) as [p|] eqn:Ep; [|discriminate].
    exists p. split; auto.
Qed.

(* ------------------------------------------------------------------------------------------------------------- *)
(* Part I.  Decidable forms of the hypotheses, and the theorem stated on the model's own load of a regular package *)

Lemma mem_str_In : forall x l, mem_str x l = true <-> In x l.
Proof.
  intros. unfold mem_str. rewrite existsb_exists. split.
  - intros (y & Hy & E). apply String.eqb_eq in E. subst. auto.
  - intro H. exists x. split; auto. apply String.eqb_refl.
Qed.

Lemma nodupb_sound : forall l, nodupb l = true -> NoDup l.
Proof.
  induction l; simpl; intro H. constructor. apply andb_true_iff in H. destruct H as [H1 H2].
  constructor; auto. intro Hin. apply mem_str_In in Hin. rewrite Hin in H1. discriminate.
Qed.

Lemma strip_suffix_app : forall n s, strip_suffix (n ++ s)%string s <> None.
Proof.
  assert (Hrefl : forall s, strip_suffix s s <> None).
  { intro s. destruct s; cbn [strip_suffix]; rewrite String.eqb_refl; intro H; discriminate. }
  induction n as [|c r IH]; intros s. apply Hrefl.
  change (String c r ++ s)%string with (String c (r ++ s)). cbn [strip_suffix].
  destruct (String c (r ++ s) =? s). intro H; discriminate.
  specialize (IH s). destruct (strip_suffix (r ++ s) s); [intro H; discriminate|congruence].
Qed.

Lemma srcb_sound : forall es, NoDup (map fst es) -> srcb es = true ->
  (forall n s, In s compiled_suffixes -> has_file (n ++ s)%string es = false) /\
  (forall ns pth, lookup_entry "__init__.py" es = Some (File ns pth) -> ns = false).
Proof.
  intros es Hnd H. unfold srcb in H. apply andb_true_iff in H. destruct H as [H1 H2]. split.
  - intros n s Hs. unfold has_file. destruct (lookup_entry (n ++ s)%string es) as [[a b|?]|] eqn:E; auto.
    exfalso. apply lookup_entry_In_iff in E; auto. rewrite forallb_forall in H1. specialize (H1 _ E). cbn [snd fst is_file negb orb] in H1.
    rewrite forallb_forall in H1. specialize (H1 s Hs). pose proof (strip_suffix_app n s).
    destruct (strip_suffix (n ++ s) s); [discriminate|congruence].
  - intros ns pth E. rewrite E in H2. destruct ns; [discriminate|reflexivity].
Qed.

Lemma tree_okb_deep : forall q L Lq, tree_okb (Dir L) = true -> get_node L q = Some (Dir Lq) -> tree_okb (Dir Lq) = true.
Proof.
  induction q as [|c r IH]; intros L Lq H Hg; simpl in Hg.
  - inversion Hg; subst. auto.
  - destruct (lookup_entry c L) as [[a b|L']|] eqn:E; try discriminate. destruct r; discriminate.
    destruct (lookup_entry_In _ _ _ E) as [k Hk].
    simpl in H. apply andb_true_iff in H. destruct H as [_ H]. rewrite forallb_forall in H. specialize (H _ Hk). simpl in H.
    eapply IH; eauto.
Qed.

Lemma tree_okb_hyps : forall L, tree_okb (Dir L) = true ->
  deep_nodup L /\
  (forall q Lq, get_node L q = Some (Dir Lq) ->
     (forall n s, In s compiled_suffixes -> has_file (n ++ s)%string Lq = false) /\
     (forall ns pth, lookup_entry "__init__.py" Lq = Some (File ns pth) -> ns = false)).
Proof.
  intros L H. split.
  - intros q Lq Hg. pose proof (tree_okb_deep q L Lq H Hg) as Hq. simpl in Hq.
    apply andb_true_iff in Hq. destruct Hq as [Hq _]. apply andb_true_iff in Hq. destruct Hq as [Hq _]. apply nodupb_sound. auto.
  - intros q Lq Hg. pose proof (tree_okb_deep q L Lq H Hg) as Hq. simpl in Hq.
    apply andb_true_iff in Hq. destruct Hq as [Hq _]. apply andb_true_iff in Hq. destruct Hq as [Hn Hs].
    apply srcb_sound; auto. apply nodupb_sound. auto.
Qed.

Theorem loaded_importable_regular_checked :
  forall U i dirc st M,
  in_domain U i dirc = true ->
  load_found false U (FPkg (i, dirc ++ ["__init__.py"]) st) = LOk M ->
  forall k f, lookup_m k M = Some (MFile f) -> key_okb k = true ->
  agrees (MFile f) (py_import U [(i, dirc)] k) = true.
Proof.
  intros U i dirc st M Hdom Hload k f Hlk Hkey.
  unfold in_domain in Hdom.
  destruct (node_at U (i, dirc)) as [[a b|L0]|] eqn:En; try discriminate.
  destruct (iter_regular U (i, dirc ++ ["__init__.py"])) as [es|x] eqn:Ei; try discriminate.
  apply andb_true_iff in Hdom. destruct Hdom as [Htree Hnc].
  destruct (tree_okb_hyps L0 Htree) as [Hdn Hsrc].
  unfold load_found in Hload. rewrite Ei in Hload.
  destruct (node_at U (i, dirc ++ ["__init__.py"])) as [[a b|?]|]; try discriminate.
  inversion Hload; subst M. clear Hload.
  unfold key_okb in Hkey. apply andb_true_iff in Hkey. destruct Hkey as [Hk1 Hk2].
  assert (Hes : forall e, In e es <-> exists rel, In rel (walk [] (Dir L0)) /\ yields (i, dirc) rel e).
  { unfold iter_regular, start_dir in Ei. simpl in Ei. rewrite last_last in Ei. simpl in Ei.
    rewrite List.removelast_last in Ei.
    pose proof (iter_files_noskip (i, dirc) (portion_files U (i, dirc)) []) as Hn.
    destruct (iter_files (i, dirc) [] (portion_files U (i, dirc)) []) as [[es' s]|x]; try discriminate.
    inversion Ei; subst es'. unfold portion_files in Hn. rewrite En in Hn. auto. }
  apply (loaded_importable_regular U (i, dirc) L0 es (i, dirc ++ ["__init__.py"]) k f); auto.
  - unfold listing_at. rewrite En. reflexivity.
  - apply no_clashb_sound. auto.
  - destruct k; [discriminate|congruence].
  - intros c Hc. rewrite forallb_forall in Hk2. specialize (Hk2 c Hc).
    apply andb_true_iff in Hk2. destruct Hk2 as [Hk2 H3]. apply andb_true_iff in Hk2. destruct Hk2 as [H1 H2].
    apply negb_true_iff in H1, H2, H3. apply String.eqb_neq in H1, H2, H3. auto.
Qed.

(* non-vacuity: an ordinary nested package is inside the domain, is loaded, and the conclusion is computed to hold *)
Example in_domain_example : in_domain U_ok2 1 ["aa"] = true.
Proof. vm_compute. reflexivity. Qed.
Example loaded_importable_example :
  exists M, load_found false U_ok2 (FPkg (1, ["aa"; "__init__.py"]) None) = LOk M /\
            lookup_m ["sub"; "x"] M = Some (MFile (1, ["aa"; "sub"; "x.py"])) /\
            agrees (MFile (1, ["aa"; "sub"; "x.py"])) (py_import U_ok2 [(1, ["aa"])] ["sub"; "x"]) = true /\
            lookup_m ["m"] M = Some (MFile (1, ["aa"; "m.py"])).
Proof. eexists. split. vm_compute. reflexivity. repeat split; vm_compute; reflexivity. Qed.
