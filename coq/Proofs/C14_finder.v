(* placeholder while the harness is brought up *)
From Verif Require Import Lib.Sexp Model.C14_finder.
