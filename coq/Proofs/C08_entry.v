(* C08 proofs: Cls.from_json and json.loads(object_hook=json_decoder) build the same tree, parent links included. *)
From Coq Require Import List ZArith String Ascii Bool Arith Lia.
From Verif Require Import Lib.Sexp Gen.C08_tables Model.C08_json Model.C08_full Model.C08_text Model.C08_hook Model.C08_entry
                          Proofs.C08_json Proofs.C08_full Proofs.C08_text Proofs.C08_hook.
Import ListNotations.
Open Scope string_scope.
Open Scope list_scope.
Open Scope nat_scope.

(* whatever the text: what from_json returns is what the bare hook returns, and it returns it whenever the class fits *)
Theorem entry_points_agree : forall w s v,
  (from_json_text w s = TOk v -> loads_hook s = TOk v) /\
  (loads_hook s = TOk v -> is_instance w v = true -> from_json_text w s = TOk v) /\
  (loads_hook s = TOk v -> is_instance w v = false -> from_json_text w s = TErr EType).
Proof.
  intros w s v. unfold from_json_text. split; [|split].
  - destruct (loads_hook s) as [v'| | |]; try discriminate. destruct (is_instance w v'); [|discriminate]. exact (fun H => H).
  - intros -> ->. reflexivity.
  - intros -> ->. reflexivity.
Qed.

Lemma kind_of_tree_reload t : kind_of_tree (reload t) = kind_of_tree t.
Proof. destruct t as [n ln eln doc ls ms x|]; [|reflexivity]. cbn [reload kind_of_tree]. apply kind_of_reload. Qed.

(* on the dump of a tree, both give [reload t], every parent link included: no link depends on the entry point *)
Theorem entry_points_on_dump : forall t, rep t = true ->
  loads_hook (dumps (enc_min t)) = TOk (PTree (reload t)) /\
  from_json_text (WKind (kind_of_tree t)) (dumps (enc_min t)) = TOk (PTree (reload t)).
Proof.
  intros t H. pose proof (hook_decode_min t H) as E. split; [exact E|].
  unfold from_json_text. rewrite E. cbn [is_instance]. rewrite kind_of_tree_reload, String.eqb_refl. reflexivity.
Qed.

Theorem entry_points_on_full_dump : forall c t j, rep t = true -> enc_fullD c t = Ok j ->
  loads_hook (dumps j) = TOk (PTree (reload t)) /\
  from_json_text (WKind (kind_of_tree t)) (dumps j) = TOk (PTree (reload t)).
Proof.
  intros c t j H Ej. pose proof (hook_decode_full c t j H Ej) as E. split; [exact E|].
  unfold from_json_text. rewrite E. cbn [is_instance]. rewrite kind_of_tree_reload, String.eqb_refl. reflexivity.
Qed.

(* the dictionary of packages written by `griffe dump`: the bare hook gives the dictionary of the reloaded packages
   (whatever the packages are called, `kind` and `cls` included), each equal to what Module.from_json gives for it;
   from_json itself rejects the dictionary *)
Theorem packages_doc_loads : forall ps, Forall (fun km : string * tree => rep (snd km) = true) ps ->
  loads_hook (dumps (packages_doc ps)) = TOk (PDict (dmembers ps)) /\
  (forall w, from_json_text w (dumps (packages_doc ps)) = TErr EType) /\
  (forall k m, In (k, m) ps -> In (k, PTree (reload m)) (dmembers ps) /\ loads_hook (dumps (enc_min m)) = TOk (PTree (reload m))).
Proof.
  intros ps HF.
  assert (E : loads_hook (dumps (packages_doc ps)) = TOk (PDict (dmembers ps))).
  { rewrite loads_hook_dumps. unfold packages_doc. rewrite dec_members; [reflexivity|].
    apply Forall_forall. intros km Hin. rewrite Forall_forall in HF. apply decode_enc_min, HF, Hin. }
  split; [exact E|]. split.
  - intro w. unfold from_json_text. rewrite E. destruct w; reflexivity.
  - intros k m Hin. rewrite Forall_forall in HF. split.
    + unfold dmembers. apply in_map_iff. exists (k, m). split; [reflexivity|exact Hin].
    + apply hook_decode_min. exact (HF (k, m) Hin).
Qed.

Example example_entry :
  from_json_text (WKind kind_module) (dumps (enc_min ex_tree)) = TOk (PTree ex_tree) /\
  loads_hook (dumps (enc_min ex_tree)) = TOk (PTree ex_tree) /\
  from_json_text (WKind kind_class) (dumps (enc_min ex_tree)) = TErr EType /\
  loads_hook (dumps (packages_doc [("pkg", ex_tree); ("kind", ex_tree)])) = TOk (PDict [("pkg", PTree ex_tree); ("kind", PTree ex_tree)]).
Proof. vm_compute. repeat split. Qed.
