(* C05 proofs. *)
From Coq Require Import List ZArith String Ascii Bool Arith Lia.
From Verif Require Import Lib.Sexp Model.C05_imports.
Import ListNotations.
Open Scope string_scope.
Open Scope list_scope.
Open Scope nat_scope.

(* ------------------------------------------------------------------------------------------------------------ *)
(* basics                                                                                                        *)
(* ------------------------------------------------------------------------------------------------------------ *)
Lemma path_eqb_refl : forall p, path_eqb p p = true.
Proof. induction p; simpl; auto. rewrite String.eqb_refl. auto. Qed.

Lemma path_eqb_eq : forall p q, path_eqb p q = true <-> p = q.
Proof.
  induction p; destruct q; simpl; split; intros H; try discriminate; auto.
  - apply andb_true_iff in H. destruct H as [H1 H2]. apply String.eqb_eq in H1. apply IHp in H2. subst. auto.
  - inversion H; subst. rewrite String.eqb_refl. simpl. apply IHp. auto.
Qed.

Lemma mem_str_In : forall s l, mem_str s l = true <-> In s l.
Proof.
  intros s l. unfold mem_str. rewrite existsb_exists. split.
  - intros [x [Hin He]]. apply String.eqb_eq in He. subst. auto.
  - intros H. exists s. split; auto. apply String.eqb_refl.
Qed.

Lemma lookup_assign_same {A} n (v : A) l : lookup n (assign n v l) = Some v.
Proof.
  induction l as [|[k w] r IH]; simpl.
  - rewrite String.eqb_refl. auto.
  - destruct (String.eqb k n) eqn:E; simpl; rewrite E; auto.
Qed.

Lemma lookup_assign_other {A} n m (v : A) l : n <> m -> lookup m (assign n v l) = lookup m l.
Proof.
  intros Hne. induction l as [|[k w] r IH]; simpl.
  - destruct (String.eqb n m) eqn:E; auto. apply String.eqb_eq in E. contradiction.
  - destruct (String.eqb k n) eqn:E; simpl.
    + apply String.eqb_eq in E. subst k. destruct (String.eqb n m) eqn:E2; auto. apply String.eqb_eq in E2. contradiction.
    + destruct (String.eqb k m); auto.
Qed.

Lemma lookup_remove_other {A} n m (l : list (string * A)) : n <> m -> lookup m (remove_key n l) = lookup m l.
Proof.
  intros Hne. induction l as [|[k w] r IH]; simpl; auto.
  destruct (String.eqb k n) eqn:E; simpl.
  - apply String.eqb_eq in E. subst k. destruct (String.eqb n m) eqn:E2; auto. apply String.eqb_eq in E2. contradiction.
  - destruct (String.eqb k m); auto.
Qed.

Lemma lookup_In_fst {A} n (l : list (string * A)) v : lookup n l = Some v -> In n (map fst l).
Proof.
  induction l as [|[k w] r IH]; simpl; try discriminate.
  destruct (String.eqb k n) eqn:E; intros H.
  - left. apply String.eqb_eq. auto.
  - right. auto.
Qed.

Lemma In_fst_lookup {A} n (l : list (string * A)) : In n (map fst l) -> exists v, lookup n l = Some v.
Proof.
  induction l as [|[k w] r IH]; simpl; intros H; [contradiction|].
  destruct (String.eqb k n) eqn:E; eauto.
  destruct H as [H|H]; [subst; rewrite String.eqb_refl in E; discriminate|auto].
Qed.

Lemma fold_left_map' {A B C} (f : A -> B -> A) (g : C -> B) (l : list C) : forall a,
  fold_left f (map g l) a = fold_left (fun a x => f a (g x)) l a.
Proof. induction l; simpl; auto. Qed.

(* ------------------------------------------------------------------------------------------------------------ *)
(* T1  wildcard exposure                                                                                         *)
(* ------------------------------------------------------------------------------------------------------------ *)
Definition exports_expanded (st : modst) : Prop :=
  match exports st with Some ex => forall l a, ~ In (IRef l a) ex | None => True end.
(* every submodule member is named by the module's own imports (finding F5 is about the other case) *)
Definition submodules_imported (st : modst) : Prop :=
  forall n, In (n, MSub) (members st) -> mem_str n (imports st) = true.

Lemma in_exports_In n ex : in_exports n ex = true <-> In (IStr n) ex.
Proof.
  unfold in_exports. rewrite existsb_exists. split.
  - intros [[s|l a] [Hin H]]; try discriminate. apply String.eqb_eq in H. subst. auto.
  - intros H. exists (IStr n). split; auto. apply String.eqb_refl.
Qed.

Theorem wildcard_exposes_exactly st n :
  submodules_imported st ->
  In n (map fst (exposed_members st)) <->
  (exists m, In (n, m) (members st)) /\
  match exports st with Some ex => In (IStr n) ex | None => starts_underscore n = false end.
Proof.
  intros Hsub. unfold exposed_members. split.
  - intros H. apply in_map_iff in H. destruct H as [[k m] [Hk Hin]]. simpl in Hk. subst k.
    apply filter_In in Hin. destruct Hin as [Hin Hexp]. simpl in Hexp. split; [eauto|].
    unfold wildcard_exposed in Hexp. destruct (exports st) as [ex|].
    + apply in_exports_In. auto.
    + destruct (starts_underscore n); [discriminate|auto].
  - intros [[m Hin] Hrule]. apply in_map_iff. exists (n, m). split; auto.
    apply filter_In. split; auto. simpl. unfold wildcard_exposed.
    destruct (exports st) as [ex|].
    + apply in_exports_In. auto.
    + rewrite Hrule. destruct m; auto.
Qed.

(* CPython's rule, read off py_star_names *)
Lemma cpython_star_rule pm n :
  In n (py_star_names pm) <->
  match pall pm with
  | Some l => In n l
  | None => In n (map fst (pns pm)) /\ starts_underscore n = false
  end.
Proof.
  unfold py_star_names. destruct (pall pm) as [l|]; [tauto|].
  rewrite in_map_iff. split.
  - intros [[k v] [Hk Hin]]. simpl in Hk. subst k. apply filter_In in Hin. destruct Hin as [Hin Hp]. simpl in Hp.
    split; [apply in_map_iff; exists (n, v); auto|]. destruct (starts_underscore n); [discriminate|auto].
  - intros [Hin Hp]. apply in_map_iff in Hin. destruct Hin as [[k v] [Hk Hin]]. simpl in Hk. subst k.
    exists (n, v). split; auto. apply filter_In. split; auto. simpl. rewrite Hp. auto.
Qed.

(* The Griffe module and the runtime module bind the same names and have the same __all__ (all of whose names are bound,
   otherwise `import *` raises): then the wildcard import copies exactly the same names. *)
Theorem wildcard_exposes_what_cpython_copies st pm :
  submodules_imported st ->
  (forall n, (exists m, In (n, m) (members st)) <-> In n (map fst (pns pm))) ->
  exports st = option_map (map IStr) (pall pm) ->
  (forall l, pall pm = Some l -> forall n, In n l -> In n (map fst (pns pm))) ->
  forall n, In n (map fst (exposed_members st)) <-> In n (py_star_names pm).
Proof.
  intros Hsub Hnames Hex Hbound n.
  rewrite (wildcard_exposes_exactly st n Hsub), cpython_star_rule, Hex.
  destruct (pall pm) as [l|] eqn:Hp; simpl.
  - split.
    + intros [_ Hin]. apply in_map_iff in Hin. destruct Hin as [x [Hx Hin]]. inversion Hx; subst. auto.
    + intros Hin. split; [apply Hnames; eapply Hbound; eauto|]. apply in_map_iff. exists n. auto.
  - rewrite Hnames. tauto.
Qed.

(* finding F5 at the level of one module: a bound, public, un-imported submodule is not exposed *)
Lemma submodule_exposure_refuted :
  exists st n, In (n, MSub) (members st) /\ exports st = None /\ starts_underscore n = false /\
               ~ In n (map fst (exposed_members st)).
Proof.
  exists (mkSt [("f", MObj KFunc 1); ("m0", MSub)] ["f"] None), "m0". simpl. repeat split; auto.
  intros [H|H]; [discriminate|contradiction].
Qed.

(* ------------------------------------------------------------------------------------------------------------ *)
(* T2  later statements override earlier ones: the visitor + the line-number rule of expand_wildcards             *)
(*     (two phases: all explicit bindings first, then every wildcard) binds each name exactly as executing the    *)
(*     statements in order does                                                                                  *)
(* ------------------------------------------------------------------------------------------------------------ *)
Definition stmt_ln (s : stmt) : nat :=
  match s with
  | SDef ln _ _ | SFrom ln _ _ _ _ | SStar ln _ | SImport ln _ _ | SSetAll ln _ | SAddAll ln _ | SExtAll ln _ => ln
  end.

(* statements appear in strictly increasing line order (one statement per line) *)
Definition increasing (body : list stmt) : Prop :=
  forall l1 s1 l2 s2 l3, body = l1 ++ s1 :: l2 ++ s2 :: l3 -> stmt_ln s1 < stmt_ln s2.

Lemma increasing_snoc body s :
  increasing (body ++ [s]) -> increasing body /\ forall s', In s' body -> stmt_ln s' < stmt_ln s.
Proof.
  intros H. split.
  - intros l1 s1 l2 s2 l3 E. apply (H l1 s1 l2 s2 (l3 ++ [s])). rewrite E.
    rewrite <- app_assoc. simpl. f_equal. rewrite <- app_assoc. reflexivity.
  - intros s' Hin. apply in_split in Hin. destruct Hin as [l1 [l2 E]].
    apply (H l1 s' l2 s []). rewrite E. rewrite <- app_assoc. reflexivity.
Qed.

Section Override.
Variable mp : path.
Variable is_init : bool.
(* what each wildcard-imported module exposes (its wildcard-exposed members, in the full model) *)
Variable X : path -> list (string * member).
Hypothesis X_nodup : forall T, NoDup (map fst (X T)).

Definition entries_of (T : path) (ln : nat) : list expanded_entry :=
  map (fun nm => mkE (fst nm) (snd nm) (T ++ [fst nm]) ln) (X T).

Definition wrap (e : expanded_entry) : member := MWrap (e_src e) (e_member e) (e_ln e).

(* apply_one without the self-alias skip and without the submodule special case *)
Definition basic_apply_one (ms : list (string * member)) (e : expanded_entry) : list (string * member) :=
  match lookup (e_name e) ms with
  | None => assign (e_name e) (wrap e) ms
  | Some old => if Nat.ltb (member_lineno old) (e_ln e) then assign (e_name e) (wrap e) ms else ms
  end.

Definition stars_of (ms : list (string * member)) : list (path * nat) :=
  flat_map (fun nm => match snd nm with MAlias T ln true => [(T, ln)] | _ => [] end) ms.

(* Griffe: visit the whole body, then expand every wildcard pseudo-member *)
Definition two_phase (body : list stmt) : list (string * member) :=
  let ms0 := members (visit_body mp is_init body) in
  let ms1 := fold_left (fun ms n => remove_key n ms) (star_names_of ms0) ms0 in
  fold_left basic_apply_one (flat_map (fun Tl => entries_of (fst Tl) (snd Tl)) (stars_of ms0)) ms1.

(* execution order: a wildcard import binds its names at the point where it stands *)
Definition seq_stmt (ms : list (string * member)) (s : stmt) : list (string * member) :=
  match s with
  | SStar ln T => fold_left (fun ms e => assign (e_name e) (wrap e) ms) (entries_of T ln) ms
  | _ => members (visit_stmt mp is_init (mkSt ms [] None) s)
  end.
Definition sequential (body : list stmt) : list (string * member) := fold_left seq_stmt body [].

(* the member a statement binds in the visitor *)
Definition bind_of (s : stmt) : option (string * member) :=
  match s with
  | SDef ln n k => Some (n, MObj k ln)
  | SFrom ln tgt n asn bare =>
      if bare && is_init && (match asn with None => true | Some _ => false end) then None
      else let an := match asn with Some a => a | None => n end in
           if path_eqb (tgt ++ [n]) (mp ++ [an]) then None else Some (an, MAlias (tgt ++ [n]) ln false)
  | SStar ln tgt => Some (star_name tgt, MAlias tgt ln true)
  | SImport ln tgt asn => match asn with
                          | Some a => Some (a, MAlias tgt ln false)
                          | None => Some (hd "" tgt, MAlias [hd "" tgt] ln false)
                          end
  | SSetAll ln _ => Some ("__all__", MObj KAttr ln)
  | SAddAll _ _ | SExtAll _ _ => None
  end.

Lemma visit_members st s :
  members (visit_stmt mp is_init st s) =
  match bind_of s with Some (a, m) => assign a m (members st) | None => members st end.
Proof.
  destruct s; simpl; auto.
  - destruct (bare && is_init && match asn with None => true | Some _ => false end); auto.
    destruct (path_eqb (tgt ++ [n]) (mp ++ [match asn with Some a => a | None => n end])); auto.
  - destruct asn; auto.
  - destruct (exports st); auto.
  - destruct (exports st); auto.
Qed.

Lemma bind_of_lineno s a m : bind_of s = Some (a, m) -> member_lineno m = stmt_ln s.
Proof.
  destruct s; simpl; try discriminate; try (intros H; inversion H; subst; reflexivity).
  - destruct (bare && is_init && match asn with None => true | Some _ => false end); try discriminate.
    destruct (path_eqb _ _); try discriminate. intros H; inversion H; subst; reflexivity.
  - destruct asn; intros H; inversion H; subst; reflexivity.
Qed.

(* what statement s binds to the name n when executed *)
Definition binds (s : stmt) (n : string) : option member :=
  match s with
  | SStar ln T => match lookup n (X T) with Some m => Some (MWrap (T ++ [n]) m ln) | None => None end
  | _ => match bind_of s with
         | Some (a, v) => if String.eqb a n then Some v else None
         | None => None
         end
  end.

(* last statement binding n *)
Fixpoint winner_rev (n : string) (rbody : list stmt) : option member :=
  match rbody with
  | [] => None
  | s :: r => match binds s n with Some v => Some v | None => winner_rev n r end
  end.

(* ---- sequential execution = last binder ---- *)
Lemma fold_assign_lookup (f : string * member -> member) n (l : list (string * member)) :
  NoDup (map fst l) -> forall ms,
  lookup n (fold_left (fun ms nm => assign (fst nm) (f nm) ms) l ms) =
  match lookup n l with Some m => Some (f (n, m)) | None => lookup n ms end.
Proof.
  induction l as [|[k m] r IH]; intros Hnd ms; simpl; auto.
  inversion Hnd as [|? ? Hnotin Hnd']; subst. rewrite (IH Hnd').
  destruct (String.eqb k n) eqn:E.
  - apply String.eqb_eq in E. subst k.
    destruct (lookup n r) eqn:El.
    + exfalso. apply Hnotin. eapply lookup_In_fst; eauto.
    + apply lookup_assign_same.
  - destruct (lookup n r); auto. apply lookup_assign_other. intros Heq; subst. rewrite String.eqb_refl in E. discriminate.
Qed.

Lemma seq_stmt_lookup ms s n :
  lookup n (seq_stmt ms s) = match binds s n with Some v => Some v | None => lookup n ms end.
Proof.
  destruct s; try (unfold seq_stmt, binds; rewrite visit_members; simpl members;
                   destruct (bind_of _) as [[a v]|]; auto;
                   destruct (String.eqb a n) eqn:E;
                   [apply String.eqb_eq in E; subst; apply lookup_assign_same
                   |apply lookup_assign_other; intros Heq; subst; rewrite String.eqb_refl in E; discriminate]).
  (* SStar *)
  unfold seq_stmt, binds, entries_of.
  rewrite fold_left_map'. unfold wrap. simpl.
  rewrite (fold_assign_lookup (fun nm => MWrap (tgt ++ [fst nm]) (snd nm) ln) n (X tgt) (X_nodup tgt) ms).
  simpl. destruct (lookup n (X tgt)); auto.
Qed.

Lemma sequential_is_last_binder body n : lookup n (sequential body) = winner_rev n (rev body).
Proof.
  induction body as [|s body IH] using rev_ind; auto.
  unfold sequential. rewrite fold_left_app. simpl. rewrite seq_stmt_lookup. rewrite rev_app_distr. simpl.
  fold (sequential body). rewrite IH. reflexivity.
Qed.


(* ---- the two-phase computation, projected on one name ---- *)
Definition step (cur : option member) (c : member) : option member :=
  match cur with
  | None => Some c
  | Some old => if Nat.ltb (member_lineno old) (member_lineno c) then Some c else cur
  end.
Definition foldstep (cs : list member) (cur : option member) : option member := fold_left step cs cur.

Lemma basic_apply_lookup n es : forall ms,
  lookup n (fold_left basic_apply_one es ms) =
  foldstep (map wrap (filter (fun e => String.eqb (e_name e) n) es)) (lookup n ms).
Proof.
  induction es as [|e es IH]; intros ms; simpl; auto.
  rewrite IH. destruct (String.eqb (e_name e) n) eqn:E; simpl.
  - apply String.eqb_eq in E. f_equal. unfold basic_apply_one, step. rewrite E.
    destruct (lookup n ms) as [old|] eqn:El.
    + unfold wrap at 2. simpl. destruct (Nat.ltb (member_lineno old) (e_ln e)).
      * rewrite <- E. apply lookup_assign_same.
      * auto.
    + rewrite <- E. apply lookup_assign_same.
  - f_equal. unfold basic_apply_one.
    assert (Hne : e_name e <> n) by (intros Heq; rewrite Heq, String.eqb_refl in E; discriminate).
    destruct (lookup (e_name e) ms) as [old|].
    + destruct (Nat.ltb (member_lineno old) (e_ln e)); auto. apply lookup_assign_other. auto.
    + apply lookup_assign_other. auto.
Qed.

Lemma filter_entries n T ln :
  map wrap (filter (fun e => String.eqb (e_name e) n) (entries_of T ln)) =
  match lookup n (X T) with Some m => [MWrap (T ++ [n]) m ln] | None => [] end.
Proof.
  unfold entries_of. generalize (X_nodup T). induction (X T) as [|[k m] r IH]; intros Hnd; simpl; auto.
  inversion Hnd as [|? ? Hnotin Hnd']; subst.
  destruct (String.eqb k n) eqn:E; simpl.
  - apply String.eqb_eq in E. subst k. unfold wrap at 1. simpl. f_equal.
    rewrite (IH Hnd'). destruct (lookup n r) eqn:El; auto.
    exfalso. apply Hnotin. eapply lookup_In_fst; eauto.
  - apply IH. auto.
Qed.

(* the wildcard candidates for the name n, in dictionary order of the pseudo-members *)
Definition cands (n : string) (ms : list (string * member)) : list member :=
  flat_map (fun nm => match snd nm with
                      | MAlias T ln true => match lookup n (X T) with Some m => [MWrap (T ++ [n]) m ln] | None => [] end
                      | _ => []
                      end) ms.

Lemma filter_flat_map {A B} (p : B -> bool) (f : A -> list B) (l : list A) :
  filter p (flat_map f l) = flat_map (fun x => filter p (f x)) l.
Proof. induction l; simpl; auto. rewrite filter_app. f_equal. auto. Qed.

Lemma map_flat_map {A B C} (g : B -> C) (f : A -> list B) (l : list A) :
  map g (flat_map f l) = flat_map (fun x => map g (f x)) l.
Proof. induction l; simpl; auto. rewrite map_app. f_equal. auto. Qed.

Lemma cands_of_entries n ms :
  map wrap (filter (fun e => String.eqb (e_name e) n)
                   (flat_map (fun Tl => entries_of (fst Tl) (snd Tl)) (stars_of ms))) = cands n ms.
Proof.
  unfold stars_of, cands. induction ms as [|[k m] r IH]; simpl; auto.
  rewrite flat_map_app, filter_app, map_app, IH. f_equal.
  destruct m as [| |T ln [|]|]; simpl; auto.
  rewrite app_nil_r. apply filter_entries.
Qed.


(* ---- the dominant candidate ---- *)
Lemma foldstep_dom c : forall cs cur,
  (forall c', In c' cs -> c' = c \/ member_lineno c' < member_lineno c) ->
  (cur = Some c -> foldstep cs cur = Some c) /\
  ((cur = None \/ exists o, cur = Some o /\ member_lineno o < member_lineno c) -> In c cs -> foldstep cs cur = Some c).
Proof.
  induction cs as [|c' r IH]; intros cur Hall.
  - split; auto. intros _ [].
  - assert (Hr : forall x, In x r -> x = c \/ member_lineno x < member_lineno c) by (intros x Hx; apply Hall; right; auto).
    pose proof (fun cur => proj1 (IH cur Hr)) as IH1.
    pose proof (fun cur => proj2 (IH cur Hr)) as IH2.
    destruct (Hall c' (or_introl eq_refl)) as [Hc'|Hc'].
    + subst c'. split.
      * intros Hcur. subst cur. unfold foldstep. simpl. rewrite Nat.ltb_irrefl. apply IH1. reflexivity.
      * intros Hlow _. unfold foldstep. simpl.
        assert (Hs : step cur c = Some c).
        { destruct Hlow as [Hn|[o [Ho Hlt]]]; subst cur; simpl; auto.
          apply Nat.ltb_lt in Hlt. rewrite Hlt. auto. }
        rewrite Hs. apply IH1. reflexivity.
    + split.
      * intros Hcur. subst cur. unfold foldstep. simpl.
        assert (Hlt : Nat.ltb (member_lineno c) (member_lineno c') = false) by (apply Nat.ltb_ge; lia).
        rewrite Hlt. apply IH1. reflexivity.
      * intros Hlow Hin. destruct Hin as [Hin|Hin]; [subst c'; lia|].
        unfold foldstep. simpl. apply IH2; auto.
        destruct Hlow as [Hn|[o [Ho Hlt]]]; subst cur; simpl.
        -- right. exists c'. auto.
        -- right. destruct (Nat.ltb (member_lineno o) (member_lineno c')); [exists c'|exists o]; auto.
Qed.

(* ---- facts about the visited members ---- *)
Lemma In_assign {A} n (v : A) l k m : In (k, m) (assign n v l) -> (k = n /\ m = v) \/ In (k, m) l.
Proof.
  induction l as [|[k0 w] r IH]; simpl.
  - intros [H|[]]. inversion H. auto.
  - destruct (String.eqb k0 n) eqn:E; simpl; intros [H|H].
    + inversion H; subst. apply String.eqb_eq in E. subst. auto.
    + auto.
    + auto.
    + destruct (IH H); auto.
Qed.

Lemma In_assign_new {A} n (v : A) l : In (n, v) (assign n v l).
Proof.
  induction l as [|[k0 w] r IH]; simpl; auto.
  destruct (String.eqb k0 n) eqn:E; simpl; auto.
  apply String.eqb_eq in E. subst. auto.
Qed.

Lemma lookup_In {A} n (l : list (string * A)) v : lookup n l = Some v -> In (n, v) l.
Proof.
  induction l as [|[k w] r IH]; simpl; try discriminate.
  destruct (String.eqb k n) eqn:E; intros H.
  - inversion H; subst. apply String.eqb_eq in E. subst. auto.
  - auto.
Qed.

Definition from_body (body : list stmt) (ms : list (string * member)) : Prop :=
  forall k m, In (k, m) ms -> exists s, In s body /\ bind_of s = Some (k, m).

Lemma visit_body_snoc body s :
  visit_body mp is_init (body ++ [s]) = visit_stmt mp is_init (visit_body mp is_init body) s.
Proof. unfold visit_body. rewrite fold_left_app. reflexivity. Qed.

Lemma visit_from_body body : from_body body (members (visit_body mp is_init body)).
Proof.
  induction body as [|s body IH] using rev_ind.
  - intros k m [].
  - rewrite visit_body_snoc, visit_members. intros k m Hin.
    destruct (bind_of s) as [[a v]|] eqn:Eb.
    + apply In_assign in Hin. destruct Hin as [[Hk Hm]|Hin].
      * subst. exists s. split; auto. apply in_or_app. right. left. auto.
      * destruct (IH k m Hin) as [s' [Hs' Hb]]. exists s'. split; auto. apply in_or_app. auto.
    + destruct (IH k m Hin) as [s' [Hs' Hb]]. exists s'. split; auto. apply in_or_app. auto.
Qed.

Lemma bind_star_flag s k T ln : bind_of s = Some (k, MAlias T ln true) -> s = SStar ln T /\ k = star_name T.
Proof.
  destruct s; simpl; try discriminate.
  - destruct (bare && is_init && match asn with None => true | Some _ => false end); try discriminate.
    destruct (path_eqb _ _); discriminate.
  - intros H. inversion H; subst. auto.
  - destruct asn; discriminate.
Qed.

Definition is_star_name (n : string) : Prop := exists T, n = star_name T.
Definition star_flagged (m : member) : bool := match m with MAlias _ _ true => true | _ => false end.

Record body_ok (body : list stmt) : Prop := mkOk {
  ok_inc : increasing body;
  (* explicit bindings never use the name of a wildcard pseudo-member (`a/b/*`) *)
  ok_user : forall s a v, In s body -> star_flagged v = false -> bind_of s = Some (a, v) -> ~ is_star_name a;
  (* distinct wildcard targets have distinct pseudo-member names (no "/" inside a module name) *)
  ok_inj : forall ln1 T1 ln2 T2, In (SStar ln1 T1) body -> In (SStar ln2 T2) body -> star_name T1 = star_name T2 -> T1 = T2
}.

Lemma body_ok_snoc body s : body_ok (body ++ [s]) -> body_ok body.
Proof.
  intros [Hi Hu Hj]. split.
  - apply (increasing_snoc body s Hi).
  - intros s' a v Hin. apply Hu. apply in_or_app. auto.
  - intros ln1 T1 ln2 T2 H1 H2. apply (Hj ln1 T1 ln2 T2); apply in_or_app; auto.
Qed.

Lemma cands_assign_nonstar n a v ms :
  star_flagged v = false -> (forall old, lookup a ms = Some old -> star_flagged old = false) ->
  cands n (assign a v ms) = cands n ms.
Proof.
  intros Hv. induction ms as [|[k w] r IH]; intros Hold; simpl.
  - destruct v as [| |T ln [|]|]; simpl in *; try discriminate; auto.
  - simpl in Hold. destruct (String.eqb k a) eqn:E; simpl.
    + specialize (Hold w eq_refl).
      destruct v as [| |T ln [|]|]; simpl in *; try discriminate;
      destruct w as [| |T' ln' [|]|]; simpl in *; try discriminate; auto.
    + f_equal. apply IH. auto.
Qed.

Lemma cands_assign_star_none n T ln ms :
  lookup n (X T) = None ->
  (forall old, lookup (star_name T) ms = Some old -> exists ln0, old = MAlias T ln0 true) ->
  cands n (assign (star_name T) (MAlias T ln true) ms) = cands n ms.
Proof.
  intros Hx. induction ms as [|[k w] r IH]; intros Hold; simpl.
  - rewrite Hx. auto.
  - simpl in Hold. destruct (String.eqb k (star_name T)) eqn:E; simpl.
    + destruct (Hold w eq_refl) as [ln0 Hw]. subst w. simpl. rewrite Hx. auto.
    + f_equal. apply IH. auto.
Qed.

Lemma In_cands n ms c :
  In c (cands n ms) -> exists k T ln m, In (k, MAlias T ln true) ms /\ lookup n (X T) = Some m /\ c = MWrap (T ++ [n]) m ln.
Proof.
  unfold cands. intros H. apply in_flat_map in H. destruct H as [[k w] [Hin Hc]]. simpl in Hc.
  destruct w as [| |T ln [|]|]; simpl in Hc; try contradiction.
  destruct (lookup n (X T)) as [m|] eqn:El; simpl in Hc; try contradiction.
  destruct Hc as [Hc|[]]. subst c. exists k, T, ln, m. auto.
Qed.

Lemma remove_keys_lookup n ks : forall (ms : list (string * member)),
  (forall k, In k ks -> k <> n) -> lookup n (fold_left (fun ms k => remove_key k ms) ks ms) = lookup n ms.
Proof.
  induction ks as [|k ks IH]; intros ms Hne; simpl; auto.
  rewrite IH; [|intros k' Hk'; apply Hne; right; auto].
  apply lookup_remove_other. apply Hne. left. auto.
Qed.

(* ---- the two-phase computation = last binder ---- *)
Lemma visited_lineno_bound body s k m :
  increasing (body ++ [s]) -> In (k, m) (members (visit_body mp is_init body)) -> member_lineno m < stmt_ln s.
Proof.
  intros Hinc Hin. destruct (visit_from_body body k m Hin) as [s' [Hs' Hb]].
  rewrite (bind_of_lineno s' k m Hb). apply (increasing_snoc body s Hinc). auto.
Qed.

Lemma two_phase_core body n :
  body_ok body -> ~ is_star_name n ->
  foldstep (cands n (members (visit_body mp is_init body))) (lookup n (members (visit_body mp is_init body)))
  = winner_rev n (rev body).
Proof.
  induction body as [|s body IH] using rev_ind; intros Hok Hn; auto.
  pose proof (body_ok_snoc body s Hok) as Hok'. specialize (IH Hok' Hn).
  destruct Hok as [Hinc Huser Hinj].
  rewrite rev_app_distr. simpl. rewrite visit_body_snoc, visit_members.
  set (ms0 := members (visit_body mp is_init body)) in *.
  assert (Hs_in : In s (body ++ [s])) by (apply in_or_app; right; left; auto).
  destruct (bind_of s) as [[a v]|] eqn:Eb.
  2:{ (* nothing bound *)
      assert (Hb : binds s n = None).
      { unfold binds. destruct s; try (rewrite Eb; reflexivity). simpl in Eb. discriminate. }
      rewrite Hb. exact IH. }
  destruct (star_flagged v) eqn:Ev.
  - (* a wildcard import *)
    destruct v as [| |T ln [|]|]; simpl in Ev; try discriminate.
    destruct (bind_star_flag s a T ln Eb) as [Hs Ha]. subst s a.
    assert (Hna : star_name T <> n) by (intros Heq; apply Hn; exists T; auto).
    rewrite (lookup_assign_other (star_name T) n _ ms0 Hna).
    unfold binds. destruct (lookup n (X T)) as [m|] eqn:Ex.
    + (* the new candidate dominates *)
      set (c := MWrap (T ++ [n]) m ln).
      assert (Hall : forall c', In c' (cands n (assign (star_name T) (MAlias T ln true) ms0)) ->
                                c' = c \/ member_lineno c' < member_lineno c).
      { intros c' Hc'. destruct (In_cands n _ c' Hc') as [k [T' [ln' [m' [Hin [Hx' Hceq]]]]]].
        apply In_assign in Hin. destruct Hin as [[Hk Hm]|Hin].
        - inversion Hm; subst. left. unfold c. rewrite Hx' in Ex. inversion Ex; subst. reflexivity.
        - right. subst c'. simpl.
          pose proof (visited_lineno_bound body (SStar ln T) k (MAlias T' ln' true) Hinc Hin) as Hlt. simpl in Hlt. exact Hlt. }
      apply (proj2 (foldstep_dom c _ (lookup n ms0) Hall)).
      * destruct (lookup n ms0) as [o|] eqn:Eo; auto. right. exists o. split; auto.
        apply lookup_In in Eo.
        pose proof (visited_lineno_bound body (SStar ln T) n o Hinc Eo) as Hlt. simpl in Hlt. exact Hlt.
      * unfold cands. apply in_flat_map. exists (star_name T, MAlias T ln true). split; [apply In_assign_new|].
        simpl. rewrite Ex. left. reflexivity.
    + (* the wildcard does not expose n: nothing changes for n *)
      rewrite cands_assign_star_none; auto.
      intros old Hold. apply lookup_In in Hold.
      destruct (visit_from_body body _ _ Hold) as [s' [Hs' Hb']].
      destruct (star_flagged old) eqn:Eold.
      * destruct old as [| |T0 ln0 [|]|]; simpl in Eold; try discriminate.
        destruct (bind_star_flag s' _ T0 ln0 Hb') as [Hs'eq Hk]. subst s'.
        assert (T0 = T).
        { apply (Hinj ln0 T0 ln T); auto. apply in_or_app. auto. }
        subst T0. eauto.
      * exfalso. apply (Huser s' (star_name T) old); auto. apply in_or_app; auto. exists T. auto.
  - (* an explicit binding *)
    assert (Hold : forall old, lookup a ms0 = Some old -> star_flagged old = false).
    { intros old Hold. apply lookup_In in Hold.
      destruct (visit_from_body body _ _ Hold) as [s' [Hs' Hb']].
      destruct (star_flagged old) eqn:Eold; auto.
      destruct old as [| |T0 ln0 [|]|]; simpl in Eold; try discriminate.
      destruct (bind_star_flag s' _ T0 ln0 Hb') as [_ Hk].
      exfalso. apply (Huser s a v Hs_in Ev Eb). exists T0. auto. }
    rewrite (cands_assign_nonstar n a v ms0 Ev Hold).
    assert (Hbinds : binds s n = if String.eqb a n then Some v else None).
    { unfold binds. destruct s; rewrite ?Eb; auto.
      simpl in Eb. inversion Eb; subst. simpl in Ev. discriminate. }
    rewrite Hbinds. destruct (String.eqb a n) eqn:Ean.
    + apply String.eqb_eq in Ean. subst a. rewrite lookup_assign_same.
      assert (Hall : forall c', In c' (cands n ms0) -> c' = v \/ member_lineno c' < member_lineno v);
        [|apply (proj1 (foldstep_dom v (cands n ms0) (Some v) Hall)); reflexivity].
      intros c' Hc'. right. destruct (In_cands n _ c' Hc') as [k [T' [ln' [m' [Hin [Hx' Hceq]]]]]]. subst c'. simpl.
      pose proof (visited_lineno_bound body s k (MAlias T' ln' true) Hinc Hin) as Hlt. simpl in Hlt.
      rewrite (bind_of_lineno s n v Eb). exact Hlt.
    + rewrite lookup_assign_other; auto. intros Heq. subst. rewrite String.eqb_refl in Ean. discriminate.
Qed.

Theorem later_statement_overrides body n :
  body_ok body -> ~ is_star_name n ->
  lookup n (two_phase body) = lookup n (sequential body).
Proof.
  intros Hok Hn. rewrite sequential_is_last_binder. rewrite <- (two_phase_core body n Hok Hn).
  unfold two_phase. rewrite basic_apply_lookup, cands_of_entries. f_equal.
  apply remove_keys_lookup. intros k Hk Heq. subst k.
  unfold star_names_of in Hk. apply in_flat_map in Hk. destruct Hk as [[k w] [Hin Hk]]. simpl in Hk.
  destruct w as [| |T ln [|]|]; simpl in Hk; try contradiction. destruct Hk as [Hk|[]]. subst k.
  destruct (visit_from_body body _ _ Hin) as [s' [Hs' Hb']].
  destruct (bind_star_flag s' _ T ln Hb') as [_ Hk]. apply Hn. exists T. auto.
Qed.

End Override.

(* ------------------------------------------------------------------------------------------------------------ *)
(* apply_one vs the rule proved above; the submodule special case                                                *)
(* ------------------------------------------------------------------------------------------------------------ *)
Lemma apply_one_is_basic fuel t top mp ms e :
  is_alias (e_member e) && path_eqb (alias_target_path (e_member e)) (mp ++ [e_name e]) = false ->
  (forall old, lookup (e_name e) ms = Some old ->
               forall q, final fuel (set_mod t mp (mkSt ms [] None)) top old (mp ++ [e_name e]) <> FMod q) ->
  apply_one fuel t top mp ms e = basic_apply_one ms e.
Proof.
  intros Hself Hnomod. unfold apply_one, basic_apply_one, wrap. rewrite Hself.
  destruct (lookup (e_name e) ms) as [old|] eqn:El; auto.
  simpl. destruct (Nat.ltb (member_lineno old) (e_ln e)); auto.
  destruct (final fuel (set_mod t mp (mkSt ms [] None)) top old (mp ++ [e_name e])) eqn:Ef; auto.
  exfalso. eapply Hnomod; eauto.
Qed.

(* the submodule special case: the overwrite is skipped exactly when the alias that would be created resolves to the very
   module the existing member already resolves to; a kept alias takes the line of the wildcard import that rebinds it *)
Lemma special_case_condition fuel t top mp ms e old q :
  lookup (e_name e) ms = Some old ->
  is_alias (e_member e) && path_eqb (alias_target_path (e_member e)) (mp ++ [e_name e]) = false ->
  Nat.ltb (member_lineno old) (e_ln e) = true ->
  final fuel (set_mod t mp (mkSt ms [] None)) top old (mp ++ [e_name e]) = FMod q ->
  apply_one fuel t top mp ms e =
  if fres_eqb (final fuel (set_mod t mp (mkSt ms [] None)) top (wrap e) (mp ++ [e_name e])) (FMod q)
  then (if is_alias old then assign (e_name e) (relineno old (e_ln e)) ms else ms)
  else assign (e_name e) (wrap e) ms.
Proof.
  intros El Hself Hlt Hf. unfold apply_one. rewrite Hself, El, Hlt. simpl. rewrite Hf. reflexivity.
Qed.

(* ------------------------------------------------------------------------------------------------------------ *)
(* T5  a resolved alias presents its target's members with their paths rebased under the alias                   *)
(* ------------------------------------------------------------------------------------------------------------ *)
Fixpoint otree_size (o : otree) : nat :=
  match o with ONode _ _ cs => S (fold_right (fun c a => otree_size c + a) 0 cs) end.

Lemma rebase_self tp ap : rebase tp ap tp = ap.
Proof. unfold rebase. rewrite skipn_all. apply app_nil_r. Qed.

Lemma rebase_app tp ap x : rebase tp ap (tp ++ x) = ap ++ x.
Proof. unfold rebase. rewrite skipn_app, skipn_all, Nat.sub_diag. reflexivity. Qed.

Lemma alias_paths_rebase_aux : forall n o, otree_size o <= n -> forall tp ap sfx,
  alias_paths (ap ++ sfx) o = map (fun pk => (rebase tp ap (fst pk), snd pk)) (paths_under (tp ++ sfx) o).
Proof.
  induction n as [|n IH]; intros [nm k cs] Hsz tp ap sfx; simpl in Hsz; [lia|].
  simpl. rewrite rebase_app. f_equal.
  rewrite map_flat_map.
  assert (Hcs : forall c, In c cs -> otree_size c <= n).
  { clear -Hsz. induction cs as [|c cs IHc]; intros c' [].
    - subst. simpl in Hsz. lia.
    - apply IHc; auto. simpl in Hsz. lia. }
  clear Hsz. induction cs as [|c cs IHc]; simpl; auto.
  f_equal.
  - rewrite <- !app_assoc. apply IH. apply Hcs. left. auto.
  - apply IHc. intros c' Hc'. apply Hcs. right. auto.
Qed.

(* every object reachable through the alias: same kind, path = alias path + the same suffix it has under the target *)
Theorem alias_presents_target tp ap o :
  alias_paths ap o = map (fun pk => (rebase tp ap (fst pk), snd pk)) (paths_under tp o).
Proof.
  pose proof (alias_paths_rebase_aux (otree_size o) o (le_n _) tp ap []) as H.
  rewrite !app_nil_r in H. exact H.
Qed.

Corollary alias_presents_same_kinds tp ap o :
  map snd (alias_paths ap o) = map snd (paths_under tp o).
Proof. rewrite (alias_presents_target tp ap o), map_map. reflexivity. Qed.

Corollary alias_paths_under_alias tp ap o p k :
  In (p, k) (alias_paths ap o) -> exists sfx, p = ap ++ sfx /\ In (tp ++ sfx, k) (paths_under tp o).
Proof.
  revert tp ap. 
  assert (H : forall n o, otree_size o <= n -> forall tp ap, In (p, k) (alias_paths ap o) ->
                exists sfx, p = ap ++ sfx /\ In (tp ++ sfx, k) (paths_under tp o)).
  { induction n as [|n IH]; intros [nm kk cs] Hsz tp ap Hin; simpl in Hsz; [lia|].
    simpl in Hin. destruct Hin as [Hin|Hin].
    - inversion Hin; subst. exists []. rewrite !app_nil_r. split; auto. simpl. auto.
    - apply in_flat_map in Hin. destruct Hin as [c [Hc Hin]].
      assert (Hcsz : otree_size c <= n).
      { clear -Hsz Hc. induction cs as [|c0 cs IHc]; [contradiction|]. destruct Hc.
        - subst. simpl in Hsz. lia.
        - apply IHc; auto. simpl in Hsz. lia. }
      destruct (IH c Hcsz (tp ++ [oname c]) (ap ++ [oname c]) Hin) as [sfx [Hp Hin']].
      exists (oname c :: sfx). split.
      + rewrite Hp, <- app_assoc. reflexivity.
      + simpl. right. apply in_flat_map. exists c. split; auto.
        rewrite <- app_assoc in Hin'. exact Hin'. }
  intros tp ap. apply (H (otree_size o) o (le_n _)).
Qed.

(* ------------------------------------------------------------------------------------------------------------ *)
(* The full property is false of the faithful model: witnesses (each also replayed on the implementation)        *)
(* ------------------------------------------------------------------------------------------------------------ *)
Definition loaded_table (r : outcome loaded) : table := match r with Done l => l_table l | _ => [] end.
Definition py_table (r : pyres pytable) : pytable := match r with POk t => t | PErr _ => [] end.
Definition is_ok {A} (r : pyres A) : bool := match r with POk _ => true | PErr _ => false end.

(* former finding F1 (repaired): a package without __all__ no longer hides its submodules from expand_exports *)
Definition w1 : list modsrc :=
  [mkSrc ["wf1"] true ["a"; "b"] [SStar 1 ["wf1"; "b"]];
   mkSrc ["wf1"; "a"] false [] [SSetAll 1 [IStr "fa"]; SDef 2 "fa" KFunc; SDef 4 "ga" KFunc];
   mkSrc ["wf1"; "b"] false [] [SFrom 1 ["wf1"] "a" None false; SStar 2 ["wf1"; "a"];
                                SSetAll 3 [IRef "a" true; IStr "fb"]; SDef 4 "fb" KFunc]].
Definition o1 : list path := [["wf1"; "a"]; ["wf1"; "b"]; ["wf1"]].

Example exports_early_return_repaired :
  is_ok (py_import w1 o1 []) = true /\
  agreeb "wf1" (loaded_table (griffe_load "wf1" w1)) (py_table (py_import w1 o1 [])) = true.
Proof. split; vm_compute; reflexivity. Qed.

(* former finding F2 (repaired): __all__ assembled from the __all__ of a module reached through a re-exported module alias crashes the load *)
Definition w2 : list modsrc :=
  [mkSrc ["wf2"] true ["m0"; "m1"; "m2"] [SSetAll 1 []];
   mkSrc ["wf2"; "m0"] false [] [SSetAll 1 [IStr "f"]; SDef 2 "f" KFunc];
   mkSrc ["wf2"; "m1"] false [] [SFrom 1 ["wf2"] "m0" (Some "x") false];
   mkSrc ["wf2"; "m2"] false [] [SFrom 1 ["wf2"; "m1"] "x" None false; SStar 2 ["wf2"; "m0"];
                                 SSetAll 3 [IRef "x" true; IStr "g"]; SDef 4 "g" KFunc]].
Definition o2 : list path := [["wf2"]; ["wf2"; "m0"]; ["wf2"; "m1"]; ["wf2"; "m2"]].

Example alias_module_all_repaired :
  is_ok (py_import w2 o2 []) = true /\
  agreeb "wf2" (loaded_table (griffe_load "wf2" w2)) (py_table (py_import w2 o2 [])) = true.
Proof. split; vm_compute; reflexivity. Qed.

(* F3: a submodule wildcard-imports its package while the package's own wildcard expansion is pending *)
Definition w3 : list modsrc :=
  [mkSrc ["wf3"] true ["m0"; "m1"] [SStar 1 ["wf3"; "m0"]; SSetAll 2 [IStr "f"]];
   mkSrc ["wf3"; "m0"] false [] [SDef 1 "f" KFunc];
   mkSrc ["wf3"; "m1"] false [] [SStar 1 ["wf3"]]].
Definition o3 : list path := [["wf3"; "m0"]; ["wf3"]; ["wf3"; "m1"]].

Lemma pending_package_read_refuted :
  exists top ms order,
    is_ok (py_import ms order []) = true /\
    (exists l, griffe_load top ms = Done l /\ l_pending l <> [] /\ l_dropped l = []) /\
    agreeb top (loaded_table (griffe_load top ms)) (py_table (py_import ms order [])) = false /\
    agreeb top (griffe_sched top ms order) (py_table (py_import ms order [])) = true.
Proof.
  exists "wf3", w3, o3. split; [vm_compute; reflexivity|]. split.
  - eexists. split; [vm_compute; reflexivity|]. split; [|split]; vm_compute; congruence.
  - split; vm_compute; reflexivity.
Qed.

(* F4: two statements on one line *)
Definition w4 : list modsrc :=
  [mkSrc ["wf4"] true ["a"; "b"; "c"] [];
   mkSrc ["wf4"; "a"] false [] [SDef 1 "f" KFunc];
   mkSrc ["wf4"; "b"] false [] [SDef 1 "f" KFunc];
   mkSrc ["wf4"; "c"] false [] [SStar 1 ["wf4"; "a"]; SStar 1 ["wf4"; "b"]]].
Definition o4 : list path := [["wf4"]; ["wf4"; "a"]; ["wf4"; "b"]; ["wf4"; "c"]].

Lemma same_line_refuted :
  exists top ms order,
    is_ok (py_import ms order []) = true /\
    agreeb top (loaded_table (griffe_load top ms)) (py_table (py_import ms order [])) = false /\
    agreeb top (griffe_sched top ms order) (py_table (py_import ms order [])) = false /\
    (exists m, In m ms /\ ~ increasing (ms_body m)).
Proof.
  exists "wf4", w4, o4. split; [vm_compute; reflexivity|]. split; [vm_compute; reflexivity|]. split; [vm_compute; reflexivity|].
  exists (mkSrc ["wf4"; "c"] false [] [SStar 1 ["wf4"; "a"]; SStar 1 ["wf4"; "b"]]). split.
  - simpl. auto 10.
  - intros H. specialize (H [] (SStar 1 ["wf4"; "a"]) [] (SStar 1 ["wf4"; "b"]) [] eq_refl). simpl in H. lia.
Qed.

(* former finding F6 (repaired): __all__.extend(...) is part of the exports *)
Definition w6 : list modsrc :=
  [mkSrc ["wf6"] true ["a"; "d"; "e"] [];
   mkSrc ["wf6"; "a"] false [] [SDef 1 "f" KFunc];
   mkSrc ["wf6"; "d"] false [] [SStar 1 ["wf6"; "a"]; SSetAll 2 [IStr "g"]; SExtAll 3 [IStr "f"]; SDef 4 "g" KFunc];
   mkSrc ["wf6"; "e"] false [] [SStar 1 ["wf6"; "d"]]].
Definition o6 : list path := [["wf6"]; ["wf6"; "a"]; ["wf6"; "d"]; ["wf6"; "e"]].

Example extend_repaired :
  is_ok (py_import w6 o6 []) = true /\
  agreeb "wf6" (loaded_table (griffe_load "wf6" w6)) (py_table (py_import w6 o6 [])) = true /\
  agreeb "wf6" (griffe_sched "wf6" w6 o6) (py_table (py_import w6 o6 [])) = true.
Proof. repeat split; vm_compute; reflexivity. Qed.

(* F7: an alias member replaced by a wildcard expansion is the target of another alias: whoever resolved it before the
   replacement keeps the stale target.  The model cannot tell when the implementation resolves; it reports both. *)
Definition w7 : list modsrc :=
  [mkSrc ["wf7"] true ["a"; "b"; "c"; "d"] [SSetAll 1 []];
   mkSrc ["wf7"; "a"] false [] [SDef 1 "f" KFunc];
   mkSrc ["wf7"; "b"] false [] [SDef 1 "f" KFunc];
   mkSrc ["wf7"; "c"] false [] [SFrom 1 ["wf7"; "a"] "f" None false; SStar 2 ["wf7"; "b"]];
   mkSrc ["wf7"; "d"] false [] [SFrom 1 ["wf7"; "c"] "f" None false; SSetAll 2 [IStr "f"]]].
Definition o7 : list path := [["wf7"]; ["wf7"; "a"]; ["wf7"; "b"]; ["wf7"; "c"]; ["wf7"; "d"]].

Lemma stale_alias_refuted :
  exists top ms order l,
    is_ok (py_import ms order []) = true /\ griffe_load top ms = Done l /\ l_replaced l <> [] /\
    agreeb top (l_table l) (py_table (py_import ms order [])) = true /\
    finals 100 (l_table l) top (l_replaced l) (MAlias ["wf7"; "c"; "f"] 1 false) ["wf7"; "d"; "f"]
    = [FObj KFunc ["wf7"; "b"; "f"]; FObj KFunc ["wf7"; "a"; "f"]].
Proof.
  exists "wf7", w7, o7. eexists. split; [vm_compute; reflexivity|]. split; [vm_compute; reflexivity|].
  split; [vm_compute; congruence|]. split; vm_compute; reflexivity.
Qed.

(* F8: the source of an __all__ is named through a module that only obtains that name by a wildcard import *)
Definition w8 : list modsrc :=
  [mkSrc ["wf8"] true ["m0"; "m1"; "m2"; "m3"] [SSetAll 1 []];
   mkSrc ["wf8"; "m0"] false [] [SSetAll 1 [IStr "f"]; SDef 2 "f" KFunc];
   mkSrc ["wf8"; "m1"] false [] [SFrom 1 ["wf8"] "m0" None false];
   mkSrc ["wf8"; "m2"] false [] [SStar 1 ["wf8"; "m1"]];
   mkSrc ["wf8"; "m3"] false [] [SStar 1 ["wf8"; "m0"]; SFrom 2 ["wf8"; "m2"] "m0" (Some "w0") false;
                                 SSetAll 3 [IRef "w0" true; IStr "m0"]]].
Definition o8 : list path := [["wf8"]; ["wf8"; "m0"]; ["wf8"; "m1"]; ["wf8"; "m2"]; ["wf8"; "m3"]].

Lemma dropped_export_source_refuted :
  exists top ms order,
    is_ok (py_import ms order []) = true /\
    (exists l, griffe_load top ms = Done l /\ l_dropped l <> [] /\ l_pending l = []) /\
    agreeb top (loaded_table (griffe_load top ms)) (py_table (py_import ms order [])) = false /\
    agreeb top (griffe_sched top ms order) (py_table (py_import ms order [])) = true.
Proof.
  exists "wf8", w8, o8. split; [vm_compute; reflexivity|]. split.
  - eexists. split; [vm_compute; reflexivity|]. split; [|split]; vm_compute; congruence.
  - split; vm_compute; reflexivity.
Qed.

(* non-vacuity: a program using every statement form on which the real traversal, the schedule and CPython agree *)
Definition w0 : list modsrc :=
  [mkSrc ["h"] true ["m0"; "m1"; "m2"] [SSetAll 1 [IStr "K"; IStr "z"]; SStar 2 ["h"; "m2"]; SFrom 3 ["h"; "m2"] "f" (Some "z") false];
   mkSrc ["h"; "m0"] false [] [SSetAll 1 [IStr "f"; IStr "g"]; SDef 2 "f" KFunc; SDef 4 "_p" KFunc; SDef 6 "g" KFunc];
   mkSrc ["h"; "m1"] false [] [SDef 1 "f" KFunc; SStar 3 ["h"; "m0"]; SFrom 4 ["h"; "m0"] "g" (Some "h") false; SDef 5 "K" KClass];
   mkSrc ["h"; "m2"] false [] [SImport 1 ["h"; "m1"] (Some "w0"); SStar 2 ["h"; "m1"]; SFrom 3 ["h"; "m0"] "__all__" (Some "a0") false;
                               SSetAll 4 [IRef "a0" false; IStr "K"]; SAddAll 5 [IStr "h"]; SDef 6 "K" KClass]].
Definition o0 : list path := [["h"; "m0"]; ["h"; "m1"]; ["h"; "m2"]; ["h"]].

Example agreement_is_satisfiable :
  is_ok (py_import w0 o0 []) = true /\
  agreeb "h" (loaded_table (griffe_load "h" w0)) (py_table (py_import w0 o0 [])) = true /\
  agreeb "h" (griffe_sched "h" w0 o0) (py_table (py_import w0 o0 [])) = true /\
  (forall m, In m w0 -> increasing (ms_body m) -> True).
Proof. repeat split; vm_compute; reflexivity. Qed.

(* ------------------------------------------------------------------------------------------------------------ *)
(* T4  exports expansion: __all__ assembled from other modules' __all__                                          *)
(* ------------------------------------------------------------------------------------------------------------ *)
Definition expand_with (src : string -> bool -> option (list item)) (ex : list item) (acc0 : list item) : list item :=
  fold_left (fun acc it => match it with
                           | IStr x => acc ++ [IStr x]
                           | IRef l a => match src l a with Some l' => merge_exports acc l' | None => acc end
                           end) ex acc0.

Definition sched_src (fuel : nat) (t : table) (top : string) (mp : path) (st : modst) (l : string) (a : bool) : option (list item) :=
  let from_module := fun q0 => match list_owner fuel t top q0 (ref_list_name mp st l a) with
                               | Some q => match get_mod t q with Some stq => exports stq | None => None end
                               | None => None
                               end in
  match ref_module_path mp st l a with
  | Some p => match lookup_path t top p with
              | LMod q => from_module q
              | LMem amp an am => match final fuel t top am (amp ++ [an]) with FMod q => from_module q | _ => None end
              | _ => None
              end
  | None => None
  end.

Lemma fold_left_ext' {A B} (f g : A -> B -> A) : (forall a x, f a x = g a x) -> forall l a, fold_left f l a = fold_left g l a.
Proof. intros H. induction l; intros a0; simpl; auto. rewrite H. auto. Qed.

Lemma sched_exports_items_expand fuel t top mp st ex :
  sched_exports_items fuel t top mp st ex = expand_with (sched_src fuel t top mp st) ex [].
Proof.
  unfold sched_exports_items, expand_with. apply fold_left_ext'.
  intros acc [x|l a]; auto.
  unfold sched_src. destruct (ref_module_path mp st l a) as [p|]; auto.
  destruct (lookup_path t top p) as [q|amp an am| |]; auto.
  - destruct (list_owner fuel t top q (ref_list_name mp st l a)) as [q1|]; auto. destruct (get_mod t q1) as [stq|]; auto.
  - destruct (final fuel t top am (amp ++ [an])) as [k p'|q|]; auto.
    destruct (list_owner fuel t top q (ref_list_name mp st l a)) as [q1|]; auto. destruct (get_mod t q1) as [stq|]; auto.
Qed.

Lemma mem_item_str x acc : mem_item (IStr x) acc = true <-> In (IStr x) acc.
Proof.
  unfold mem_item. rewrite existsb_exists. split.
  - intros [[y|l a] [Hin He]]; simpl in He; try discriminate. apply String.eqb_eq in He. subst. auto.
  - intros H. exists (IStr x). split; auto. simpl. apply String.eqb_refl.
Qed.

Lemma In_merge_str x acc l : In (IStr x) (merge_exports acc l) <-> In (IStr x) acc \/ In (IStr x) l.
Proof.
  unfold merge_exports. rewrite in_app_iff, filter_In. split.
  - intros [H|[H _]]; auto.
  - intros [H|H]; auto. destruct (mem_item (IStr x) acc) eqn:E.
    + left. apply mem_item_str. auto.
    + right. split; auto.
Qed.

Definition only_strings (l : list item) : Prop := forall r a, ~ In (IRef r a) l.

Lemma merge_only_strings acc l : only_strings acc -> only_strings l -> only_strings (merge_exports acc l).
Proof.
  intros Ha Hl r a Hin. unfold merge_exports in Hin. apply in_app_or in Hin. destruct Hin as [H|H].
  - eapply Ha; eauto.
  - apply filter_In in H. eapply Hl. apply H.
Qed.

(* the list CPython builds for the same items, given what each foreign __all__ evaluates to *)
Fixpoint py_items (psrc : string -> bool -> option (list string)) (its : list item) : option (list string) :=
  match its with
  | [] => Some []
  | IStr s :: r => option_map (cons s) (py_items psrc r)
  | IRef l a :: r => match psrc l a, py_items psrc r with
                     | Some names, Some l' => Some (names ++ l')
                     | _, _ => None
                     end
  end.

Definition py_src (t : pytable) (ns : list (string * value)) (l : string) (a : bool) : option (list string) :=
  match lookup l ns with
  | Some (VMod T) => if a then match get_py t T with Some pm => pall pm | None => None end else None
  | Some (VAll T) => if a then None else match get_py t T with Some pm => pall pm | None => None end
  | _ => None
  end.

Lemma py_eval_items_is_py_items t ns its l :
  py_eval_items t ns its = POk l -> py_items (py_src t ns) its = Some l.
Proof.
  revert l. induction its as [|[s|r a] its IH]; intros l; simpl.
  - intros H. inversion H. auto.
  - destruct (py_eval_items t ns its) as [l'|e]; intros H; inversion H; subst. rewrite (IH l' eq_refl). auto.
  - unfold py_src at 1. destruct (lookup r ns) as [[k p|T|T]|]; try discriminate.
    + destruct a; try discriminate. destruct (get_py t T) as [pm|]; try discriminate.
      destruct (pall pm) as [names|]; try discriminate.
      destruct (py_eval_items t ns its) as [l'|e]; intros H; inversion H; subst. rewrite (IH l' eq_refl). auto.
    + destruct a; try discriminate. destruct (get_py t T) as [pm|]; try discriminate.
      destruct (pall pm) as [names|]; try discriminate.
      destruct (py_eval_items t ns its) as [l'|e]; intros H; inversion H; subst. rewrite (IH l' eq_refl). auto.
Qed.

(* whenever each foreign source expands (on the Griffe side) to strings naming exactly what CPython's list holds, the expanded
   exports name exactly what CPython's assembled __all__ holds: in any mix and order of strings and foreign lists *)
Theorem exports_expansion src psrc its :
  (forall l a names, psrc l a = Some names ->
     exists l', src l a = Some l' /\ only_strings l' /\ forall x, In (IStr x) l' <-> In x names) ->
  forall acc pyl, py_items psrc its = Some pyl -> only_strings acc ->
  only_strings (expand_with src its acc) /\
  forall x, In (IStr x) (expand_with src its acc) <-> In (IStr x) acc \/ In x pyl.
Proof.
  intros Hsrc. induction its as [|[s|r a] its IH]; intros acc pyl Hpy Hacc; simpl in *.
  - inversion Hpy; subst. split; auto. intros x. simpl. tauto.
  - destruct (py_items psrc its) as [l'|] eqn:E; simpl in Hpy; inversion Hpy; subst.
    assert (Hacc' : only_strings (acc ++ [IStr s])).
    { intros r a Hin. apply in_app_or in Hin. destruct Hin as [H|[H|[]]]; [eapply Hacc; eauto|discriminate]. }
    destruct (IH (acc ++ [IStr s]) l' eq_refl Hacc') as [H1 H2]. split; auto.
    intros x. rewrite H2, in_app_iff. simpl. split.
    + intros [[H|[H|[]]]|H]; auto. inversion H; subst. auto.
    + intros [H|[H|H]]; auto. subst. left. right. left. auto.
  - destruct (psrc r a) as [names|] eqn:Ep; try discriminate.
    destruct (py_items psrc its) as [l'|] eqn:E; inversion Hpy; subst.
    destruct (Hsrc r a names Ep) as [gl [Hg [Hstr Hsame]]]. rewrite Hg.
    destruct (IH (merge_exports acc gl) l' eq_refl (merge_only_strings acc gl Hacc Hstr)) as [H1 H2]. split; auto.
    intros x. rewrite H2, In_merge_str, Hsame, in_app_iff. tauto.
Qed.

(* ------------------------------------------------------------------------------------------------------------ *)
(* T3 (one module): executing the statements in order, Griffe's members and CPython's namespace bind the same     *)
(*    names to related things, given that what each statement imports is already related (the induction step of   *)
(*    the composition over a dependency order; the relation R is "the member's final target is that value")       *)
(* ------------------------------------------------------------------------------------------------------------ *)
Section Step.
Variable mp : path.
Variable is_init : bool.
Variable X : path -> list (string * member).
Hypothesis X_nodup : forall T, NoDup (map fst (X T)).
Variable ms : list modsrc.
Variable t : pytable.
Variable R : string -> member -> value -> Prop.

Definition rel (n : string) (g : option member) (p : option value) : Prop :=
  match g, p with
  | None, None => True
  | Some m, Some v => R n m v
  | _, _ => False
  end.

(* the value `from T import x` reads, as in py_stmt *)
Definition from_value (pm : pymod) (T : path) (x : string) : pyres value :=
  if path_eqb T mp then
    match lookup x (pns pm) with
    | Some v => POk v
    | None => if mem_str x (children_of ms T)
              then match get_py t (T ++ [x]) with Some _ => POk (VMod (T ++ [x])) | None => PErr "not-executed-yet" end
              else PErr "ImportError"
    end
  else py_attr ms t T x.

Hypothesis R_def : forall a k ln, R a (MObj k ln) (VObj k (mp ++ [a])).
Hypothesis R_from : forall ln T x asn bare a pm v,
  bind_of mp is_init (SFrom ln T x asn bare) = Some (a, MAlias (T ++ [x]) ln false) ->
  from_value pm T x = POk v -> R a (MAlias (T ++ [x]) ln false) v.
Hypothesis R_import : forall ln T a, R a (MAlias T ln false) (VMod T).
Hypothesis R_star : forall ln T tm n,
  get_py t T = Some tm ->
  (In n (py_star_names tm) <-> lookup n (X T) <> None) /\
  (forall m v, lookup n (X T) = Some m -> py_attr ms t T n = POk v -> R n (MWrap (T ++ [n]) m ln) v).

Lemma py_bind_all_lookup T names : forall ns ns',
  py_bind_all ms t T names ns = POk ns' ->
  forall n, (In n names -> exists v, py_attr ms t T n = POk v /\ lookup n ns' = Some v) /\
            (~ In n names -> lookup n ns' = lookup n ns).
Proof.
  induction names as [|k names IH]; intros ns ns' H n; simpl in H.
  - inversion H; subst. split; [intros []|auto].
  - destruct (py_attr ms t T k) as [v|e] eqn:Ea; try discriminate.
    destruct (IH _ _ H n) as [IH1 IH2]. split.
    + intros [Hk|Hin].
      * subst k. destruct (in_dec string_dec n names) as [Hin|Hnot]; auto.
        exists v. split; auto. rewrite (IH2 Hnot). apply lookup_assign_same.
      * auto.
    + intros Hnot. rewrite IH2; [|intros Hin; apply Hnot; right; auto].
      apply lookup_assign_other. intros Heq. apply Hnot. left. auto.
Qed.

Definition not_all (n : string) : Prop := n <> "__all__".

Lemma step_preserves gm pm pm' s :
  (forall ln T x asn bare, s = SFrom ln T x asn bare -> bind_of mp is_init s <> None) ->
  (forall n, not_all n -> rel n (lookup n gm) (lookup n (pns pm))) ->
  py_stmt ms t mp pm s = POk pm' ->
  forall n, not_all n -> rel n (lookup n (seq_stmt mp is_init X gm s)) (lookup n (pns pm')).
Proof.
  intros Hskip Hinv Hpy n Hn. rewrite (seq_stmt_lookup mp is_init X X_nodup gm s n).
  destruct s as [ln a k|ln T x asn bare|ln T|ln T asn|ln its|ln its|ln its]; simpl in Hpy.
  - (* def *)
    inversion Hpy; subst. simpl. destruct (String.eqb a n) eqn:E.
    + apply String.eqb_eq in E. subst. rewrite lookup_assign_same. apply R_def.
    + rewrite lookup_assign_other; [apply Hinv; auto|]. intros Heq. subst. rewrite String.eqb_refl in E. discriminate.
  - (* from import *)
    fold (from_value pm T x) in Hpy. destruct (from_value pm T x) as [v|e] eqn:Ev; try discriminate.
    inversion Hpy; subst. simpl pns.
    specialize (Hskip ln T x asn bare eq_refl). unfold binds.
    destruct (bind_of mp is_init (SFrom ln T x asn bare)) as [[a m]|] eqn:Eb; [|contradiction].
    assert (Ha : a = match asn with Some a0 => a0 | None => x end /\ m = MAlias (T ++ [x]) ln false).
    { simpl in Eb. destruct (bare && is_init && match asn with None => true | Some _ => false end); try discriminate.
      destruct (path_eqb _ _); try discriminate. inversion Eb. auto. }
    destruct Ha as [Ha Hm]. rewrite <- Ha. subst m.
    destruct (String.eqb a n) eqn:E.
    + apply String.eqb_eq in E. subst n. rewrite lookup_assign_same. simpl. eapply R_from; eauto.
    + rewrite lookup_assign_other; [apply Hinv; auto|]. intros Heq. subst. rewrite String.eqb_refl in E. discriminate.
  - (* wildcard import *)
    destruct (get_py t T) as [tm|] eqn:Et; try discriminate.
    destruct (py_bind_all ms t T (py_star_names tm) (pns pm)) as [ns'|e] eqn:Eb; try discriminate.
    inversion Hpy; subst. simpl pns. unfold binds.
    destruct (py_bind_all_lookup T _ _ _ Eb n) as [Hin Hout].
    destruct (R_star ln T tm n Et) as [Hexp Hval].
    destruct (lookup n (X T)) as [m|] eqn:Ex.
    + assert (Hn' : In n (py_star_names tm)) by (apply Hexp; congruence).
      destruct (Hin Hn') as [v [Ha Hl]]. rewrite Hl. simpl. eapply Hval; eauto.
    + assert (Hn' : ~ In n (py_star_names tm)) by (intros H; apply Hexp in H; congruence).
      rewrite (Hout Hn'). apply Hinv; auto.
  - (* import *)
    destruct (get_py t T) as [tm|]; try discriminate. unfold binds.
    destruct asn as [a|]; inversion Hpy; subst; simpl.
    + destruct (String.eqb a n) eqn:E.
      * apply String.eqb_eq in E. subst. rewrite lookup_assign_same. apply R_import.
      * rewrite lookup_assign_other; [apply Hinv; auto|]. intros Heq. subst. rewrite String.eqb_refl in E. discriminate.
    + destruct (String.eqb (hd "" T) n) eqn:E.
      * apply String.eqb_eq in E. subst. rewrite lookup_assign_same. apply R_import.
      * rewrite lookup_assign_other; [apply Hinv; auto|]. intros Heq. subst. rewrite String.eqb_refl in E. discriminate.
  - (* __all__ = ... *)
    destruct (py_eval_items t (pns pm) its); try discriminate. inversion Hpy; subst.
    assert (Hb : binds mp is_init X (SSetAll ln its) n = None).
    { unfold binds. change (bind_of mp is_init (SSetAll ln its)) with (Some ("__all__", MObj KAttr ln)).
      assert (E : String.eqb "__all__" n = false) by (apply String.eqb_neq; intros H; apply Hn; symmetry; exact H).
      cbv beta iota. rewrite E. reflexivity. }
    rewrite Hb. simpl pns. apply Hinv; auto.
  - destruct (pall pm); try discriminate. destruct (py_eval_items t (pns pm) its); try discriminate.
    inversion Hpy; subst. simpl. apply Hinv; auto.
  - destruct (pall pm); try discriminate. destruct (py_eval_items t (pns pm) its); try discriminate.
    inversion Hpy; subst. simpl. apply Hinv; auto.
Qed.

Lemma body_preserves body : forall gm pm pm',
  (forall s ln T x asn bare, In s body -> s = SFrom ln T x asn bare -> bind_of mp is_init s <> None) ->
  (forall n, not_all n -> rel n (lookup n gm) (lookup n (pns pm))) ->
  py_body ms t mp pm body = POk pm' ->
  forall n, not_all n -> rel n (lookup n (fold_left (seq_stmt mp is_init X) body gm)) (lookup n (pns pm')).
Proof.
  induction body as [|s body IH]; intros gm pm pm' Hskip Hinv Hpy; simpl in *.
  - inversion Hpy; subst. auto.
  - destruct (py_stmt ms t mp pm s) as [pm1|e] eqn:Es; try discriminate.
    apply (IH (seq_stmt mp is_init X gm s) pm1 pm'); auto.
    + intros s' ln T x asn bare Hin. apply Hskip. auto.
    + apply (step_preserves gm pm pm1 s); auto. intros ln T x asn bare Heq. apply (Hskip s ln T x asn bare); auto.
Qed.

(* with T2: the members Griffe ends up with (visitor + line-number rule) and the namespace CPython ends up with *)
Theorem module_names_eq_cpython body pm :
  body_ok mp is_init body ->
  (forall s ln T x asn bare, In s body -> s = SFrom ln T x asn bare -> bind_of mp is_init s <> None) ->
  py_body ms t mp (mkPy [] None) body = POk pm ->
  forall n, not_all n -> ~ is_star_name n ->
  rel n (lookup n (two_phase mp is_init X body)) (lookup n (pns pm)).
Proof.
  intros Hok Hskip Hpy n Hn Hs.
  rewrite (later_statement_overrides mp is_init X X_nodup body n Hok Hs).
  apply (body_preserves body [] (mkPy [] None) pm); auto.
  intros n' _. simpl. exact I.
Qed.

End Step.

(* former finding F9 (repaired): a member kept by the submodule special case takes the line of the wildcard that rebinds it *)
Definition w9 : list modsrc :=
  [mkSrc ["wf9"] true ["a"; "c"; "x"; "y"] [];
   mkSrc ["wf9"; "a"] false [] [SDef 1 "g" KFunc];
   mkSrc ["wf9"; "x"] false [] [SImport 1 ["wf9"; "a"] (Some "f")];
   mkSrc ["wf9"; "y"] false [] [SDef 1 "f" KFunc];
   mkSrc ["wf9"; "c"] false [] [SImport 1 ["wf9"; "a"] (Some "f"); SStar 2 ["wf9"; "x"]; SStar 3 ["wf9"; "y"]; SStar 4 ["wf9"; "x"]]].
Definition o9 : list path := [["wf9"]; ["wf9"; "a"]; ["wf9"; "x"]; ["wf9"; "y"]; ["wf9"; "c"]].

Example special_case_lineno_repaired :
  is_ok (py_import w9 o9 []) = true /\
  agreeb "wf9" (loaded_table (griffe_load "wf9" w9)) (py_table (py_import w9 o9 [])) = true /\
  agreeb "wf9" (griffe_sched "wf9" w9 o9) (py_table (py_import w9 o9 [])) = true.
Proof. repeat split; vm_compute; reflexivity. Qed.

(* F10: expand_exports reaches a submodule while a module it names is still being expanded *)
Definition w10 : list modsrc :=
  [mkSrc ["wf10"] true ["m1"; "s"] [SStar 1 ["wf10"; "m1"]; SFrom 2 ["wf10"] "m1" (Some "w0") true; SSetAll 3 [IRef "w0" true]];
   mkSrc ["wf10"; "m1"] false [] [SStar 1 ["wf10"; "s"]; SImport 2 ["wf10"; "s"] (Some "w1"); SSetAll 3 [IRef "w1" true; IStr "g"]; SDef 4 "g" KFunc];
   mkSrc ["wf10"; "s"] true ["n1"] [SSetAll 1 [IStr "h"]; SDef 2 "h" KFunc];
   mkSrc ["wf10"; "s"; "n1"] false [] [SStar 1 ["wf10"; "m1"]; SImport 2 ["wf10"; "m1"] (Some "w2"); SSetAll 3 [IRef "w2" true]]].
Definition o10 : list path := [["wf10"; "s"]; ["wf10"; "m1"]; ["wf10"]; ["wf10"; "s"; "n1"]].

Lemma exports_pending_read_refuted :
  exists top ms order,
    is_ok (py_import ms order []) = true /\
    (exists l, griffe_load top ms = Done l /\ l_xpending l <> [] /\ l_dropped l = []) /\
    agreeb top (loaded_table (griffe_load top ms)) (py_table (py_import ms order [])) = false /\
    agreeb top (griffe_sched top ms order) (py_table (py_import ms order [])) = true.
Proof.
  exists "wf10", w10, o10. split; [vm_compute; reflexivity|]. split.
  - eexists. split; [vm_compute; reflexivity|]. repeat split; vm_compute; congruence.
  - split; vm_compute; reflexivity.
Qed.
