(* C13 proofs: histories of parse calls over docstrings with shared option dictionaries. *)
From Coq Require Import List Ascii String Bool Arith Lia.
From Verif Require Import Model.C13_strings Model.C13_google Model.C13_google_spec Model.C13_sphinx Model.C13_sphinx_spec
  Model.C13_numpy Model.C13_numpy_spec Model.C13_history
  Proofs.C13_google Proofs.C13_numpy Proofs.C13_sphinx_full.
Import ListNotations.
Open Scope list_scope.
Open Scope nat_scope.

(* ---- lists *)
Lemma map_set_nth : forall (A B : Type) (f : A -> B) n x l, map f (set_nth n x l) = set_nth n (f x) (map f l).
Proof.
  intros A B f n x l. revert n. induction l as [|y l IH]; intros n; [destruct n; reflexivity|].
  destruct n; simpl; [reflexivity|]. rewrite IH. reflexivity.
Qed.

Lemma set_nth_same : forall (A : Type) n (x : A) l, nth_error l n = Some x -> set_nth n x l = l.
Proof.
  intros A n x l. revert n. induction l as [|y l IH]; intros n H; [destruct n; reflexivity|].
  destruct n; simpl in *; [inversion H; reflexivity|]. rewrite IH; auto.
Qed.

Lemma nth_error_set_nth : forall (A : Type) n (x y : A) l, nth_error l n = Some y -> nth_error (set_nth n x l) n = Some x.
Proof.
  intros A n x y l. revert n. induction l as [|z l IH]; intros n H; [destruct n; discriminate|].
  destruct n; simpl in *; [reflexivity|]. apply IH. exact H.
Qed.

Lemma nth_error_set_nth_other : forall (A : Type) n m (x : A) l, n <> m -> nth_error (set_nth n x l) m = nth_error l m.
Proof.
  intros A n m x l. revert n m. induction l as [|z l IH]; intros n m H; [destruct n; reflexivity|].
  destruct n, m; simpl; try reflexivity; try congruence. apply IH. congruence.
Qed.

(* ---- a parse writes nothing; reading `parsed` only fills the cache *)
Theorem parse_writes_nothing : forall st i s o, fst (hstep st (HParse i s o)) = st.
Proof. intros st i s o. unfold hstep. destruct (nth_error (hs_docs st) i); reflexivity. Qed.

Lemma read_keeps_config : forall st x, is_write x = false -> config (fst (hstep st x)) = config st.
Proof.
  intros st x H. destruct x as [i s o|i|i d|r k v|i ls|i]; try discriminate.
  - rewrite parse_writes_nothing. reflexivity.
  - unfold hstep. destruct (nth_error (hs_docs st) i) as [d|] eqn:E; [|reflexivity].
    destruct (hd_parsed d); [reflexivity|]. unfold config. simpl. f_equal.
    rewrite map_set_nth. apply set_nth_same. rewrite nth_error_map, E. reflexivity.
  - unfold hstep. destruct (nth_error (hs_docs st) i); reflexivity.
Qed.

(* a write is a function of the configuration *)
Lemma write_config : forall st1 st2 x, config st1 = config st2 -> config (fst (hstep st1 x)) = config (fst (hstep st2 x)).
Proof.
  intros st1 st2 x H. destruct (is_write x) eqn:W.
  2:{ rewrite !read_keeps_config by exact W. exact H. }
  unfold config in H. inversion H as [[Hh Hd]].
  destruct x as [i s o|i|i d|r k v|i ls|i]; try discriminate.
  - unfold hstep.
    assert (E : option_map doc_config (nth_error (hs_docs st1) i) = option_map doc_config (nth_error (hs_docs st2) i))
      by (rewrite <- !nth_error_map; rewrite Hd; reflexivity).
    destruct (nth_error (hs_docs st1) i) as [d1|]; destruct (nth_error (hs_docs st2) i) as [d2|]; simpl in E; try discriminate.
    + unfold config. simpl. rewrite Hh. f_equal. rewrite !map_set_nth. rewrite Hd. f_equal.
      inversion E as [[E1 E2 E3 E4]]. unfold doc_config. simpl. rewrite E1, E2, E3. reflexivity.
    + exact H.
  - unfold hstep, config. simpl. rewrite Hh, Hd. reflexivity.
  - unfold hstep.
    assert (E : option_map doc_config (nth_error (hs_docs st1) i) = option_map doc_config (nth_error (hs_docs st2) i))
      by (rewrite <- !nth_error_map; rewrite Hd; reflexivity).
    destruct (nth_error (hs_docs st1) i) as [d1|]; destruct (nth_error (hs_docs st2) i) as [d2|]; simpl in E; try discriminate.
    + unfold config. simpl. rewrite Hh. f_equal. rewrite !map_set_nth. rewrite Hd. f_equal.
      inversion E as [[E1 E2 E3 E4]]. unfold doc_config. simpl. rewrite E2, E3, E4. reflexivity.
    + exact H.
Qed.

(* the observation of a parse is a function of the configuration *)
Lemma parse_obs_config : forall st1 st2 i s o, config st1 = config st2 ->
  snd (hstep st1 (HParse i s o)) = snd (hstep st2 (HParse i s o)).
Proof.
  intros st1 st2 i s o H. unfold config in H. inversion H as [[Hh Hd]]. unfold hstep.
  assert (E : option_map doc_config (nth_error (hs_docs st1) i) = option_map doc_config (nth_error (hs_docs st2) i))
    by (rewrite <- !nth_error_map; rewrite Hd; reflexivity).
  destruct (nth_error (hs_docs st1) i) as [d1|]; destruct (nth_error (hs_docs st2) i) as [d2|]; simpl in E; try discriminate; [|reflexivity].
  inversion E as [[E1 E2 E3 E4]]. simpl. unfold parse_now, in_force. rewrite Hh, E1, E2, E3, E4. reflexivity.
Qed.

Lemma hexec_cons : forall st x r, hexec st (x :: r) =
  let '(st1, o1) := hstep st x in let '(st2, os) := hexec st1 r in (st2, o1 :: os).
Proof. reflexivity. Qed.

Lemma hexec_fst_cons : forall st x r, fst (hexec st (x :: r)) = fst (hexec (fst (hstep st x)) r).
Proof. intros. rewrite hexec_cons. destruct (hstep st x) as [st1 o1]. simpl. destruct (hexec st1 r). reflexivity. Qed.

(* the configuration after a history is the configuration after its explicit writes: parse / parsed calls leave no trace *)
Theorem history_config_is_writes : forall ops st1 st2, config st1 = config st2 ->
  config (fst (hexec st1 ops)) = config (fst (hexec st2 (writes_only ops))).
Proof.
  induction ops as [|x r IH]; intros st1 st2 H; [exact H|].
  rewrite hexec_fst_cons. unfold writes_only. simpl filter. destruct (is_write x) eqn:W.
  - fold (writes_only r). rewrite hexec_fst_cons. apply IH. apply write_config. exact H.
  - fold (writes_only r). apply IH. rewrite read_keeps_config by exact W. exact H.
Qed.

(* headline: after ANY history, parse gives what a docstring that only saw the explicit writes gives *)
Theorem history_parse_is_pure : forall st ops i s o,
  snd (hstep (fst (hexec st ops)) (HParse i s o)) = snd (hstep (fst (hexec st (writes_only ops))) (HParse i s o)).
Proof. intros. apply parse_obs_config. apply history_config_is_writes. reflexivity. Qed.

Definition read_only (ops : list hop) : bool := forallb (fun x => negb (is_write x)) ops.

Lemma read_only_writes : forall ops, read_only ops = true -> writes_only ops = [].
Proof.
  induction ops as [|x r IH]; intros H; [reflexivity|]. simpl in H. apply andb_true_iff in H. destruct H as [Hx Hr].
  unfold writes_only. simpl. apply negb_true_iff in Hx. rewrite Hx. apply IH. exact Hr.
Qed.

(* parse never mutates configured options: whatever parse / parsed calls were made, on whichever docstrings, with whatever
   per-call options, every option dictionary and every docstring's reference to one is what it was *)
Theorem parse_preserves_options : forall st ops, read_only ops = true -> config (fst (hexec st ops)) = config st.
Proof.
  intros st ops H. rewrite (history_config_is_writes ops st st eq_refl). rewrite (read_only_writes ops H). reflexivity.
Qed.

Theorem history_parse_is_fresh : forall st ops i s o, read_only ops = true ->
  snd (hstep (fst (hexec st ops)) (HParse i s o)) = snd (hstep st (HParse i s o)).
Proof. intros st ops i s o H. rewrite history_parse_is_pure. rewrite (read_only_writes ops H). reflexivity. Qed.

(* ---- the round-trip theorems hold after any history of parse / parsed calls *)
Theorem google_roundtrip_after_history : forall st ops i d o ind secs, read_only ops = true ->
  nth_error (hs_docs st) i = Some d -> 1 <= ind -> hd_lines d = render_google ind secs ->
  wf_secs (resolve_g (in_force (hs_heap st) d o)) (hp_ctx (hd_parent d)) secs = true ->
  snd (hstep (fst (hexec st ops)) (HParse i (Some HGoogle) o)) = ObsRes (HG (POk (expect_google (hp_ctx (hd_parent d)) secs))).
Proof.
  intros st ops i d o ind secs Hro Hd Hi Hl Hwf. rewrite (history_parse_is_fresh st ops i _ o Hro).
  unfold hstep. rewrite Hd. simpl. unfold parse_now, parse_pure. simpl pick_hstyle. rewrite Hl.
  rewrite (google_roundtrip _ _ ind secs Hi Hwf). reflexivity.
Qed.

Theorem numpy_roundtrip_after_history : forall st ops i d o secs, read_only ops = true ->
  nth_error (hs_docs st) i = Some d -> hd_lines d = render_numpy secs ->
  resolve_n (hp_is_init (hd_parent d)) (in_force (hs_heap st) d o) = n_default_opts ->
  wf_nsecs (hp_ctx (hd_parent d)) secs = true -> gap_F6 (hp_ctx (hd_parent d)) secs = false ->
  snd (hstep (fst (hexec st ops)) (HParse i (Some HNumpy) o)) = ObsRes (HN (POk (expect_numpy (hp_ctx (hd_parent d)) secs))).
Proof.
  intros st ops i d o secs Hro Hd Hl Ho Hwf Hgap. rewrite (history_parse_is_fresh st ops i _ o Hro).
  unfold hstep. rewrite Hd. simpl. unfold parse_now, parse_pure. simpl pick_hstyle. rewrite Hl, Ho.
  rewrite (numpy_roundtrip _ secs Hwf Hgap). reflexivity.
Qed.

Theorem sphinx_roundtrip_after_history : forall st ops i d o text fields, read_only ops = true ->
  nth_error (hs_docs st) i = Some d -> hd_lines d = render_sphinx_full text fields ->
  wf_sphinx_full text fields = true -> gap_F8 (hp_ctx (hd_parent d)) fields = false ->
  snd (hstep (fst (hexec st ops)) (HParse i (Some HSphinx) o)) =
  ObsRes (HS (expect_sphinx_full (hp_ctx (hd_parent d)) (hp_ret_attr (hd_parent d)) text fields)).
Proof.
  intros st ops i d o text fields Hro Hd Hl Hwf Hgap. rewrite (history_parse_is_fresh st ops i _ o Hro).
  unfold hstep. rewrite Hd. simpl. unfold parse_now, parse_pure. simpl pick_hstyle. rewrite Hl.
  rewrite (sphinx_roundtrip_full _ _ text fields Hwf Hgap). reflexivity.
Qed.

(* ---- `parsed` is computed once: after its first read no history changes it (documented caching) *)
Lemma step_keeps_cache : forall st x i d r, nth_error (hs_docs st) i = Some d -> hd_parsed d = Some r ->
  exists d', nth_error (hs_docs (fst (hstep st x))) i = Some d' /\ hd_parsed d' = Some r.
Proof.
  intros st x i d r Hd Hr. destruct x as [j s o|j|j dict|ref k v|j ls|j].
  - rewrite parse_writes_nothing. eauto.
  - unfold hstep. destruct (nth_error (hs_docs st) j) as [dj|] eqn:Ej; [|simpl; eauto].
    destruct (hd_parsed dj) eqn:Pj; [simpl; eauto|]. simpl.
    destruct (Nat.eq_dec j i) as [->|Hne].
    + rewrite Ej in Hd. inversion Hd; subst. congruence.
    + rewrite nth_error_set_nth_other by exact Hne. eauto.
  - unfold hstep. destruct (nth_error (hs_docs st) j) as [dj|] eqn:Ej; [|simpl; eauto]. simpl.
    destruct (Nat.eq_dec j i) as [->|Hne].
    + rewrite (nth_error_set_nth _ i _ dj _ Ej). rewrite Ej in Hd. inversion Hd; subst. eexists. split; [reflexivity|exact Hr].
    + rewrite nth_error_set_nth_other by exact Hne. eauto.
  - simpl. eauto.
  - unfold hstep. destruct (nth_error (hs_docs st) j) as [dj|] eqn:Ej; [|simpl; eauto]. simpl.
    destruct (Nat.eq_dec j i) as [->|Hne].
    + rewrite (nth_error_set_nth _ i _ dj _ Ej). rewrite Ej in Hd. inversion Hd; subst. eexists. split; [reflexivity|exact Hr].
    + rewrite nth_error_set_nth_other by exact Hne. eauto.
  - unfold hstep. destruct (nth_error (hs_docs st) j); simpl; eauto.
Qed.

Theorem history_parsed_cached : forall ops st i d r, nth_error (hs_docs st) i = Some d -> hd_parsed d = Some r ->
  snd (hstep (fst (hexec st ops)) (HReadParsed i)) = ObsRes r.
Proof.
  induction ops as [|x rest IH]; intros st i d r Hd Hr.
  - simpl. unfold hstep. rewrite Hd, Hr. reflexivity.
  - rewrite hexec_fst_cons. destruct (step_keeps_cache st x i d r Hd Hr) as [d' [Hd' Hr']]. apply (IH _ i d' r Hd' Hr').
Qed.

(* ---- the value: `lines` and parse always see the current value, whatever was read or parsed before *)
Lemma lines_obs_config : forall st1 st2 i, config st1 = config st2 ->
  snd (hstep st1 (HReadLines i)) = snd (hstep st2 (HReadLines i)).
Proof.
  intros st1 st2 i H. unfold config in H. inversion H as [[Hh Hd]]. unfold hstep.
  assert (E : option_map doc_config (nth_error (hs_docs st1) i) = option_map doc_config (nth_error (hs_docs st2) i))
    by (rewrite <- !nth_error_map; rewrite Hd; reflexivity).
  destruct (nth_error (hs_docs st1) i) as [d1|]; destruct (nth_error (hs_docs st2) i) as [d2|]; simpl in E; try discriminate; [|reflexivity].
  inversion E as [[E1 E2 E3 E4]]. simpl. rewrite E1. reflexivity.
Qed.

Theorem history_lines_current : forall st ops i,
  snd (hstep (fst (hexec st ops)) (HReadLines i)) = snd (hstep (fst (hexec st (writes_only ops))) (HReadLines i)).
Proof. intros. apply lines_obs_config. apply history_config_is_writes. reflexivity. Qed.

(* after `value` has been assigned, whatever happened before (parses, reads of lines and parsed), the next parse is the
   parse of the NEW lines and `lines` gives the new lines *)
Theorem value_assignment_takes_effect : forall st ops i d ls s o, read_only ops = true ->
  nth_error (hs_docs st) i = Some d ->
  let st' := fst (hstep (fst (hexec st ops)) (HSetValue i ls)) in
  snd (hstep st' (HReadLines i)) = ObsLines ls /\
  snd (hstep st' (HParse i s o)) = ObsRes (parse_pure (hd_parent d) ls (pick_hstyle s (hd_parser d)) (in_force (hs_heap st) d o)).
Proof.
  intros st ops i d ls s o Hro Hd st'.
  assert (Hc : config (fst (hexec st ops)) = config st) by (apply parse_preserves_options; exact Hro).
  assert (Hc' : config st' = config (fst (hstep st (HSetValue i ls)))) by (apply write_config; exact Hc).
  split.
  - rewrite (lines_obs_config st' _ i Hc'). unfold hstep at 2. rewrite Hd. simpl.
    rewrite (nth_error_set_nth _ i _ d _ Hd). reflexivity.
  - rewrite (parse_obs_config st' _ i s o Hc'). unfold hstep at 2. rewrite Hd. simpl.
    rewrite (nth_error_set_nth _ i _ d _ Hd). reflexivity.
Qed.

(* ---- aliasing: two docstrings of one load share dictionary 0; a third has its own.
   A parse with per-call options on the first leaves the others' results alone; a write INTO the shared dictionary is seen
   by both sharers; assigning a new dictionary to one docstring is not seen by the other. *)
Definition hx_lines : list str := map s_of ["Summary."; ""; "Returns:"; "    total (int): The total."]%string.
Definition hx_parent : hparent := mkHP no_parent false false.
Definition hx_state : hstate :=
  mkHS [[]; []] [mkHD hx_lines hx_parent (Some HGoogle) 0 None; mkHD hx_lines hx_parent (Some HGoogle) 0 None;
                 mkHD hx_lines hx_parent (Some HGoogle) 1 None].
Definition hx_named : hres :=
  HG (POk [GText (s_of "Summary."); GItems KReturns None [mkItem (Some (s_of "total")) (Some (s_of "int")) (s_of "The total.") None]]).
Definition hx_unnamed : hres :=
  HG (POk [GText (s_of "Summary."); GItems KReturns None [mkItem (Some []) (Some (s_of "total (int")) (s_of "The total.") None]]).

Example history_aliasing :
  snd (hexec hx_state [HParse 0 None [(ORetNamed, false)]; HParse 1 None []; HParse 0 None [];
                       HMutate 0 ORetNamed false; HParse 0 None []; HParse 1 None []; HParse 2 None [];
                       HSetOptions 0 []; HParse 0 None []; HParse 1 None []]) =
  [ObsRes hx_unnamed; ObsRes hx_named; ObsRes hx_named;
   ObsNone; ObsRes hx_unnamed; ObsRes hx_unnamed; ObsRes hx_named;
   ObsNone; ObsRes hx_named; ObsRes hx_unnamed].
Proof. vm_compute. reflexivity. Qed.
