(* C09 -- the schema is permissive where the model is concrete; ties to the regenerated tables. *)
From Coq Require Import List ZArith String Ascii Bool Arith Lia.
From Verif Require Import Lib.Sexp Model.C09_json Gen.C09_schema Gen.C09_exprs Model.C09_expr Model.C09_enc Proofs.C09_schema Proofs.C09_mem Proofs.C09_expr.
Import ListNotations.
Open Scope string_scope.
Open Scope list_scope.
Open Scope nat_scope.

Lemma forall3_const_true : forall A (f : A -> option bool) l, (forall x, f x = Some true) -> forall3 f l = Some true.
Proof. intros A f l H. apply forall3_true. apply Forall_forall. intros x _. apply H. Qed.

Definition expression_def : schema := SNode (Some [TObject]) None None [] [] (Some (SBool true)) None None [] None.

Lemma expression_def_is : lookup "expression" schema_defs = Some expression_def.
Proof. vm_compute. reflexivity. Qed.

(* for any root and definitions: a node {type: object, additionalProperties: true} accepts every object *)
Lemma permissive_node : forall root defs kvs, validates root defs 2 expression_def (JObj kvs) = Some true.
Proof.
  intros root defs kvs. unfold expression_def. cbn [validates].
  unfold v_type, v_const, v_enum, v_props, v_req, v_addl, v_items, v_oneof, v_allof, v_cond.
  cbn [kind_of kind_ok existsb kind_sat orb forallb forall3 map all3 lookup key_in].
  repeat rewrite forall3_const_true by (intros; reflexivity). reflexivity.
Qed.

Theorem expression_schema_accepts_any_object :
  forall kvs, validates schema_root schema_defs 3 (SRef "#/$defs/expression") (JObj kvs) = Some true.
Proof.
  intros kvs.
  change (validates schema_root schema_defs 3 (SRef "#/$defs/expression") (JObj kvs))
    with (match lookup "expression" schema_defs with
          | Some s' => validates schema_root schema_defs 2 s' (JObj kvs) | None => None end).
  rewrite expression_def_is. apply permissive_node.
Qed.

(* ... and `annotation` is null | string | such an object: exactly one branch of its oneOf holds for an object *)
Definition annotation_def : schema :=
  SNode None None None [] [] None None
        (Some [SNode (Some [TNull]) None None [] [] None None None [] None;
               SNode (Some [TString]) None None [] [] None None None [] None;
               SRef "#/$defs/expression"]) [] None.

Lemma annotation_def_is : lookup "annotation" schema_defs = Some annotation_def.
Proof. vm_compute. reflexivity. Qed.

Theorem annotation_schema_accepts_any_object :
  forall kvs, validates schema_root schema_defs 5 (SRef "#/$defs/annotation") (JObj kvs) = Some true.
Proof.
  intros kvs.
  change (validates schema_root schema_defs 5 (SRef "#/$defs/annotation") (JObj kvs))
    with (match lookup "annotation" schema_defs with
          | Some s' => validates schema_root schema_defs 4 s' (JObj kvs) | None => None end).
  rewrite annotation_def_is. unfold annotation_def.
  change (validates schema_root schema_defs 4 ?s ?j) with
    (all3 [ v_type None (JObj kvs); v_const None (JObj kvs); v_enum None (JObj kvs);
            v_props (validates schema_root schema_defs 3) [] (JObj kvs); v_req [] (JObj kvs);
            v_addl (validates schema_root schema_defs 3) [] None (JObj kvs);
            v_items (validates schema_root schema_defs 3) None (JObj kvs);
            v_oneof (validates schema_root schema_defs 3)
              (Some [SNode (Some [TNull]) None None [] [] None None None [] None;
                     SNode (Some [TString]) None None [] [] None None None [] None;
                     SRef "#/$defs/expression"]) (JObj kvs);
            v_allof (validates schema_root schema_defs 3) [] (JObj kvs); v_cond (validates schema_root schema_defs 3) None (JObj kvs) ]).
  unfold v_oneof. cbn [map].
  rewrite (expression_schema_accepts_any_object kvs).
  assert (N : validates schema_root schema_defs 3 (SNode (Some [TNull]) None None [] [] None None None [] None) (JObj kvs) = Some false).
  { cbn [validates]. unfold v_type. cbn [kind_of kind_ok existsb kind_sat orb all3]. reflexivity. }
  assert (S : validates schema_root schema_defs 3 (SNode (Some [TString]) None None [] [] None None None [] None) (JObj kvs) = Some false).
  { cbn [validates]. unfold v_type. cbn [kind_of kind_ok existsb kind_sat orb all3]. reflexivity. }
  rewrite N, S. unfold v_type, v_const, v_enum, v_props, v_req, v_addl, v_items, v_allof, v_cond.
  cbn [count3 Nat.eqb forall3 map lookup forallb].
  repeat rewrite forall3_const_true by (intros; reflexivity). reflexivity.
Qed.

(* ---------- ties to the regenerated tables ---------- *)

(* the keys the element encoders of the model emit are those docstrings/models.py emits *)
Lemma element_keys_tie :
  element_keys = map fst (enc_element ANone "") /\ named_element_keys = ["name"] /\ named_element_optional_keys = ["value"].
Proof. repeat split; reflexivity. Qed.

(* every section kind of the enumeration has a section class, and every section class's kind is in the enumeration *)
Lemma section_kinds_tie :
  forallb (fun k => key_in k section_table) enc_section_kinds = true
  /\ forallb (fun r => str_in (fst r) enc_section_kinds) section_table = true.
Proof. split; vm_compute; reflexivity. Qed.

(* non-vacuity for expressions: a call with keyword argument inside a subscript is well-formed *)
Example sample_expression_ok :
  fval_ok (FExpr "ExprSubscript" [FExpr "ExprName" [FStr "Dict"];
                                  FExpr "ExprTuple" [FList [FExpr "ExprName" [FStr "str"];
                                                            FExpr "ExprCall" [FList [FStr "1"; FExpr "ExprKeyword" [FNone; FStr "k"; FStr "2"]];
                                                                              FExpr "ExprName" [FStr "f"]]];
                                                     FBool true]]) = true.
Proof. vm_compute. reflexivity. Qed.
