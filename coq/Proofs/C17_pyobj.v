(* C17 proofs over the object semantics of Model/C17_pyobj.v: the tabulated observations of the 24 definition forms
   are the derived ones; the kind theorem restated over the derived observations; names bound by assignment agree
   exactly when the value is plain (F9); annotation-only names (F10); `import` statements (F6). *)
From Coq Require Import List ZArith String Ascii Bool Arith Lia.
From Verif Require Import Lib.Sexp Model.C02_kinds Model.C02_params Model.C17_base Gen.C17_tables Model.C17_agents Proofs.C17_agents Model.C17_pyobj.
Import ListNotations.
Open Scope string_scope.
Open Scope list_scope.
Open Scope nat_scope.

(* ================================================================================================ *)
(* A. the table of Model/C17_agents.v is derived                                                     *)

Theorem derived_is_table d p : derived_features d p = runtime_features d p.
Proof.
  destruct d as [[|] [|]|[|]|[|]| | |[|]|[|]|[|] [| | | |]]; destruct p; vm_compute; reflexivity.
Qed.

(* everything the Inspector computes from the observations depends on them pointwise *)
Lemma eval_ext f g : (forall p, f p = g p) -> forall e, eval f e = eval g e.
Proof. intros H e. induction e; simpl; auto; try (rewrite IHe1, IHe2; reflexivity). rewrite IHe. reflexivity. Qed.

Lemma run_ladder_ext f g l k : (forall p, f p = g p) -> run_ladder f l k = run_ladder g l k.
Proof.
  intros H. induction l as [|[e k'] l IH]; simpl; auto. rewrite (eval_ext f g H e), IH. reflexivity.
Qed.

Lemma okind_ext f g : (forall p, f p = g p) -> inspector_okind f = inspector_okind g.
Proof. intros H. apply run_ladder_ext. exact H. Qed.

Lemma inspect_member_ext f g : (forall p, f p = g p) -> inspect_member f = inspect_member g.
Proof.
  intros H. unfold inspect_member, with_async. rewrite (okind_ext f g H).
  destruct (lookup_handler (inspector_okind g) handlers) as [[| |ls|]|]; auto; rewrite !H; reflexivity.
Qed.

Lemma alias_target_ext f g e : (forall p, f p = g p) -> alias_target_path f e = alias_target_path g e.
Proof. intros H. unfold alias_target_path. rewrite (okind_ext f g H), H. reflexivity. Qed.

Lemma inspect_child_ext f g e cur name hf : (forall p, f p = g p) -> inspect_child f e cur name hf = inspect_child g e cur name hf.
Proof.
  intros H. unfold inspect_child. rewrite (alias_target_ext f g e H), (inspect_member_ext f g H), H. reflexivity.
Qed.

(* C17_kind_agrees over the derived observations: the only facts about CPython it rests on are the ones stated once
   in Model/C17_pyobj.v *)
Theorem kind_agrees_derived d e p cur name hf :
  is_import d = false ->
  ae_child_mod e = Some p -> ae_parent_mod e = Some p ->
  skeleton (inspect_child (derived_features d) e cur name hf) = skeleton (visitor_member d).
Proof.
  intros Hi Hc Hp. rewrite (inspect_child_ext _ _ e cur name hf (derived_is_table d)).
  apply kind_agrees_in_place with (p := p); assumption.
Qed.

(* ================================================================================================ *)
(* B. attribute or not                                                                               *)

Definition plain_skel : skel := SObj GAttribute [false; false; false; false; false].

Lemma handler_attr_only k : lookup_handler k handlers = Some HAttr -> k = KAttribute.
Proof. destruct k; vm_compute; intros H; try discriminate; reflexivity. Qed.

Lemma okind_eqb_eq a b : okind_eqb a b = true <-> a = b.
Proof. destruct a, b; simpl; split; intros H; try discriminate; auto. Qed.

Lemma mem_str_app s a b : mem_str s (a ++ b) = mem_str s a || mem_str s b.
Proof. unfold mem_str. apply existsb_app. Qed.

(* whatever the observations: the member the Inspector creates by itself is a plain attribute iff the ladder ends on ATTRIBUTE *)
Lemma inspect_member_plain_iff f :
  skeleton (inspect_member f) = plain_skel <-> inspector_okind f = KAttribute.
Proof.
  unfold inspect_member. split.
  - destruct (lookup_handler (inspector_okind f) handlers) as [[| |ls|]|] eqn:E; simpl; try discriminate.
    + unfold function_or_property. destruct (mem_str "property" (with_async f ls)) eqn:Ep; simpl; [|discriminate].
      unfold plain_skel, skeleton, shared_labels. cbn [map]. intros H. injection H as H1 H2 H3 H4 H5.
      rewrite Ep in H4. discriminate.
    + intros _. apply handler_attr_only. exact E.
  - intros E. rewrite E. vm_compute. destruct (f PParentIsClass); reflexivity.
Qed.

Theorem child_plain_iff f e cur name hf :
  skeleton (inspect_child f e cur name hf) = plain_skel <-> inspector_okind f = KAttribute.
Proof.
  unfold inspect_child. split.
  - destruct (alias_target_path f e) as [t|] eqn:Ea.
    + destruct (f PIsModule && path_eqb t (cur ++ [name])); [destruct hf|]; simpl; discriminate.
    + apply inspect_member_plain_iff.
  - intros E. unfold alias_target_path. rewrite E. simpl.
    destruct (negb (ae_has_parent e)); apply inspect_member_plain_iff; exact E.
Qed.

Lemma visit_attribute_plain a b c : skeleton (visit_attribute a b c) = plain_skel.
Proof. destruct a, b, c; reflexivity. Qed.

(* NAME = <value>: the two agents agree exactly when the value is plain (not callable, not a class, module or
   descriptor) -- gap F9 is the negation, for every value, scope and environment *)
Theorem assigned_agrees_iff sc v e cur name hf :
  skeleton (inspector_xmember (XAssigned sc v) e cur name hf) = skeleton (visitor_xmember (XAssigned sc v))
  <-> gap_assigned (XAssigned sc v) = false.
Proof.
  unfold inspector_xmember, visitor_xmember, gap_assigned, plain_value, x_features.
  cbn [x_bound x_scope x_value].
  rewrite visit_attribute_plain, child_plain_iff. rewrite negb_false_iff. symmetry. apply okind_eqb_eq.
Qed.

Example assigned_plain : gap_assigned (XAssigned SMod OValue) = false /\ gap_assigned (XAssigned SCls OValue) = false.
Proof. split; reflexivity. Qed.

(* F9 witnesses: a lambda, a partial object, a second name for a class *)
Theorem assigned_refuted :
  gap_assigned (XAssigned SMod (OFunction false)) = true /\
  gap_assigned (XAssigned SMod (OPartial (OFunction false))) = true /\
  gap_assigned (XAssigned SCls OClass) = true /\
  inspect_member (observe false (OFunction false)) = MObj GFunction [] /\
  visitor_xmember (XAssigned SMod (OFunction false)) = MObj GAttribute ["module-attribute"].
Proof. repeat split; reflexivity. Qed.

(* an annotated name with a plain value is an attribute for both *)
Theorem annotated_bound_agrees sc cv e cur name hf :
  skeleton (inspector_xmember (XAnnotated sc cv true) e cur name hf) = skeleton (visitor_xmember (XAnnotated sc cv true)).
Proof.
  unfold inspector_xmember, visitor_xmember, x_features. cbn [x_bound x_scope x_value]. rewrite visit_attribute_plain.
  apply child_plain_iff. destruct sc; reflexivity.
Qed.

(* NAME: ann -- no binding: the Visitor records an attribute, the Inspector nothing; that is the stated exception
   "instance attributes" exactly in a class body without ClassVar, and gap F10 otherwise *)
Theorem annotated_unbound sc cv e cur name hf :
  inspector_xmember (XAnnotated sc cv false) e cur name hf = MNothing /\
  member_gkind (visitor_xmember (XAnnotated sc cv false)) = Some GAttribute /\
  (gap_unbound (XAnnotated sc cv false) = false <-> (in_class sc = true /\ cv = false)).
Proof.
  split; [reflexivity|]. split; [reflexivity|].
  destruct sc, cv; simpl; split; intros H; try discriminate; try (split; reflexivity); try reflexivity;
    destruct H as [H1 H2]; discriminate.
Qed.

(* ================================================================================================ *)
(* C. import statements (F6)                                                                         *)

Lemma visit_import_target name asname : snd (visit_import name asname) = MAlias (import_bound name asname).
Proof. destruct asname; reflexivity. Qed.

(* `import a.b.c [as x]` in module M (or in a class body of M): unless the bound module is M itself (F6), both agents
   record an alias to the bound module *)
Theorem import_stmt_agrees sc M cur name asname builtins hf :
  binds_ancestor M name asname = false ->
  cyclic M (import_bound name asname) = false ->
  import_bound name asname <> cur ++ [fst (visit_import name asname)] ->
  snd (inspect_import sc M cur name asname builtins hf) = snd (visit_import name asname) /\
  fst (inspect_import sc M cur name asname builtins hf) = fst (visit_import name asname).
Proof.
  intros Hb Hc Hne. split; [|reflexivity].
  unfold inspect_import. rewrite Hb. simpl snd.
  rewrite (dynamic_module_rule sc (mkAE true (Some (import_bound name asname)) (Some M) [] builtins) M (import_bound name asname) cur _ hf eq_refl eq_refl eq_refl Hc).
  apply path_eqb_neq in Hne. rewrite Hne. symmetry. apply visit_import_target.
Qed.

Example import_stmt_nonvacuous :
  binds_ancestor ["pkg"; "core"] ["pkg"; "sub"; "deep"] None = false /\
  snd (inspect_import SMod ["pkg"; "core"] ["pkg"; "core"] ["pkg"; "sub"; "deep"] None [] true) = MAlias ["pkg"].
Proof. split; reflexivity. Qed.

(* F6, for every statement that binds the module it is written in: the Visitor records an alias, the Inspector nothing *)
Theorem import_stmt_self sc M cur name asname builtins hf :
  binds_ancestor M name asname = true ->
  snd (inspect_import sc M cur name asname builtins hf) = MNothing /\
  snd (visit_import name asname) = MAlias M.
Proof.
  intros H. unfold inspect_import. rewrite H. split; [reflexivity|].
  rewrite visit_import_target. unfold binds_ancestor in H. apply path_eqb_eq in H. rewrite H. reflexivity.
Qed.

Theorem import_stmt_refuted_self :
  exists sc M cur name asname builtins hf,
    snd (visit_import name asname) = MAlias ["pkg"] /\ snd (inspect_import sc M cur name asname builtins hf) = MNothing.
Proof. exists SMod, ["pkg"], ["pkg"], ["pkg"; "sub"], None, [], true. split; reflexivity. Qed.

(* a built-in module whose name starts with an underscore, an underscore twin of the importing module: aliased under
   their own names like every other module (the repaired F11 and F4-module defects) *)
Example import_stmt_builtin_and_twin :
  snd (inspect_import SMod ["pkg"] ["pkg"] ["_io"] None ["_io"; "sys"] false) = MAlias ["_io"] /\
  snd (inspect_import SMod ["pkg"; "core"] ["pkg"; "core"] ["pkg"; "_core"] (Some "tw") [] true) = MAlias ["pkg"; "_core"].
Proof. split; reflexivity. Qed.
