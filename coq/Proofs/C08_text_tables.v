(* C08: the definitions of the text-level and full-mode models agree with the tables regenerated from CPython
   (json.encoder / json.decoder / str.isspace) and from models.py (Gen/C08_text_tables.v), by computation. *)
From Coq Require Import List ZArith String Ascii Bool Arith.
From Verif Require Import Lib.Sexp Gen.C08_tables Gen.C08_text_tables Model.C08_json Model.C08_full Model.C08_text.
Import ListNotations.
Open Scope string_scope.
Open Scope list_scope.
Open Scope nat_scope.

Fixpoint string_of_codes (l : list nat) : string :=
  match l with [] => EmptyString | n :: r => String (ascii_of_nat n) (string_of_codes r) end.
Definition mem_nat (n : nat) (l : list nat) : bool := existsb (Nat.eqb n) l.

(* every character is printed inside a JSON string the way CPython's py_encode_basestring_ascii prints it *)
Theorem escape_char_is_cpython :
  forall c k, escape_char c k = append (string_of_codes (nth (code c) json_escape_table [])) k.
Proof. intros c k. destruct c as [[|] [|] [|] [|] [|] [|] [|] [|]]; reflexivity. Qed.

Lemma escape_table_complete : List.length json_escape_table = 256.
Proof. reflexivity. Qed.

(* the white space json.loads skips *)
Theorem json_whitespace_is_cpython : forall c, is_jws c = mem_nat (code c) json_whitespace.
Proof. intro c. destruct c as [[|] [|] [|] [|] [|] [|] [|] [|]]; reflexivity. Qed.

(* the characters str.rstrip() / str.lstrip() remove (cleandoc) *)
Theorem strip_whitespace_is_cpython : forall c, is_ws c = mem_nat (nat_of_ascii c) latin1_space.
Proof. intro c. destruct c as [[|] [|] [|] [|] [|] [|] [|] [|]]; reflexivity. Qed.

(* the full-only keys and their order are those of models.py *)
Theorem full_keys_are_the_code's :
  (forall path gi l, full_keys_g path gi = Ok l -> keys_of l = full_object_keys) /\
  (forall (C : Type) (G : C -> tree -> ginfo) down prefix_of c n tp ln eln,
     enc_fullG G down prefix_of c (TAlias n tp ln eln)
     = Ok (JObj ([("kind", JStr kind_alias); ("name", JStr n); ("target_path", JStr tp)]
                 ++ map (fun k => (k, JStr (dotted (prefix_of c) n))) full_alias_keys
                 ++ truthy_field "lineno" ln ++ truthy_field "endlineno" eln))) /\
  (forall secs d,
     enc_doc_full secs d
     = JObj ([("value", JStr (d_value d)); ("lineno", optnum (d_lineno d)); ("endlineno", optnum (d_endlineno d))]
             ++ map (fun k => (k, JArr (map enc_section secs))) full_docstring_keys)).
Proof.
  split; [|split].
  - intros path gi l H. unfold full_keys_g in H.
    destruct (g_filepath gi); [|discriminate]. destruct (g_relative gi); [|discriminate]. destruct (g_relative_package gi); [|discriminate].
    cbn [bind] in H. inversion H. reflexivity.
  - reflexivity.
  - reflexivity.
Qed.
