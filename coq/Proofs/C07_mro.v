(* C07 proofs: c3linear_merge satisfies the C3 conditions and equals CPython's pmerge on every input
   (including failure); Class._mro terminates, reports cycles, and equals CPython's mro_implementation
   on every table a Python program can express; inherited members = nearest definition in the MRO. *)
From Coq Require Import List ZArith String Bool Arith Lia.
From Verif Require Import Lib.Sexp Model.C07_mro.
Import ListNotations.
Open Scope list_scope.
Open Scope nat_scope.

(* order preservation: l is a (not necessarily contiguous) subsequence of r *)
Inductive Subseq {A : Type} : list A -> list A -> Prop :=
| sub_nil : forall r, Subseq [] r
| sub_cons : forall x l r, Subseq l r -> Subseq (x :: l) (x :: r)
| sub_skip : forall x l r, Subseq l r -> Subseq l (x :: r).

Lemma Subseq_In {A} (l r : list A) : Subseq l r -> forall x, In x l -> In x r.
Proof. induction 1; simpl; intros y Hy; try contradiction; intuition. Qed.

Lemma Subseq_NoDup {A} (l r : list A) : Subseq l r -> NoDup r -> NoDup l.
Proof.
  induction 1 as [r | x l r Hs IH | x l r Hs IH]; intros Hn.
  - constructor.
  - inversion Hn; subst. constructor; auto. intro Hx. eapply Subseq_In in Hx; eauto.
  - inversion Hn; subst. auto.
Qed.

Lemma mem_In x l : mem x l = true <-> In x l.
Proof.
  unfold mem. rewrite existsb_exists. split.
  - intros [y [Hy He]]. apply Nat.eqb_eq in He. subst. exact Hy.
  - intros H. exists x. split; auto. apply Nat.eqb_refl.
Qed.

Lemma mem_false x l : mem x l = false <-> ~ In x l.
Proof. rewrite <- mem_In. destruct (mem x l); split; intros; congruence. Qed.

(* ---------------------------------------------------------------- c3linear_merge: soundness *)

Lemma exhausted_all_nil ls : exhausted ls = true -> forall l, In l ls -> l = [].
Proof.
  unfold exhausted. rewrite forallb_forall. intros H l Hl. specialize (H l Hl). destruct l; simpl in H; congruence.
Qed.

Lemma pick_some heads ls x : pick heads ls = Some x -> In (Some x) heads /\ in_tails x ls = false.
Proof.
  induction heads as [|[h|] r IH]; simpl; intros H; try discriminate.
  - destruct (in_tails h ls) eqn:E.
    + destruct (IH H); auto.
    + inversion H; subst; auto.
  - destruct (IH H); auto.
Qed.

Lemma pick_head ls0 ls x : pick (map head ls0) ls = Some x ->
  exists t, In (x :: t) ls0 /\ in_tails x ls = false.
Proof.
  intros H. apply pick_some in H. destruct H as [Hin Ht]. apply in_map_iff in Hin.
  destruct Hin as [l [Hh Hl]]. destruct l as [|y t]; simpl in Hh; inversion Hh; subst. eauto.
Qed.

Lemma in_tails_false x ls : in_tails x ls = false -> forall l, In l ls -> ~ In x (tail l).
Proof.
  unfold in_tails. intros H l Hl Hx. apply mem_In in Hx.
  assert (existsb (fun l => mem x (tail l)) ls = true) by (apply existsb_exists; eauto). congruence.
Qed.

Lemma pop_if_absent x l : ~ In x (tail l) -> ~ In x (pop_if x l).
Proof.
  destruct l as [|h t]; simpl; auto. intros Ht. destruct (Nat.eqb h x) eqn:E; auto.
  apply Nat.eqb_neq in E. simpl. intuition.
Qed.

Lemma pop_if_incl x l y : In y (pop_if x l) -> In y l.
Proof. destruct l as [|h t]; simpl; auto. destruct (Nat.eqb h x); simpl; auto. Qed.

Lemma pop_if_keeps x l y : In y l -> y <> x -> In y (pop_if x l).
Proof.
  destruct l as [|h t]; simpl; auto. intros [H|H] Hn; destruct (Nat.eqb h x) eqn:E; simpl; auto.
  apply Nat.eqb_eq in E. congruence.
Qed.

Lemma remove_absent x ls : in_tails x ls = false -> forall l, In l (remove x ls) -> ~ In x l.
Proof.
  intros H l Hl. unfold remove in Hl. apply in_map_iff in Hl. destruct Hl as [l0 [He Hl0]]. subst.
  apply pop_if_absent. eapply in_tails_false; eauto.
Qed.

Lemma pop_if_subseq x l r : Subseq (pop_if x l) r -> Subseq l (x :: r).
Proof.
  destruct l as [|h t]; simpl; intros H.
  - constructor.
  - destruct (Nat.eqb h x) eqn:E.
    + apply Nat.eqb_eq in E. subst. constructor. exact H.
    + apply sub_skip. exact H.
Qed.

Theorem merge_fuel_sound : forall f ls r, merge_fuel f ls = Ok r ->
  NoDup r /\ (forall x, In x r <-> exists l, In l ls /\ In x l) /\ (forall l, In l ls -> Subseq l r).
Proof.
  induction f as [|f IH]; intros ls r H; simpl in H; try discriminate.
  destruct (exhausted ls) eqn:Ex.
  - inversion H; subst. split; [constructor|]. split.
    + intros x. split; [intros []|]. intros [l [Hl Hx]]. rewrite (exhausted_all_nil _ Ex _ Hl) in Hx. destruct Hx.
    + intros l Hl. rewrite (exhausted_all_nil _ Ex _ Hl). constructor.
  - destruct (pick (map head ls) ls) as [x|] eqn:Pk; try discriminate.
    destruct (merge_fuel f (remove x ls)) as [r'| |] eqn:Hm; try discriminate.
    inversion H; subst. clear H.
    destruct (IH _ _ Hm) as [Hnd [Hel Hsub]].
    destruct (pick_head _ _ _ Pk) as [t [Hxt Htl]].
    split; [|split].
    + constructor; auto. intros Hx. apply Hel in Hx. destruct Hx as [l [Hl Hx]].
      eapply remove_absent; eauto.
    + intros y. split.
      * intros [Hy|Hy].
        -- subst. exists (y :: t). simpl; auto.
        -- apply Hel in Hy. destruct Hy as [l [Hl Hy]]. unfold remove in Hl. apply in_map_iff in Hl.
           destruct Hl as [l0 [He Hl0]]. subst. exists l0. split; auto. eapply pop_if_incl; eauto.
      * intros [l [Hl Hy]]. destruct (Nat.eq_dec y x) as [->|Hn]; [left; auto|]. right.
        apply Hel. exists (pop_if x l). split.
        -- unfold remove. apply in_map. exact Hl.
        -- apply pop_if_keeps; auto.
    + intros l Hl. apply pop_if_subseq. apply Hsub. unfold remove. apply in_map. exact Hl.
Qed.

Lemma merge_fuel_fail_kind : forall f ls e, merge_fuel f ls = Fail e -> e = Inconsistent.
Proof.
  induction f as [|f IH]; intros ls e H; simpl in H; try discriminate.
  destruct (exhausted ls); try discriminate.
  destruct (pick (map head ls) ls) as [x|]; [|inversion H; auto].
  destruct (merge_fuel f (remove x ls)) eqn:Hm; try discriminate. inversion H; subst. eauto.
Qed.

(* ---------------------------------------------------------------- c3linear_merge: termination *)

Lemma pop_if_length x l : List.length (pop_if x l) <= List.length l.
Proof. destruct l as [|h t]; simpl; auto. destruct (Nat.eqb h x); simpl; lia. Qed.

Lemma total_remove_le x ls : total (remove x ls) <= total ls.
Proof. induction ls as [|l ls IH]; simpl; auto. pose proof (pop_if_length x l). lia. Qed.

Lemma total_remove_lt x ls t : In (x :: t) ls -> total (remove x ls) < total ls.
Proof.
  induction ls as [|l ls IH]; simpl; intros H; [destruct H|]. destruct H as [->|H].
  - simpl. rewrite Nat.eqb_refl. pose proof (total_remove_le x ls). lia.
  - pose proof (pop_if_length x l). specialize (IH H). lia.
Qed.

Theorem merge_fuel_enough : forall f ls, total ls < f -> merge_fuel f ls <> OutOfFuel.
Proof.
  induction f as [|f IH]; intros ls Hlt; [lia|]. simpl.
  destruct (exhausted ls); try discriminate.
  destruct (pick (map head ls) ls) as [x|] eqn:Pk; try discriminate.
  destruct (pick_head _ _ _ Pk) as [t [Hxt _]].
  pose proof (total_remove_lt _ _ _ Hxt).
  assert (Hne : merge_fuel f (remove x ls) <> OutOfFuel) by (apply IH; lia).
  destruct (merge_fuel f (remove x ls)); congruence.
Qed.

(* more fuel never changes a result *)
Lemma merge_fuel_mono : forall f ls, merge_fuel f ls <> OutOfFuel -> forall g, f <= g -> merge_fuel g ls = merge_fuel f ls.
Proof.
  induction f as [|f IH]; intros ls H g Hg; simpl in *; [congruence|].
  destruct g as [|g]; [lia|]. simpl.
  destruct (exhausted ls); auto.
  destruct (pick (map head ls) ls) as [x|]; auto.
  rewrite (IH (remove x ls)); [reflexivity| |lia].
  destruct (merge_fuel f (remove x ls)); congruence.
Qed.

Theorem c3linear_merge_total ls : c3linear_merge ls <> OutOfFuel.
Proof. apply merge_fuel_enough. lia. Qed.

Theorem c3linear_merge_sound ls r : c3linear_merge ls = Ok r ->
  NoDup r /\ (forall x, In x r <-> exists l, In l ls /\ In x l) /\ (forall l, In l ls -> Subseq l r).
Proof. apply merge_fuel_sound. Qed.

Theorem c3linear_merge_fails_only_inconsistent ls e : c3linear_merge ls = Fail e -> e = Inconsistent.
Proof. apply merge_fuel_fail_kind. Qed.

(* a duplicate inside one input list makes the merge fail (CPython: check_duplicates / pmerge) *)
Lemma has_dup_NoDup l : has_dup l = false <-> NoDup l.
Proof.
  induction l as [|x l IH]; simpl.
  - split; auto. constructor.
  - rewrite orb_false_iff, IH, mem_false. split.
    + intros [H1 H2]. constructor; auto.
    + intros H. inversion H; auto.
Qed.

Theorem c3linear_merge_dup_fails ls l : In l ls -> has_dup l = true -> c3linear_merge ls = Fail Inconsistent.
Proof.
  intros Hl Hd. destruct (c3linear_merge ls) as [r|e|] eqn:E.
  - exfalso. destruct (c3linear_merge_sound _ _ E) as [Hn [_ Hs]].
    pose proof (Subseq_NoDup _ _ (Hs l Hl) Hn) as Hnl. apply has_dup_NoDup in Hnl. congruence.
  - f_equal. eapply c3linear_merge_fails_only_inconsistent; eauto.
  - exfalso. eapply c3linear_merge_total; eauto.
Qed.

(* ---------------------------------------------------------------- c3linear_merge = CPython pmerge *)

Definition view (p : pm_entry) : list nat := skipn (snd p) (fst p).

Lemma head_skipn : forall n (l : list nat), head (skipn n l) = nth_error l n.
Proof. induction n as [|n IH]; intros [|x l]; simpl; auto. Qed.

Lemma tail_skipn : forall n (l : list nat), tail (skipn n l) = skipn (S n) l.
Proof.
  induction n as [|n IH]; intros [|x l]; simpl; auto.
  rewrite IH. destruct l; reflexivity.
Qed.

Lemma skipn_nth : forall n (l : list nat) x, nth_error l n = Some x -> skipn n l = x :: skipn (S n) l.
Proof.
  intros n l x H. rewrite <- head_skipn in H. rewrite <- tail_skipn.
  destruct (skipn n l); simpl in *; inversion H; subst; reflexivity.
Qed.

Lemma skipn_nth_none : forall n (l : list nat), nth_error l n = None -> skipn n l = [].
Proof.
  intros n l H. rewrite <- head_skipn in H. destruct (skipn n l); simpl in *; congruence.
Qed.

Lemma view_advance o p : view (pm_advance o p) = pop_if o (view p).
Proof.
  destruct p as [l n]. unfold pm_advance, pm_cur, view. cbn [fst snd].
  destruct (nth_error l n) as [x|] eqn:E.
  - rewrite (skipn_nth _ _ _ E). cbn [pop_if]. destruct (Nat.eqb x o); cbn [fst snd]; auto.
    apply skipn_nth. exact E.
  - cbn [fst snd]. rewrite (skipn_nth_none _ _ E). reflexivity.
Qed.

Lemma tail_contains_view q o : tail_contains q o = mem o (tail (view q)).
Proof. destruct q as [l n]. unfold tail_contains, view. simpl fst. simpl snd. rewrite tail_skipn. reflexivity. Qed.

Lemma in_tails_view all o : existsb (fun q => tail_contains q o) all = in_tails o (map view all).
Proof.
  unfold in_tails. induction all as [|q all IH]; simpl; auto. rewrite IH, tail_contains_view. reflexivity.
Qed.

Lemma pm_scan_pick rest all : pm_scan rest all = pick (map head (map view rest)) (map view all).
Proof.
  induction rest as [|p rest IH]; simpl; auto.
  unfold view at 1. rewrite head_skipn. fold (pm_cur p).
  destruct (pm_cur p) as [c|]; auto.
  rewrite in_tails_view. destruct (in_tails c (map view all)); auto.
Qed.

Lemma pm_all_empty_exhausted st : pm_all_empty st = exhausted (map view st).
Proof.
  unfold pm_all_empty, exhausted. induction st as [|p st IH]; simpl; auto. rewrite IH. f_equal.
  unfold pm_cur, view. rewrite <- head_skipn. destruct (skipn (snd p) (fst p)); reflexivity.
Qed.

Lemma pick_exhausted ls0 ls : exhausted ls0 = true -> pick (map head ls0) ls = None.
Proof.
  induction ls0 as [|l ls0 IH]; simpl; auto. intros H. apply andb_prop in H. destruct H as [H1 H2].
  destruct l; simpl in *; try discriminate. auto.
Qed.

Lemma pm_loop_merge : forall f st, pm_loop f st = merge_fuel f (map view st).
Proof.
  induction f as [|f IH]; intros st; simpl; auto.
  rewrite pm_scan_pick, pm_all_empty_exhausted.
  destruct (exhausted (map view st)) eqn:Ex.
  - rewrite pick_exhausted by exact Ex. reflexivity.
  - destruct (pick (map head (map view st)) (map view st)) as [c|]; auto.
    rewrite IH. unfold remove. rewrite !map_map.
    replace (map (fun x => view (pm_advance c x)) st) with (map (fun x => pop_if c (view x)) st); auto.
    apply map_ext. intros p. symmetry. apply view_advance.
Qed.

Theorem merge_eq_pmerge ls : c3linear_merge ls = cpython_pmerge ls.
Proof.
  unfold c3linear_merge, cpython_pmerge. rewrite pm_loop_merge, map_map. simpl.
  rewrite map_id. reflexivity.
Qed.

(* the n == 1 fast path of mro_implementation is what the merge computes anyway *)
Lemma merge_single : forall m f, NoDup m -> List.length m < f -> merge_fuel f [m; []] = Ok m.
Proof.
  induction m as [|x m IH]; intros f Hn Hf; (destruct f as [|f]; [simpl in Hf; lia|]).
  - reflexivity.
  - inversion Hn; subst. apply mem_false in H1.
    cbn [merge_fuel exhausted forallb is_nil andb map head pick in_tails existsb tail].
    rewrite H1. cbn [mem existsb orb remove map pop_if]. rewrite Nat.eqb_refl.
    rewrite IH; auto. simpl in Hf. lia.
Qed.

Lemma merge_fast b r : NoDup (b :: r) -> c3linear_merge [b :: r; [b]] = Ok (b :: r).
Proof.
  intros Hn. inversion Hn; subst. apply mem_false in H1. unfold c3linear_merge.
  cbn [merge_fuel exhausted forallb is_nil andb map head pick in_tails existsb tail].
  rewrite H1. cbn [mem existsb orb remove map pop_if]. rewrite Nat.eqb_refl.
  rewrite merge_single; auto. simpl. lia.
Qed.

(* ---------------------------------------------------------------- generic helpers *)

Lemma map_res_ext {A B} (f g : A -> res B) l : (forall x, In x l -> f x = g x) -> map_res f l = map_res g l.
Proof.
  induction l as [|x l IH]; simpl; intros H; auto.
  rewrite (H x) by auto. rewrite IH by auto. reflexivity.
Qed.

Lemma map_res_ok {A B} (f : A -> res B) l : forall ys, map_res f l = Ok ys -> Forall2 (fun x y => f x = Ok y) l ys.
Proof.
  induction l as [|x l IH]; simpl; intros ys H.
  - inversion H. constructor.
  - destruct (f x) eqn:Fx; try discriminate. destruct (map_res f l) eqn:Fl; try discriminate.
    inversion H; subst. constructor; auto.
Qed.

Lemma map_res_fail {A B} (f : A -> res B) l e : map_res f l = Fail e -> exists x, In x l /\ f x = Fail e.
Proof.
  induction l as [|x l IH]; simpl; intros H; try discriminate.
  destruct (f x) eqn:Fx; try discriminate.
  - destruct (map_res f l) eqn:Fl; try discriminate. inversion H; subst.
    destruct (IH eq_refl) as [y [Hy Hf]]. eauto.
  - inversion H; subst. eauto.
Qed.

Lemma map_res_fuel {A B} (f : A -> res B) l : (forall x, In x l -> f x <> OutOfFuel) -> map_res f l <> OutOfFuel.
Proof.
  induction l as [|x l IH]; simpl; intros H; try discriminate.
  assert (Hx : f x <> OutOfFuel) by auto. destruct (f x); try congruence.
  assert (Hl : map_res f l <> OutOfFuel) by auto. destruct (map_res f l); congruence.
Qed.

Lemma Forall2_In_l {A B} (P : A -> B -> Prop) l l' : Forall2 P l l' -> forall x, In x l -> exists y, In y l' /\ P x y.
Proof.
  induction 1; simpl; intros z Hz; [destruct Hz|]. destruct Hz as [->|Hz]; eauto.
  destruct (IHForall2 _ Hz) as [w [Hw Hp]]. eauto.
Qed.

Lemma Forall2_In_r {A B} (P : A -> B -> Prop) l l' : Forall2 P l l' -> forall y, In y l' -> exists x, In x l /\ P x y.
Proof.
  induction 1; simpl; intros z Hz; [destruct Hz|]. destruct Hz as [->|Hz]; eauto.
  destruct (IHForall2 _ Hz) as [w [Hw Hp]]. eauto.
Qed.

Lemma existsb_false {A} (p : A -> bool) l : existsb p l = false <-> forall x, In x l -> p x = false.
Proof.
  split.
  - intros H x Hx. destruct (p x) eqn:E; auto.
    assert (existsb p l = true) by (apply existsb_exists; eauto). congruence.
  - intros H. destruct (existsb p l) eqn:E; auto. apply existsb_exists in E. destruct E as [x [Hx Hp]].
    rewrite H in Hp; auto.
Qed.

Lemma NoDup_snoc {A} (l : list A) x : NoDup l -> ~ In x l -> NoDup (l ++ [x]).
Proof.
  intros Hn Hx. rewrite <- (rev_involutive (l ++ [x])). apply NoDup_rev. rewrite rev_app_distr. simpl.
  constructor.
  - rewrite <- in_rev. exact Hx.
  - apply NoDup_rev. exact Hn.
Qed.

Lemma NoDup_bounded_length l n : NoDup l -> (forall x, In x l -> x < n) -> List.length l <= n.
Proof.
  intros Hn Hb. rewrite <- (seq_length n 0). apply NoDup_incl_length; auto.
  intros x Hx. apply in_seq. specialize (Hb x Hx). lia.
Qed.

(* ---------------------------------------------------------------- Class._mro: termination *)

Lemma resolved_lt t c b : In b (resolved t c) -> b < List.length t.
Proof. unfold resolved. intros H. apply filter_In in H. destruct H as [_ H]. apply Nat.ltb_lt. exact H. Qed.

Lemma g_mro_fuel_enough t : forall f seen c,
  NoDup (seen ++ [c]) -> (forall s, In s (seen ++ [c]) -> s < List.length t) ->
  List.length t < f + List.length seen ->
  g_mro f t seen c <> OutOfFuel.
Proof.
  induction f as [|f IH]; intros seen c Hn Hb Hf.
  - exfalso. pose proof (NoDup_bounded_length _ _ Hn Hb) as Hl. rewrite app_length in Hl. simpl in *. lia.
  - simpl. destruct (resolved t c) as [|b0 bs] eqn:Eb; try discriminate.
    destruct (existsb (fun b => mem b (seen ++ [c])) (b0 :: bs)) eqn:Ec; try discriminate.
    assert (Hm : map_res (g_mro f t (seen ++ [c])) (b0 :: bs) <> OutOfFuel).
    { apply map_res_fuel. intros b Hbin. apply IH.
      - apply NoDup_snoc; auto. apply mem_false. eapply existsb_false in Ec; eauto.
      - intros s Hs. apply in_app_or in Hs. destruct Hs as [Hs|[<-|[]]]; auto.
        apply (resolved_lt t c). rewrite Eb. exact Hbin.
      - rewrite app_length. simpl. lia. }
    destruct (map_res (g_mro f t (seen ++ [c])) (b0 :: bs)) as [ms| |]; try congruence.
    pose proof (c3linear_merge_total (ms ++ [b0 :: bs])).
    destruct (c3linear_merge (ms ++ [b0 :: bs])); congruence.
Qed.

Theorem griffe_full_mro_total t c : c < List.length t -> griffe_full_mro t c <> OutOfFuel.
Proof.
  intros Hc. unfold griffe_full_mro. apply g_mro_fuel_enough.
  - simpl. constructor; auto. constructor.
  - simpl. intros s [<-|[]]. exact Hc.
  - simpl. lia.
Qed.

(* ---------------------------------------------------------------- Class._mro: cycles *)

Inductive reach (t : tbl) : nat -> nat -> Prop :=
| reach_step : forall c b, In b (resolved t c) -> reach t c b
| reach_more : forall c b d, In b (resolved t c) -> reach t b d -> reach t c d.

Lemma reach_trans t a b c : reach t a b -> reach t b c -> reach t a c.
Proof. induction 1; intros H2; [eapply reach_more; eauto|]. eapply reach_more; eauto. Qed.

Lemma g_mro_ok_bases t f seen c m : g_mro (S f) t seen c = Ok m ->
  forall b, In b (resolved t c) -> ~ In b (seen ++ [c]) /\ exists mb, g_mro f t (seen ++ [c]) b = Ok mb.
Proof.
  simpl. intros H b Hb. destruct (resolved t c) as [|b0 bs] eqn:Eb; [destruct Hb|].
  destruct (existsb (fun b => mem b (seen ++ [c])) (b0 :: bs)) eqn:Ec; try discriminate.
  destruct (map_res (g_mro f t (seen ++ [c])) (b0 :: bs)) as [ms| |] eqn:Em; try discriminate.
  split.
  - apply mem_false. eapply existsb_false in Ec; eauto.
  - apply map_res_ok in Em. destruct (Forall2_In_l _ _ _ Em _ Hb) as [mb [_ Hmb]]. eauto.
Qed.

Lemma g_mro_ok_unseen t : forall f seen c m, g_mro f t seen c = Ok m ->
  forall d, reach t c d -> ~ In d (seen ++ [c]).
Proof.
  induction f as [|f IH]; intros seen c m H d Hr; [discriminate|].
  inversion Hr; subst.
  - destruct (g_mro_ok_bases _ _ _ _ _ H _ H0) as [Hns _]. exact Hns.
  - destruct (g_mro_ok_bases _ _ _ _ _ H _ H0) as [_ [mb Hmb]].
    intros Hin. eapply IH; eauto. apply in_or_app. left. exact Hin.
Qed.

Lemma g_mro_ok_acyclic t : forall f seen c m, g_mro f t seen c = Ok m ->
  forall d, d = c \/ reach t c d -> ~ reach t d d.
Proof.
  induction f as [|f IH]; intros seen c m H d Hd; [discriminate|].
  destruct Hd as [->|Hr].
  - intros Hcc. eapply g_mro_ok_unseen; eauto. apply in_or_app. right. simpl. auto.
  - inversion Hr; subst.
    + destruct (g_mro_ok_bases _ _ _ _ _ H _ H0) as [_ [mb Hmb]]. eapply IH; eauto.
    + destruct (g_mro_ok_bases _ _ _ _ _ H _ H0) as [_ [mb Hmb]]. eapply IH; eauto.
Qed.

(* a class from which an inheritance cycle can be reached is reported as uncomputable; the recursion never
   runs out of the fuel #classes + 1, i.e. the real code neither loops nor overflows the stack on it *)
Theorem cycle_reported t c d : c < List.length t -> d = c \/ reach t c d -> reach t d d ->
  exists e, griffe_full_mro t c = Fail e.
Proof.
  intros Hc Hd Hdd. destruct (griffe_full_mro t c) as [m|e|] eqn:E.
  - exfalso. unfold griffe_full_mro in E. eapply g_mro_ok_acyclic; eauto.
  - eauto.
  - exfalso. eapply griffe_full_mro_total; eauto.
Qed.

(* and the "inheritance cycle detected" error is only raised when there is one *)
Lemma g_mro_cycle_truthful t : forall f seen c, (forall s, In s seen -> reach t s c) ->
  g_mro f t seen c = Fail Cycle -> exists d, (d = c \/ reach t c d) /\ reach t d d.
Proof.
  induction f as [|f IH]; intros seen c Hs H; [discriminate|]. simpl in H.
  destruct (resolved t c) as [|b0 bs] eqn:Eb; try discriminate.
  destruct (existsb (fun b => mem b (seen ++ [c])) (b0 :: bs)) eqn:Ec.
  - apply existsb_exists in Ec. destruct Ec as [b [Hb Hm]]. apply mem_In in Hm.
    assert (Hcb : reach t c b) by (apply reach_step; rewrite Eb; exact Hb).
    apply in_app_or in Hm. destruct Hm as [Hm|[<-|[]]].
    + exists b. split; auto. eapply reach_trans; eauto.
    + exists c. auto.
  - destruct (map_res (g_mro f t (seen ++ [c])) (b0 :: bs)) as [ms|e|] eqn:Em; try discriminate.
    + destruct (c3linear_merge (ms ++ [b0 :: bs])) as [r|e|] eqn:Eg; try discriminate.
      inversion H; subst. apply c3linear_merge_fails_only_inconsistent in Eg. discriminate.
    + inversion H; subst. apply map_res_fail in Em. destruct Em as [b [Hb Hf]].
      assert (Hcb : reach t c b) by (apply reach_step; rewrite Eb; exact Hb).
      destruct (IH (seen ++ [c]) b) as [d [Hd Hdd]]; auto.
      * intros s Hin. apply in_app_or in Hin. destruct Hin as [Hin|[<-|[]]]; auto.
        eapply reach_trans; eauto.
      * exists d. split; auto. right. destruct Hd as [->|Hd]; auto. eapply reach_trans; eauto.
Qed.

Theorem cycle_error_truthful t c : griffe_full_mro t c = Fail Cycle ->
  exists d, (d = c \/ reach t c d) /\ reach t d d.
Proof. apply g_mro_cycle_truthful. intros s []. Qed.

(* ---------------------------------------------------------------- Class._mro = CPython's mro_implementation *)

Lemma filter_all {A} (p : A -> bool) l : (forall x, In x l -> p x = true) -> filter p l = l.
Proof. induction l as [|x l IH]; simpl; intros H; auto. rewrite H by auto. rewrite IH; auto. Qed.

Lemma ordered_resolved t c : ordered t -> c < List.length t -> resolved t c = cbases (nth_cls t c).
Proof.
  intros Ho Hc. unfold resolved. apply filter_all. intros b Hb. apply Nat.ltb_lt.
  specialize (Ho c b Hc Hb). lia.
Qed.

Lemma Forall2_single {A B} (P : A -> B -> Prop) x ys : Forall2 P [x] ys -> exists y, ys = [y] /\ P x y.
Proof. intros H. inversion H as [|a b l l' Hp Hr]; subst. inversion Hr; subst. eauto. Qed.

Lemma Forall2_two {A B} (P : A -> B -> Prop) x x' xs ys : Forall2 P (x :: x' :: xs) ys -> exists y y' ys', ys = y :: y' :: ys'.
Proof. intros H. inversion H as [|a b l l' Hp Hr]; subst. inversion Hr; subst. eauto. Qed.

Definition wf_mro (c : nat) (m : list nat) : Prop :=
  (exists r, m = c :: r) /\ NoDup m /\ (forall x, In x m -> x <= c).

Lemma merged_below c bases ms r :
  (forall b, In b bases -> b < c) ->
  (forall m, In m ms -> exists b, In b bases /\ wf_mro b m) ->
  c3linear_merge (ms ++ [bases]) = Ok r ->
  NoDup r /\ forall x, In x r -> x < c.
Proof.
  intros Hb Hms Hm. destruct (c3linear_merge_sound _ _ Hm) as [Hn [Hel _]]. split; auto.
  intros x Hx. apply Hel in Hx. destruct Hx as [l [Hl Hx]]. apply in_app_or in Hl.
  destruct Hl as [Hl|[<-|[]]]; auto.
  destruct (Hms _ Hl) as [b [Hbin [_ [_ Hle]]]]. specialize (Hle _ Hx). specialize (Hb _ Hbin). lia.
Qed.

Lemma wf_cons c r : NoDup r -> (forall x, In x r -> x < c) -> wf_mro c (c :: r).
Proof.
  intros Hn Hlt. split; [eauto|]. split.
  - constructor; auto. intros Hc. specialize (Hlt _ Hc). lia.
  - intros x [<-|Hx]; auto. specialize (Hlt _ Hx). lia.
Qed.

Lemma py_mro_wf t : ordered t -> forall f c m, c < List.length t -> py_mro f t c = Ok m -> wf_mro c m.
Proof.
  intros Ho. induction f as [|f IH]; intros c m Hc H; [discriminate|]. simpl in H.
  destruct (cbases (nth_cls t c)) as [|b0 bs] eqn:Eb.
  - inversion H; subst. apply wf_cons; [constructor|intros x []].
  - assert (Hlt : forall b, In b (b0 :: bs) -> b < c) by (intros b Hb; apply (Ho c b Hc); rewrite Eb; exact Hb).
    destruct (map_res (py_mro f t) (b0 :: bs)) as [ms| |] eqn:Em; try discriminate.
    apply map_res_ok in Em.
    assert (Hms : forall m', In m' ms -> exists b, In b (b0 :: bs) /\ wf_mro b m').
    { intros m' Hm'. destruct (Forall2_In_r _ _ _ Em _ Hm') as [b [Hb Hpy]]. exists b. split; auto.
      apply (IH b m'); auto. specialize (Hlt _ Hb). lia. }
    unfold cpython_mro_impl in H.
    destruct bs as [|b1 bs].
    + destruct (Forall2_single _ _ _ Em) as [y [-> Hy]]. inversion H; subst.
      destruct (Hms y (or_introl eq_refl)) as [b [[<-|[]] [_ [Hn Hle]]]].
      apply wf_cons; auto. intros x Hx. specialize (Hle _ Hx). specialize (Hlt b0 (or_introl eq_refl)). lia.
    + destruct (has_dup (b0 :: b1 :: bs)); try discriminate.
      rewrite <- merge_eq_pmerge in H.
      destruct (c3linear_merge (ms ++ [b0 :: b1 :: bs])) as [r| |] eqn:Eg; try discriminate.
      inversion H; subst. destruct (merged_below _ _ _ _ Hlt Hms Eg). apply wf_cons; auto.
Qed.

Lemma g_mro_eq_py_mro t : ordered t -> forall f seen c, c < List.length t -> (forall s, In s seen -> c < s) ->
  g_mro f t seen c = py_mro f t c.
Proof.
  intros Ho. induction f as [|f IH]; intros seen c Hc Hs; auto. simpl.
  rewrite ordered_resolved by auto.
  destruct (cbases (nth_cls t c)) as [|b0 bs] eqn:Eb; auto.
  assert (Hlt : forall b, In b (b0 :: bs) -> b < c) by (intros b Hb; apply (Ho c b Hc); rewrite Eb; exact Hb).
  assert (Ec : existsb (fun b => mem b (seen ++ [c])) (b0 :: bs) = false).
  { apply existsb_false. intros b Hb. apply mem_false. intros Hin. specialize (Hlt _ Hb).
    apply in_app_or in Hin. destruct Hin as [Hin|[<-|[]]]; [specialize (Hs _ Hin)|]; lia. }
  rewrite Ec.
  rewrite (map_res_ext (g_mro f t (seen ++ [c])) (py_mro f t)).
  2:{ intros b Hb. specialize (Hlt _ Hb). apply IH; [lia|]. intros s Hin. apply in_app_or in Hin.
      destruct Hin as [Hin|[<-|[]]]; [specialize (Hs _ Hin)|]; lia. }
  destruct (map_res (py_mro f t) (b0 :: bs)) as [ms| |] eqn:Em; auto.
  apply map_res_ok in Em.
  unfold cpython_mro_impl. destruct bs as [|b1 bs].
  - destruct (Forall2_single _ _ _ Em) as [y [-> Hy]].
    assert (Hw : wf_mro b0 y) by (apply (py_mro_wf t Ho f); auto; specialize (Hlt b0 (or_introl eq_refl)); lia).
    destruct Hw as [[r ->] [Hn _]]. cbn [app]. rewrite merge_fast by exact Hn. reflexivity.
  - destruct (has_dup (b0 :: b1 :: bs)) eqn:Ed.
    + rewrite (c3linear_merge_dup_fails (ms ++ [b0 :: b1 :: bs]) (b0 :: b1 :: bs)); auto.
      apply in_or_app. right. simpl. auto.
    + rewrite merge_eq_pmerge. destruct (Forall2_two _ _ _ _ _ Em) as [y [y' [ys' ->]]]. reflexivity.
Qed.

(* in an ordered table the depth of the recursion is bounded by the class index *)
Lemma py_mro_fuel_enough t : ordered t -> forall f c, c < List.length t -> c < f -> py_mro f t c <> OutOfFuel.
Proof.
  intros Ho. induction f as [|f IH]; intros c Hc Hf; [lia|]. simpl.
  destruct (cbases (nth_cls t c)) as [|b0 bs] eqn:Eb; try discriminate.
  assert (Hlt : forall b, In b (b0 :: bs) -> b < c) by (intros b Hb; apply (Ho c b Hc); rewrite Eb; exact Hb).
  assert (Hm : map_res (py_mro f t) (b0 :: bs) <> OutOfFuel).
  { apply map_res_fuel. intros b Hb. specialize (Hlt _ Hb). apply IH; lia. }
  destruct (map_res (py_mro f t) (b0 :: bs)) as [ms| |]; try congruence.
  unfold cpython_mro_impl. destruct bs as [|b1 bs].
  - destruct ms as [|m [|m' ms]]; try discriminate;
      (destruct (has_dup [b0]); try discriminate; rewrite <- merge_eq_pmerge;
       match goal with |- context [c3linear_merge ?l] => pose proof (c3linear_merge_total l); destruct (c3linear_merge l); congruence end).
  - destruct (has_dup (b0 :: b1 :: bs)); try discriminate. rewrite <- merge_eq_pmerge.
    pose proof (c3linear_merge_total (ms ++ [b0 :: b1 :: bs])).
    destruct (c3linear_merge (ms ++ [b0 :: b1 :: bs])); congruence.
Qed.

Theorem mro_eq_cpython t c : ordered t -> c < List.length t ->
  griffe_full_mro t c = cpython_mro t c /\ cpython_mro t c <> OutOfFuel.
Proof.
  intros Ho Hc. split.
  - apply g_mro_eq_py_mro; auto. intros s [].
  - apply py_mro_fuel_enough; auto.
Qed.

Lemma orderedb_ordered t : orderedb t = true -> ordered t.
Proof.
  unfold orderedb, ordered. rewrite forallb_forall. intros H c b Hc Hb.
  assert (Hin : In c (seq 0 (List.length t))) by (apply in_seq; lia).
  specialize (H c Hin). rewrite forallb_forall in H. apply Nat.ltb_lt. auto.
Qed.

(* an ordered table has no cycle, and Griffe never reports one there *)
Theorem ordered_never_cycle t c : ordered t -> c < List.length t -> griffe_full_mro t c <> Fail Cycle.
Proof.
  intros Ho Hc H. destruct (cycle_error_truthful _ _ H) as [d [_ Hdd]].
  assert (Hdec : forall a b, reach t a b -> a < List.length t -> b < a).
  { induction 1; intros Ha.
    - rewrite ordered_resolved in H0 by auto. apply (Ho c0 b); auto.
    - assert (b < c0) by (rewrite ordered_resolved in H0 by auto; apply (Ho c0 b); auto).
      assert (d0 < b) by (apply IHreach; lia). lia. }
  assert (Hd : d < List.length t).
  { clear - Hdd. induction Hdd; auto. eapply resolved_lt; eauto. }
  specialize (Hdec _ _ Hdd Hd). lia.
Qed.

(* ---------------------------------------------------------------- eliding `object` is sound *)

Definition app_flag (o : nat) (p : list nat * bool) : list nat := if snd p then fst p ++ [o] else fst p.
Definition pop_flag (x : nat) (p : list nat * bool) : list nat * bool := (pop_if x (fst p), snd p).

Record obj_inv (o : nat) (st : list (list nat * bool)) : Prop := {
  oi_absent : forall p, In p st -> ~ In o (fst p);
  oi_covered : forall p, In p st -> snd p = false -> forall y, In y (fst p) -> exists q, In q st /\ snd q = true /\ In y (fst q);
  oi_flagged : exists p, In p st /\ snd p = true }.

Lemma mem_app x l1 l2 : mem x (l1 ++ l2) = mem x l1 || mem x l2.
Proof. unfold mem. apply existsb_app. Qed.

Lemma tail_flag_other o x p : x <> o -> mem x (tail (app_flag o p)) = mem x (tail (fst p)).
Proof.
  intros Hx. destruct p as [[|h t] [|]]; unfold app_flag; simpl; auto.
  rewrite mem_app. simpl. destruct (Nat.eqb_spec x o); [congruence|]. rewrite !orb_false_r. reflexivity.
Qed.

Lemma in_tails_flag_other o x st : x <> o -> in_tails x (map (app_flag o) st) = in_tails x (map fst st).
Proof.
  intros Hx. unfold in_tails. induction st as [|p st IH]; simpl; auto. rewrite IH, tail_flag_other by auto. reflexivity.
Qed.

Lemma in_tails_flag_obj o st : (exists p, In p st /\ snd p = true /\ fst p <> []) -> in_tails o (map (app_flag o) st) = true.
Proof.
  intros [p [Hp [Hf Hn]]]. unfold in_tails. apply existsb_exists. exists (app_flag o p). split; [apply in_map; auto|].
  destruct p as [[|h t] b]; simpl in *; [congruence|]. subst. unfold app_flag. simpl. rewrite mem_app. simpl.
  rewrite Nat.eqb_refl. rewrite orb_true_r. reflexivity.
Qed.

Lemma pick_flag o all all' : in_tails o all' = true -> (forall x, x <> o -> in_tails x all' = in_tails x all) ->
  forall rest, (forall p, In p rest -> ~ In o (fst p)) ->
  pick (map head (map (app_flag o) rest)) all' = pick (map head (map fst rest)) all.
Proof.
  intros Ho Hother. induction rest as [|p rest IH]; intros Habs; simpl; auto.
  assert (IH' := IH (fun q Hq => Habs q (or_intror Hq))).
  assert (Hp := Habs p (or_introl eq_refl)).
  destruct p as [[|h t] [|]]; unfold app_flag at 1; simpl.
  - rewrite Ho. exact IH'.
  - exact IH'.
  - assert (h <> o) by (intros ->; apply Hp; simpl; auto). rewrite Hother by auto. rewrite IH'. reflexivity.
  - assert (h <> o) by (intros ->; apply Hp; simpl; auto). rewrite Hother by auto. rewrite IH'. reflexivity.
Qed.

Lemma pop_flag_app o x p : x <> o -> ~ In o (fst p) -> pop_if x (app_flag o p) = app_flag o (pop_flag x p).
Proof.
  intros Hx Ho. destruct p as [[|h t] [|]]; unfold app_flag, pop_flag; simpl; auto.
  - destruct (Nat.eqb_spec o x); [congruence|reflexivity].
  - destruct (Nat.eqb h x); reflexivity.
Qed.

Lemma exhausted_flagged_nonempty o st : obj_inv o st -> exhausted (map fst st) = false ->
  exists p, In p st /\ snd p = true /\ fst p <> [].
Proof.
  intros Hi He. unfold exhausted in He.
  assert (Hex : exists l, In l (map fst st) /\ is_nil l = false).
  { clear Hi. induction (map fst st) as [|l ls IH]; simpl in He; [discriminate|].
    destruct (is_nil l) eqn:El; simpl in He; [destruct (IH He) as [l' [H1 H2]]; exists l'; simpl; auto|exists l; simpl; auto]. }
  destruct Hex as [l [Hl Hn]]. apply in_map_iff in Hl. destruct Hl as [p [<- Hp]].
  destruct p as [[|h t] b]; simpl in Hn; [discriminate|].
  destruct b.
  - exists (h :: t, true). simpl. repeat split; auto. discriminate.
  - destruct (oi_covered _ _ Hi _ Hp eq_refl h (or_introl eq_refl)) as [q [Hq [Hf Hin]]].
    exists q. repeat split; auto. intros E. rewrite E in Hin. destruct Hin.
Qed.

Lemma obj_inv_pop o x st : obj_inv o st -> in_tails x (map fst st) = false -> obj_inv o (map (pop_flag x) st).
Proof.
  intros Hi Ht. constructor.
  - intros p Hp Ho. apply in_map_iff in Hp. destruct Hp as [p0 [<- Hp0]]. simpl in Ho. apply pop_if_incl in Ho.
    eapply oi_absent; eauto.
  - intros p Hp Hf y Hy. apply in_map_iff in Hp. destruct Hp as [p0 [<- Hp0]]. simpl in *.
    assert (Hyx : y <> x).
    { intros ->. eapply (remove_absent x (map fst st) Ht (pop_if x (fst p0))); eauto.
      unfold remove. apply in_map. apply in_map. exact Hp0. }
    destruct (oi_covered _ _ Hi _ Hp0 Hf y (pop_if_incl _ _ _ Hy)) as [q [Hq [Hqf Hin]]].
    exists (pop_flag x q). split; [apply in_map; auto|]. split; auto. simpl. apply pop_if_keeps; auto.
  - destruct (oi_flagged _ _ Hi) as [p [Hp Hf]]. exists (pop_flag x p). split; [apply in_map; auto|auto].
Qed.

Lemma merge_fuel_S f ls : merge_fuel (S f) ls =
  if exhausted ls then Ok []
  else match pick (map head ls) ls with
       | Some x => match merge_fuel f (remove x ls) with Ok r => Ok (x :: r) | Fail e => Fail e | OutOfFuel => OutOfFuel end
       | None => Fail Inconsistent
       end.
Proof. reflexivity. Qed.

Lemma pick_first_obj o all : in_tails o all = false -> forall st,
  (forall p, In p st -> app_flag o p = if snd p then [o] else []) -> (exists p, In p st /\ snd p = true) ->
  pick (map head (map (app_flag o) st)) all = Some o.
Proof.
  intros Hall. induction st as [|p st IH]; intros Hshape [q [Hq Hf]]; [destruct Hq|]. simpl.
  rewrite (Hshape p (or_introl eq_refl)). destruct (snd p) eqn:Ep; simpl.
  - rewrite Hall. reflexivity.
  - destruct Hq as [->|Hq]; [congruence|]. apply IH; eauto. intros r Hr. apply Hshape. simpl; auto.
Qed.

Lemma merge_all_obj o f st : (forall p, In p st -> fst p = []) -> (exists p, In p st /\ snd p = true) ->
  merge_fuel (S (S f)) (map (app_flag o) st) = Ok [o].
Proof.
  intros Hnil Hfl.
  assert (Hshape : forall p, In p st -> app_flag o p = if snd p then [o] else []).
  { intros [l b] Hp. specialize (Hnil _ Hp). simpl in Hnil. subst. destruct b; reflexivity. }
  assert (Hex : exhausted (map (app_flag o) st) = false).
  { destruct Hfl as [p [Hp Hf]]. unfold exhausted. apply not_true_is_false. intros H. rewrite forallb_forall in H.
    specialize (H (app_flag o p) (in_map _ _ _ Hp)). rewrite (Hshape _ Hp), Hf in H. discriminate. }
  assert (Ht : in_tails o (map (app_flag o) st) = false).
  { unfold in_tails. apply existsb_false. intros l Hl. apply in_map_iff in Hl. destruct Hl as [p [<- Hp]].
    rewrite (Hshape _ Hp). destruct (snd p); reflexivity. }
  assert (Hpick : pick (map head (map (app_flag o) st)) (map (app_flag o) st) = Some o).
  { apply pick_first_obj; auto. }
  rewrite merge_fuel_S, Hex, Hpick, merge_fuel_S.
  assert (Hrem : exhausted (remove o (map (app_flag o) st)) = true).
  { unfold exhausted, remove. rewrite forallb_forall. intros l Hl. apply in_map_iff in Hl. destruct Hl as [l0 [<- Hl0]].
    apply in_map_iff in Hl0. destruct Hl0 as [p [<- Hp]]. rewrite (Hshape _ Hp). destruct (snd p); simpl; auto.
    rewrite Nat.eqb_refl. reflexivity. }
  rewrite Hrem. reflexivity.
Qed.

Lemma merge_flag o : forall f st, obj_inv o st -> merge_fuel f (map fst st) <> OutOfFuel ->
  merge_fuel (S f) (map (app_flag o) st) =
  match merge_fuel f (map fst st) with Ok r => Ok (r ++ [o]) | Fail e => Fail e | OutOfFuel => OutOfFuel end.
Proof.
  induction f as [|f IH]; intros st Hi Hne; [simpl in Hne; congruence|].
  rewrite (merge_fuel_S f (map fst st)) in Hne |- *.
  destruct (exhausted (map fst st)) eqn:Ex.
  - rewrite (merge_all_obj o f st); auto.
    + intros p Hp. apply (exhausted_all_nil _ Ex). apply in_map. exact Hp.
    + apply (oi_flagged _ _ Hi).
  - destruct (exhausted_flagged_nonempty _ _ Hi Ex) as [p0 [Hp0 [Hf0 Hn0]]].
    assert (Ex' : exhausted (map (app_flag o) st) = false).
    { unfold exhausted. apply not_true_is_false. intros H. rewrite forallb_forall in H.
      specialize (H _ (in_map (app_flag o) _ _ Hp0)). unfold app_flag in H. rewrite Hf0 in H.
      destruct (fst p0); [congruence|discriminate]. }
    rewrite merge_fuel_S, Ex'.
    rewrite (pick_flag o (map fst st) (map (app_flag o) st)).
    2:{ apply in_tails_flag_obj. eauto. }
    2:{ intros x Hx. apply in_tails_flag_other. exact Hx. }
    2:{ apply (oi_absent _ _ Hi). }
    destruct (pick (map head (map fst st)) (map fst st)) as [x|] eqn:Pk; auto.
    destruct (pick_head _ _ _ Pk) as [t [Hxt Htl]].
    assert (Hxo : x <> o).
    { intros ->. apply in_map_iff in Hxt. destruct Hxt as [p [Hfp Hp]]. apply (oi_absent _ _ Hi p Hp). rewrite Hfp. simpl; auto. }
    assert (Hrem' : remove x (map (app_flag o) st) = map (app_flag o) (map (pop_flag x) st)).
    { unfold remove. rewrite !map_map. apply map_ext_in. intros p Hp. apply pop_flag_app; auto. apply (oi_absent _ _ Hi p Hp). }
    assert (Hrem : remove x (map fst st) = map fst (map (pop_flag x) st)).
    { unfold remove. rewrite !map_map. reflexivity. }
    rewrite Hrem'. rewrite Hrem in Hne |- *.
    assert (Hne' : merge_fuel f (map fst (map (pop_flag x) st)) <> OutOfFuel).
    { destruct (merge_fuel f (map fst (map (pop_flag x) st))); congruence. }
    rewrite (IH (map (pop_flag x) st) (obj_inv_pop _ _ _ Hi Htl) Hne').
    destruct (merge_fuel f (map fst (map (pop_flag x) st))); reflexivity.
Qed.

Lemma merge_fuel_agree f g ls : merge_fuel f ls <> OutOfFuel -> merge_fuel g ls <> OutOfFuel -> merge_fuel f ls = merge_fuel g ls.
Proof.
  intros Hf Hg. destruct (Nat.le_ge_cases f g).
  - symmetry. apply merge_fuel_mono; auto.
  - apply merge_fuel_mono; auto.
Qed.

Theorem object_elision o ms bs : ms <> [] -> (forall l, In l ms -> ~ In o l) -> ~ In o bs ->
  (forall b, In b bs -> exists l, In l ms /\ In b l) ->
  c3linear_merge (map (fun l => l ++ [o]) ms ++ [bs]) =
  match c3linear_merge (ms ++ [bs]) with Ok r => Ok (r ++ [o]) | Fail e => Fail e | OutOfFuel => OutOfFuel end.
Proof.
  intros Hne Habs Hbs Hcov.
  set (st := map (fun l => (l, true)) ms ++ [(bs, false)]).
  assert (Hfst : map fst st = ms ++ [bs]).
  { unfold st. rewrite map_app, map_map. simpl. rewrite map_id. reflexivity. }
  assert (Hflag : map (app_flag o) st = map (fun l => l ++ [o]) ms ++ [bs]).
  { unfold st. rewrite map_app, map_map. reflexivity. }
  assert (Hi : obj_inv o st).
  { constructor.
    - intros p Hp. unfold st in Hp. apply in_app_or in Hp. destruct Hp as [Hp|[<-|[]]]; auto.
      apply in_map_iff in Hp. destruct Hp as [l [<- Hl]]. simpl. auto.
    - intros p Hp Hf y Hy. unfold st in Hp. apply in_app_or in Hp. destruct Hp as [Hp|[<-|[]]].
      + apply in_map_iff in Hp. destruct Hp as [l [<- Hl]]. discriminate.
      + simpl in Hy. destruct (Hcov _ Hy) as [l [Hl Hin]]. exists (l, true). split; [|auto].
        unfold st. apply in_or_app. left. apply in_map_iff. eauto.
    - destruct ms as [|l ms']; [congruence|]. exists (l, true). split; auto. unfold st. simpl. auto. }
  pose proof (c3linear_merge_total (ms ++ [bs])) as Htot. unfold c3linear_merge in Htot. rewrite <- Hfst in Htot.
  pose proof (merge_flag o _ st Hi Htot) as Hm.
  rewrite <- Hflag. rewrite <- Hfst. unfold c3linear_merge.
  rewrite <- Hm. apply merge_fuel_agree.
  - apply merge_fuel_enough. lia.
  - rewrite Hm. destruct (merge_fuel (S (total (map fst st))) (map fst st)); congruence.
Qed.

Lemma map_res_obj {A} o (F G : A -> res (list nat)) l : (forall x, In x l -> F x = add_obj o (G x)) ->
  map_res F l = match map_res G l with Ok ms => Ok (map (fun m => m ++ [o]) ms) | Fail e => Fail e | OutOfFuel => OutOfFuel end.
Proof.
  induction l as [|x l IH]; simpl; intros H; auto.
  rewrite (H x) by auto. rewrite IH by auto. destruct (G x); simpl; auto. destruct (map_res G l); reflexivity.
Qed.

Theorem py_mro_obj_eq t o : ordered t -> List.length t <= o -> forall f c, c < List.length t ->
  py_mro_obj f t o c = add_obj o (py_mro f t c).
Proof.
  intros Ho Hlen. induction f as [|f IH]; intros c Hc; auto. simpl.
  destruct (cbases (nth_cls t c)) as [|b0 bs] eqn:Eb; auto.
  assert (Hlt : forall b, In b (b0 :: bs) -> b < c) by (intros b Hb; apply (Ho c b Hc); rewrite Eb; exact Hb).
  rewrite (map_res_obj o (py_mro_obj f t o) (py_mro f t)).
  2:{ intros b Hb. apply IH. specialize (Hlt _ Hb). lia. }
  destruct (map_res (py_mro f t) (b0 :: bs)) as [ms| |] eqn:Em; auto.
  apply map_res_ok in Em.
  assert (Hwf : forall b m, In b (b0 :: bs) -> py_mro f t b = Ok m -> wf_mro b m).
  { intros b m Hb Hm. apply (py_mro_wf t Ho f); auto. specialize (Hlt _ Hb). lia. }
  unfold cpython_mro_impl. destruct bs as [|b1 bs].
  - destruct (Forall2_single _ _ _ Em) as [y [-> Hy]]. reflexivity.
  - destruct (Forall2_two _ _ _ _ _ Em) as [y [y' [ys' Hms]]]. rewrite Hms. cbn [map]. rewrite <- Hms.
    destruct (has_dup (b0 :: b1 :: bs)); auto.
    rewrite <- !merge_eq_pmerge.
    change (((y ++ [o]) :: (y' ++ [o]) :: map (fun m => m ++ [o]) ys')) with (map (fun m => m ++ [o]) (y :: y' :: ys')).
    rewrite <- Hms. rewrite object_elision.
    + destruct (c3linear_merge (ms ++ [b0 :: b1 :: bs])); reflexivity.
    + rewrite Hms. discriminate.
    + intros l Hl Hin. destruct (Forall2_In_r _ _ _ Em _ Hl) as [b [Hb Hpy]].
      destruct (Hwf _ _ Hb Hpy) as [_ [_ Hle]]. specialize (Hle _ Hin). specialize (Hlt _ Hb). lia.
    + intros Hin. specialize (Hlt _ Hin). lia.
    + intros b Hb. destruct (Forall2_In_l _ _ _ Em _ Hb) as [m [Hm Hpy]]. exists m. split; auto.
      destruct (Hwf _ _ Hb Hpy) as [[r ->] _]. simpl; auto.
Qed.

Theorem cpython_mro_obj_eq t c : ordered t -> c < List.length t ->
  cpython_mro_obj t c = add_obj (List.length t) (cpython_mro t c).
Proof. intros Ho Hc. unfold cpython_mro_obj, cpython_mro. apply py_mro_obj_eq; auto. Qed.

(* ---------------------------------------------------------------- inherited members *)
Open Scope string_scope.

Lemma smem_In n l : smem n l = true <-> In n l.
Proof.
  unfold smem. rewrite existsb_exists. split.
  - intros [y [Hy He]]. apply String.eqb_eq in He. subst. exact Hy.
  - intros H. exists n. split; auto. apply String.eqb_refl.
Qed.

Lemma lookup_assign {A} n k (v : A) d : lookup n (assign k v d) = if String.eqb k n then Some v else lookup n d.
Proof.
  induction d as [|[k0 w] d IH]; simpl.
  - reflexivity.
  - destruct (String.eqb_spec k0 k) as [->|Hk]; simpl.
    + destruct (String.eqb k n); reflexivity.
    + rewrite IH. destruct (String.eqb_spec k0 n) as [->|Hn]; auto.
      destruct (String.eqb_spec k n); congruence.
Qed.

Definition inh_step (own : list string) (c base : nat) (d : list (string * alias)) (n : string) :=
  if smem n own then d else assign n (mkAlias n c base true) d.

Lemma lookup_inh_names own c base n : forall names d,
  lookup n (fold_left (inh_step own c base) names d) =
  if negb (smem n own) && smem n names then Some (mkAlias n c base true) else lookup n d.
Proof.
  induction names as [|n' names IH]; intros d.
  - simpl. rewrite andb_false_r. reflexivity.
  - cbn [fold_left]. rewrite IH. unfold inh_step.
    change (smem n (n' :: names)) with (String.eqb n n' || smem n names)%bool.
    destruct (smem n own) eqn:On; cbn [negb andb].
    + destruct (smem n' own) eqn:On'; auto. rewrite lookup_assign.
      destruct (String.eqb_spec n' n); auto. subst. congruence.
    + destruct (smem n names); [rewrite orb_true_r; reflexivity|]. rewrite orb_false_r.
      destruct (smem n' own) eqn:On'.
      * destruct (String.eqb_spec n n'); auto. subst. congruence.
      * rewrite lookup_assign. rewrite (String.eqb_sym n n').
        destruct (String.eqb_spec n' n); subst; reflexivity.
Qed.

Lemma lookup_add_base t c n d base :
  lookup n (add_base t c d base) =
  if negb (smem n (cmembers (nth_cls t c))) && smem n (cmembers (nth_cls t base))
  then Some (mkAlias n c base true) else lookup n d.
Proof. unfold add_base. apply (lookup_inh_names (cmembers (nth_cls t c)) c base n). Qed.

Lemma find_app {A} (p : A -> bool) l1 l2 : find p (l1 ++ l2) = match find p l1 with Some x => Some x | None => find p l2 end.
Proof. induction l1 as [|x l1 IH]; simpl; auto. destruct (p x); auto. Qed.

Lemma lookup_fold_bases t c n : forall l d,
  lookup n (fold_left (add_base t c) l d) =
  if smem n (cmembers (nth_cls t c)) then lookup n d
  else match find (fun k => smem n (cmembers (nth_cls t k))) (rev l) with
       | Some k => Some (mkAlias n c k true)
       | None => lookup n d
       end.
Proof.
  induction l as [|b l IH]; intros d; simpl.
  - destruct (smem n (cmembers (nth_cls t c))); reflexivity.
  - rewrite IH, find_app, lookup_add_base. simpl.
    destruct (smem n (cmembers (nth_cls t c))); simpl; auto.
    destruct (find (fun k => smem n (cmembers (nth_cls t k))) (rev l)); auto.
    destruct (smem n (cmembers (nth_cls t b))); reflexivity.
Qed.

(* nearest definition in the MRO wins, and a name the class declares itself is never inherited *)
Theorem inherited_nearest_wins t c m n : griffe_mro t c = Ok m ->
  lookup n (inherited_members t c) =
  if smem n (cmembers (nth_cls t c)) then None
  else option_map (fun k => mkAlias n c k true) (first_definer t m n).
Proof.
  intros H. unfold inherited_members. rewrite H. rewrite lookup_fold_bases, rev_involutive. simpl.
  unfold first_definer. destruct (smem n (cmembers (nth_cls t c))); auto;
  try (destruct (find (fun k => smem n (cmembers (nth_cls t k))) m); reflexivity).
Qed.

Theorem inherited_uncomputable_empty t c e : griffe_mro t c = Fail e -> inherited_members t c = [].
Proof. intros H. unfold inherited_members. rewrite H. reflexivity. Qed.

Lemma lookup_own_fold c n : forall names (d : list (string * entry)),
  lookup n (fold_left (fun d n' => assign n' (Own c n') d) names d) =
  if smem n names then Some (Own c n) else lookup n d.
Proof.
  induction names as [|n' names IH]; intros d; simpl; auto.
  rewrite IH, lookup_assign. rewrite (String.eqb_sym n n').
  destruct (smem n names); [rewrite orb_true_r; auto|]. rewrite orb_false_r.
  destruct (String.eqb_spec n' n); subst; reflexivity.
Qed.

Lemma lookup_map_inh n (d : list (string * alias)) :
  lookup n (map (fun kv => (fst kv, Inh (snd kv))) d) = option_map Inh (lookup n d).
Proof. induction d as [|[k v] d IH]; simpl; auto. destruct (String.eqb k n); auto. Qed.

(* {**inherited, **members}: a declared member is never shadowed by an inherited one *)
Theorem all_members_lookup t c n :
  lookup n (all_members t c) =
  if smem n (cmembers (nth_cls t c)) then Some (Own c n) else option_map Inh (lookup n (inherited_members t c)).
Proof. unfold all_members. rewrite lookup_own_fold, lookup_map_inh. reflexivity. Qed.

Definition entry_owner (e : entry) : nat := match e with Own c _ => c | Inh a => al_owner a end.

(* the class that provides `n` according to Griffe is the one CPython's lookup through tp_mro finds *)
Theorem all_members_eq_getattr t c n : ordered t -> c < List.length t -> (exists m, cpython_mro t c = Ok m) ->
  option_map entry_owner (lookup n (all_members t c)) = cpython_getattr t c n.
Proof.
  intros Ho Hc [m Hm]. destruct (mro_eq_cpython t c Ho Hc) as [Heq _].
  assert (Hw : wf_mro c m) by (apply (py_mro_wf t Ho (S (List.length t))); auto).
  destruct Hw as [[r ->] _].
  unfold cpython_getattr. rewrite Hm. rewrite all_members_lookup.
  assert (Hg : griffe_mro t c = Ok r) by (unfold griffe_mro; rewrite Heq, Hm; reflexivity).
  rewrite (inherited_nearest_wins t c r n Hg). unfold first_definer. simpl.
  destruct (smem n (cmembers (nth_cls t c))); auto.
  destruct (find (fun k => smem n (cmembers (nth_cls t k))) r); reflexivity.
Qed.

(* every inherited member is an alias under the subclass's own path, pointing at the member of a class of the MRO *)
Theorem inherited_paths t c n a : lookup n (inherited_members t c) = Some a ->
  al_name a = n /\ al_parent a = c /\ al_inherited a = true /\
  alias_path t a = cpath (nth_cls t c) ++ "." ++ n /\
  alias_target_path t a = cpath (nth_cls t (al_owner a)) ++ "." ++ n /\
  smem n (cmembers (nth_cls t c)) = false /\
  exists m, griffe_mro t c = Ok m /\ In (al_owner a) m /\ smem n (cmembers (nth_cls t (al_owner a))) = true.
Proof.
  intros H. destruct (griffe_mro t c) as [m|e|] eqn:Hg.
  - rewrite (inherited_nearest_wins t c m n Hg) in H.
    destruct (smem n (cmembers (nth_cls t c))) eqn:Eo; try discriminate.
    unfold first_definer in H. destruct (find (fun k => smem n (cmembers (nth_cls t k))) m) as [k|] eqn:Ef; try discriminate.
    inversion H; subst. apply find_some in Ef. destruct Ef as [Hin Hs].
    unfold alias_path, alias_target_path. simpl. repeat split; auto. exists m. auto.
  - unfold inherited_members in H. rewrite Hg in H. discriminate.
  - unfold inherited_members in H. rewrite Hg in H. discriminate.
Qed.

(* ---------------------------------------------------------------- the hypotheses are satisfiable / the theorems are not vacuous *)

Definition diamond : tbl :=
  [mkCls "m.O" [] ["f"; "g"]; mkCls "m.A" [0] ["f"]; mkCls "m.B" [0] ["f"; "g"]; mkCls "m.C" [1; 2] ["h"]].
Example diamond_ordered : ordered diamond.
Proof. apply orderedb_ordered. reflexivity. Qed.
Example diamond_mro : griffe_mro diamond 3 = Ok [1; 2; 0] /\ cpython_mro diamond 3 = Ok [3; 1; 2; 0].
Proof. split; reflexivity. Qed.
Example diamond_inherited :
  inherited_members diamond 3 = [("f", mkAlias "f" 3 1 true); ("g", mkAlias "g" 3 2 true)].
Proof. reflexivity. Qed.

(* class C(A, B) with B(A): CPython raises TypeError, c3linear_merge raises ValueError *)
Definition inconsistent_tbl : tbl := [mkCls "m.A" [] []; mkCls "m.B" [0] []; mkCls "m.C" [0; 1] []].
Example inconsistent_both :
  ordered inconsistent_tbl /\ griffe_mro inconsistent_tbl 2 = Fail Inconsistent /\ cpython_mro inconsistent_tbl 2 = Fail Inconsistent.
Proof. split; [apply orderedb_ordered; reflexivity|split; reflexivity]. Qed.

(* class C(A, A): check_duplicates in CPython, the trailing bases list in Griffe *)
Example duplicate_base_both :
  griffe_mro [mkCls "m.A" [] []; mkCls "m.C" [0; 0] []] 1 = Fail Inconsistent /\
  cpython_mro [mkCls "m.A" [] []; mkCls "m.C" [0; 0] []] 1 = Fail Inconsistent.
Proof. split; reflexivity. Qed.

(* two classes that are each other's base (only expressible across modules / with Griffe objects) *)
Definition cyclic_tbl : tbl := [mkCls "a.A" [1] []; mkCls "b.B" [0] []; mkCls "c.C" [1] []].
Example cyclic_reported : griffe_mro cyclic_tbl 2 = Fail Cycle /\ reach cyclic_tbl 2 1 /\ reach cyclic_tbl 1 1.
Proof.
  split; [reflexivity|]. split.
  - apply reach_step. simpl. auto.
  - eapply reach_more with (b := 0); [simpl; auto|]. apply reach_step. simpl. auto.
Qed.

Example diamond_with_object : cpython_mro_obj diamond 3 = Ok [3; 1; 2; 0; 4].
Proof. reflexivity. Qed.
