(* C10 proofs, part 6: parameter lists produced by container edits.  Replacing or deleting a parameter makes its name
   disappear from the container (look-up by name sees the edited list and nothing else), hence the diff reports the
   removal unless a variadic of new swallows it. *)
From Coq Require Import List Arith Bool Lia.
From Verif Require Import Lib.Sexp Model.C10_kinds Gen.C10_tables Gen.C10_rules Model.C10_diff Model.C10_defaults Model.C10_ext
  Model.C10_hist Proofs.C10_diff Proofs.C10_complete Proofs.C10_rule.
Import ListNotations.
Open Scope list_scope. Open Scope nat_scope.

Lemma pos_of_nth n : forall s i, pos_of pname n s = Some i -> exists q, nth_error s i = Some q /\ pname q = n.
Proof.
  induction s as [|x s IH]; simpl; intros i H; [discriminate|].
  destruct (Nat.eqb (pname x) n) eqn:E.
  - inversion H; subst. exists x. split; [reflexivity|apply Nat.eqb_eq; exact E].
  - destruct (pos_of pname n s) as [k|]; [|discriminate]. inversion H; subst. apply (IH k eq_refl).
Qed.

Lemma find_none_iff n s : find n s = None <-> forall q, In q s -> pname q <> n.
Proof.
  split; [apply find_none_notin|]. intros H. destruct (find n s) as [q|] eqn:E; [|reflexivity].
  destruct (find_some_in _ _ _ E) as [Hin Hn]. exfalso. apply (H q Hin Hn).
Qed.

Lemma nodup_others s : nodup_names s = true -> forall i q, nth_error s i = Some q ->
  forall j x, nth_error s j = Some x -> pname x = pname q -> j = i.
Proof.
  intros Hnd i q Hi j x Hj E.
  rewrite <- (nodup_nth_index s i q Hnd Hi), <- (nodup_nth_index s j x Hnd Hj). rewrite E. reflexivity.
Qed.

Lemma in_set_nth (p : param) : forall (s : sig) i x, In x (set_nth i p s) -> x = p \/ exists j, j <> i /\ nth_error s j = Some x.
Proof.
  induction s as [|y s IH]; intros i x H; [destruct i; destruct H|].
  destruct i as [|i]; simpl in H.
  - destruct H as [<-|H]; [left; reflexivity|]. right. apply In_nth_error in H. destruct H as [k Hk]. exists (S k). split; [lia|exact Hk].
  - destruct H as [<-|H]; [right; exists 0; split; [lia|reflexivity]|].
    destruct (IH i x H) as [->|[j [Hj Hn]]]; [left; reflexivity|]. right. exists (S j). split; [lia|exact Hn].
Qed.
Lemma in_del_nth : forall (s : sig) i x, In x (del_nth i s) -> exists j, j <> i /\ nth_error s j = Some x.
Proof.
  induction s as [|y s IH]; intros i x H; [destruct i; destruct H|].
  destruct i as [|i]; simpl in H.
  - apply In_nth_error in H. destruct H as [k Hk]. exists (S k). split; [lia|exact Hk].
  - destruct H as [<-|H]; [exists 0; split; [lia|reflexivity]|].
    destruct (IH i x H) as [j [Hj Hn]]. exists (S j). split; [lia|exact Hn].
Qed.

(* `params[i] = p` / `params[name] = p` with another name: the replaced name is gone *)
Theorem replaced_name_forgotten s i q p : nodup_names s = true -> nth_error s i = Some q -> pname p <> pname q ->
  find (pname q) (set_nth i p s) = None.
Proof.
  intros Hnd Hi Hp. apply find_none_iff. intros x Hx E.
  destruct (in_set_nth p s i x Hx) as [->|[j [Hj Hn]]]; [contradiction|].
  apply Hj. apply (nodup_others s Hnd i q Hi j x Hn E).
Qed.
Theorem deleted_name_forgotten s i q : nodup_names s = true -> nth_error s i = Some q -> find (pname q) (del_nth i s) = None.
Proof.
  intros Hnd Hi. apply find_none_iff. intros x Hx E.
  destruct (in_del_nth s i x Hx) as [j [Hj Hn]]. apply Hj. apply (nodup_others s Hnd i q Hi j x Hn E).
Qed.

(* ... and the diff of the unedited signature against the edited one reports the removal unless it is swallowed *)
Lemma gone_reported ck s new i q : nth_error s i = Some q -> find (pname q) new = None ->
  In (Removed (pname q)) (fdiff_g ck s new) \/ swallowed (pkind q) (has_kind VP new) (has_kind VK new) = true.
Proof.
  intros Hi Hf. destruct (swallowed (pkind q) (has_kind VP new) (has_kind VK new)) eqn:Sw; [right; reflexivity|left].
  apply fdiff_sub. unfold fdiff. apply in_or_app. left. apply (olds_in new s 0 i q _ Hi). simpl.
  unfold per_old. rewrite Hf, Sw. left. reflexivity.
Qed.

Theorem replaced_parameter_reported ck s o i q p :
  nodup_names s = true -> nth_error s i = Some q -> pname p <> pname q ->
  (o = HSetIdx i p \/ (o = HSetName (pname q) p)) ->
  let new := fst (h_apply pname s o) in
  In (Removed (pname q)) (fdiff_g ck s new) \/ swallowed (pkind q) (has_kind VP new) (has_kind VK new) = true.
Proof.
  intros Hnd Hi Hp Ho new. apply (gone_reported ck s new i q Hi). unfold new.
  assert (Hlt : i < List.length s) by (apply nth_error_Some; rewrite Hi; discriminate).
  destruct Ho as [->| ->]; simpl.
  - apply Nat.ltb_lt in Hlt. rewrite Hlt. simpl. apply replaced_name_forgotten; assumption.
  - destruct (pos_of pname (pname q) s) as [k|] eqn:Pk.
    + destruct (pos_of_nth _ _ _ Pk) as [x [Hk Hx]]. assert (k = i) by (apply (nodup_others s Hnd i q Hi k x Hk Hx)). subst k.
      simpl. apply replaced_name_forgotten; assumption.
    + exfalso. clear new. revert i Hi Hlt. induction s as [|y s IH]; intros i Hi Hlt; [destruct i; discriminate|].
      simpl in Pk. destruct (Nat.eqb (pname y) (pname q)) eqn:E; [discriminate|].
      destruct (pos_of pname (pname q) s) eqn:P2; [discriminate|].
      destruct i as [|i]; simpl in Hi.
      * inversion Hi; subst. rewrite Nat.eqb_refl in E. discriminate.
      * simpl in Hnd. apply andb_prop in Hnd. destruct Hnd as [_ Hnd]. apply (IH Hnd eq_refl i Hi). simpl in Hlt. lia.
Qed.

Theorem deleted_parameter_reported ck s i q :
  nodup_names s = true -> nth_error s i = Some q ->
  let new := fst (h_apply pname s (HDelIdx i)) in
  In (Removed (pname q)) (fdiff_g ck s new) \/ swallowed (pkind q) (has_kind VP new) (has_kind VK new) = true.
Proof.
  intros Hnd Hi new. apply (gone_reported ck s new i q Hi). unfold new. simpl.
  assert (Hlt : i < List.length s) by (apply nth_error_Some; rewrite Hi; discriminate).
  apply Nat.ltb_lt in Hlt. rewrite Hlt. simpl. apply deleted_name_forgotten; assumption.
Qed.

(* non-vacuity: a keyword-only parameter replaced by an optional one of another name *)
Example replaced_kwonly_reported :
  let s := [mk 0 PK None; mk 1 KO (Some 1)] in
  fst (h_apply pname s (HSetName 1 (mk 2 KO (Some 1)))) = [mk 0 PK None; mk 2 KO (Some 1)] /\
  fdiff s (fst (h_apply pname s (HSetName 1 (mk 2 KO (Some 1))))) = [Removed 1].
Proof. split; reflexivity. Qed.
