(* C14, the loader's fold in general: top module regular OR namespace package.
   _load_submodule / _get_or_create_parent_module over ANY depth-sorted list of submodule entries, characterised key by
   key, including the namespace sub-packages that are created on the way and the directories they record. *)
From Coq Require Import List ZArith String Ascii Bool Arith Lia Permutation Sorting.Sorted.
From Verif Require Import Lib.Sexp Model.C14_finder Proofs.C14_finder.
Import ListNotations.
Open Scope string_scope. Open Scope list_scope.

(* ------------------------------------------------------------------------------------------------------------- *)
(* A.  the declarative description *)
Definition is_ns (v : minfo) : bool := match v with MNs _ => true | MFile _ => false end.
Definition pick (E : list entry) (k : list string) : option path := pickseq (cands k E).

(* every level below [cur] along [todo] is free of files: a namespace zone *)
Fixpoint nsb (E : list entry) (cur todo : list string) : bool :=
  match todo with
  | [] => true
  | p :: r => (match pick E (cur ++ [p]) with None => true | Some _ => false end) && nsb E (cur ++ [p]) r
  end.

(* _get_or_create_parent_module succeeds along [todo]: namespace levels (only while still in the namespace zone), then
   package levels (the merge of the candidates is an __init__ module) *)
Fixpoint okc (E : list entry) (nsmode : bool) (cur todo : list string) : bool :=
  match todo with
  | [] => true
  | p :: r =>
      match pick E (cur ++ [p]) with
      | Some f => init_path f && okc E false (cur ++ [p]) r
      | None => nsmode && okc E true (cur ++ [p]) r
      end
  end.

Definition nodot (e : entry) : bool := negb (existsb has_dot (e_parts e)).
Definition nonnil (k : list string) : bool := match k with [] => false | _ => true end.
(* the entry passes through the key on its way down *)
Definition thru (k : list string) (e : entry) : bool := nodot e && nonnil k && is_proper_prefix k (e_parts e).
Definition dir_at (j : nat) (e : entry) : path := (fst (e_base e), snd (e_base e) ++ firstn j (e_rel e)).
Definition add_dir (ps : list path) (d : path) : list path := if mem_path d ps then ps else ps ++ [d].
Definition dirs_thru (k : list string) (E : list entry) : list path :=
  fold_left add_dir (map (dir_at (List.length k)) (filter (thru k) E)) [].

Definition specF (E : list entry) (top : minfo) (k : list string) : option minfo :=
  if okc E (is_ns top) [] (removelast k) then option_map MFile (pick E k) else None.
Definition specN (E : list entry) (top : minfo) (D : list string -> list path) (k : list string) : option minfo :=
  if is_ns top && nsb E [] k then (match D k with [] => None | ds => Some (MNs ds) end) else None.
Definition specD (E : list entry) (top : minfo) (D : list string -> list path) (k : list string) : option minfo :=
  match k with
  | [] => Some top
  | _ => match specF E top k with Some v => Some v | None => specN E top D k end
  end.
(* what is at the dotted name k after the fold: a file (the merge of the candidates) if the chain of parents holds,
   else a namespace sub-package if k lies in the namespace zone and some entry passes through it *)
Definition spec (E : list entry) (top : minfo) (k : list string) : option minfo :=
  specD E top (fun k => dirs_thru k E) k.

Definition runN (top : minfo) (E : list entry) : mstate := fold_left (load_entry false) E [([], top)].

(* ------------------------------------------------------------------------------------------------------------- *)
(* B.  lemmas on the description *)
Lemma okc_app : forall E t1 m c t2,
  okc E m c (t1 ++ t2) = okc E m c t1 && okc E (m && nsb E c t1) (c ++ t1) t2.
Proof.
  induction t1 as [|p r IH]; intros m c t2; simpl.
  - rewrite app_nil_r, andb_true_r. reflexivity.
  - destruct (pick E (c ++ [p])) as [f|]; simpl.
    + rewrite IH. rewrite <- app_assoc. simpl. rewrite andb_false_r. simpl. rewrite andb_assoc. reflexivity.
    + rewrite IH. rewrite <- app_assoc. simpl. destruct m; simpl; auto.
Qed.

Lemma nsb_app : forall E t1 c t2, nsb E c (t1 ++ t2) = nsb E c t1 && nsb E (c ++ t1) t2.
Proof.
  induction t1 as [|p r IH]; intros c t2; simpl.
  - rewrite app_nil_r. reflexivity.
  - rewrite IH. rewrite <- app_assoc. simpl. rewrite andb_assoc. reflexivity.
Qed.

Lemma okc_snoc : forall E m cur p,
  okc E m [] (cur ++ [p]) = okc E m [] cur &&
    match pick E (cur ++ [p]) with Some f => init_path f | None => m && nsb E [] cur end.
Proof.
  intros. rewrite okc_app. simpl. destruct (pick E (cur ++ [p])); rewrite andb_true_r; reflexivity.
Qed.

Lemma nsb_snoc : forall E cur p,
  nsb E [] (cur ++ [p]) = nsb E [] cur && match pick E (cur ++ [p]) with None => true | Some _ => false end.
Proof. intros. rewrite nsb_app. simpl. rewrite andb_true_r. reflexivity. Qed.

(* depth *)
Lemma pick_deeper_none : forall E k, (forall x, In x E -> depth x < List.length k) -> pick E k = None.
Proof.
  intros E k H. unfold pick. replace (cands k E) with (@nil entry). reflexivity.
  symmetry. unfold cands. induction E as [|x E IH]; simpl; auto.
  unfold cand at 1. destruct (lstr_eqb (e_parts x) k) eqn:Eq.
  - apply lstr_eqb_length in Eq. specialize (H x (or_introl eq_refl)). unfold depth in H. lia.
  - simpl. apply IH. intros y Hy. apply H. right; auto.
Qed.

Lemma ipp_length : forall a b : list string, is_proper_prefix a b = true -> List.length a < List.length b.
Proof.
  induction a as [|x a IH]; intros b H; destruct b as [|y b]; simpl in *; try discriminate; try lia.
  apply andb_true_iff in H. destruct H as [_ H]. apply IH in H. lia.
Qed.

Lemma dirs_deeper_nil : forall E k, (forall x, In x E -> depth x <= List.length k) -> dirs_thru k E = [].
Proof.
  intros E k H. unfold dirs_thru. replace (filter (thru k) E) with (@nil entry). reflexivity.
  symmetry. induction E as [|x E IH]; simpl; auto.
  unfold thru at 1. destruct (is_proper_prefix k (e_parts x)) eqn:Ep.
  - apply ipp_length in Ep. specialize (H x (or_introl eq_refl)). unfold depth in H. lia.
  - rewrite andb_false_r. apply IH. intros y Hy. apply H. right; auto.
Qed.

Lemma dirs_snoc : forall k E e,
  dirs_thru k (E ++ [e]) = if thru k e then add_dir (dirs_thru k E) (dir_at (List.length k) e) else dirs_thru k E.
Proof.
  intros. unfold dirs_thru. rewrite filter_app. simpl. destruct (thru k e); simpl.
  - rewrite map_app, fold_left_app. reflexivity.
  - rewrite app_nil_r. reflexivity.
Qed.

Lemma add_dir_nonnil : forall ps d, add_dir ps d <> [].
Proof. intros ps d. unfold add_dir. destruct (mem_path d ps) eqn:E. destruct ps; [discriminate|discriminate]. destruct ps; discriminate. Qed.

Lemma pick_snoc_other : forall E e k, k <> e_parts e -> pick (E ++ [e]) k = pick E k.
Proof.
  intros E e k H. unfold pick. rewrite cands_snoc. unfold cand.
  destruct (lstr_eqb (e_parts e) k) eqn:Eq. apply lstr_eqb_eq in Eq. congruence. simpl. rewrite app_nil_r. reflexivity.
Qed.

Lemma pick_snoc_not_ok : forall E e k, entry_ok e = false -> pick (E ++ [e]) k = pick E k.
Proof. intros E e k H. unfold pick. rewrite cands_snoc, cand_not_ok by auto. rewrite app_nil_r. reflexivity. Qed.

(* okc / nsb only look at the picks along the way *)
Lemma okc_ext : forall E1 E2 todo m cur,
  (forall j, 0 < j <= List.length todo -> pick E1 (cur ++ firstn j todo) = pick E2 (cur ++ firstn j todo)) ->
  okc E1 m cur todo = okc E2 m cur todo.
Proof.
  induction todo as [|p r IH]; intros m cur H; simpl; auto.
  pose proof (H 1) as H1. simpl in H1. rewrite H1 by lia.
  assert (G : forall m', okc E1 m' (cur ++ [p]) r = okc E2 m' (cur ++ [p]) r).
  { intro m'. apply IH. intros j Hj. specialize (H (S j)). simpl in H. rewrite <- !app_assoc. simpl. apply H. lia. }
  rewrite !G. reflexivity.
Qed.

Lemma nsb_ext : forall E1 E2 todo cur,
  (forall j, 0 < j <= List.length todo -> pick E1 (cur ++ firstn j todo) = pick E2 (cur ++ firstn j todo)) ->
  nsb E1 cur todo = nsb E2 cur todo.
Proof.
  induction todo as [|p r IH]; intros cur H; simpl; auto.
  pose proof (H 1) as H1. simpl in H1. rewrite H1 by lia. f_equal.
  apply IH. intros j Hj. specialize (H (S j)). simpl in H. rewrite <- !app_assoc. simpl. apply H. lia.
Qed.

Lemma is_prefix_firstn_eq : forall (k : list string) j, is_prefix (firstn j k) k = true.
Proof.
  induction k as [|x k IH]; intros j; destruct j; simpl; auto. rewrite String.eqb_refl. simpl. apply IH.
Qed.

Lemma is_prefix_refl : forall k : list string, is_prefix k k = true.
Proof. induction k; simpl; auto. rewrite String.eqb_refl. auto. Qed.

Lemma is_prefix_app : forall a b : list string, is_prefix a (a ++ b) = true.
Proof. induction a; intros; simpl; auto. rewrite String.eqb_refl. simpl. auto. Qed.

Lemma is_prefix_split : forall a b : list string, is_prefix a b = true -> exists c, b = a ++ c.
Proof.
  induction a as [|x a IH]; intros b H; simpl in *. eauto.
  destruct b as [|y b]; [discriminate|]. apply andb_true_iff in H. destruct H as [H1 H2]. apply String.eqb_eq in H1. subst.
  destruct (IH b H2) as (c & ->). eauto.
Qed.

Lemma ipp_split : forall a b : list string, is_proper_prefix a b = true -> exists c, c <> [] /\ b = a ++ c.
Proof.
  induction a as [|x a IH]; intros b H; simpl in *.
  - destruct b; [discriminate|]. exists (s :: b). split; auto. discriminate.
  - destruct b as [|y b]; [discriminate|]. apply andb_true_iff in H. destruct H as [H1 H2]. apply String.eqb_eq in H1. subst.
    destruct (IH b H2) as (c & Hc & ->). eauto.
Qed.

Lemma ipp_app_true' : forall (a b : list string), b <> [] -> is_proper_prefix a (a ++ b) = true.
Proof.
  induction a as [|x r IH]; intros b Hb; simpl.
  - destruct b; congruence.
  - rewrite String.eqb_refl. simpl. apply IH. auto.
Qed.

(* a file level on the way kills the namespace zone and everything that needs it *)
Lemma nsb_some_false : forall E key rest, key <> [] -> pick E key <> None -> nsb E [] (key ++ rest) = false.
Proof.
  intros E key rest Hne Hp. destruct (exists_last Hne) as (c & p & ->).
  rewrite nsb_app. rewrite nsb_snoc. destruct (pick E (c ++ [p])); [|congruence]. rewrite andb_false_r. reflexivity.
Qed.

Lemma okc_prefix : forall E m a b, okc E m [] (a ++ b) = true -> okc E m [] a = true.
Proof. intros E m a b H. rewrite okc_app in H. apply andb_true_iff in H. tauto. Qed.

Lemma okc_prefix_false : forall E m a b, okc E m [] a = false -> okc E m [] (a ++ b) = false.
Proof. intros E m a b H. rewrite okc_app, H. reflexivity. Qed.

Lemma removelast_app_ne : forall (a b : list string), b <> [] -> removelast (a ++ b) = a ++ removelast b.
Proof. intros. apply removelast_app. auto. Qed.

(* ------------------------------------------------------------------------------------------------------------- *)
(* C.  the state: set_m / set_member in general *)
Lemma set_member_same : forall M key newp,
  lookup_m key (set_member M key newp) = Some (MFile (merge_path (file_of (lookup_m key M)) newp)).
Proof.
  intros M key newp. unfold set_member.
  destruct (lookup_m key M) as [[oldp|ps]|] eqn:E; simpl.
  - destruct (path_eqb oldp newp). apply lookup_set_same.
    destruct (path_suffix oldp =? ".pyi"). apply lookup_set_same.
    destruct (path_suffix newp =? ".pyi"); auto. apply lookup_set_same.
  - apply lookup_set_same.
  - apply lookup_set_same.
Qed.

Lemma app_same_length_eq : forall (k key c1 todo : list string), key ++ todo = k ++ c1 -> List.length k = List.length key -> k = key.
Proof.
  induction k as [|x k IH]; intros key c1 todo H Hl; destruct key as [|y key]; simpl in *; try lia; auto.
  inversion H; subst. f_equal. eapply IH; eauto.
Qed.

Lemma app_prefix_of_longer : forall (key k todo c1 : list string), key ++ todo = k ++ c1 -> List.length key <= List.length k -> is_prefix key k = true.
Proof.
  induction key as [|y key IH]; intros k todo c1 H Hl; simpl; auto.
  destruct k as [|x k]; simpl in *; [lia|]. inversion H; subst. rewrite String.eqb_refl. simpl. eapply IH; eauto. lia.
Qed.

(* ------------------------------------------------------------------------------------------------------------- *)
(* D.  _get_or_create_parent_module for one entry *)
Section Goc.
  Variable E : list entry.
  Variable top : minfo.
  Variable e : entry.
  Let q := removelast (e_parts e).
  Let mfp := fun k => (fst (e_base e), snd (e_base e) ++ firstn (k + 1) (e_rel e)).

  (* the directories recorded so far: the entry has been counted at the prefixes of length <= j *)
  Definition dirsJ (j : nat) (k : list string) : list path :=
    if is_prefix k q && nonnil k && (List.length k <=? j)%nat
    then add_dir (dirs_thru k E) (dir_at (List.length k) e) else dirs_thru k E.

  Lemma dirsJ_other : forall j k, List.length k <> S j -> dirsJ (S j) k = dirsJ j k.
  Proof.
    intros j k H. unfold dirsJ. destruct (is_prefix k q && nonnil k); simpl; auto.
    destruct (List.length k <=? S j)%nat eqn:A, (List.length k <=? j)%nat eqn:B; auto.
    - apply Nat.leb_le in A. apply Nat.leb_gt in B. lia.
    - apply Nat.leb_gt in A. apply Nat.leb_le in B. lia.
  Qed.

  Lemma mfp_dir : forall j, mfp j = dir_at (S j) e.
  Proof. intro j. unfold mfp, dir_at. rewrite Nat.add_1_r. reflexivity. Qed.

  Lemma specD_at : forall D D' k, (D k = D' k \/ specF E top k <> None \/ is_ns top && nsb E [] k = false) ->
    specD E top D k = specD E top D' k.
  Proof.
    intros D D' k H. unfold specD. destruct k as [|c k]; auto.
    destruct (specF E top (c :: k)); auto. unfold specN.
    destruct H as [H|[H|H]]; [rewrite H; reflexivity|congruence|rewrite H; reflexivity].
  Qed.

  Lemma goc_inv : forall todo cur M,
    cur ++ todo = q ->
    (forall k, lookup_m k M = specD E top (dirsJ (List.length cur)) k) ->
    okc E (is_ns top) [] cur = true ->
    exists M' r, goc M cur todo (List.length cur) mfp = (M', r) /\
      (forall k, lookup_m k M' = specD E top (dirsJ (List.length q)) k) /\
      ((r = Some q /\ okc E (is_ns top) [] q = true) \/ (r = None /\ okc E (is_ns top) [] q = false)).
  Proof.
    induction todo as [|p todo IH]; intros cur M Hq HM Hok.
    - rewrite app_nil_r in Hq. subst cur. simpl. exists M, (Some q). split; auto.
    - simpl. set (key := cur ++ [p]) in *. set (j := List.length cur) in *.
      assert (Hj : j = List.length cur) by reflexivity.
      assert (Hlk : List.length key = S j) by (unfold key; rewrite app_length; simpl; lia).
      assert (Hpre : is_prefix key q = true).
      { rewrite <- Hq. replace (cur ++ p :: todo) with (key ++ todo) by (unfold key; rewrite <- app_assoc; reflexivity). apply is_prefix_app. }
      assert (Hkq : q = key ++ todo) by (rewrite <- Hq; unfold key; rewrite <- app_assoc; reflexivity).
      assert (Hkne : key <> []) by (unfold key; destruct cur; discriminate).
      (* the state at key *)
      assert (HF : specF E top key = option_map MFile (pick E key)).
      { unfold specF. unfold key at 1. rewrite List.removelast_last. rewrite Hok. reflexivity. }
      pose proof (HM key) as Hkey. unfold specD in Hkey. destruct key as [|c0 key0] eqn:Ekey; [congruence|]. rewrite <- Ekey in *.
      rewrite HF in Hkey.
      assert (HstepD : forall k, k <> key -> specD E top (dirsJ j) k = specD E top (dirsJ (S j)) k).
      { intros k Hk. apply specD_at.
        destruct (Nat.eq_dec (List.length k) (S j)) as [Hl|Hl].
        - (* same length as key but different: not a prefix of q, so dirsJ does not see it *)
          left. unfold dirsJ. destruct (is_prefix k q) eqn:Ep; simpl; auto.
          exfalso. apply Hk. apply is_prefix_split in Ep. destruct Ep as (c1 & Hc1). rewrite Hkq in Hc1.
          assert (Hll : List.length k = List.length key) by lia.
          eapply app_same_length_eq; eauto.
        - left. symmetry. apply dirsJ_other. auto. }
      destruct (pick E key) as [f|] eqn:Epk; simpl in Hkey.
      + (* a file at key *)
        rewrite Hkey.
        assert (Hinv' : forall k, lookup_m k M = specD E top (dirsJ (S j)) k).
        { intro k. rewrite HM. destruct (lstr_eqb k key) eqn:Ek.
          - apply lstr_eqb_eq in Ek. subst k. apply specD_at. right. left. rewrite HF. discriminate.
          - apply lstr_eqb_neq in Ek. apply HstepD. auto. }
        change (is_init_name (last (snd f) "")) with (init_path f).
        destruct (init_path f) eqn:Ei.
        * rewrite <- Hlk. apply IH.
          -- symmetry. exact Hkq.
          -- rewrite Hlk. exact Hinv'.
          -- unfold key. rewrite okc_snoc. fold key. rewrite Hok, Epk, Ei. reflexivity.
        * exists M, None. split; auto.
          assert (Hbad : okc E (is_ns top) [] key = false).
          { unfold key. rewrite okc_snoc. fold key. rewrite Epk, Ei. apply andb_false_r. }
          split.
          -- intro k. rewrite Hinv'. apply specD_at.
             destruct (is_prefix key k) eqn:Ep.
             ++ (* at or below key: the picture does not depend on the directories *)
                apply is_prefix_split in Ep. destruct Ep as (rest & ->).
                right. right. rewrite nsb_some_false; auto. apply andb_false_r. rewrite Epk. discriminate.
             ++ left. unfold dirsJ. destruct (is_prefix k q) eqn:Epq; simpl; auto.
                destruct (nonnil k) eqn:En; simpl; auto.
                destruct (List.length k <=? S j)%nat eqn:A; simpl.
                ** replace (List.length k <=? List.length q)%nat with true; auto. symmetry. apply Nat.leb_le.
                   apply is_prefix_split in Epq. destruct Epq as (c1 & ->). rewrite app_length. lia.
                ** (* longer than key and a prefix of q: then key is a prefix of k *)
                   exfalso. apply Nat.leb_gt in A. apply is_prefix_split in Epq. destruct Epq as (c1 & Hc1).
                   rewrite Hkq in Hc1. assert (is_prefix key k = true); [|congruence].
                   eapply app_prefix_of_longer; eauto. lia.
          -- right. split; auto. rewrite Hkq. apply okc_prefix_false. auto.
      + (* no file at key *)
        assert (Hmode : is_ns top && nsb E [] key = is_ns top && nsb E [] cur).
        { unfold key. rewrite nsb_snoc. fold key. rewrite Epk, andb_true_r. reflexivity. }
        assert (HdJ : dirsJ j key = dirs_thru key E).
        { unfold dirsJ. replace (List.length key <=? j)%nat with false. rewrite andb_false_r. reflexivity.
          symmetry. apply Nat.leb_gt. lia. }
        assert (HdS : dirsJ (S j) key = add_dir (dirs_thru key E) (mfp j)).
        { unfold dirsJ. rewrite Hpre. replace (nonnil key) with true by (rewrite Ekey; reflexivity).
          replace (List.length key <=? S j)%nat with true by (symmetry; apply Nat.leb_le; lia). simpl.
          rewrite mfp_dir, Hlk. reflexivity. }
        assert (HspecS : is_ns top && nsb E [] cur = true ->
                  specD E top (dirsJ (S j)) key = Some (MNs (add_dir (dirs_thru key E) (mfp j)))).
        { intro Hm. unfold specD. rewrite Ekey. rewrite <- Ekey. rewrite HF. simpl. unfold specN.
          rewrite Hmode, Hm, HdS. pose proof (add_dir_nonnil (dirs_thru key E) (mfp j)).
          destruct (add_dir (dirs_thru key E) (mfp j)); congruence. }
        assert (Hokkey : is_ns top && nsb E [] cur = true -> okc E (is_ns top) [] key = true).
        { intro Hm. unfold key. rewrite okc_snoc. fold key. rewrite Hok, Epk. auto. }
        assert (Hfail : is_ns top && nsb E [] cur = false ->
                  (forall k, lookup_m k M = specD E top (dirsJ (List.length q)) k) /\ okc E (is_ns top) [] q = false).
        { intro Hm. split.
          - intro k. rewrite HM. apply specD_at.
            destruct (is_prefix key k) eqn:Ep.
            + apply is_prefix_split in Ep. destruct Ep as (rest & ->). right. right.
              rewrite nsb_app. rewrite andb_assoc. rewrite Hmode, Hm. reflexivity.
            + left. unfold dirsJ. destruct (is_prefix k q) eqn:Epq; simpl; auto.
              destruct (nonnil k) eqn:En; simpl; auto.
              destruct (List.length k <=? j)%nat eqn:A; simpl.
              * replace (List.length k <=? List.length q)%nat with true; auto. symmetry. apply Nat.leb_le.
                apply is_prefix_split in Epq. destruct Epq as (c1 & ->). rewrite app_length. lia.
              * exfalso. apply Nat.leb_gt in A. apply is_prefix_split in Epq. destruct Epq as (c1 & Hc1).
                rewrite Hkq in Hc1. assert (is_prefix key k = true); [|congruence].
                eapply app_prefix_of_longer; eauto. lia.
          - rewrite Hkq. apply okc_prefix_false. unfold key. rewrite okc_snoc. fold key. rewrite Epk, Hm. apply andb_false_r. }
        unfold specN in Hkey. rewrite Hmode, HdJ in Hkey.
        destruct (is_ns top && nsb E [] cur) eqn:Hm.
        * (* namespace zone: the sub-package exists already, or is created now *)
          destruct (dirs_thru key E) as [|d0 ds] eqn:Edirs.
          -- (* not there yet *)
             rewrite Hkey.
             assert (Hcur : exists ps, lookup_m cur M = Some (MNs ps)).
             { rewrite HM. unfold specD. destruct cur as [|c1 cur1] eqn:Ecur.
               - destruct top; simpl in Hm; try discriminate. eauto.
               - rewrite <- Ecur in *.
                 assert (Hpc : pick E cur = None).
                 { destruct (pick E cur) eqn:Ep; auto. apply andb_true_iff in Hm. destruct Hm as [_ Hm].
                   assert (nsb E [] (cur ++ []) = false) by (apply nsb_some_false; [rewrite Ecur; discriminate|rewrite Ep; discriminate]).
                   rewrite app_nil_r in H. congruence. }
                 unfold specF. rewrite Hpc. destruct (okc E (is_ns top) [] (removelast cur)); simpl.
                 + unfold specN. rewrite Hm. unfold dirsJ.
                   assert (Hpq : is_prefix cur q = true) by (rewrite <- Hq; apply is_prefix_app).
                   rewrite Hpq. replace (nonnil cur) with true by (rewrite Ecur; reflexivity).
                   replace (List.length cur <=? j)%nat with true by (symmetry; apply Nat.leb_le; rewrite Hj; lia). simpl.
                   pose proof (add_dir_nonnil (dirs_thru cur E) (dir_at (List.length cur) e)).
                   destruct (add_dir (dirs_thru cur E) (dir_at (List.length cur) e)); [congruence|eauto].
                 + unfold specN. rewrite Hm. unfold dirsJ.
                   assert (Hpq : is_prefix cur q = true) by (rewrite <- Hq; apply is_prefix_app).
                   rewrite Hpq. replace (nonnil cur) with true by (rewrite Ecur; reflexivity).
                   replace (List.length cur <=? j)%nat with true by (symmetry; apply Nat.leb_le; rewrite Hj; lia). simpl.
                   pose proof (add_dir_nonnil (dirs_thru cur E) (dir_at (List.length cur) e)).
                   destruct (add_dir (dirs_thru cur E) (dir_at (List.length cur) e)); [congruence|eauto]. }
             destruct Hcur as (ps & ->).
             rewrite <- Hlk. apply IH; [symmetry; exact Hkq| |apply Hokkey; reflexivity].
             ++ rewrite Hlk. intro k. destruct (lstr_eqb k key) eqn:Ek.
                ** apply lstr_eqb_eq in Ek. subst k. rewrite lookup_set_same. rewrite HspecS by auto. unfold add_dir. reflexivity.
                ** apply lstr_eqb_neq in Ek. rewrite lookup_set_other by auto. rewrite HM. apply HstepD. auto.
          -- (* there already *)
             rewrite Hkey. rewrite <- Hlk. apply IH; [symmetry; exact Hkq| |apply Hokkey; reflexivity].
             ++ rewrite Hlk. intro k. destruct (lstr_eqb k key) eqn:Ek.
                ** apply lstr_eqb_eq in Ek. subst k. rewrite HspecS by auto. unfold add_dir.
                   destruct (mem_path (mfp j) (d0 :: ds)); [apply Hkey|apply lookup_set_same].
                ** apply lstr_eqb_neq in Ek.
                   destruct (mem_path (mfp j) (d0 :: ds)); [|rewrite lookup_set_other by auto]; rewrite HM; apply HstepD; auto.
        * (* not a namespace zone: the parent is not a namespace package either *)
          rewrite Hkey.
          assert (Hcur : match lookup_m cur M with Some (MNs _) => False | _ => True end).
          { rewrite HM. unfold specD. destruct cur as [|c1 cur1] eqn:Ecur.
            - destruct top; simpl in Hm; auto. discriminate.
            - rewrite <- Ecur in *. destruct (specF E top cur) as [v|] eqn:Es.
              + unfold specF in Es. destruct (okc E (is_ns top) [] (removelast cur)); [|discriminate].
                destruct (pick E cur); simpl in Es; inversion Es. auto.
              + unfold specN. rewrite Hm. auto. }
          destruct (Hfail eq_refl) as [Hinv Hbad].
          exists M, None. split.
          -- destruct (lookup_m cur M) as [[f|ps]|]; auto. contradiction.
          -- split; auto.
  Qed.
End Goc.

(* ------------------------------------------------------------------------------------------------------------- *)
(* E.  one entry, then the whole fold *)
Lemma dirsJ_zero : forall E e k, dirsJ E e 0 k = dirs_thru k E.
Proof.
  intros. unfold dirsJ. destruct k as [|c k].
  - destruct (removelast (e_parts e)); reflexivity.
  - replace (List.length (c :: k) <=? 0)%nat with false by reflexivity. rewrite andb_false_r. reflexivity.
Qed.

Lemma ipp_removelast_iff : forall (parts k : list string), parts <> [] -> is_proper_prefix k parts = is_prefix k (removelast parts).
Proof.
  induction parts as [|x parts IH]; intros k H. congruence.
  destruct parts as [|y parts].
  - simpl. destruct k as [|a k]; simpl; auto. destruct k; simpl; rewrite ?andb_false_r; auto.
  - destruct k as [|a k]. reflexivity.
    change (removelast (x :: y :: parts)) with (x :: removelast (y :: parts)).
    simpl is_proper_prefix. simpl is_prefix. rewrite IH by discriminate. reflexivity.
Qed.

Lemma is_prefix_length : forall a b : list string, is_prefix a b = true -> List.length a <= List.length b.
Proof. intros a b H. apply is_prefix_split in H. destruct H as (c & ->). rewrite app_length. lia. Qed.

Lemma dirsJ_full : forall E e k, e_parts e <> [] -> nodot e = true ->
  dirsJ E e (List.length (removelast (e_parts e))) k = dirs_thru k (E ++ [e]).
Proof.
  intros E e k Hne Hnd. rewrite dirs_snoc. unfold dirsJ, thru. rewrite Hnd. simpl.
  rewrite ipp_removelast_iff by auto.
  destruct (is_prefix k (removelast (e_parts e))) eqn:Ep; simpl.
  - apply is_prefix_length in Ep. replace (List.length k <=? List.length (removelast (e_parts e)))%nat with true.
    reflexivity. symmetry. apply Nat.leb_le. auto.
  - rewrite andb_false_r. reflexivity.
Qed.

Lemma prefix_of_removelast : forall (k : list string) j, is_prefix (firstn j (removelast k)) k = true.
Proof.
  induction k as [|x k IH]; intros j. destruct j; reflexivity.
  destruct k as [|y k]. destruct j; reflexivity.
  change (removelast (x :: y :: k)) with (x :: removelast (y :: k)).
  destruct j; simpl; auto. rewrite String.eqb_refl. simpl. apply IH.
Qed.

Lemma is_prefix_trans_eq : forall (a k : list string), is_prefix a k = true -> forall j, firstn j k = a -> True.
Proof. auto. Qed.

Lemma specD_ne : forall E top D k, k <> [] ->
  specD E top D k = match specF E top k with Some v => Some v | None => specN E top D k end.
Proof. intros. destruct k; [congruence|reflexivity]. Qed.

Section Step.
  Variable top : minfo.
  Variable E : list entry.
  Variable e : entry.
  Hypothesis Hsorted : forall x, In x E -> depth x <= depth e.
  Hypothesis Hne : e_parts e <> [].
  Let D' := fun k => dirs_thru k (E ++ [e]).

  Lemma deeper_pick_none : forall k, is_proper_prefix (e_parts e) k = true -> pick (E ++ [e]) k = None /\ pick E k = None /\ D' k = [].
  Proof.
    intros k H. apply ipp_length in H.
    assert (G : forall x, In x (E ++ [e]) -> depth x < List.length k).
    { intros x Hx. apply in_app_or in Hx. destruct Hx as [Hx|[<-|[]]]. specialize (Hsorted x Hx). unfold depth in *. lia. unfold depth. lia. }
    split. apply pick_deeper_none. auto. split. apply pick_deeper_none. intros x Hx. apply G. apply in_or_app. auto.
    unfold D'. apply dirs_deeper_nil. intros x Hx. specialize (G x Hx). lia.
  Qed.

  Lemma firstn_prefix_neq : forall k j, is_prefix (e_parts e) k = false -> is_prefix (firstn j k) k = true -> firstn j k <> e_parts e.
  Proof. intros k j H1 H2 Heq. rewrite Heq in H2. congruence. Qed.

  Lemma spec_other_key : forall k, k <> e_parts e -> specD (E ++ [e]) top D' k = specD E top D' k.
  Proof.
    intros k Hk. unfold specD. destruct k as [|c k0] eqn:Ek; auto. rewrite <- Ek in *.
    destruct (is_prefix (e_parts e) k) eqn:Ep.
    - (* strictly below the entry's own name: nothing there *)
      assert (Hpp : is_proper_prefix (e_parts e) k = true).
      { apply is_prefix_split in Ep. destruct Ep as (c1 & Hc1). rewrite Hc1. apply ipp_app_true'. intro. subst c1. rewrite app_nil_r in Hc1. congruence. }
      destruct (deeper_pick_none k Hpp) as (P1 & P2 & P3).
      unfold specF. rewrite P1, P2. simpl.
      destruct (okc (E ++ [e]) (is_ns top) [] (removelast k)), (okc E (is_ns top) [] (removelast k)); simpl;
        unfold specN; rewrite P3; destruct (is_ns top && nsb (E ++ [e]) [] k), (is_ns top && nsb E [] k); reflexivity.
    - (* elsewhere: the picks on the way are unchanged *)
      assert (Hpk : forall j, pick (E ++ [e]) (firstn j k) = pick E (firstn j k)).
      { intro j. apply pick_snoc_other. apply firstn_prefix_neq; auto. apply is_prefix_firstn_eq. }
      assert (Hpk' : forall j, pick (E ++ [e]) (firstn j (removelast k)) = pick E (firstn j (removelast k))).
      { intro j. apply pick_snoc_other. intro Heq. pose proof (prefix_of_removelast k j) as H. rewrite Heq in H. congruence. }
      unfold specF, specN.
      rewrite (okc_ext (E ++ [e]) E (removelast k)) by (intros; apply Hpk').
      rewrite (nsb_ext (E ++ [e]) E k) by (intros; apply Hpk).
      rewrite (pick_snoc_other E e k) by auto. reflexivity.
  Qed.

  Lemma okc_q_same : okc (E ++ [e]) (is_ns top) [] (removelast (e_parts e)) = okc E (is_ns top) [] (removelast (e_parts e)).
  Proof.
    apply okc_ext. intros j Hj. simpl. apply pick_snoc_other. intro Heq.
    assert (List.length (firstn j (removelast (e_parts e))) < List.length (e_parts e)).
    { rewrite firstn_length. pose proof (length_removelast _ Hne). lia. }
    rewrite Heq in H. lia.
  Qed.

  Lemma spec_not_ok_entry : entry_ok e = false -> forall k, specD (E ++ [e]) top D' k = specD E top D' k.
  Proof.
    intros Hok k. unfold specD. destruct k as [|c k0] eqn:Ek; auto. rewrite <- Ek.
    unfold specF, specN.
    rewrite (okc_ext (E ++ [e]) E (removelast k)) by (intros; apply pick_snoc_not_ok; auto).
    rewrite (nsb_ext (E ++ [e]) E k) by (intros; apply pick_snoc_not_ok; auto).
    rewrite (pick_snoc_not_ok E e k) by auto. reflexivity.
  Qed.

  (* at the entry's own name, before it is set *)
  Lemma spec_own_before : file_of (specD E top D' (e_parts e)) =
    if okc E (is_ns top) [] (removelast (e_parts e)) then pick E (e_parts e) else None.
  Proof.
    rewrite specD_ne by auto.
    unfold specF. destruct (okc E (is_ns top) [] (removelast (e_parts e))).
    - destruct (pick E (e_parts e)); simpl; auto. unfold specN.
      assert (HD : D' (e_parts e) = []).
      { unfold D'. apply dirs_deeper_nil. intros x Hx. apply in_app_or in Hx. destruct Hx as [Hx|[<-|[]]]. apply Hsorted; auto. unfold depth. lia. }
      rewrite HD. destruct (is_ns top && nsb E [] (e_parts e)); reflexivity.
    - unfold specN.
      assert (HD : D' (e_parts e) = []).
      { unfold D'. apply dirs_deeper_nil. intros x Hx. apply in_app_or in Hx. destruct Hx as [Hx|[<-|[]]]. apply Hsorted; auto. unfold depth. lia. }
      rewrite HD. destruct (is_ns top && nsb E [] (e_parts e)); reflexivity.
  Qed.

  Lemma spec_own_after : entry_ok e = true ->
    specD (E ++ [e]) top D' (e_parts e) =
      if okc E (is_ns top) [] (removelast (e_parts e))
      then Some (MFile (merge_path (pick E (e_parts e)) (e_abs e)))
      else specD E top D' (e_parts e).
  Proof.
    intro Hok. rewrite !specD_ne by auto.
    unfold specF. rewrite okc_q_same.
    assert (Hp : pick (E ++ [e]) (e_parts e) = Some (merge_path (pick E (e_parts e)) (e_abs e))).
    { unfold pick. rewrite cands_snoc. unfold cand. rewrite lstr_eqb_refl, Hok. simpl. apply pickseq_snoc. }
    destruct (okc E (is_ns top) [] (removelast (e_parts e))) eqn:Eo.
    - rewrite Hp. reflexivity.
    - (* the chain of parents fails: nothing is set; the namespace side does not see the new candidate either *)
      unfold specN.
      assert (HD : D' (e_parts e) = []).
      { unfold D'. apply dirs_deeper_nil. intros x Hx. apply in_app_or in Hx. destruct Hx as [Hx|[<-|[]]]. apply Hsorted; auto. unfold depth. lia. }
      rewrite HD. destruct (is_ns top && nsb (E ++ [e]) [] (e_parts e)), (is_ns top && nsb E [] (e_parts e)); reflexivity.
  Qed.
End Step.

Lemma spec_nil : forall top k, spec [] top k = match k with [] => Some top | _ => None end.
Proof.
  intros top k. unfold spec, specD. destruct k as [|c k]; auto.
  unfold specF, specN, pick, dirs_thru. cbn [cands filter pickseq fold_left option_map map].
  destruct (okc [] (is_ns top) [] (removelast (c :: k))); destruct (is_ns top && nsb [] [] (c :: k)); reflexivity.
Qed.

(* The loader's fold over ANY depth-sorted list of submodule entries, top module regular or namespace package. *)
Theorem runN_spec : forall top E,
  sorted E -> (forall e, In e E -> e_parts e <> []) ->
  forall k, lookup_m k (runN top E) = spec E top k.
Proof.
  intros top E. induction E as [|e E IH] using rev_ind; intros Hs Hne k.
  - rewrite spec_nil. unfold runN. simpl. destruct k; reflexivity.
  - pose proof (sorted_snoc _ _ Hs) as [HsE Hle].
    assert (HneE : forall x, In x E -> e_parts x <> []) by (intros; apply Hne; apply in_or_app; auto).
    specialize (IH HsE HneE).
    assert (Hpe : e_parts e <> []) by (apply Hne; apply in_or_app; right; left; auto).
    unfold runN in *. rewrite fold_left_app. simpl.
    set (M := fold_left (load_entry false) E [([], top)]) in *.
    unfold load_entry. destruct (existsb has_dot (e_parts e)) eqn:Hdot.
    + (* a dotted name: skipped, and invisible to the description *)
      rewrite IH. unfold spec. symmetry.
      assert (Hok : entry_ok e = false) by (unfold entry_ok; rewrite Hdot; reflexivity).
      rewrite (spec_not_ok_entry top E e Hok k). apply specD_at. left.
      rewrite dirs_snoc. unfold thru, nodot. rewrite Hdot. reflexivity.
    + assert (Hnd : nodot e = true) by (unfold nodot; rewrite Hdot; reflexivity).
      destruct (goc_inv E top e (removelast (e_parts e)) [] M eq_refl) as (M1 & r & Hg & Hinv & Hr).
      { intro k0. rewrite IH. unfold spec. apply specD_at. left. symmetry. apply dirsJ_zero. }
      { reflexivity. }
      simpl in Hg. rewrite Hg.
      assert (Hinv' : forall k0, lookup_m k0 M1 = specD E top (fun k => dirs_thru k (E ++ [e])) k0).
      { intro k0. rewrite Hinv. apply specD_at. left. apply dirsJ_full; auto. }
      unfold spec.
      destruct Hr as [[-> Hokc]|[-> Hokc]].
      * rewrite orb_false_r. destruct (static_loadable (e_abs e)) eqn:Hload.
        -- assert (Hok : entry_ok e = true) by (unfold entry_ok; rewrite Hdot, Hload; reflexivity).
           rewrite removelast_last by auto.
           destruct (lstr_eqb k (e_parts e)) eqn:Ek.
           ++ apply lstr_eqb_eq in Ek. subst k. rewrite set_member_same. rewrite Hinv'.
              rewrite (spec_own_before top E e Hle Hpe), Hokc.
              rewrite (spec_own_after top E e Hle Hpe Hok), Hokc. reflexivity.
           ++ apply lstr_eqb_neq in Ek. rewrite set_member_lookup_other by auto. rewrite Hinv'.
              symmetry. apply spec_other_key; auto.
        -- assert (Hok : entry_ok e = false) by (unfold entry_ok; rewrite Hload; apply andb_false_r).
           rewrite Hinv'. symmetry. apply spec_not_ok_entry. auto.
      * rewrite Hinv'. symmetry.
        destruct (entry_ok e) eqn:Hok; [|apply spec_not_ok_entry; auto].
        destruct (lstr_eqb k (e_parts e)) eqn:Ek.
        -- apply lstr_eqb_eq in Ek. subst k. rewrite (spec_own_after top E e Hle Hpe Hok), Hokc. reflexivity.
        -- apply lstr_eqb_neq in Ek. apply spec_other_key; auto.
Qed.

(* ------------------------------------------------------------------------------------------------------------- *)
(* F.  consequences *)

(* a file sits at a dotted name iff it is the merge of the name's candidates and the chain of parents holds *)
Corollary runN_file : forall top E k f,
  sorted E -> (forall e, In e E -> e_parts e <> []) -> k <> [] ->
  lookup_m k (runN top E) = Some (MFile f) ->
  pick E k = Some f /\ okc E (is_ns top) [] (removelast k) = true.
Proof.
  intros top E k f Hs Hne Hk H. rewrite runN_spec in H by auto. unfold spec in H. rewrite specD_ne in H by auto.
  unfold specF in H. destruct (okc E (is_ns top) [] (removelast k)).
  - destruct (pick E k) as [g|]; simpl in H. inversion H; auto.
    unfold specN in H. destruct (is_ns top && nsb E [] k); [destruct (dirs_thru k E)|]; discriminate.
  - unfold specN in H. destruct (is_ns top && nsb E [] k); [destruct (dirs_thru k E)|]; discriminate.
Qed.

(* a namespace sub-package sits at a dotted name iff the top is a namespace package, no level down to the name has a
   file, and some entry passes through it; it records the directories of those entries, in their order *)
Corollary runN_ns : forall top E k ds,
  sorted E -> (forall e, In e E -> e_parts e <> []) -> k <> [] ->
  lookup_m k (runN top E) = Some (MNs ds) ->
  is_ns top = true /\ nsb E [] k = true /\ ds = dirs_thru k E /\ ds <> [].
Proof.
  intros top E k ds Hs Hne Hk H. rewrite runN_spec in H by auto. unfold spec in H. rewrite specD_ne in H by auto.
  destruct (specF E top k) as [v|] eqn:EF.
  - unfold specF in EF. destruct (okc E (is_ns top) [] (removelast k)); [|discriminate].
    destruct (pick E k); simpl in EF; inversion EF; subst. discriminate.
  - unfold specN in H. destruct (is_ns top && nsb E [] k) eqn:Em; [|discriminate].
    apply andb_true_iff in Em. destruct Em. destruct (dirs_thru k E) eqn:Ed; [discriminate|]. inversion H; subst.
    repeat split; auto. discriminate.
Qed.

(* no namespace sub-package below a regular top module *)
Corollary runN_regular_all_files : forall p E k v,
  sorted E -> (forall e, In e E -> e_parts e <> []) ->
  lookup_m k (runN (MFile p) E) = Some v -> exists f, v = MFile f.
Proof.
  intros p E k v Hs Hne H. destruct k as [|c k]. rewrite runN_spec in H by auto. simpl in H. inversion H; eauto.
  destruct v as [f|ds]; eauto. apply runN_ns in H; auto; [|discriminate]. destruct H as [H _]. discriminate.
Qed.

(* the tree is a function of the merges of the candidates and of the directories passed through: two entry lists that
   agree on both give the same tree (the reduction used for listing-order questions) *)
Theorem runN_ext : forall top E1 E2,
  sorted E1 -> sorted E2 -> (forall e, In e E1 -> e_parts e <> []) -> (forall e, In e E2 -> e_parts e <> []) ->
  (forall q, pick E1 q = pick E2 q) -> (forall k, dirs_thru k E1 = dirs_thru k E2) ->
  forall k, lookup_m k (runN top E1) = lookup_m k (runN top E2).
Proof.
  intros top E1 E2 S1 S2 N1 N2 Hp Hd k. rewrite !runN_spec by auto. unfold spec, specD.
  destruct k as [|c k0] eqn:Ek; auto. rewrite <- Ek. unfold specF, specN.
  rewrite (okc_ext E1 E2) by (intros; apply Hp). rewrite (nsb_ext E1 E2) by (intros; apply Hp). rewrite Hp, Hd. reflexivity.
Qed.

(* the model's load of a namespace package is this fold *)
Lemma load_found_ns : forall U ds,
  load_found false U (FNs ds) = LOk (runN (MNs ds) (depth_sort (iter_portions U ds))).
Proof. reflexivity. Qed.

(* non-vacuity: a namespace package over two portions with a nested namespace sub-package, a regular sub-package and a
   module; every clause of the description is exercised *)
Definition F0l : node := File false [].
Definition U_nsl : universe :=
  [(0, [("aa", Dir [("sub", Dir [("a.py", F0l); ("deep", Dir [("x.py", F0l)])]); ("m.py", F0l)])]);
   (1, [("aa", Dir [("sub", Dir [("b.py", F0l)]); ("pkg", Dir [("__init__.py", F0l); ("c.py", F0l); ("noinit", Dir [("y.py", F0l)])])])])].
Example runN_example :
  let ds := [(0, ["aa"]); (1, ["aa"])] in
  let E := depth_sort (iter_portions U_nsl ds) in
  sorted E /\ (forall e, In e E -> e_parts e <> []) /\
  spec E (MNs ds) ["sub"] = Some (MNs [(0, ["aa"; "sub"]); (1, ["aa"; "sub"])]) /\
  spec E (MNs ds) ["sub"; "deep"] = Some (MNs [(0, ["aa"; "sub"; "deep"])]) /\
  spec E (MNs ds) ["sub"; "deep"; "x"] = Some (MFile (0, ["aa"; "sub"; "deep"; "x.py"])) /\
  spec E (MNs ds) ["pkg"; "c"] = Some (MFile (1, ["aa"; "pkg"; "c.py"])) /\
  spec E (MNs ds) ["pkg"; "noinit"] = None /\ spec E (MNs ds) ["pkg"; "noinit"; "y"] = None /\
  lookup_m ["sub"; "b"] (runN (MNs ds) E) = Some (MFile (1, ["aa"; "sub"; "b.py"])).
Proof.
  cbv zeta. split. apply depth_sort_sorted. split.
  - intros e He. apply (proj1 (depth_sort_In _ _)) in He. vm_compute in He.
    repeat (destruct He as [<-|He]; [discriminate|]). contradiction.
  - repeat split; vm_compute; reflexivity.
Qed.
