(* C03 proofs, part 1: iteration.  Unfolding equations of [iterate]; flat iteration is the recursive expansion of
   one-layer iteration; flat pieces are strings and names only; [render] distributes over the pieces.
   Everything is stated for every combination [fx] of the rendering repairs. *)
From Coq Require Import List ZArith String Ascii Bool Arith Lia.
From Verif Require Import Lib.Sexp Model.C03_ops Gen.C03_tables Model.C03_expr Model.C03_spec Proofs.C03_ind.
Import ListNotations.
Open Scope string_scope. Open Scope list_scope. Open Scope nat_scope.

(* the operand requirements are constants regenerated from expressions.py: bring them to the grammar's names.  Each [change]
   is checked by conversion: if the source requires another level somewhere, it fails and so does every proof that uses it *)
Ltac rqnorm :=
  change rq_Attribute_values with P_ATOM in *;
  change rq_BinOp_pow_left with P_AWAIT in *;
  change rq_BinOp_pow_right with P_FACTOR in *;
  change rq_BoolOp_values_above_own with 1 in *;
  change rq_Call_function with P_ATOM in *;
  change rq_Call_sole_genexp with P_NONE in *;
  change rq_Call_arguments with P_TEST in *;
  change rq_Compare_left with P_BOR in *;
  change rq_Compare_comparators with P_BOR in *;
  change rq_Comprehension_target with P_BOR in *;
  change rq_Comprehension_iterable with P_OR in *;
  change rq_Comprehension_conditions with P_OR in *;
  change rq_Dict_unpacked with P_BOR in *;
  change rq_Dict_key with P_TEST in *;
  change rq_Dict_value with P_TEST in *;
  change rq_DictComp_key with P_TEST in *;
  change rq_DictComp_value with P_TEST in *;
  change rq_DictComp_generators with P_NONE in *;
  change rq_Formatted_value with P_OR in *;
  change rq_Formatted_spec_values with P_NONE in *;
  change rq_Formatted_spec with P_NONE in *;
  change rq_GeneratorExp_element with P_TEST in *;
  change rq_GeneratorExp_generators with P_NONE in *;
  change rq_IfExp_body with P_OR in *;
  change rq_IfExp_test with P_OR in *;
  change rq_IfExp_orelse with P_TEST in *;
  change rq_JoinedStr_values with P_NONE in *;
  change rq_Keyword_value with P_TEST in *;
  change rq_VarPositional_value with P_BOR in *;
  change rq_VarKeyword_value with P_TEST in *;
  change rq_Lambda_default with P_TEST in *;
  change rq_Lambda_body with P_TEST in *;
  change rq_List_elements with P_TEST in *;
  change rq_ListComp_element with P_TEST in *;
  change rq_ListComp_generators with P_NONE in *;
  change rq_NamedExpr_target with P_ATOM in *;
  change rq_NamedExpr_value with P_TEST in *;
  change rq_Set_elements with P_TEST in *;
  change rq_SetComp_element with P_TEST in *;
  change rq_SetComp_generators with P_NONE in *;
  change rq_Slice_lower with P_TEST in *;
  change rq_Slice_upper with P_TEST in *;
  change rq_Slice_step with P_TEST in *;
  change rq_Subscript_left with P_ATOM in *;
  change rq_Subscript_slice with P_TEST in *;
  change rq_Tuple_elements with P_TEST in *;
  change rq_UnaryOp_value_above_own with 0 in *;
  change rq_Yield_value with P_TEST in *;
  change rq_YieldFrom_value with P_TEST in *;
  change pr_default with P_ATOM in *;
  change pr_binop_default with P_ATOM in *;
  change pr_BoolOp_if with P_OR in *;
  change pr_BoolOp_else with P_AND in *;
  change pr_UnaryOp_if with P_NOT in *;
  change pr_UnaryOp_else with P_FACTOR in *;
  change pr_Compare with P_CMP in *;
  change pr_IfExp with P_TEST in *;
  change pr_Lambda with P_TEST in *;
  change pr_Yield with P_YIELD in *;
  change pr_YieldFrom with P_YIELD in *.

Section Iter.
Variable fx : fixes.

(* is the element written between parentheses by _yield(element, precedence=req) *)
Definition ypar (req : nat) (c : gexpr) : bool :=
  match c with GStr _ => false | _ => fx_prec fx && (gprec c <? req) end.

(* _yield(element, flat=b, precedence=req) *)
Definition yb (b : bool) (req : nat) (c : gexpr) : list item :=
  match c with
  | GStr s => [IStr s]
  | _ => wrap (fx_prec fx && (gprec c <? req)) (if b then iterate fx true c else [IExpr c])
  end.
Definition yob (b : bool) (req : nat) (o : option gexpr) : list item := match o with Some c => yb b req c | None => [] end.
Definition conv_param (b : bool) (p : string * pkind * option gexpr) : string * pkind * option (list item) :=
  (fst (fst p), snd (fst p), match snd p with Some d => Some (yb b P_TEST d) | None => None end).
Definition dict_item (b : bool) (kv : option gexpr * gexpr) : list item :=
  match fst kv with
  | None => [IStr "**"] ++ yb b P_BOR (snd kv)
  | Some k => yb b P_TEST k ++ [IStr ": "] ++ yb b P_TEST (snd kv)
  end.
Definition attr_parts (b : bool) (vs : list gexpr) : list (list item) := attr_parts_gen (fx_intattr fx) (yb b) vs.
Definition call_args (b : bool) (args : list gexpr) : list item := call_args_gen (fx_genexp fx) (yb b) args.
Definition glue (v : gexpr) : list item :=
  if fx_fglue fx && (P_OR <=? gprec v) && starts_brace (render_items (match v with GStr s => [IStr s] | _ => iterate fx true v end))
  then [IStr " "] else [].
Definition spec_items (b : bool) (spec : option gexpr) : list item := spec_items_gen (yb b) spec.
Definition lam_items (ps : list (string * pkind * option (list item))) : list item :=
  if fx_lambda fx then lam_params2 ps false false else lam_params ps false false false.
Definition tuple_par (es : list gexpr) (implicit : bool) : bool :=
  if fx_tuple0 fx then negb implicit || is_nil es else negb implicit.

Lemma it_Str b s : iterate fx b (GStr s) = [IStr s]. Proof. reflexivity. Qed.
Lemma it_Name b n p : iterate fx b (GName n p) = [IExpr (GName n p)]. Proof. reflexivity. Qed.
Lemma it_Attribute b vs : iterate fx b (GAttribute vs) = ijoin [IStr "."] (attr_parts b vs).
Proof. reflexivity. Qed.
Lemma it_BinOp b l op r :
  iterate fx b (GBinOp l op r) = yb b (gbin_lreq op) l ++ [IStr (" " ++ op ++ " ")] ++ yb b (gbin_rreq op) r.
Proof. reflexivity. Qed.
Lemma it_BoolOp b op vs :
  iterate fx b (GBoolOp op vs) = ijoin [IStr (" " ++ op ++ " ")] (map (yb b (S (gprec (GBoolOp op vs)))) vs).
Proof. reflexivity. Qed.
Lemma it_Call b f args : iterate fx b (GCall f args) = yb b P_ATOM f ++ call_args b args.
Proof. reflexivity. Qed.
Lemma it_Compare b l ops cs :
  iterate fx b (GCompare l ops cs) = yb b P_BOR l ++ [IStr " "] ++ ijoin [IStr " "] (cmp_zip ops (map (yb b P_BOR) cs)).
Proof. reflexivity. Qed.
Lemma it_Comprehension b t it conds a :
  iterate fx b (GComprehension t it conds a) =
  (if a then [IStr "async "] else []) ++ [IStr "for "] ++ yb b P_BOR t ++ [IStr " in "] ++ yb b P_OR it
  ++ (if is_nil conds then [] else IStr " if " :: ijoin [IStr " if "] (map (yb b P_OR) conds)).
Proof. reflexivity. Qed.
Lemma it_Dict b items :
  iterate fx b (GDict items) = [IStr "{"] ++ ijoin [IStr ", "] (map (dict_item b) items) ++ [IStr "}"].
Proof. reflexivity. Qed.
Lemma it_DictComp b k v gens :
  iterate fx b (GDictComp k v gens) =
  [IStr "{"] ++ yb b P_TEST k ++ [IStr ": "] ++ yb b P_TEST v ++ [IStr " "] ++ ijoin [IStr " "] (map (yb b P_NONE) gens) ++ [IStr "}"].
Proof. reflexivity. Qed.
Lemma it_Formatted b v conv spec :
  iterate fx b (GFormatted v conv spec) =
  [IStr "{"] ++ glue v ++ yb b P_OR v ++ (if (conv =? -1)%Z then [] else [IStr (conv_text conv)]) ++ spec_items b spec ++ [IStr "}"].
Proof. reflexivity. Qed.
Lemma it_GeneratorExp b e gens :
  iterate fx b (GGeneratorExp e gens) =
  wrap (fx_genexp fx) (yb b P_TEST e ++ [IStr " "] ++ ijoin [IStr " "] (map (yb b P_NONE) gens)).
Proof. reflexivity. Qed.
Lemma it_IfExp b x t o :
  iterate fx b (GIfExp x t o) = yb b P_OR x ++ [IStr " if "] ++ yb b P_OR t ++ [IStr " else "] ++ yb b P_TEST o.
Proof. reflexivity. Qed.
Lemma it_JoinedStr b vs : iterate fx b (GJoinedStr vs) = [IStr "f'"] ++ ijoin [IStr ""] (map (yb b P_NONE) vs) ++ [IStr "'"].
Proof. reflexivity. Qed.
Lemma it_Keyword b n v : iterate fx b (GKeyword n v) = [IStr n; IStr "="] ++ yb b P_TEST v. Proof. reflexivity. Qed.
Lemma it_VarPositional b v : iterate fx b (GVarPositional v) = IStr "*" :: yb b P_BOR v. Proof. reflexivity. Qed.
Lemma it_VarKeyword b v : iterate fx b (GVarKeyword v) = IStr "**" :: yb b P_TEST v. Proof. reflexivity. Qed.
Lemma it_Lambda b params body :
  iterate fx b (GLambda params body) =
  [IStr "lambda"] ++ (if is_nil params then [] else [IStr " "])
  ++ lam_items (map (conv_param b) params) ++ [IStr ": "] ++ yb b P_TEST body.
Proof. reflexivity. Qed.
Lemma it_List b es : iterate fx b (GList es) = [IStr "["] ++ ijoin [IStr ", "] (map (yb b P_TEST) es) ++ [IStr "]"].
Proof. reflexivity. Qed.
Lemma it_ListComp b e gens :
  iterate fx b (GListComp e gens) = [IStr "["] ++ yb b P_TEST e ++ [IStr " "] ++ ijoin [IStr " "] (map (yb b P_NONE) gens) ++ [IStr "]"].
Proof. reflexivity. Qed.
Lemma it_NamedExpr b t v : iterate fx b (GNamedExpr t v) = [IStr "("] ++ yb b P_ATOM t ++ [IStr " := "] ++ yb b P_TEST v ++ [IStr ")"].
Proof. reflexivity. Qed.
Lemma it_Set b es : iterate fx b (GSet es) = [IStr "{"] ++ ijoin [IStr ", "] (map (yb b P_TEST) es) ++ [IStr "}"].
Proof. reflexivity. Qed.
Lemma it_SetComp b e gens :
  iterate fx b (GSetComp e gens) = [IStr "{"] ++ yb b P_TEST e ++ [IStr " "] ++ ijoin [IStr " "] (map (yb b P_NONE) gens) ++ [IStr "}"].
Proof. reflexivity. Qed.
Lemma it_Slice b lo up st :
  iterate fx b (GSlice lo up st) =
  yob b P_TEST lo ++ [IStr ":"] ++ yob b P_TEST up ++ (match st with Some s => IStr ":" :: yb b P_TEST s | None => [] end).
Proof. reflexivity. Qed.
Lemma it_Subscript b l s : iterate fx b (GSubscript l s) = yb b P_ATOM l ++ [IStr "["] ++ yb b P_TEST s ++ [IStr "]"].
Proof. reflexivity. Qed.
Lemma it_Tuple b es implicit :
  iterate fx b (GTuple es implicit) =
  (if tuple_par es implicit then [IStr "("] else []) ++ ijoin [IStr ", "] (map (yb b P_TEST) es)
  ++ (match es with [_] => [IStr ","] | _ => [] end) ++ (if tuple_par es implicit then [IStr ")"] else []).
Proof. reflexivity. Qed.
Lemma it_UnaryOp b op v : iterate fx b (GUnaryOp op v) = IStr op :: yb b (gprec (GUnaryOp op v)) v. Proof. reflexivity. Qed.
Lemma it_Yield b v : iterate fx b (GYield v) = IStr "yield" :: (match v with Some c => IStr " " :: yb b P_TEST c | None => [] end).
Proof. reflexivity. Qed.
Lemma it_YieldFrom b v : iterate fx b (GYieldFrom v) = IStr "yield from " :: yb b P_TEST v. Proof. reflexivity. Qed.

Lemma yb_true req c : yb true req c = wrap (ypar req c) (iterate fx true c).
Proof. destruct c; reflexivity. Qed.

(* ---------- flat = recursive expansion of one layer ---------- *)
Definition expand (i : item) : list item := match i with IStr s => [IStr s] | IExpr g => iterate fx true g end.
Definition flatten (l : list item) : list item := flat_map expand l.

Lemma flatten_app a b : flatten (a ++ b) = flatten a ++ flatten b.
Proof. apply flat_map_app. Qed.

Lemma flatten_wrap p l : flatten (wrap p l) = wrap p (flatten l).
Proof. destruct p; [|reflexivity]. unfold wrap. cbn [flatten flat_map expand app]. f_equal. apply flatten_app. Qed.

Lemma flatten_yb req c : flatten (yb false req c) = yb true req c.
Proof. destruct c; try reflexivity; unfold yb; rewrite flatten_wrap; cbn [flatten flat_map expand]; rewrite app_nil_r; reflexivity. Qed.

Lemma flatten_yob req o : flatten (yob false req o) = yob true req o.
Proof. destruct o; [apply flatten_yb|reflexivity]. Qed.

Lemma flatten_ijoin sep l : flatten (ijoin sep l) = ijoin (flatten sep) (map flatten l).
Proof.
  induction l as [|x l IH]; [reflexivity|]. destruct l as [|y l]; [reflexivity|].
  change (ijoin sep (x :: y :: l)) with (x ++ sep ++ ijoin sep (y :: l)).
  rewrite !flatten_app, IH. reflexivity.
Qed.

Lemma map_flatten_yb req vs : map flatten (map (yb false req) vs) = map (yb true req) vs.
Proof. rewrite map_map. apply map_ext. intros; apply flatten_yb. Qed.

Lemma flatten_cmp_zip ops ls : map flatten (cmp_zip ops ls) = cmp_zip ops (map flatten ls).
Proof.
  revert ls. induction ops as [|o ops IH]; intros ls.
  - simpl. rewrite !map_map. apply map_ext. intros c. reflexivity.
  - destruct ls as [|c ls]; simpl.
    + f_equal. apply (IH []).
    + f_equal. apply IH.
Qed.

Definition flat_param (p : string * pkind * option (list item)) : string * pkind * option (list item) :=
  (fst (fst p), snd (fst p), match snd p with Some d => Some (flatten d) | None => None end).

Lemma is_nil_map {A B} (f : A -> B) l : is_nil (map f l) = is_nil l.
Proof. destruct l; reflexivity. Qed.

Lemma flatten_lam_params ps a b c : flatten (lam_params ps a b c) = lam_params (map flat_param ps) a b c.
Proof.
  revert a b c. induction ps as [|[[n k] d] ps IH]; intros a b c; [reflexivity|].
  cbn [lam_params map flat_param fst snd].
  assert (Hn : is_nil (map flat_param ps) = is_nil ps) by (destruct ps; reflexivity). rewrite Hn.
  destruct k, a, c, d as [dd|]; cbn [is_po is_variadic negb andb]; rewrite ?flatten_app; cbn [flatten flat_map expand app];
    rewrite ?flatten_app; destruct (is_nil ps); cbn [flatten flat_map expand app]; rewrite ?IH; reflexivity.
Qed.

Lemma flatten_lam_params2 ps a c : flatten (lam_params2 ps a c) = lam_params2 (map flat_param ps) a c.
Proof.
  revert a c. induction ps as [|[[n k] d] ps IH]; intros a c; [destruct a; reflexivity|].
  cbn [lam_params2 map flat_param fst snd].
  assert (Hn : is_nil (map flat_param ps) = is_nil ps) by (destruct ps; reflexivity). rewrite Hn.
  destruct k, a, c, d as [dd|]; cbn [is_po is_variadic negb andb]; rewrite ?flatten_app; cbn [flatten flat_map expand app];
    rewrite ?flatten_app; destruct (is_nil ps); cbn [flatten flat_map expand app]; rewrite ?IH; reflexivity.
Qed.

Lemma flatten_lam_items ps : flatten (lam_items ps) = lam_items (map flat_param ps).
Proof. unfold lam_items. destruct (fx_lambda fx); [apply flatten_lam_params2|apply flatten_lam_params]. Qed.

Lemma conv_param_flat params : map flat_param (map (conv_param false) params) = map (conv_param true) params.
Proof.
  rewrite map_map. apply map_ext. intros [[n k] [d|]]; unfold flat_param, conv_param; simpl; [rewrite flatten_yb|]; reflexivity.
Qed.

Lemma dict_item_flat items : map flatten (map (dict_item false) items) = map (dict_item true) items.
Proof.
  rewrite map_map. apply map_ext. intros [[k|] v]; unfold dict_item; cbn [fst snd].
  - rewrite !flatten_app, !flatten_yb. reflexivity.
  - change (flatten ([IStr "**"] ++ yb false P_BOR v)) with (IStr "**" :: flatten (yb false P_BOR v)).
    rewrite flatten_yb. reflexivity.
Qed.

Lemma attr_parts_flat vs : map flatten (attr_parts false vs) = attr_parts true vs.
Proof.
  unfold attr_parts, attr_parts_gen. destruct vs as [|v rest]; [reflexivity|].
  destruct v; try apply map_flatten_yb.
  cbn [map]. rewrite map_flatten_yb. f_equal. destruct (fx_intattr fx && is_decimal s); reflexivity.
Qed.

Lemma call_args_flat args : flatten (call_args false args) = call_args true args.
Proof.
  unfold call_args, call_args_gen.
  assert (Hgen : flatten ([IStr "("] ++ ijoin [IStr ", "] (map (yb false P_TEST) args) ++ [IStr ")"])
                 = [IStr "("] ++ ijoin [IStr ", "] (map (yb true P_TEST) args) ++ [IStr ")"]).
  { rewrite !flatten_app, flatten_ijoin, map_flatten_yb. reflexivity. }
  destruct args as [|a r]; [exact Hgen|]. destruct a; try exact Hgen. destruct r; [|exact Hgen].
  destruct (fx_genexp fx); [apply flatten_yb|]. rewrite !flatten_app, flatten_yb. reflexivity.
Qed.

Lemma spec_items_flat spec : flatten (spec_items false spec) = spec_items true spec.
Proof.
  unfold spec_items, spec_items_gen. destruct spec as [o|]; [|reflexivity].
  assert (Ho : flatten (IStr ":" :: yb false P_NONE o) = IStr ":" :: yb true P_NONE o).
  { change (IStr ":" :: yb false P_NONE o) with ([IStr ":"] ++ yb false P_NONE o). rewrite flatten_app, flatten_yb. reflexivity. }
  destruct o; try exact Ho.
  change (IStr ":" :: ?l) with ([IStr ":"] ++ l). rewrite flatten_app, flatten_ijoin, map_flatten_yb. reflexivity.
Qed.

Ltac flat_simpl :=
  repeat (rewrite ?flatten_app, ?flatten_wrap, ?flatten_ijoin, ?map_flatten_yb, ?flatten_yb, ?flatten_yob, ?flatten_cmp_zip,
          ?flatten_lam_items, ?conv_param_flat, ?dict_item_flat, ?attr_parts_flat, ?call_args_flat, ?spec_items_flat;
          cbn [flatten flat_map expand app]).

Lemma flatten_glue v : flatten (glue v) = glue v.
Proof. unfold glue. destruct (_ && _); reflexivity. Qed.

Theorem iterate_flat_is_expansion (g : gexpr) : iterate fx true g = flatten (iterate fx false g).
Proof.
  destruct g; rewrite ?it_Str, ?it_Name, ?it_Attribute, ?it_BinOp, ?it_BoolOp, ?it_Call, ?it_Compare, ?it_Comprehension,
    ?it_Dict, ?it_DictComp, ?it_Formatted, ?it_GeneratorExp, ?it_IfExp, ?it_JoinedStr, ?it_Keyword, ?it_VarPositional,
    ?it_VarKeyword, ?it_Lambda, ?it_List, ?it_ListComp, ?it_NamedExpr, ?it_Set, ?it_SetComp, ?it_Slice, ?it_Subscript,
    ?it_Tuple, ?it_UnaryOp, ?it_Yield, ?it_YieldFrom; flat_simpl; try reflexivity.
  - (* GComprehension *) destruct is_async, (is_nil conds); flat_simpl; reflexivity.
  - (* GFormatted *) rewrite flatten_glue. destruct (conv =? -1)%Z; flat_simpl; reflexivity.
  - (* GLambda *) destruct (is_nil params); flat_simpl; reflexivity.
  - (* GSlice *) destruct st; flat_simpl; reflexivity.
  - (* GTuple *) destruct (tuple_par es implicit), es as [|? [|? ?]]; flat_simpl; reflexivity.
  - (* GYield *) destruct v; [|reflexivity]. change (flat_map expand (IStr " " :: yb false P_TEST g)) with (IStr " " :: flatten (yb false P_TEST g)).
    rewrite flatten_yb. reflexivity.
Qed.

(* ---------- flat pieces are strings and names only ---------- *)
Definition is_piece (i : item) : Prop := match i with IStr _ => True | IExpr (GName _ _) => True | IExpr _ => False end.

Lemma Forall_ijoin (P : item -> Prop) sep l : Forall P sep -> Forall (Forall P) l -> Forall P (ijoin sep l).
Proof.
  intros Hs Hl. induction Hl as [|x l Hx Hl IH]; [constructor|]. destruct l as [|y l]; [exact Hx|].
  change (ijoin sep (x :: y :: l)) with (x ++ sep ++ ijoin sep (y :: l)).
  apply Forall_app; split; [exact Hx|]. apply Forall_app; split; [exact Hs|exact IH].
Qed.

Lemma Forall_ijoin_inv (P : item -> Prop) sep l : Forall P (ijoin sep l) -> Forall (Forall P) l.
Proof.
  induction l as [|x l IH]; intros H; [constructor|]. destruct l as [|y l].
  - constructor; [exact H|constructor].
  - change (ijoin sep (x :: y :: l)) with (x ++ sep ++ ijoin sep (y :: l)) in H.
    apply Forall_app in H. destruct H as [Hx H]. apply Forall_app in H. destruct H as [_ H].
    constructor; [exact Hx|apply IH; exact H].
Qed.

Lemma Forall_cmp_zip (P : item -> Prop) ops l :
  (forall s, P (IStr s)) -> Forall (Forall P) l -> Forall (Forall P) (cmp_zip ops l).
Proof.
  intros HS. revert l. induction ops as [|o ops IH]; intros l Hl.
  - simpl. apply Forall_forall. intros x Hx. apply in_map_iff in Hx. destruct Hx as [c [<- Hc]].
    rewrite Forall_forall in Hl. repeat constructor; auto.
  - destruct l as [|c l]; simpl.
    + constructor; [repeat constructor; auto|]. apply IH. constructor.
    + inversion Hl; subst. constructor; [repeat constructor; auto|]. apply IH; assumption.
Qed.

Lemma Forall_lam_params (P : item -> Prop) ps a b c :
  (forall s, P (IStr s)) -> Forall (fun p => OptP (Forall P) (snd p)) ps -> Forall P (lam_params ps a b c).
Proof.
  intros HS Hps. revert a b c. induction Hps as [|[[n k] d] ps Hd _ IH]; intros a b c; [constructor|].
  cbn [lam_params]. simpl in Hd.
  destruct k, a, c; cbn [is_po is_variadic negb andb];
    repeat (apply Forall_app; split); try (repeat constructor; auto; fail); try apply IH;
    try (destruct d; [|constructor]; try constructor; auto; fail);
    try (destruct (is_nil ps); repeat constructor; auto).
Qed.

Lemma Forall_lam_params2 (P : item -> Prop) ps a c :
  (forall s, P (IStr s)) -> Forall (fun p => OptP (Forall P) (snd p)) ps -> Forall P (lam_params2 ps a c).
Proof.
  intros HS Hps. revert a c. induction Hps as [|[[n k] d] ps Hd _ IH]; intros a c; [destruct a; repeat constructor; auto|].
  cbn [lam_params2]. simpl in Hd.
  destruct k, a, c; cbn [is_po is_variadic negb andb];
    repeat (apply Forall_app; split); try (repeat constructor; auto; fail); try apply IH;
    try (destruct d; [|constructor]; try constructor; auto; fail);
    try (destruct (is_nil ps); repeat constructor; auto).
Qed.

Lemma Forall_wrap (P : item -> Prop) p l : (forall s, P (IStr s)) -> Forall P l -> Forall P (wrap p l).
Proof.
  intros HS H. destruct p; [|exact H]. unfold wrap. constructor; [apply HS|]. apply Forall_app; split; [exact H|repeat constructor; apply HS].
Qed.

Lemma yb_pieces req c : Forall is_piece (iterate fx true c) -> Forall is_piece (yb true req c).
Proof. intros H. rewrite yb_true. apply Forall_wrap; [intros; exact I|exact H]. Qed.

Ltac pieces_tac :=
  repeat first
    [ apply Forall_app; split
    | apply Forall_cons
    | apply Forall_nil
    | exact I
    | apply yb_pieces; assumption
    | apply Forall_wrap; [intros; exact I|]
    | apply Forall_ijoin ].

Lemma Forall_map_yb req vs : Forall (fun g => Forall is_piece (iterate fx true g)) vs -> Forall (Forall is_piece) (map (yb true req) vs).
Proof.
  intros H. apply Forall_forall. intros x Hx. apply in_map_iff in Hx. destruct Hx as [c [<- Hc]].
  rewrite Forall_forall in H. apply yb_pieces. auto.
Qed.

Theorem flat_items_are_pieces (g : gexpr) : Forall is_piece (iterate fx true g).
Proof.
  induction g using gexpr_ind'; rewrite ?it_Str, ?it_Name, ?it_Attribute, ?it_BinOp, ?it_BoolOp, ?it_Call, ?it_Compare, ?it_Comprehension,
    ?it_Dict, ?it_DictComp, ?it_Formatted, ?it_GeneratorExp, ?it_IfExp, ?it_JoinedStr, ?it_Keyword, ?it_VarPositional,
    ?it_VarKeyword, ?it_Lambda, ?it_List, ?it_ListComp, ?it_NamedExpr, ?it_Set, ?it_SetComp, ?it_Slice, ?it_Subscript,
    ?it_Tuple, ?it_UnaryOp, ?it_Yield, ?it_YieldFrom;
    try (pieces_tac; try (apply Forall_map_yb; assumption); fail).
  - (* GAttribute *) pieces_tac. unfold attr_parts, attr_parts_gen. destruct vs as [|v rest]; [constructor|].
    inversion H; subst. destruct v; try (apply Forall_map_yb; assumption).
    constructor; [destruct (fx_intattr fx && is_decimal s); repeat constructor|apply Forall_map_yb; assumption].
  - (* GCall *) pieces_tac. unfold call_args, call_args_gen.
    assert (Hgen : Forall is_piece ([IStr "("] ++ ijoin [IStr ", "] (map (yb true P_TEST) args) ++ [IStr ")"])).
    { pieces_tac. apply Forall_map_yb; assumption. }
    destruct args as [|a r]; [exact Hgen|]. destruct a; try exact Hgen. destruct r; [|exact Hgen].
    inversion H; subst. destruct (fx_genexp fx); pieces_tac.
  - (* GCompare *) pieces_tac. apply Forall_cmp_zip; [intros; exact I|]. apply Forall_map_yb. assumption.
  - (* GComprehension *) destruct a, (is_nil conds); pieces_tac; apply Forall_map_yb; assumption.
  - (* GDict *) pieces_tac. apply Forall_forall. intros x Hx. apply in_map_iff in Hx. destruct Hx as [[k v] [<- Hc]].
    rewrite Forall_forall in H. destruct (H _ Hc) as [Hk Hv]. unfold dict_item. simpl fst in *. simpl snd in *.
    destruct k; simpl in Hk; pieces_tac.
  - (* GFormatted *) pieces_tac.
    + unfold glue. destruct (_ && _); repeat constructor.
    + destruct (conv =? -1)%Z; repeat constructor.
    + unfold spec_items, spec_items_gen. destruct spec as [o|]; [|constructor]. simpl in H.
      assert (Ho : Forall is_piece (IStr ":" :: yb true P_NONE o)) by (constructor; [exact I|apply yb_pieces; exact H]).
      destruct o; try exact Ho.
      constructor; [exact I|]. apply Forall_ijoin; [repeat constructor|].
      (* the pieces of a joined string are those of its values *)
      rewrite it_JoinedStr in H. apply Forall_app in H. destruct H as [_ H]. apply Forall_app in H. destruct H as [H _].
      exact (Forall_ijoin_inv _ _ _ H).
  - (* GLambda *) unfold lam_items. destruct (is_nil params), (fx_lambda fx); pieces_tac;
      (first [apply Forall_lam_params2 | apply Forall_lam_params]; [intros; exact I|]; apply Forall_forall; intros x Hx; apply in_map_iff in Hx;
       destruct Hx as [[[n k] d] [<- Hc]]; rewrite Forall_forall in H; specialize (H _ Hc); unfold ParP in H; simpl in H;
       unfold conv_param; simpl; destruct d; simpl in *; [apply yb_pieces; assumption|exact I]).
  - (* GSlice *) destruct lo, up, st; simpl in *; pieces_tac.
  - (* GTuple *) destruct (tuple_par es i); pieces_tac; try (apply Forall_map_yb; assumption); destruct es as [|? [|? ?]]; pieces_tac.
  - (* GYield *) destruct v; simpl in *; pieces_tac.
Qed.

(* ---------- render distributes ---------- *)
Open Scope string_scope.
Lemma render_items_app a b : render_items (a ++ b)%list = render_items a ++ render_items b.
Proof. unfold render_items. rewrite map_app. apply sconcat_app. Qed.

Lemma render_items_cons_str s l : render_items (IStr s :: l) = s ++ render_items l.
Proof. reflexivity. Qed.

Lemma render_items_nil : render_items [] = "". Proof. reflexivity. Qed.

Lemma render_wrap p l : render_items (wrap p l) = paren_if p (render_items l).
Proof.
  destruct p; [|reflexivity]. unfold wrap, paren_if. rewrite render_items_cons_str, render_items_app. reflexivity.
Qed.

Lemma render_yb req c : render_items (yb true req c) = paren_if (ypar req c) (render fx c).
Proof. rewrite yb_true, render_wrap. reflexivity. Qed.

Lemma render_ijoin sep l : render_items (ijoin [IStr sep] l) = sjoin sep (map render_items l).
Proof.
  induction l as [|x l IH]; [reflexivity|]. destruct l as [|y l]; [reflexivity|].
  change (ijoin [IStr sep] (x :: y :: l)) with (x ++ [IStr sep] ++ ijoin [IStr sep] (y :: l))%list.
  rewrite !render_items_app, IH. cbn [map]. rewrite (sjoin_cons sep (render_items x)) by discriminate.
  unfold render_items at 2. simpl. rewrite sapp_nil_r. reflexivity.
Qed.

(* the text of an operand in a slot that requires precedence req *)
Definition rtext (req : nat) (c : gexpr) : string := paren_if (ypar req c) (render fx c).

Lemma map_render_yb req gs : map render_items (map (yb true req) gs) = map (rtext req) gs.
Proof. rewrite map_map. apply map_ext. intros; apply render_yb. Qed.
Open Scope list_scope.

End Iter.
