(* C03 proofs, part 1: iteration.  Unfolding equations of [iterate]; flat iteration is the recursive expansion of
   one-layer iteration; flat pieces are strings and names only; [render] distributes over the pieces. *)
From Coq Require Import List ZArith String Ascii Bool Arith Lia.
From Verif Require Import Lib.Sexp Model.C03_ops Gen.C03_tables Model.C03_expr Model.C03_spec Proofs.C03_ind.
Import ListNotations.
Open Scope string_scope. Open Scope list_scope. Open Scope nat_scope.

(* _yield(element, flat=b) *)
Definition yb (b : bool) (c : gexpr) : list item :=
  match c with GStr s => [IStr s] | _ => if b then iterate true c else [IExpr c] end.
Definition yob (b : bool) (o : option gexpr) : list item := match o with Some c => yb b c | None => [] end.
Definition conv_param (b : bool) (p : string * pkind * option gexpr) : string * pkind * option (list item) :=
  (fst (fst p), snd (fst p), match snd p with Some d => Some (yb b d) | None => None end).
Definition dict_item (b : bool) (kv : option gexpr * gexpr) : list item :=
  (match fst kv with None => [IStr "**"] | Some k => yb b k ++ [IStr ": "] end) ++ yb b (snd kv).

Lemma it_Str b s : iterate b (GStr s) = [IStr s]. Proof. reflexivity. Qed.
Lemma it_Name b n p : iterate b (GName n p) = [IExpr (GName n p)]. Proof. reflexivity. Qed.
Lemma it_Attribute b vs : iterate b (GAttribute vs) = ijoin [IStr "."] (map (yb b) vs). Proof. reflexivity. Qed.
Lemma it_BinOp b l op r : iterate b (GBinOp l op r) = yb b l ++ [IStr (" " ++ op ++ " ")] ++ yb b r. Proof. reflexivity. Qed.
Lemma it_BoolOp b op vs : iterate b (GBoolOp op vs) = ijoin [IStr (" " ++ op ++ " ")] (map (yb b) vs). Proof. reflexivity. Qed.
Lemma it_Call b f args : iterate b (GCall f args) = yb b f ++ [IStr "("] ++ ijoin [IStr ", "] (map (yb b) args) ++ [IStr ")"].
Proof. reflexivity. Qed.
Lemma it_Compare b l ops cs :
  iterate b (GCompare l ops cs) = yb b l ++ [IStr " "] ++ ijoin [IStr " "] (cmp_zip ops (map (yb b) cs)).
Proof. reflexivity. Qed.
Lemma it_Comprehension b t it conds a :
  iterate b (GComprehension t it conds a) =
  (if a then [IStr "async "] else []) ++ [IStr "for "] ++ yb b t ++ [IStr " in "] ++ yb b it
  ++ (if is_nil conds then [] else IStr " if " :: ijoin [IStr " if "] (map (yb b) conds)).
Proof. reflexivity. Qed.
Lemma it_Dict b items :
  iterate b (GDict items) = [IStr "{"] ++ ijoin [IStr ", "] (map (dict_item b) items) ++ [IStr "}"].
Proof. reflexivity. Qed.
Lemma it_DictComp b k v gens :
  iterate b (GDictComp k v gens) = [IStr "{"] ++ yb b k ++ [IStr ": "] ++ yb b v ++ [IStr " "] ++ ijoin [IStr " "] (map (yb b) gens) ++ [IStr "}"].
Proof. reflexivity. Qed.
Lemma it_Formatted b v : iterate b (GFormatted v) = [IStr "{"] ++ yb b v ++ [IStr "}"]. Proof. reflexivity. Qed.
Lemma it_GeneratorExp b e gens :
  iterate b (GGeneratorExp e gens) = yb b e ++ [IStr " "] ++ ijoin [IStr " "] (map (yb b) gens).
Proof. reflexivity. Qed.
Lemma it_IfExp b x t o : iterate b (GIfExp x t o) = yb b x ++ [IStr " if "] ++ yb b t ++ [IStr " else "] ++ yb b o.
Proof. reflexivity. Qed.
Lemma it_JoinedStr b vs : iterate b (GJoinedStr vs) = [IStr "f'"] ++ ijoin [IStr ""] (map (yb b) vs) ++ [IStr "'"].
Proof. reflexivity. Qed.
Lemma it_Keyword b n v : iterate b (GKeyword n v) = [IStr n; IStr "="] ++ yb b v. Proof. reflexivity. Qed.
Lemma it_VarPositional b v : iterate b (GVarPositional v) = IStr "*" :: yb b v. Proof. reflexivity. Qed.
Lemma it_VarKeyword b v : iterate b (GVarKeyword v) = IStr "**" :: yb b v. Proof. reflexivity. Qed.
Lemma it_Lambda b params body :
  iterate b (GLambda params body) =
  [IStr "lambda"] ++ (if is_nil params then [] else [IStr " "])
  ++ lam_params (map (conv_param b) params) false false false ++ [IStr ": "] ++ yb b body.
Proof. reflexivity. Qed.
Lemma it_List b es : iterate b (GList es) = [IStr "["] ++ ijoin [IStr ", "] (map (yb b) es) ++ [IStr "]"]. Proof. reflexivity. Qed.
Lemma it_ListComp b e gens :
  iterate b (GListComp e gens) = [IStr "["] ++ yb b e ++ [IStr " "] ++ ijoin [IStr " "] (map (yb b) gens) ++ [IStr "]"].
Proof. reflexivity. Qed.
Lemma it_NamedExpr b t v : iterate b (GNamedExpr t v) = [IStr "("] ++ yb b t ++ [IStr " := "] ++ yb b v ++ [IStr ")"].
Proof. reflexivity. Qed.
Lemma it_Set b es : iterate b (GSet es) = [IStr "{"] ++ ijoin [IStr ", "] (map (yb b) es) ++ [IStr "}"]. Proof. reflexivity. Qed.
Lemma it_SetComp b e gens :
  iterate b (GSetComp e gens) = [IStr "{"] ++ yb b e ++ [IStr " "] ++ ijoin [IStr " "] (map (yb b) gens) ++ [IStr "}"].
Proof. reflexivity. Qed.
Lemma it_Slice b lo up st :
  iterate b (GSlice lo up st) = yob b lo ++ [IStr ":"] ++ yob b up ++ (match st with Some s => IStr ":" :: yb b s | None => [] end).
Proof. reflexivity. Qed.
Lemma it_Subscript b l s : iterate b (GSubscript l s) = yb b l ++ [IStr "["] ++ yb b s ++ [IStr "]"]. Proof. reflexivity. Qed.
Lemma it_Tuple b es implicit :
  iterate b (GTuple es implicit) =
  (if implicit then [] else [IStr "("]) ++ ijoin [IStr ", "] (map (yb b) es)
  ++ (match es with [_] => [IStr ","] | _ => [] end) ++ (if implicit then [] else [IStr ")"]).
Proof. reflexivity. Qed.
Lemma it_UnaryOp b op v : iterate b (GUnaryOp op v) = IStr op :: yb b v. Proof. reflexivity. Qed.
Lemma it_Yield b v : iterate b (GYield v) = IStr "yield" :: (match v with Some c => IStr " " :: yb b c | None => [] end).
Proof. reflexivity. Qed.
Lemma it_YieldFrom b v : iterate b (GYieldFrom v) = IStr "yield from " :: yb b v. Proof. reflexivity. Qed.

Create HintDb iter_eq.
#[export] Hint Rewrite it_Str it_Name it_Attribute it_BinOp it_BoolOp it_Call it_Compare it_Comprehension it_Dict it_DictComp
  it_Formatted it_GeneratorExp it_IfExp it_JoinedStr it_Keyword it_VarPositional it_VarKeyword it_Lambda it_List it_ListComp
  it_NamedExpr it_Set it_SetComp it_Slice it_Subscript it_Tuple it_UnaryOp it_Yield it_YieldFrom : iter_eq.

Lemma yb_true c : yb true c = iterate true c.
Proof. destruct c; reflexivity. Qed.

(* ---------- flat = recursive expansion of one layer ---------- *)
Definition expand (i : item) : list item := match i with IStr s => [IStr s] | IExpr g => iterate true g end.
Definition flatten (l : list item) : list item := flat_map expand l.

Lemma flatten_app a b : flatten (a ++ b) = flatten a ++ flatten b.
Proof. apply flat_map_app. Qed.

Lemma flatten_yb c : flatten (yb false c) = yb true c.
Proof. destruct c; simpl; rewrite ?app_nil_r; reflexivity. Qed.

Lemma flatten_yob o : flatten (yob false o) = yob true o.
Proof. destruct o; [apply flatten_yb|reflexivity]. Qed.

Lemma flatten_ijoin sep l : flatten (ijoin sep l) = ijoin (flatten sep) (map flatten l).
Proof.
  induction l as [|x l IH]; [reflexivity|]. destruct l as [|y l]; [reflexivity|].
  change (ijoin sep (x :: y :: l)) with (x ++ sep ++ ijoin sep (y :: l)).
  rewrite !flatten_app, IH. reflexivity.
Qed.

Lemma map_flatten_yb vs : map flatten (map (yb false) vs) = map (yb true) vs.
Proof. rewrite map_map. apply map_ext. intros; apply flatten_yb. Qed.

Lemma flatten_cmp_zip ops ls : map flatten (cmp_zip ops ls) = cmp_zip ops (map flatten ls).
Proof.
  revert ls. induction ops as [|o ops IH]; intros ls.
  - simpl. rewrite !map_map. apply map_ext. intros c. reflexivity.
  - destruct ls as [|c ls]; simpl.
    + f_equal. apply (IH []).
    + f_equal. apply IH.
Qed.

Definition flat_param (p : string * pkind * option (list item)) : string * pkind * option (list item) :=
  (fst (fst p), snd (fst p), match snd p with Some d => Some (flatten d) | None => None end).

Lemma flatten_lam_params ps a b c : flatten (lam_params ps a b c) = lam_params (map flat_param ps) a b c.
Proof.
  revert a b c. induction ps as [|[[n k] d] ps IH]; intros a b c; [reflexivity|].
  cbn [lam_params map flat_param fst snd].
  assert (Hn : is_nil (map flat_param ps) = is_nil ps) by (destruct ps; reflexivity). rewrite Hn.
  destruct k, a, c, d as [dd|]; cbn [is_po is_variadic negb andb]; rewrite ?flatten_app; cbn [flatten flat_map expand app];
    rewrite ?flatten_app; destruct (is_nil ps); cbn [flatten flat_map expand app]; rewrite ?IH; reflexivity.
Qed.

Lemma conv_param_flat params : map flat_param (map (conv_param false) params) = map (conv_param true) params.
Proof.
  rewrite map_map. apply map_ext. intros [[n k] [d|]]; unfold flat_param, conv_param; simpl; [rewrite flatten_yb|]; reflexivity.
Qed.

Lemma dict_item_flat items : map flatten (map (dict_item false) items) = map (dict_item true) items.
Proof.
  rewrite map_map. apply map_ext. intros [[k|] v]; unfold dict_item; simpl fst; simpl snd;
    rewrite !flatten_app, ?flatten_yb; reflexivity.
Qed.

Ltac flat_simpl :=
  repeat (rewrite ?flatten_app, ?flatten_ijoin, ?map_flatten_yb, ?flatten_yb, ?flatten_yob, ?flatten_cmp_zip,
          ?flatten_lam_params, ?conv_param_flat, ?dict_item_flat; cbn [flatten flat_map expand app]).

Lemma is_nil_map {A B} (f : A -> B) l : is_nil (map f l) = is_nil l.
Proof. destruct l; reflexivity. Qed.

Theorem iterate_flat_is_expansion (g : gexpr) : iterate true g = flatten (iterate false g).
Proof.
  destruct g; autorewrite with iter_eq; flat_simpl; try reflexivity.
  - (* GComprehension *) destruct is_async, (is_nil conds); flat_simpl; reflexivity.
  - (* GLambda *) destruct (is_nil params); flat_simpl; reflexivity.
  - (* GSlice *) destruct st; flat_simpl; reflexivity.
  - (* GTuple *) destruct implicit, es as [|? [|? ?]]; flat_simpl; reflexivity.
  - (* GYield *) destruct v; [|reflexivity]. change (flat_map expand (IStr " " :: yb false g)) with (IStr " " :: flatten (yb false g)).
    rewrite flatten_yb. reflexivity.
Qed.

(* ---------- flat pieces are strings and names only ---------- *)
Definition is_piece (i : item) : Prop := match i with IStr _ => True | IExpr (GName _ _) => True | IExpr _ => False end.

Lemma Forall_ijoin (P : item -> Prop) sep l : Forall P sep -> Forall (Forall P) l -> Forall P (ijoin sep l).
Proof.
  intros Hs Hl. induction Hl as [|x l Hx Hl IH]; [constructor|]. destruct l as [|y l]; [exact Hx|].
  change (ijoin sep (x :: y :: l)) with (x ++ sep ++ ijoin sep (y :: l)).
  apply Forall_app; split; [exact Hx|]. apply Forall_app; split; [exact Hs|exact IH].
Qed.

Lemma Forall_cmp_zip (P : item -> Prop) ops l :
  (forall s, P (IStr s)) -> Forall (Forall P) l -> Forall (Forall P) (cmp_zip ops l).
Proof.
  intros HS. revert l. induction ops as [|o ops IH]; intros l Hl.
  - simpl. apply Forall_forall. intros x Hx. apply in_map_iff in Hx. destruct Hx as [c [<- Hc]].
    rewrite Forall_forall in Hl. repeat constructor; auto. 
  - destruct l as [|c l]; simpl.
    + constructor; [repeat constructor; auto|]. apply IH. constructor.
    + inversion Hl; subst. constructor; [repeat constructor; auto|]. apply IH; assumption.
Qed.

Lemma Forall_lam_params (P : item -> Prop) ps a b c :
  (forall s, P (IStr s)) -> Forall (fun p => OptP (Forall P) (snd p)) ps -> Forall P (lam_params ps a b c).
Proof.
  intros HS Hps. revert a b c. induction Hps as [|[[n k] d] ps Hd _ IH]; intros a b c; [constructor|].
  cbn [lam_params]. simpl in Hd.
  destruct k, a, c; cbn [is_po is_variadic negb andb];
    repeat (apply Forall_app; split); try (repeat constructor; auto; fail); try apply IH;
    try (destruct d; [|constructor]; try constructor; auto; fail);
    try (destruct (is_nil ps); repeat constructor; auto).
Qed.

Lemma yb_pieces c : Forall is_piece (iterate true c) -> Forall is_piece (yb true c).
Proof. rewrite yb_true. auto. Qed.

Ltac pieces_tac :=
  repeat first
    [ apply Forall_app; split
    | apply Forall_cons
    | apply Forall_nil
    | exact I
    | apply yb_pieces; assumption
    | apply Forall_ijoin ].

Lemma Forall_map_yb vs : Forall (fun g => Forall is_piece (iterate true g)) vs -> Forall (Forall is_piece) (map (yb true) vs).
Proof.
  intros H. apply Forall_forall. intros x Hx. apply in_map_iff in Hx. destruct Hx as [c [<- Hc]].
  rewrite Forall_forall in H. apply yb_pieces. auto.
Qed.

Theorem flat_items_are_pieces (g : gexpr) : Forall is_piece (iterate true g).
Proof.
  induction g using gexpr_ind'; autorewrite with iter_eq;
    try (pieces_tac; try (apply Forall_map_yb; assumption); fail).
  - (* GCompare *) pieces_tac. apply Forall_cmp_zip; [intros; exact I|]. apply Forall_map_yb. assumption.
  - (* GComprehension *) destruct a, (is_nil conds); pieces_tac; apply Forall_map_yb; assumption.
  - (* GDict *) pieces_tac. apply Forall_forall. intros x Hx. apply in_map_iff in Hx. destruct Hx as [[k v] [<- Hc]].
    rewrite Forall_forall in H. destruct (H _ Hc) as [Hk Hv]. unfold dict_item. simpl fst in *. simpl snd in *.
    destruct k; simpl in Hk; pieces_tac.
  - (* GLambda *) destruct (is_nil params); pieces_tac;
      (apply Forall_lam_params; [intros; exact I|]; apply Forall_forall; intros x Hx; apply in_map_iff in Hx;
       destruct Hx as [[[n k] d] [<- Hc]]; rewrite Forall_forall in H; specialize (H _ Hc); unfold ParP in H; simpl in H;
       unfold conv_param; simpl; destruct d; simpl in *; [apply yb_pieces; assumption|exact I]).
  - (* GSlice *) destruct lo, up, st; simpl in *; pieces_tac.
  - (* GTuple *) destruct i; pieces_tac; try (apply Forall_map_yb; assumption); destruct es as [|? [|? ?]]; pieces_tac.
  - (* GYield *) destruct v; simpl in *; pieces_tac.
Qed.

(* ---------- render distributes ---------- *)
Open Scope string_scope.
Lemma render_items_app a b : render_items (a ++ b)%list = render_items a ++ render_items b.
Proof. unfold render_items. rewrite map_app. apply sconcat_app. Qed.

Lemma render_items_cons_str s l : render_items (IStr s :: l) = s ++ render_items l.
Proof. reflexivity. Qed.

Lemma render_items_nil : render_items [] = "". Proof. reflexivity. Qed.

Lemma render_yb c : render_items (yb true c) = render c.
Proof. rewrite yb_true. reflexivity. Qed.

Lemma render_ijoin sep l : render_items (ijoin [IStr sep] l) = sjoin sep (map render_items l).
Proof.
  induction l as [|x l IH]; [reflexivity|]. destruct l as [|y l]; [reflexivity|].
  change (ijoin [IStr sep] (x :: y :: l)) with (x ++ [IStr sep] ++ ijoin [IStr sep] (y :: l))%list.
  rewrite !render_items_app, IH. cbn [map]. rewrite (sjoin_cons sep (render_items x)) by discriminate.
  unfold render_items at 2. simpl. rewrite sapp_nil_r. reflexivity.
Qed.

Lemma map_render_yb gs : map render_items (map (yb true) gs) = map render gs.
Proof. rewrite map_map. apply map_ext. intros; apply render_yb. Qed.
Open Scope list_scope.
