(* C02 proofs: the visitor's single traversal with one mutable `current` scope and the parent chain as a stack
   computes, for every tree of (nested) class bodies, exactly the independent per-scope visits. *)
From Coq Require Import List ZArith String Bool Arith Lia.
From Verif Require Import Lib.Sexp Model.C02_kinds Gen.C02_tables Model.C02_scope Model.C02_tree Proofs.C02_scope.
Import ListNotations.
Open Scope string_scope.
Open Scope list_scope.

Lemma run_events_app a b m : run_events (a ++ b) m = run_events b (run_events a m).
Proof. unfold run_events. apply fold_left_app. Qed.

Lemma go_events body :
  (fix go (l : list stmt) : list event := match l with [] => [] | x :: r => events_of x ++ go r end) body = events body.
Proof. induction body as [|x r IH]; simpl; [reflexivity|]. rewrite IH. reflexivity. Qed.

Lemma go_sub_frames p body :
  (fix go (l : list stmt) : list frame := match l with [] => [] | x :: r => sub_frames_of p x ++ go r end) body = sub_frames p body.
Proof. induction body as [|x r IH]; simpl; [reflexivity|]. rewrite IH. reflexivity. Qed.

Definition list_statement (l : list stmt) : Prop :=
  forall path sc log st fin,
  run_events (events l) (mkM (mkFrame path sc log) st fin) =
  mkM (mkFrame path (visit_items (direct_items l) sc) (log ++ visit_log (direct_items l) sc)) st (fin ++ sub_frames path l).

Lemma run_stmt : forall s path sc log st fin,
  run_events (events_of s) (mkM (mkFrame path sc log) st fin) =
  mkM (on_item (mkFrame path sc log) (as_item s)) st (fin ++ sub_frames_of path s).
Proof.
  fix IH 1. intros s path sc log st fin. destruct s as [it|id n body].
  - simpl. rewrite app_nil_r. reflexivity.
  - assert (L : list_statement body).
    { clear path sc log st fin. induction body as [|x r IHr]; intros path sc log st fin.
      - simpl. rewrite !app_nil_r. reflexivity.
      - simpl events. rewrite run_events_app, IH. unfold on_item. simpl fr_path. simpl fr_scope. simpl fr_log.
        rewrite IHr. simpl. rewrite <- !app_assoc. reflexivity. }
    simpl events_of. rewrite go_events. simpl sub_frames_of. rewrite go_sub_frames.
    change (EEnter id n :: events body ++ [EExit]) with ([EEnter id n] ++ events body ++ [EExit]).
    rewrite !run_events_app. simpl (run_events [EEnter id n] _). simpl fr_path.
    rewrite L. simpl. unfold scope_frame. rewrite <- app_assoc. reflexivity.
Qed.

(* THE statement: whatever the nesting, the names and the order of the classes, the traversal leaves in the starting
   scope what visiting its own items (classes seen as binders) leaves, restores the parent chain, and has completed
   every class body as an independent visit from an empty class scope *)
Theorem traversal_is_compositional : forall l path sc log st fin,
  run_events (events l) (mkM (mkFrame path sc log) st fin) =
  mkM (mkFrame path (visit_items (direct_items l) sc) (log ++ visit_log (direct_items l) sc)) st (fin ++ sub_frames path l).
Proof.
  induction l as [|x r IHr]; intros path sc log st fin.
  - simpl. rewrite !app_nil_r. reflexivity.
  - simpl events. rewrite run_events_app, run_stmt. unfold on_item. simpl fr_path. simpl fr_scope. simpl fr_log.
    rewrite IHr. simpl. rewrite <- !app_assoc. reflexivity.
Qed.

Corollary module_traversal l path s0 :
  run_events (events l) (mkM (mkFrame path s0 []) [] []) =
  mkM (scope_frame path s0 l) [] (sub_frames path l).
Proof. rewrite traversal_is_compositional. reflexivity. Qed.

(* two classes with the same members do not see one another: a class body's result does not depend on where
   the class stands *)
Corollary class_body_context_free id n body path pre post :
  In (scope_frame (child path n) (mkScope true [] []) body) (sub_frames path (pre ++ SClass id n body :: post)).
Proof.
  induction pre as [|x r IH]; simpl.
  - rewrite go_sub_frames. apply in_or_app. left. apply in_or_app. right. left. reflexivity.
  - apply in_or_app. right. exact IH.
Qed.

Example two_classes_example :
  let body := [SItem (IDef (mkF 1 "x" [DProperty])); SItem (IDef (mkF 2 "x" [DSetter "x"]))] in
  let m := run_events (events [SClass 10 "A" body; SClass 20 "B" body]) (mkM (mkFrame "m" (mkScope true [] []) []) [] []) in
  map (fun fr => (fr_path fr, members (fr_scope fr))) (finished m) =
    [("m.A", [("x", MProp 1 (Some 2%Z) None)]); ("m.B", [("x", MProp 1 (Some 2%Z) None)])] /\
  members (fr_scope (cur m)) = [("A", MOther 10); ("B", MOther 20)] /\ stack m = [].
Proof. repeat split; reflexivity. Qed.
