(* C14, files first.  os.walk(top-down) lists the files of a directory before it descends into the sub-directories
   ([walk] in the model).  Consequence: of the files that claim one module name -- name.py / name.pyi in a directory
   and name/__init__.py / name/__init__.pyi below it -- the module file always comes before the package's __init__
   in the list handed to the loader, whatever the order in which the operating system lists the directory entries;
   the stable depth sort keeps that, and set_member's merge then always ends on the same file.  Hence the static load
   of a regular package does not depend on any listing order -- with no side condition (the former no_clash). *)
From Coq Require Import List ZArith String Ascii Bool Arith Lia Permutation Sorting.Sorted.
From Verif Require Import Lib.Sexp Model.C14_finder Proofs.C14_finder.
Import ListNotations.
Open Scope string_scope. Open Scope list_scope.

(* ------------------------------------------------------------------------------------------------------------- *)
(* A.  StronglySorted: every element is R-related to every later one *)
Section SS.
  Variable A : Type.
  Variable R : A -> A -> Prop.

  Lemma SS_app : forall l r, StronglySorted R l -> StronglySorted R r ->
    (forall x y, In x l -> In y r -> R x y) -> StronglySorted R (l ++ r).
  Proof.
    induction l as [|a l IH]; intros r Hl Hr Hc; simpl; auto.
    inversion Hl as [|? ? Hl' Ha]; subst. constructor.
    - apply IH; auto. intros x y Hx Hy. apply Hc; auto. right; auto.
    - apply Forall_forall. intros y Hy. apply in_app_or in Hy. destruct Hy as [Hy|Hy].
      + rewrite Forall_forall in Ha. auto.
      + apply Hc; auto. left; auto.
  Qed.

  Lemma SS_app_inv : forall l r, StronglySorted R (l ++ r) ->
    StronglySorted R l /\ StronglySorted R r /\ forall x y, In x l -> In y r -> R x y.
  Proof.
    induction l as [|a l IH]; intros r H; simpl in *.
    - split. constructor. split; auto. intros x y [].
    - inversion H as [|? ? H' Ha]; subst. destruct (IH r H') as (H1 & H2 & H3). rewrite Forall_forall in Ha.
      split. constructor; auto. apply Forall_forall. intros y Hy. apply Ha. apply in_or_app; auto.
      split; auto. intros x y [<-|Hx] Hy. apply Ha. apply in_or_app; auto. apply H3; auto.
  Qed.

  Lemma SS_all : forall l, (forall x y, In x l -> In y l -> R x y) -> StronglySorted R l.
  Proof.
    induction l as [|a l IH]; intros H; constructor.
    - apply IH. intros x y Hx Hy. apply H; right; auto.
    - apply Forall_forall. intros y Hy. apply H. left; auto. right; auto.
  Qed.

  Lemma SS_filter : forall (P : A -> bool) l, StronglySorted R l -> StronglySorted R (filter P l).
  Proof.
    induction l as [|a l IH]; intros H; simpl. constructor.
    inversion H as [|? ? H' Ha]; subst. destruct (P a); auto. constructor; auto.
    rewrite Forall_forall in *. intros y Hy. apply filter_In in Hy. apply Ha. tauto.
  Qed.
End SS.

Lemma SS_impl : forall A (R R' : A -> A -> Prop) l, (forall x y, In x l -> In y l -> R x y -> R' x y) ->
  StronglySorted R l -> StronglySorted R' l.
Proof.
  induction l as [|a l IH]; intros Hi H. constructor.
  inversion H as [|? ? H' Ha]; subst. constructor.
  - apply IH; auto. intros x y Hx Hy. apply Hi; right; auto.
  - rewrite Forall_forall in *. intros y Hy. apply Hi. left; auto. right; auto. auto.
Qed.

(* a map that yields at most one element per source element keeps the order *)
Lemma SS_flat_map_single : forall A B (R : A -> A -> Prop) (f : A -> list B) (g : B -> A) l,
  StronglySorted R l ->
  (forall a b, In b (f a) -> g b = a) -> (forall a, List.length (f a) <= 1) ->
  StronglySorted (fun x y => R (g x) (g y)) (flat_map f l).
Proof.
  induction l as [|a l IH]; intros H Hg H1; simpl. constructor.
  inversion H as [|? ? H' Ha]; subst. apply SS_app; auto.
  - pose proof (H1 a) as Hl. destruct (f a) as [|b [|c r]] eqn:E; simpl in Hl; try lia. constructor. constructor. constructor. constructor.
  - intros x y Hx Hy. apply in_flat_map in Hy. destruct Hy as (a' & Ha' & Hy).
    rewrite (Hg a x Hx), (Hg a' y Hy). rewrite Forall_forall in Ha. auto.
Qed.

(* ------------------------------------------------------------------------------------------------------------- *)
(* B.  os.walk: nothing that comes later lives in a directory ABOVE the directory of an earlier file *)
Definition dir_of (rel : list string) : list string := removelast rel.
Definition Rw (x y : list string) : Prop := is_proper_prefix (dir_of y) (dir_of x) = false.

Lemma ipp_app_false : forall (p s : list string), is_proper_prefix (p ++ s) p = false.
Proof.
  induction p as [|a p IH]; intros s; simpl.
  - destruct s; reflexivity.
  - rewrite IH. apply andb_false_r.
Qed.

Lemma ipp_diverge : forall (p : list string) n n' s s', n <> n' -> is_proper_prefix (p ++ n' :: s') (p ++ n :: s) = false.
Proof.
  induction p as [|a p IH]; intros n n' s s' H; simpl.
  - apply String.eqb_neq in H. rewrite String.eqb_sym in H. rewrite H. reflexivity.
  - rewrite IH by auto. apply andb_false_r.
Qed.

Lemma walk_under : forall nd pre r, In r (walk pre nd) -> exists s, s <> [] /\ r = pre ++ s.
Proof.
  induction nd as [a b|es IH] using node_ind'; intros pre r H. simpl in H. contradiction.
  apply walk_dir_in in H. destruct H as ([nm x] & He & Hr). unfold contrib in Hr. simpl in Hr.
  apply in_app_or in Hr. destruct Hr as [Hr|Hr].
  - destruct (is_file x && accepted nm); simpl in Hr; [|contradiction]. destruct Hr as [<-|[]]. exists [nm]. split; auto. discriminate.
  - destruct x as [a b|es']; [contradiction|]. destruct (nm =? "__pycache__"); [contradiction|].
    destruct (IH nm (Dir es') He (pre ++ [nm]) r Hr) as (s & Hs & ->). exists (nm :: s). split. discriminate.
    rewrite <- app_assoc. reflexivity.
Qed.

Lemma dir_of_app : forall (pre s : list string), s <> [] -> dir_of (pre ++ s) = pre ++ dir_of s.
Proof. intros. unfold dir_of. apply removelast_app. auto. Qed.

Lemma walk_sorted : forall nd pre, wf_node nd -> StronglySorted Rw (walk pre nd).
Proof.
  induction nd as [a b|es IH] using node_ind'; intros pre Hwf. simpl. constructor.
  inversion Hwf as [|es0 Hnd Hsub]; subst. simpl. apply SS_app.
  - (* the files of this directory: all in the same directory *)
    apply SS_all. intros x y Hx Hy. unfold walk_files in Hx, Hy. apply in_flat_map in Hx, Hy.
    destruct Hx as (e1 & _ & Hx), Hy as (e2 & _ & Hy).
    destruct (is_file (snd e1) && accepted (fst e1)); [|contradiction]. destruct (is_file (snd e2) && accepted (fst e2)); [|contradiction].
    destruct Hx as [<-|[]], Hy as [<-|[]]. unfold Rw, dir_of. rewrite !List.removelast_last.
    rewrite <- (app_nil_r pre) at 1. apply ipp_app_false.
  - (* the sub-directories, one after the other *)
    clear Hwf. induction es as [|[nm x] es IHes]; simpl. constructor.
    inversion Hnd as [|? ? Hnm Hnd']; subst. apply SS_app.
    + destruct x as [a b|es']. constructor. destruct (nm =? "__pycache__"). constructor.
      apply (IH nm (Dir es')). left; auto. apply (Hsub nm). left; auto.
    + apply IHes; auto. intros n x0 H. apply (IH n x0). right; auto. intros n x0 H. apply (Hsub n x0). right; auto.
    + intros r1 r2 H1 H2. destruct x as [a b|es']; [contradiction|]. destruct (nm =? "__pycache__"); [contradiction|].
      apply in_flat_map in H2. destruct H2 as ([nm2 x2] & He2 & H2).
      destruct x2 as [a b|es2]; [contradiction|]. destruct (nm2 =? "__pycache__"); [contradiction|].
      destruct (walk_under _ _ _ H1) as (s1 & Hs1 & ->). destruct (walk_under _ _ _ H2) as (s2 & Hs2 & ->).
      unfold Rw. rewrite <- !app_assoc. simpl. rewrite !dir_of_app by discriminate.
      assert (Hne : nm <> nm2). { intro. subst nm2. apply Hnm. simpl. apply in_map_iff. exists (nm, Dir es2). auto. }
      assert (Hd : forall n s, s <> [] -> dir_of (n :: s) = n :: dir_of s).
      { intros n s Hs. unfold dir_of. simpl. destruct s; congruence. }
      rewrite !Hd by auto. apply ipp_diverge. auto.
  - (* a file of this directory against anything below a sub-directory *)
    intros x y Hx Hy. unfold walk_files in Hx. apply in_flat_map in Hx. destruct Hx as (e1 & _ & Hx).
    destruct (is_file (snd e1) && accepted (fst e1)); [|contradiction]. destruct Hx as [<-|[]].
    apply in_flat_map in Hy. destruct Hy as ([nm2 x2] & He2 & Hy).
    destruct x2 as [a b|es2]; [contradiction|]. destruct (nm2 =? "__pycache__"); [contradiction|].
    destruct (walk_under _ _ _ Hy) as (s2 & Hs2 & ->).
    unfold Rw. unfold dir_of at 2. rewrite List.removelast_last. rewrite <- app_assoc. rewrite dir_of_app by discriminate.
    apply ipp_app_false.
Qed.

(* ------------------------------------------------------------------------------------------------------------- *)
(* C.  iter_submodules keeps the order of the walk *)
Definition ylist (base : path) (rel : list string) : list entry :=
  match name_to_yield rel with YSkip => [] | YInit p | YMod p => [mkE p base rel] end.

Lemma iter_files_flat : forall base files seen, exists s, iter_files base [] files seen = Ok (flat_map (ylist base) files, s).
Proof.
  induction files as [|rel r IH]; intros seen; simpl. eauto.
  unfold ylist at 1. destruct (name_to_yield rel) as [|p|p].
  - apply IH.
  - destruct (IH (seen ++ [removelast rel])) as (s & ->). eauto.
  - destruct (IH seen) as (s & ->). eauto.
Qed.

Lemma ylist_yields : forall base rel e, In e (ylist base rel) <-> yields base rel e.
Proof.
  intros. unfold ylist, yields. destruct (name_to_yield rel); simpl; intuition.
Qed.

Definition Re (a b : entry) : Prop := Rw (e_rel a) (e_rel b).

Lemma entries_sorted : forall base files, StronglySorted Rw files -> StronglySorted Re (flat_map (ylist base) files).
Proof.
  intros base files H. unfold Re. apply (SS_flat_map_single _ _ Rw (ylist base) e_rel); auto.
  - intros a b Hb. unfold ylist in Hb. destruct (name_to_yield a); simpl in Hb; try contradiction; destruct Hb as [<-|[]]; reflexivity.
  - intros a. unfold ylist. destruct (name_to_yield a); simpl; lia.
Qed.

(* D.  the stable depth sort *)
Definition Rd (a b : entry) : Prop := depth a < depth b \/ (depth a = depth b /\ Re a b).

Lemma depth_sort_SS : forall l, StronglySorted Re l -> StronglySorted Rd (depth_sort l).
Proof.
  intros l H. unfold depth_sort.
  assert (G : forall ds, StronglySorted lt ds ->
              StronglySorted Rd (flat_map (fun d => filter (fun e => (depth e =? d)%nat) l) ds)).
  { induction ds as [|d ds IH]; intros Hds; simpl. constructor.
    inversion Hds as [|? ? Hds' Hd]; subst. apply SS_app; auto.
    - apply (SS_impl _ Re). 2: apply SS_filter; auto.
      intros x y Hx Hy Hxy. apply filter_In in Hx, Hy. destruct Hx as [_ Hx], Hy as [_ Hy].
      apply Nat.eqb_eq in Hx, Hy. right. split; auto. congruence.
    - intros x y Hx Hy. apply filter_In in Hx. destruct Hx as [_ Hx]. apply Nat.eqb_eq in Hx.
      apply in_flat_map in Hy. destruct Hy as (d' & Hd' & Hy). apply filter_In in Hy. destruct Hy as [_ Hy]. apply Nat.eqb_eq in Hy.
      rewrite Forall_forall in Hd. specialize (Hd d' Hd'). left. lia. }
  apply G. apply seq_sorted.
Qed.

(* ------------------------------------------------------------------------------------------------------------- *)
(* F.  the shape of a statically loadable entry *)
Lemma last_app_ne : forall (a b : list string) d, b <> [] -> last (a ++ b) d = last b d.
Proof.
  induction a as [|x a IH]; intros b d Hb; simpl; auto.
  destruct (a ++ b) eqn:E. destruct a; destruct b; simpl in E; congruence. rewrite <- E. apply IH. auto.
Qed.

Lemma bfd_app_dot : forall a r, before_first_dot (a ++ String "."%char r)%string = before_first_dot a.
Proof.
  induction a as [|c a IH]; intros r; simpl. reflexivity.
  destruct (is_dot c); auto. f_equal. apply IH.
Qed.

Lemma bfd_nodot : forall a, has_dot a = false -> before_first_dot a = a.
Proof.
  induction a as [|c a IH]; simpl; intro H; auto. apply orb_false_iff in H. destruct H as [H1 H2].
  rewrite H1. f_equal. auto.
Qed.

Lemma split_last_dot_app : forall s a b, split_last_dot s = Some (a, b) -> s = (a ++ b)%string.
Proof.
  induction s as [|c r IH]; simpl; intros a b H. discriminate.
  destruct (split_last_dot r) as [[a' b']|] eqn:E.
  - inversion H; subst. simpl. f_equal. apply IH. auto.
  - destruct (is_dot c); inversion H; subst. reflexivity.
Qed.

Lemma pl_split_app : forall s, (pl_stem s ++ pl_suffix s)%string = s.
Proof.
  intros s. unfold pl_stem, pl_suffix, pl_split.
  destruct (split_last_dot s) as [[a b]|] eqn:E.
  - destruct (negb (a =? "") && (2 <=? String.length b)%nat); simpl.
    + symmetry. apply split_last_dot_app. auto.
    + clear. induction s; simpl; auto. f_equal. auto.
  - simpl. clear. induction s; simpl; auto. f_equal. auto.
Qed.

Lemma abs_suffix : forall e, e_rel e <> [] -> path_suffix (e_abs e) = pl_suffix (last (e_rel e) "").
Proof. intros e H. unfold path_suffix, e_abs. simpl. rewrite last_app_ne by auto. reflexivity. Qed.

Lemma abs_init : forall e, e_rel e <> [] -> init_path (e_abs e) = is_init_name (last (e_rel e) "").
Proof. intros e H. unfold init_path, e_abs. simpl. rewrite last_app_ne by auto. reflexivity. Qed.

Lemma ok_entry_shape : forall base rel e, yields base rel e -> entry_ok e = true -> rel <> [] ->
  e_rel e = rel /\ e_base e = base /\
  (pl_suffix (last rel "") = ".py" \/ pl_suffix (last rel "") = ".pyi") /\
  ((init_path (e_abs e) = true /\ e_parts e = removelast rel /\ pl_stem (last rel "") = "__init__") \/
   (init_path (e_abs e) = false /\ e_parts e = removelast rel ++ [pl_stem (last rel "")])).
Proof.
  intros base rel e Hy Hok Hne. unfold yields, name_to_yield in Hy.
  set (fn := last rel "") in *.
  assert (Hsuf : forall p, e = mkE p base rel -> (pl_suffix fn =? ".py") || (pl_suffix fn =? ".pyi") = true).
  { intros p ->. unfold entry_ok in Hok. apply andb_true_iff in Hok. destruct Hok as [_ Hl].
    unfold static_loadable in Hl. rewrite abs_suffix in Hl by (simpl; auto). simpl in Hl. exact Hl. }
  assert (Hdis : forall p, e = mkE p base rel -> pl_suffix fn = ".py" \/ pl_suffix fn = ".pyi").
  { intros p Hp. specialize (Hsuf p Hp). apply orb_true_iff in Hsuf. destruct Hsuf as [H|H]; apply String.eqb_eq in H; auto. }
  destruct ((pl_suffix fn =? ".py") || (pl_suffix fn =? ".pyi")) eqn:Epy.
  - destruct (pl_stem fn =? "__init__") eqn:Est.
    + destruct (List.length rel =? 1)%nat; [contradiction|]. subst e. simpl. repeat split; auto. eapply Hdis; eauto.
      left. apply String.eqb_eq in Est. repeat split; auto.
      rewrite abs_init by (simpl; auto). simpl. fold fn. unfold is_init_name. rewrite <- (pl_split_app fn), Est.
      destruct (Hdis _ eq_refl) as [->| ->]; reflexivity.
    + subst e. simpl. repeat split; auto. eapply Hdis; eauto.
      right. split; auto.
      rewrite abs_init by (simpl; auto). simpl. fold fn. unfold is_init_name. rewrite <- (pl_split_app fn).
      assert (Hnd : has_dot (pl_stem fn) = false).
      { unfold entry_ok in Hok. apply andb_true_iff in Hok. destruct Hok as [Hd _]. apply negb_true_iff in Hd. simpl in Hd.
        rewrite existsb_app in Hd. apply orb_false_iff in Hd. destruct Hd as [_ Hd]. simpl in Hd. rewrite orb_false_r in Hd. auto. }
      destruct (Hdis _ eq_refl) as [->| ->].
      * change ".py" with (String "."%char "py"). rewrite bfd_app_dot, bfd_nodot by auto. auto.
      * change ".pyi" with (String "."%char "pyi"). rewrite bfd_app_dot, bfd_nodot by auto. auto.
  - exfalso. destruct (before_first_dot (pl_stem fn) =? "__init__").
    + destruct (List.length rel =? 1)%nat; [contradiction|]. specialize (Hsuf _ Hy). discriminate.
    + destruct (before_first_dot (pl_stem fn) =? ""); [contradiction|]. specialize (Hsuf _ Hy). discriminate.
Qed.

Lemma rel_split : forall (rel : list string), rel <> [] -> rel = removelast rel ++ [last rel ""].
Proof. intros. apply app_removelast_last. auto. Qed.

(* two loadable entries of one base with the same name, kind (module / stubs) and form (file / __init__) are the same *)
Lemma ok_entry_unique : forall base r1 r2 a b,
  yields base r1 a -> yields base r2 b -> r1 <> [] -> r2 <> [] -> entry_ok a = true -> entry_ok b = true ->
  e_parts a = e_parts b -> is_pyi a = is_pyi b -> init_path (e_abs a) = init_path (e_abs b) -> a = b.
Proof.
  intros base r1 r2 a b Ya Yb N1 N2 Oa Ob Hp Hk Hi.
  destruct (ok_entry_shape _ _ _ Ya Oa N1) as (Ra & Ba & Sa & Fa).
  destruct (ok_entry_shape _ _ _ Yb Ob N2) as (Rb & Bb & Sb & Fb).
  assert (Hs : pl_suffix (last r1 "") = pl_suffix (last r2 "")).
  { unfold is_pyi in Hk. rewrite !abs_suffix in Hk by congruence. rewrite Ra, Rb in Hk.
    destruct Sa as [Sa|Sa], Sb as [Sb|Sb]; rewrite Sa, Sb in *; auto; simpl in Hk; discriminate. }
  assert (Hr : r1 = r2).
  { rewrite (rel_split r1 N1), (rel_split r2 N2).
    destruct Fa as [(Ia & Pa & Ta)|(Ia & Pa)], Fb as [(Ib & Pb & Tb)|(Ib & Pb)]; try congruence.
    - rewrite <- (pl_split_app (last r1 "")), <- (pl_split_app (last r2 "")). congruence.
    - rewrite Pa, Pb in Hp. apply app_inj_tail in Hp. destruct Hp as [Hd Hst].
      rewrite <- (pl_split_app (last r1 "")), <- (pl_split_app (last r2 "")). congruence. }
  rewrite <- Hr in Yb. unfold yields in Ya, Yb. destruct (name_to_yield r1); try contradiction; rewrite Ya, Yb; reflexivity.
Qed.

(* ------------------------------------------------------------------------------------------------------------- *)
(* G.  what the merge of a candidate list ends on, when module files come before package __init__ files *)
Definition rank (e : entry) : nat := (if is_pyi e then 0 else 2) + (if init_path (e_abs e) then 1 else 0).
Definition Rf (a b : entry) : Prop := is_pyi a = is_pyi b -> init_path (e_abs a) = true -> init_path (e_abs b) = true.

Lemma SS_snoc_inv : forall A (R : A -> A -> Prop) l e, StronglySorted R (l ++ [e]) ->
  StronglySorted R l /\ forall a, In a l -> R a e.
Proof. intros A R l e H. apply SS_app_inv in H. destruct H as (H1 & _ & H3). split; auto. intros a Ha. apply H3; auto. left; auto. Qed.

Lemma pickseq_best : forall l, StronglySorted Rf l ->
  match pickseq l with
  | None => l = []
  | Some p => exists a, In a l /\ e_abs a = p /\ forall b, In b l -> rank b <= rank a
  end.
Proof.
  induction l as [|e l IH] using rev_ind; intros H. reflexivity.
  apply SS_snoc_inv in H. destruct H as [Hl He]. specialize (IH Hl).
  rewrite pickseq_snoc.
  assert (Hlast : In e (l ++ [e])) by (apply in_or_app; right; left; auto).
  destruct (pickseq l) as [old|] eqn:Ep.
  - destruct IH as (a & Ha & Hao & Hmax). subst old. specialize (He a Ha). unfold Rf in He.
    assert (Keep : (forall b, In b l -> rank b <= rank a) -> rank e <= rank a ->
                   exists a0, In a0 (l ++ [e]) /\ e_abs a0 = e_abs a /\ forall b, In b (l ++ [e]) -> rank b <= rank a0).
    { intros H1 H2. exists a. split. apply in_or_app; auto. split; auto.
      intros b Hb. apply in_app_or in Hb. destruct Hb as [Hb|[<-|[]]]; auto. }
    assert (New : rank a <= rank e ->
                  exists a0, In a0 (l ++ [e]) /\ e_abs a0 = e_abs e /\ forall b, In b (l ++ [e]) -> rank b <= rank a0).
    { intros H2. exists e. split; auto. split; auto.
      intros b Hb. apply in_app_or in Hb. destruct Hb as [Hb|[<-|[]]]; auto. specialize (Hmax b Hb). lia. }
    unfold merge_path.
    destruct (path_eqb (e_abs a) (e_abs e)) eqn:Heq.
    + apply path_eqb_eq in Heq. apply New. unfold rank, is_pyi. rewrite Heq. lia.
    + destruct (path_suffix (e_abs a) =? ".pyi") eqn:Hpa.
      * apply New. unfold rank, is_pyi in *. rewrite Hpa in *.
        destruct (path_suffix (e_abs e) =? ".pyi") eqn:Hpe.
        -- destruct (init_path (e_abs a)) eqn:Ia; [rewrite He by auto|]; destruct (init_path (e_abs e)); simpl; lia.
        -- destruct (init_path (e_abs a)), (init_path (e_abs e)); simpl; lia.
      * destruct (path_suffix (e_abs e) =? ".pyi") eqn:Hpe.
        -- apply Keep; auto. unfold rank, is_pyi. rewrite Hpa, Hpe.
           destruct (init_path (e_abs a)), (init_path (e_abs e)); simpl; lia.
        -- apply New. unfold rank, is_pyi in *. rewrite Hpa, Hpe in *.
           destruct (init_path (e_abs a)) eqn:Ia; [rewrite He by auto|]; destruct (init_path (e_abs e)); simpl; lia.
  - apply pickseq_nil_iff in Ep. subst l. simpl. exists e. split; auto. split; auto. intros b [<-|[]]. lia.
Qed.

Lemma rank_inj : forall a b, rank a = rank b -> is_pyi a = is_pyi b /\ init_path (e_abs a) = init_path (e_abs b).
Proof.
  intros a b. unfold rank. destruct (is_pyi a), (is_pyi b), (init_path (e_abs a)), (init_path (e_abs b)); simpl; intro; try lia; auto.
Qed.

(* ------------------------------------------------------------------------------------------------------------- *)
(* H.  the candidates of one name, as the loader meets them: module files before package __init__ files *)
Lemma ipp_app_true : forall (a b : list string), b <> [] -> is_proper_prefix a (a ++ b) = true.
Proof.
  induction a as [|x r IH]; intros b Hb; simpl.
  - destruct b; congruence.
  - rewrite String.eqb_refl. simpl. apply IH. auto.
Qed.

Lemma cands_in : forall base files q a,
  In a (cands q (depth_sort (flat_map (ylist base) files))) <->
  (exists r, In r files /\ yields base r a) /\ entry_ok a = true /\ e_parts a = q.
Proof.
  intros. unfold cands. rewrite filter_In, depth_sort_In, in_flat_map. unfold cand. rewrite andb_true_iff, lstr_eqb_eq.
  split.
  - intros [(r & Hr & Hy) [Hp Ho]]. split; auto. exists r. split; auto. apply ylist_yields. auto.
  - intros [(r & Hr & Hy) [Ho Hp]]. split; auto. exists r. split; auto. apply ylist_yields. auto.
Qed.

Lemma cands_Rf : forall base files q,
  StronglySorted Rw files -> (forall r, In r files -> r <> []) ->
  StronglySorted Rf (cands q (depth_sort (flat_map (ylist base) files))).
Proof.
  intros base files q Hs Hne. apply (SS_impl _ Rd).
  2: { unfold cands. apply SS_filter, depth_sort_SS, entries_sorted. auto. }
  intros a b Ha Hb Hab Hk Hia.
  apply cands_in in Ha, Hb. destruct Ha as [(ra & Hra & Ya) [Oa Pa]], Hb as [(rb & Hrb & Yb) [Ob Pb]].
  destruct Hab as [Hlt|[_ Hre]]. { unfold depth in Hlt. rewrite Pa, Pb in Hlt. lia. }
  destruct (init_path (e_abs b)) eqn:Ib; auto. exfalso.
  destruct (ok_entry_shape _ _ _ Ya Oa (Hne _ Hra)) as (Ra & _ & _ & [(Ia & Qa & _)|(Ia & _)]); [|congruence].
  destruct (ok_entry_shape _ _ _ Yb Ob (Hne _ Hrb)) as (Rb & _ & _ & [(Ib' & _)|(_ & Qb)]); [congruence|].
  unfold Re, Rw, dir_of in Hre. rewrite Ra, Rb in Hre. rewrite <- Qa, Pa in Hre.
  rewrite <- Pb, Qb in Hre. rewrite ipp_app_true in Hre by discriminate. discriminate.
Qed.

(* the merge of the candidates of a name depends on the SET of files the walk lists, not on their order *)
Lemma pick_invariant : forall base f1 f2 q,
  StronglySorted Rw f1 -> StronglySorted Rw f2 -> (forall r, In r f1 -> r <> []) -> (forall r, In r f2 -> r <> []) ->
  (forall r, In r f1 <-> In r f2) ->
  pickseq (cands q (depth_sort (flat_map (ylist base) f1))) = pickseq (cands q (depth_sort (flat_map (ylist base) f2))).
Proof.
  intros base f1 f2 q S1 S2 N1 N2 Hsame.
  set (l1 := cands q (depth_sort (flat_map (ylist base) f1))). set (l2 := cands q (depth_sort (flat_map (ylist base) f2))).
  assert (Hel : forall x, In x l1 <-> In x l2).
  { intro x. unfold l1, l2. rewrite !cands_in. split; intros [(r & Hr & Hy) H]; split; auto; exists r; split; auto; apply Hsame; auto. }
  pose proof (pickseq_best l1 (cands_Rf base f1 q S1 N1)) as B1.
  pose proof (pickseq_best l2 (cands_Rf base f2 q S2 N2)) as B2.
  destruct (pickseq l1) as [p1|], (pickseq l2) as [p2|]; auto.
  - destruct B1 as (a1 & I1 & E1 & M1), B2 as (a2 & I2 & E2 & M2).
    pose proof (M1 a2 (proj2 (Hel a2) I2)). pose proof (M2 a1 (proj1 (Hel a1) I1)).
    destruct (rank_inj a1 a2 ltac:(lia)) as [Hk Hi].
    unfold l1 in I1. unfold l2 in I2. apply cands_in in I1, I2.
    destruct I1 as [(r1 & Hr1 & Y1) [O1 P1]], I2 as [(r2 & Hr2 & Y2) [O2 P2]].
    assert (a1 = a2) by (eapply ok_entry_unique; eauto; congruence). congruence.
  - destruct B1 as (a1 & I1 & _). subst l2. rewrite B2 in Hel. exfalso. apply (Hel a1). auto.
  - destruct B2 as (a2 & I2 & _). rewrite B1 in Hel. exfalso. apply (Hel a2). auto.
Qed.

Lemma spec_pick_invariant : forall top E1 E2, (forall q, pickseq (cands q E1) = pickseq (cands q E2)) ->
  forall k, spec_lookup top E1 k = spec_lookup top E2 k.
Proof.
  intros top E1 E2 H k. destruct k as [|a r]; auto. unfold spec_lookup.
  rewrite (chain_pick_ext E1 E2 H). rewrite H. reflexivity.
Qed.

(* well-formedness (unique names in every directory) survives the permutation of listings *)
Lemma wf_perm : forall x y, perm_node x y -> wf_node x -> wf_node y.
Proof.
  apply (perm_node_mut (fun x y => wf_node x -> wf_node y) (fun l l' => wf_node (Dir l) -> wf_node (Dir l'))).
  - auto.
  - auto.
  - auto.
  - intros n x y l l' _ Hxy Hll IH Hwf. inversion Hwf as [|es Hnd Hsub]; subst. simpl in Hnd. inversion Hnd as [|? ? Hn Hnd']; subst.
    assert (Hl : wf_node (Dir l)). { constructor; auto. intros k v Hk. apply (Hsub k v). right; auto. }
    specialize (IH Hl). inversion IH as [|es' Hnd2 Hsub2]; subst.
    constructor.
    + simpl. constructor; auto. intro Hin. apply Hn.
      apply (Permutation_in n (Permutation_sym (proj1 (lookup_perm l l' Hll)))). auto.
    + intros k v [Hk|Hk]. inversion Hk; subst. apply Hxy. apply (Hsub k x). left; auto. apply (Hsub2 k v). auto.
  - intros a b l Hwf. inversion Hwf as [|es Hnd Hsub]; subst. constructor.
    + simpl in *. eapply Permutation_NoDup. 2: exact Hnd. apply perm_swap.
    + intros k v Hk. apply (Hsub k v). simpl in *. tauto.
  - intros l1 l2 l3 _ H12 _ H23 Hwf. auto.
Qed.

Lemma wf_universe_perm : forall U U', perm_universe U U' -> wf_universe U -> wf_universe U'.
Proof.
  intros U U' Hp. induction Hp as [|[i l] [i' l'] U U' [Hi Hl] _ IH]; intros Hw j m Hin. contradiction.
  simpl in Hi, Hl. subst i'. destruct Hin as [Hin|Hin].
  - inversion Hin; subst. apply (wf_perm (Dir l)). apply PN_dir. auto. apply (Hw j l). left; auto.
  - apply (IH (fun a b H => Hw a b (or_intror H)) j m Hin).
Qed.

Lemma get_node_wf : forall comps l n, wf_node (Dir l) -> get_node l comps = Some n -> wf_node n.
Proof.
  induction comps as [|c r IH]; intros l n Hwf H; simpl in H.
  - inversion H; subst. auto.
  - inversion Hwf as [|es Hnd Hsub]; subst.
    destruct (lookup_entry c l) as [[a b|l']|] eqn:E; try discriminate.
    + destruct r; inversion H; subst. constructor.
    + destruct (lookup_entry_In _ _ _ E) as [k Hk]. apply (IH l'); auto. apply (Hsub k). auto.
Qed.

Lemma portion_files_sorted : forall U d, wf_universe U ->
  StronglySorted Rw (portion_files U d) /\ forall r, In r (portion_files U d) -> r <> [].
Proof.
  intros U d Hw. unfold portion_files. destruct (node_at U d) as [n|] eqn:E.
  - split. apply walk_sorted. unfold node_at in E. eapply get_node_wf; eauto. apply root_wf. auto.
    intros r Hr. eapply walk_nonempty; eauto.
  - split. constructor. intros r [].
Qed.

(* Listing-order invariance, regular packages of any depth, NO side condition: permuting every directory listing of
   the universe leaves the static load of the package unchanged (same error, or the same module at every dotted name). *)
Theorem listing_order_invariant_regular_full :
  forall U U' p st,
  perm_universe U U' -> wf_universe U ->
  same_tree (load_found false U (FPkg p st)) (load_found false U' (FPkg p st)).
Proof.
  intros U U' p st Hp Hw. unfold load_found.
  pose proof (wf_universe_perm U U' Hp Hw) as Hw'.
  pose proof (node_at_perm U U' p Hp Hw) as Hn.
  destruct (node_at U p) as [[a b|l]|]; destruct (node_at U' p) as [y|]; simpl in Hn; try tauto;
    try (apply perm_node_file_inv in Hn; subst y); try (apply perm_node_dir_inv in Hn; destruct Hn as (l' & -> & _));
    simpl; auto.
  unfold iter_regular. destruct (start_dir p) as [d|]; simpl.
  - destruct (iter_files_flat d (portion_files U d) []) as (s1 & ->).
    destruct (iter_files_flat d (portion_files U' d) []) as (s2 & ->).
    destruct (portion_files_sorted U d Hw) as [S1 N1]. destruct (portion_files_sorted U' d Hw') as [S2 N2].
    pose proof (portion_files_perm U U' d Hp Hw) as Hf.
    assert (Hne : forall f, (forall r, In r f -> r <> []) -> forall e, In e (depth_sort (flat_map (ylist d) f)) -> e_parts e <> []).
    { intros f Nf e He. apply (proj1 (depth_sort_In _ _)) in He. apply in_flat_map in He. destruct He as (r & Hr & He).
      apply ylist_yields in He. eapply yields_parts_nonempty; eauto. }
    intro k.
    fold (run p (depth_sort (flat_map (ylist d) (portion_files U d)))).
    fold (run p (depth_sort (flat_map (ylist d) (portion_files U' d)))).
    rewrite (proj2 (run_spec p _ (depth_sort_sorted _) (Hne _ N1))).
    rewrite (proj2 (run_spec p _ (depth_sort_sorted _) (Hne _ N2))).
    apply spec_pick_invariant. intro q. apply pick_invariant; auto.
  - simpl. intro k. auto.
Qed.

(* the whole static load of a regular package, search paths given *)
Theorem load_order_invariant_regular_full :
  forall U U' name paths,
  perm_universe U U' -> wf_universe U ->
  (forall ds, g_find U name paths [] <> FNs ds) ->
  same_tree (load_found false U (g_find U name paths [])) (load_found false U' (g_find U' name paths [])).
Proof.
  intros U U' name paths Hp Hw Hns.
  rewrite <- (find_order_invariant U U' name paths [] Hp Hw).
  destruct (g_find U name paths []) as [p st|ds|] eqn:Ef.
  - apply listing_order_invariant_regular_full; auto.
  - exfalso. eapply Hns; eauto.
  - simpl. auto.
Qed.
