(* C19 proofs, fourth part: the sequential model of one package (Model/C19_seq.v). *)
From Coq Require Import List ZArith String Ascii Bool Arith Lia.
From Verif Require Import Lib.Sexp Model.C19_merge Model.C19_seq Proofs.C19_merge.
Import ListNotations.
Open Scope string_scope. Open Scope list_scope. Open Scope nat_scope.

(* no alias anywhere in t points into module n *)
Fixpoint clean (n : string) (t : tree) : Prop :=
  match t with
  | Al tg _ => home_of tg <> n
  | AlTo tg _ x => home_of tg <> n /\ clean n x
  | Obj _ ms => (fix all (l : list (string * tree)) : Prop := match l with [] => True | p :: r => clean n (snd p) /\ all r end) ms
  end.

Definition state_clean (n : string) (st : state) : Prop := forall m fm, lookup m st = Some fm -> clean n (body fm).

Lemma clean_obj : forall n d ms, clean n (Obj d ms) <-> Forall (fun p => clean n (snd p)) ms.
Proof.
  intros n d ms. simpl. induction ms as [|p r IH]; split; intros H; auto.
  - destruct H as [H1 H2]. constructor; auto. now apply IH.
  - inversion H; subst. split; auto. now apply IH.
Qed.

Lemma clean_lookup : forall n d ms k m, clean n (Obj d ms) -> lookup k ms = Some m -> clean n m.
Proof.
  intros n d ms k m C L. apply clean_obj in C. rewrite Forall_forall in C.
  exact (C (k, m) (lookup_in _ _ _ _ L)).
Qed.

Lemma get_path_clean : forall n p t x, clean n t -> get_path p t = Some x -> clean n x.
Proof.
  induction p as [|k r IH]; simpl; intros t x C G.
  - inversion G; subst; auto.
  - destruct t as [d ms|tg rt|tg rt y]; try discriminate.
    destruct (lookup k ms) as [m|] eqn:L; [|discriminate]. apply (IH m x); [|exact G]. exact (clean_lookup n d ms k m C L).
Qed.

Lemma lookup_ext : forall A m n (y : A) st, m <> n -> lookup m (st ++ [(n, y)]) = lookup m st.
Proof.
  intros A m n y st NE. destruct (lookup m st) as [v|] eqn:L.
  - now apply lookup_app_l.
  - rewrite lookup_app_r by auto. simpl. rewrite eqb_neq'; auto.
Qed.

Lemma find_ext : forall pk n y st tg, home_of tg <> n -> find pk (st ++ [(n, y)]) tg = find pk st tg.
Proof.
  intros pk n y st tg H. unfold find, home_of in *.
  destruct (split_dots tg "") as [|p [|m rest]]; auto.
  destruct (String.eqb p pk); auto. now rewrite lookup_ext.
Qed.

Lemma find_clean : forall pk n st tg x, state_clean n st -> find pk st tg = Some x -> clean n x.
Proof.
  intros pk n st tg x SC F. unfold find in F.
  destruct (split_dots tg "") as [|p [|m rest]]; try discriminate.
  destruct (String.eqb p pk); try discriminate.
  destruct (lookup m st) as [fm|] eqn:L; try discriminate.
  eapply get_path_clean; eauto.
Qed.

Lemma rtree_ext : forall pk n y st, state_clean n st ->
  forall fuel t, clean n t -> rtree fuel pk (st ++ [(n, y)]) t = rtree fuel pk st t.
Proof.
  intros pk n y st SC. induction fuel as [|f IH]; intros t C; auto.
  destruct t as [d ms|tg rt|tg rt x]; simpl; auto.
  - f_equal. apply map_ext_in. intros p Ip. f_equal. apply IH.
    apply clean_obj in C. rewrite Forall_forall in C. exact (C p Ip).
  - simpl in C. rewrite find_ext by auto.
    destruct (find pk st tg) as [x|] eqn:F; auto. f_equal. apply IH. eapply find_clean; eauto.
Qed.

Lemma rtree_clean : forall pk n st, state_clean n st ->
  forall fuel t, clean n t -> clean n (rtree fuel pk st t).
Proof.
  intros pk n st SC. induction fuel as [|f IH]; intros t C; auto.
  destruct t as [d ms|tg rt|tg rt x]; simpl; auto.
  - change (clean n (Obj d (map (fun p => (fst p, rtree f pk st (snd p))) ms))).
    apply clean_obj. apply clean_obj in C. rewrite Forall_forall in *.
    intros p Ip. apply in_map_iff in Ip. destruct Ip as (q & <- & Iq). simpl. apply IH. exact (C q Iq).
  - simpl in C. destruct (find pk st tg) as [x|] eqn:F; simpl; auto.
    split; auto. apply IH. eapply find_clean; eauto.
Qed.

Lemma chain_ext : forall pk n y st, state_clean n st ->
  forall fuel a tg, home_of tg <> n -> chain fuel pk (st ++ [(n, y)]) a tg = chain fuel pk st a tg.
Proof.
  intros pk n y st SC. induction fuel as [|f IH]; intros a tg H; auto.
  simpl. rewrite find_ext by auto. f_equal.
  destruct (find pk st tg) as [[d ms|tg2 rt2|tg2 rt2 x]|] eqn:F; auto.
  apply IH. pose proof (find_clean _ _ _ _ _ SC F) as C. exact C.
Qed.

Lemma chain_targets : forall pk n st, state_clean n st ->
  forall fuel a tg l, home_of tg <> n -> In l (chain fuel pk st a tg) -> home_of (snd l) <> n.
Proof.
  intros pk n st SC. induction fuel as [|f IH]; intros a tg l H I; [contradiction|].
  simpl in I. destruct I as [<-|I]; auto.
  destruct (find pk st tg) as [[d ms|tg2 rt2|tg2 rt2 x]|] eqn:F; try contradiction.
  eapply IH; [|exact I]. exact (find_clean _ _ _ _ _ SC F).
Qed.

Lemma touched_targets : forall n sms d ms a tg,
  clean n (Obj d ms) -> In (a, tg) (touched sms ms) -> home_of tg <> n.
Proof.
  intros n sms d ms a tg C I. unfold touched in I. apply in_flat_map in I. destruct I as ([k m] & Ik & I).
  simpl in I. destruct m as [md mms|t0 rt|t0 rt x]; try contradiction.
  destruct (lookup k sms) as [[? ?|? ?|? ? ?]|]; try contradiction.
  destruct I as [I|[]]. inversion I; subst.
  apply clean_obj in C. rewrite Forall_forall in C. specialize (C (a, AlTo tg rt x) Ik). simpl in C. tauto.
Qed.

Lemma flat_map_ext_in : forall A B (f g : A -> list B) l, (forall x, In x l -> f x = g x) -> flat_map f l = flat_map g l.
Proof.
  induction l as [|x r IH]; simpl; intros H; auto. rewrite (H x) by now left. f_equal. apply IH. intros; apply H; now right.
Qed.

Lemma fold_left_ext_in : forall A B (f g : A -> B -> A) l a, (forall acc x, In x l -> f acc x = g acc x) ->
  fold_left f l a = fold_left g l a.
Proof.
  induction l as [|x r IH]; simpl; intros a H; auto. rewrite (H a x) by now left. apply IH. intros; apply H; now right.
Qed.

Lemma flat_map_nil : forall A B (f : A -> list B) l, (forall x, In x l -> f x = []) -> flat_map f l = [].
Proof. induction l as [|x r IH]; simpl; intros H; auto. rewrite (H x) by now left. apply IH. intros; apply H; now right. Qed.

Lemma assign_app_new : forall A n (v w : A) st, lookup n st = None -> assign n v (st ++ [(n, w)]) = st ++ [(n, v)].
Proof.
  induction st as [|[k x] r IH]; simpl; intros L.
  - now rewrite String.eqb_refl.
  - destruct (String.eqb k n) eqn:E; [discriminate|]. f_equal. auto.
Qed.

(* what the second file of a pair does when it arrives right after the first, in terms of the modules loaded before *)
Definition pair_result (fuel : nat) (pk : string) (s : seq_state) (n : string) (stb md : fmod) : seq_state :=
  let md_r := rtree fuel pk (s_mods s) (body md) in
  match merge_obj (body stb) md_r with
  | Done t =>
      let (t', ups) := unresolve t in
      let st1 := apply_updates pk ups (s_mods s ++ [(n, mkF (is_pyi md) t')]) in
      let links := flat_map (fun at_ => chain fuel pk (s_mods s) (pk ++ "." ++ n ++ "." ++ fst at_) (snd at_))
                            (touched (members_of (body stb)) (members_of md_r)) in
      let dirty := existsb (fun l => existsb (String.eqb (fst l)) (s_stale s)) links in
      let nb := fold_left (fun acc l =>
                    if bound_already acc (fst l) then acc else
                    let h := home_of (snd l) in
                    match lookup h (s_mods s) with
                    | Some hf => if is_pyi hf then acc ++ [mkB (fst l) (snd l) h] else acc
                    | None => acc
                    end) links (s_bound s) in
      mkS st1 nb (s_stale s) (s_dirty s || dirty) None
  | Raised e _ => mkS (s_mods s ++ [(n, md)]) (s_bound s) (s_stale s) (s_dirty s) (Some e)
  end.

Lemma lookup_app_new : forall A n (v : A) st, lookup n st = None -> lookup n (st ++ [(n, v)]) = Some v.
Proof. intros. rewrite lookup_app_r by auto. simpl. now rewrite String.eqb_refl. Qed.

Lemma roles_cases : forall a b stb md, roles a b = Some (stb, md) -> (stb = a /\ md = b) \/ (stb = b /\ md = a).
Proof.
  intros a b stb md R. unfold roles in R. destruct (is_pyi a); [inversion R; auto|].
  destruct (is_pyi b); [inversion R; auto|discriminate].
Qed.

Lemma arrive_pair : forall fuel pk s n a b stb md t,
  s_err s = None -> lookup n (s_mods s) = None ->
  (forall bd, In bd (s_bound s) -> b_home bd <> n) ->
  state_clean n (s_mods s) -> clean n (body a) -> clean n (body b) ->
  roles a b = Some (stb, md) ->
  merge_obj (body stb) (rtree fuel pk (s_mods s) (body md)) = Done t ->
  arrive fuel pk (arrive fuel pk s (n, a)) (n, b) = pair_result fuel pk s n stb md.
Proof.
  intros fuel pk s n a b stb md t E L HB SC Ca Cb R M.
  assert (Cmd : clean n (body md)) by (destruct (roles_cases _ _ _ _ R) as [[-> ->]|[-> ->]]; auto).
  unfold arrive at 2. rewrite E, L.
  unfold arrive. cbn [s_err s_mods s_bound s_stale s_dirty].
  rewrite (lookup_app_new _ n a (s_mods s) L), R.
  rewrite (rtree_ext pk n a (s_mods s) SC fuel (body md) Cmd).
  unfold pair_result. rewrite M.
  destruct (unresolve t) as [t' ups].
  rewrite (assign_app_new _ n _ a (s_mods s) L).
  set (md_r := rtree fuel pk (s_mods s) (body md)).
  assert (Cr : clean n md_r) by (apply rtree_clean; auto).
  assert (TT : forall at_, In at_ (touched (members_of (body stb)) (members_of md_r)) -> home_of (snd at_) <> n).
  { intros [k tg] I. destruct md_r as [d ms|? ?|? ? ?]; simpl in I; try contradiction.
    simpl. eapply touched_targets; eauto. }
  assert (LK : flat_map (fun at_ => chain fuel pk (s_mods s ++ [(n, a)]) (pk ++ "." ++ n ++ "." ++ fst at_) (snd at_))
                        (touched (members_of (body stb)) (members_of md_r)) =
               flat_map (fun at_ => chain fuel pk (s_mods s) (pk ++ "." ++ n ++ "." ++ fst at_) (snd at_))
                        (touched (members_of (body stb)) (members_of md_r))).
  { apply flat_map_ext_in. intros at_ I. apply chain_ext; auto. }
  rewrite LK.
  set (links := flat_map (fun at_ => chain fuel pk (s_mods s) (pk ++ "." ++ n ++ "." ++ fst at_) (snd at_))
                         (touched (members_of (body stb)) (members_of md_r))).
  assert (LT : forall l, In l links -> home_of (snd l) <> n).
  { intros l I. unfold links in I. apply in_flat_map in I. destruct I as (at_ & Ia & Il).
    eapply chain_targets; eauto. }
  f_equal.
  - apply fold_left_ext_in. intros acc l I. rewrite lookup_ext by (apply LT; auto). reflexivity.
  - rewrite flat_map_nil; [destruct (is_pyi a && negb (is_pyi b)); now rewrite app_nil_r|].
    intros bd I. rewrite eqb_neq'; auto.
Qed.

(* Order independence at the level of the package: when the two files of a pair arrive one right after the other - no
   file of another module in between (the complement of finding C19-F6) - both orders lead to the same state: same
   modules, same bindings, same stale aliases.  n not loaded yet, nothing loaded points into n (no alias into the pair's
   own module), visitor-shaped stubs. *)
Theorem adjacent_pair_order_independent : forall fuel pk s n a b stb md,
  s_err s = None -> lookup n (s_mods s) = None ->
  (forall bd, In bd (s_bound s) -> b_home bd <> n) ->
  state_clean n (s_mods s) -> clean n (body a) -> clean n (body b) ->
  roles a b = Some (stb, md) -> xorb (is_pyi a) (is_pyi b) = true ->
  dict_ok (body stb) = true -> root_container (body stb) = true -> root_container (body md) = true ->
  arrive fuel pk (arrive fuel pk s (n, a)) (n, b) = arrive fuel pk (arrive fuel pk s (n, b)) (n, a) /\
  arrive fuel pk (arrive fuel pk s (n, a)) (n, b) = pair_result fuel pk s n stb md /\
  s_err (pair_result fuel pk s n stb md) = None.
Proof.
  intros fuel pk s n a b stb md E L HB SC Ca Cb R X DK RS RM.
  assert (R' : roles b a = Some (stb, md)).
  { unfold roles in *. destruct (is_pyi a), (is_pyi b); simpl in X; try discriminate; auto. }
  assert (OB : exists d ms, rtree fuel pk (s_mods s) (body md) = Obj d ms).
  { destruct (body md) as [d ms|? ?|? ? ?]; try discriminate. destruct fuel; simpl; eauto. }
  destruct OB as (d & ms & OB).
  destruct (never_raises _ DK RS d ms) as (t & M). rewrite <- OB in M.
  rewrite (arrive_pair fuel pk s n a b stb md t E L HB SC Ca Cb R M).
  rewrite (arrive_pair fuel pk s n b a stb md t E L HB SC Cb Ca R' M).
  split; [reflexivity|]. split; [reflexivity|].
  unfold pair_result. rewrite M. destruct (unresolve t). reflexivity.
Qed.

(* ... as a statement about whole listings *)
Corollary load_seq_adjacent_pair : forall fuel pk pre post n a b stb md,
  let s := fold_left (arrive fuel pk) pre (mkS [] [] [] false None) in
  s_err s = None -> lookup n (s_mods s) = None ->
  (forall bd, In bd (s_bound s) -> b_home bd <> n) ->
  state_clean n (s_mods s) -> clean n (body a) -> clean n (body b) ->
  roles a b = Some (stb, md) -> xorb (is_pyi a) (is_pyi b) = true ->
  dict_ok (body stb) = true -> root_container (body stb) = true -> root_container (body md) = true ->
  load_seq fuel pk (pre ++ (n, a) :: (n, b) :: post) = load_seq fuel pk (pre ++ (n, b) :: (n, a) :: post).
Proof.
  intros fuel pk pre post n a b stb md s E L HB SC Ca Cb R X DK RS RM.
  unfold load_seq. rewrite !fold_left_app. cbn [fold_left]. fold s.
  destruct (adjacent_pair_order_independent fuel pk s n a b stb md E L HB SC Ca Cb R X DK RS RM) as (EQ & _).
  now rewrite EQ.
Qed.

(* non-vacuity: pkg/a_impl.py (def f(x)) is loaded, then the pair m.pyi (def f(x: int) -> int) / m.py (from pkg.a_impl import f)
   in either order: every hypothesis holds, the stub is merged through the alias into a_impl.f, m keeps its alias *)
Definition exs_f : tree := Obj (with_params (nd KFun) [("x", None)]) [].
Definition exs_impl : fmod := mkF false (Obj (scope KMod []) [("f", exs_f)]).
Definition exs_mpy : fmod := mkF false (Obj (with_imp (scope KMod []) [("f", "pkg.a_impl.f")]) [("f", Al "pkg.a_impl.f" true)]).
Definition exs_mpyi : fmod := mkF true (Obj (scope KMod []) [("f", Obj (with_ret (with_params (nd KFun) [("x", Some "int")]) (Some "int")) [])]).

Example adjacent_pair_hypotheses_satisfiable :
  let s := fold_left (arrive 8 "pkg") [("a_impl", exs_impl)] (mkS [] [] [] false None) in
  s_err s = None /\ lookup "m" (s_mods s) = None /\ (forall bd, In bd (s_bound s) -> b_home bd <> "m") /\
  state_clean "m" (s_mods s) /\ clean "m" (body exs_mpyi) /\ clean "m" (body exs_mpy) /\
  roles exs_mpyi exs_mpy = Some (exs_mpyi, exs_mpy) /\ xorb (is_pyi exs_mpyi) (is_pyi exs_mpy) = true /\
  dict_ok (body exs_mpyi) = true /\ root_container (body exs_mpyi) = true /\ root_container (body exs_mpy) = true /\
  s_mods (load_seq 8 "pkg" [("a_impl", exs_impl); ("m", exs_mpyi); ("m", exs_mpy)]) =
    [("a_impl", mkF false (Obj (scope KMod []) [("f", Obj (with_ret (with_params (nd KFun) [("x", Some "int")]) (Some "int")) [])]));
     ("m", exs_mpy)].
Proof.
  cbv zeta. repeat split; try (vm_compute; reflexivity); try exact I.
  - intros bd I. vm_compute in I. contradiction.
  - intros m fm L. change (lookup m [("a_impl", exs_impl)] = Some fm) in L. cbn [lookup] in L.
    destruct (String.eqb "a_impl" m); [inversion L; subst; simpl; auto|discriminate].
  - vm_compute. discriminate.
Qed.
