(* C10 proofs, part 5: default values.
   The parameter rules work on abstract default values (nat) compared by equality.  Here: the abstract value of a default
   expression under a key function identifies exactly the expressions with the same key (ident_eq_iff); hence, for ANY key,
   a default whose key changed is reported (default_key_change_reported); if the key refines identity of the compiled
   expression, every changed default is reported (default_change_reported_refining).  The implementation's key does so
   except for the conversion / format spec of f-string replacement fields (impl_key_refines / finding F8); the text key
   (grouping forgotten) does not: counter-example with different computed values. *)
From Coq Require Import List Arith Bool ZArith Lia.
From Verif Require Import Lib.Sexp Model.C10_kinds Gen.C10_tables Gen.C10_rules Model.C10_diff Model.C10_defaults Model.C10_ext
  Proofs.C10_diff Proofs.C10_complete Proofs.C10_sound Proofs.C10_rule.
Import ListNotations.
Open Scope list_scope. Open Scope nat_scope.

(* ---- decidable equalities ---- *)
Lemma dexp_eqb_refl a : dexp_eqb a a = true.
Proof. induction a; simpl; rewrite ?Z.eqb_refl, ?Nat.eqb_refl, ?IHa1, ?IHa2, ?IHa; reflexivity. Qed.
Lemma dexp_eqb_eq a : forall b, dexp_eqb a b = true <-> a = b.
Proof.
  induction a as [z|t|t l IHl r IHr|e IHe c s IHs]; intros b; (split; [|intros <-; apply dexp_eqb_refl]); destruct b; simpl; try discriminate; intros H.
  - apply Z.eqb_eq in H. subst. reflexivity.
  - apply Nat.eqb_eq in H. subst. reflexivity.
  - apply andb_prop in H. destruct H as [H H2]. apply andb_prop in H. destruct H as [H0 H1].
    apply Nat.eqb_eq in H0. apply IHl in H1. apply IHr in H2. subst. reflexivity.
  - apply andb_prop in H. destruct H as [H H2]. apply andb_prop in H. destruct H as [H0 H1].
    apply IHe in H0. apply Nat.eqb_eq in H1. apply IHs in H2. subst. reflexivity.
Qed.

Lemma tok_eqb_eq a b : tok_eqb a b = true <-> a = b.
Proof.
  destruct a, b; simpl; split; intros H; try discriminate; try (inversion H; subst);
    rewrite ?Z.eqb_refl, ?Nat.eqb_refl; try reflexivity;
    try (apply Z.eqb_eq in H; subst; reflexivity); try (apply Nat.eqb_eq in H; subst; reflexivity).
Qed.
Lemma toks_eqb_eq a : forall b, toks_eqb a b = true <-> a = b.
Proof.
  induction a as [|x a IH]; intros [|y b]; simpl; split; intros H; try reflexivity; try discriminate.
  - apply andb_prop in H. destruct H as [H1 H2]. apply tok_eqb_eq in H1. apply IH in H2. subst. reflexivity.
  - inversion H; subst. apply andb_true_intro. split; [apply tok_eqb_eq; reflexivity|apply IH; reflexivity].
Qed.

(* ---- abstract values identify exactly the defaults with the same key ---- *)
Section Keys.
Variable K : Type.
Variable keq : K -> K -> bool.
Variable key : dexp -> K.
Hypothesis keq_spec : forall x y, keq x y = true <-> x = y.

Lemma first_idx_hit pool : forall a, In a pool ->
  exists x, nth_error pool (first_idx keq key (key a) pool) = Some x /\ key x = key a.
Proof.
  induction pool as [|y pool IH]; intros a Hin; [destruct Hin|]. simpl.
  destruct (keq (key y) (key a)) eqn:E.
  - exists y. split; [reflexivity|apply keq_spec; exact E].
  - destruct Hin as [<-|Hin].
    + assert (keq (key y) (key y) = true) by (apply keq_spec; reflexivity). congruence.
    + apply IH. exact Hin.
Qed.

Theorem ident_eq_iff pool a b : In a pool -> In b pool ->
  (ident keq key pool a = ident keq key pool b <-> key a = key b).
Proof.
  intros Ha Hb. unfold ident. split.
  - intros H. inversion H as [H'].
    destruct (first_idx_hit pool a Ha) as [x [Hx Kx]]. destruct (first_idx_hit pool b Hb) as [y [Hy Ky]].
    rewrite H' in Hx. rewrite Hx in Hy. inversion Hy; subst. congruence.
  - intros H. rewrite H. reflexivity.
Qed.

(* ---- signatures with expression defaults, abstracted ---- *)
Let idf (old new : xsig) := ident keq key (pool_of old new).

Lemma find_abs f n : forall s, find n (abs_sig f s) = option_map (abs_param f) (xfind n s).
Proof. induction s as [|p s IH]; simpl; [reflexivity|]. destruct (Nat.eqb (xname p) n); [reflexivity|exact IH]. Qed.
Lemma nth_abs f s i : nth_error (abs_sig f s) i = option_map (abs_param f) (nth_error s i).
Proof. unfold abs_sig. revert i. induction s as [|p s IH]; intros [|i]; simpl; auto. Qed.
Lemma xfind_in n : forall s p, xfind n s = Some p -> In p s /\ xname p = n.
Proof.
  induction s as [|q s IH]; simpl; intros p H; [discriminate|].
  destruct (Nat.eqb (xname q) n) eqn:E; [inversion H; subst; apply Nat.eqb_eq in E; auto|destruct (IH p H); auto].
Qed.
Lemma default_in_pool s p d : In p s -> xdef p = Some d -> var_kind (xkind p) = false -> In d (defaults_of s).
Proof.
  intros Hin Hd Hv. unfold defaults_of. apply in_flat_map. exists p. split; [exact Hin|]. rewrite Hd, Hv. left. reflexivity.
Qed.

(* whatever the key: a default whose key changed is reported *)
Theorem default_key_change_reported ck old new oi op np a b :
  nth_error old oi = Some op -> xfind (xname op) new = Some np ->
  var_kind (xkind op) = false -> var_kind (xkind np) = false ->
  xdef op = Some a -> xdef np = Some b -> key a <> key b ->
  In (ChDef (xname op)) (fdiff_g ck (abs_sig (idf old new) old) (abs_sig (idf old new) new)).
Proof.
  intros Hn Hf Vo Vn Da Db Hk. unfold fdiff_g. apply in_or_app. left.
  change (xname op) with (pname (abs_param (idf old new) op)).
  apply (default_change_reported _ _ oi (abs_param (idf old new) op) (abs_param (idf old new) np)).
  - rewrite nth_abs, Hn. reflexivity.
  - rewrite find_abs. simpl. rewrite Hf. reflexivity.
  - unfold required. simpl. rewrite Da. reflexivity.
  - unfold required. simpl. rewrite Db. reflexivity.
  - exact Vo.
  - exact Vn.
  - simpl. rewrite Da, Db, Vo, Vn. intros E. inversion E as [E']. apply Hk.
    assert (Hop : In op old) by (eapply nth_error_In; eauto). destruct (xfind_in _ _ _ Hf) as [Hnp _].
    apply (ident_eq_iff (pool_of old new) a b); [| |unfold ident; f_equal; exact E'].
    + unfold pool_of. apply in_or_app. left. apply (default_in_pool old op a Hop Da Vo).
    + unfold pool_of. apply in_or_app. right. apply (default_in_pool new np b Hnp Db Vn).
Qed.

(* ... and a reported default breakage means the key changed (so the compiled expression changed) *)
Theorem default_report_means_key_changed ck old new n :
  In (ChDef n) (fdiff_g ck (abs_sig (idf old new) old) (abs_sig (idf old new) new)) ->
  exists op np a b, In op old /\ xname op = n /\ xfind n new = Some np /\ xdef op = Some a /\ xdef np = Some b /\ key a <> key b.
Proof.
  intros H. unfold fdiff_g in H. apply in_app_or in H. destruct H as [H|H].
  2:{ apply collide_only_kind in H. destruct H as [m H]. discriminate. }
  destruct (chdef_inv _ _ _ H) as [op' [np' [Hop [Hn [Hf [Ro [Rn [Vo [Vn Hd]]]]]]]]].
  unfold abs_sig in Hop. apply in_map_iff in Hop. destruct Hop as [op [Eo Hop]]. subst op'. simpl in Hn.
  rewrite find_abs in Hf. destruct (xfind n new) as [np|] eqn:Hx; [|discriminate]. simpl in Hf. inversion Hf; subst np'. clear Hf.
  unfold required in Ro, Rn. simpl in *. rewrite is_var_spec in Vo, Vn.
  destruct (xdef op) as [a|] eqn:Da; [|discriminate]. destruct (xdef np) as [b|] eqn:Db; [|discriminate].
  exists op, np, a, b. repeat split; auto. intros E. apply Hd. rewrite Vo, Vn. unfold idf, ident. rewrite E. reflexivity.
Qed.

(* one parameter, same key on both sides: silent *)
Lemma same_key_silent ck k a b : key a = key b ->
  fdiff_g ck (abs_sig (idf [xmk 0 k (Some a)] [xmk 0 k (Some b)]) [xmk 0 k (Some a)])
             (abs_sig (idf [xmk 0 k (Some a)] [xmk 0 k (Some b)]) [xmk 0 k (Some b)]) = [].
Proof.
  intros E. unfold abs_sig, abs_param, idf, ident. simpl. rewrite E. apply identical_silent_g. reflexivity.
Qed.
End Keys.

(* ---- the three keys ---- *)
Fixpoint fmt_free (a : dexp) : bool :=
  match a with DFmt _ _ _ => false | DNode _ l r => fmt_free l && fmt_free r | _ => true end.
Lemma erase_fmt_id a : fmt_free a = true -> erase_fmt a = a.
Proof.
  induction a as [z|t|t l IHl r IHr|e IHe c s IHs]; simpl; intros H; try reflexivity; try discriminate.
  apply andb_prop in H. destruct H as [Hl Hr]. rewrite (IHl Hl), (IHr Hr). reflexivity.
Qed.
(* the implementation's equality (str / Expr.__eq__) refines identity of the compiled expression away from f-string fields *)
Theorem impl_key_refines a b : fmt_free a = true -> fmt_free b = true -> impl_key a = impl_key b -> a = b.
Proof.
  intros Fa Fb. unfold impl_key. destruct FMT_LOSSY; [|auto]. rewrite (erase_fmt_id a Fa), (erase_fmt_id b Fb). auto.
Qed.
Lemma impl_key_lossless : FMT_LOSSY = false -> forall a, impl_key a = a.
Proof. intros R a. unfold impl_key. rewrite R. reflexivity. Qed.
Lemma impl_key_lossy : FMT_LOSSY = true -> forall a, impl_key a = erase_fmt a.
Proof. intros R a. unfold impl_key. rewrite R. reflexivity. Qed.

(* for any equality that refines identity of the compiled expression, a changed default is reported *)
Theorem default_change_reported_refining (K : Type) (keq : K -> K -> bool) (key : dexp -> K) :
  (forall x y, keq x y = true <-> x = y) -> (forall a b, key a = key b -> a = b) ->
  forall ck old new oi op np a b,
  nth_error old oi = Some op -> xfind (xname op) new = Some np ->
  var_kind (xkind op) = false -> var_kind (xkind np) = false ->
  xdef op = Some a -> xdef np = Some b -> a <> b ->
  In (ChDef (xname op)) (fdiff_g ck (abs_sig (ident keq key (pool_of old new)) old) (abs_sig (ident keq key (pool_of old new)) new)).
Proof.
  intros Hs Href ck old new oi op np a b Hn Hf Vo Vn Da Db Hab.
  apply (default_key_change_reported K keq key Hs ck old new oi op np a b); auto.
Qed.

(* the code under test: a changed default is reported unless the pair is in F8 *)
Theorem default_change_reported_impl old new oi op np a b :
  nth_error old oi = Some op -> xfind (xname op) new = Some np ->
  var_kind (xkind op) = false -> var_kind (xkind np) = false ->
  xdef op = Some a -> xdef np = Some b -> a <> b ->
  In (ChDef (xname op)) (xdiff impl_ident old new) \/ f8_param new op = true.
Proof.
  intros Hn Hf Vo Vn Da Db Hab.
  destruct (dexp_eqb (impl_key a) (impl_key b)) eqn:E.
  - right. unfold f8_param. rewrite Hf, Vo, Vn, Da, Db, E. simpl.
    destruct (dexp_eqb a b) eqn:E2; [apply dexp_eqb_eq in E2; contradiction|reflexivity].
  - left. unfold xdiff, fdiff_m, impl_ident.
    apply (default_key_change_reported dexp dexp_eqb impl_key (fun x y => dexp_eqb_eq x y) collision_kind old new oi op np a b);
      [exact Hn|exact Hf|exact Vo|exact Vn|exact Da|exact Db|].
    intros H. rewrite H, dexp_eqb_refl in E. discriminate.
Qed.

(* F8 needs an f-string replacement field and a lossy ExprFormatted *)
Theorem f8_only_fstrings new op : f8_param new op = true ->
  FMT_LOSSY = true /\ exists np a b, xfind (xname op) new = Some np /\ xdef op = Some a /\ xdef np = Some b /\ a <> b /\
                                      (fmt_free a = false \/ fmt_free b = false).
Proof.
  unfold f8_param. intros H. destruct (xfind (xname op) new) as [np|]; [|discriminate].
  apply andb_prop in H. destruct H as [_ H]. destruct (xdef op) as [a|]; [|discriminate]. destruct (xdef np) as [b|] eqn:Db; [|discriminate].
  apply andb_prop in H. destruct H as [Hne He]. apply negb_true_iff in Hne. apply dexp_eqb_eq in He.
  assert (Hab : a <> b) by (intros E; subst; rewrite dexp_eqb_refl in Hne; discriminate).
  split.
  - destruct FMT_LOSSY eqn:R; [reflexivity|]. exfalso. apply Hab. rewrite <- (impl_key_lossless R a), <- (impl_key_lossless R b). exact He.
  - exists np, a, b. repeat split; auto.
    destruct (fmt_free a) eqn:Fa; [|left; reflexivity]. destruct (fmt_free b) eqn:Fb; [|right; reflexivity].
    exfalso. apply Hab. apply impl_key_refines; assumption.
Qed.

(* finding F8: the conversion / format spec of an f-string field changes, nothing is reported *)
Definition f8_a := DFmt (DAtom 101) 0 (DAtom 102).
Definition f8_b := DFmt (DAtom 101) 0 (DAtom 103).
Theorem default_change_refuted_F8 : FMT_LOSSY = true ->
  exists a b, a <> b /\ xdiff impl_ident [xmk 0 PK (Some a)] [xmk 0 PK (Some b)] = [] /\ F8 [xmk 0 PK (Some a)] [xmk 0 PK (Some b)] = true.
Proof.
  intros R. exists f8_a, f8_b. split; [discriminate|]. split.
  - unfold xdiff, fdiff_m, impl_ident. apply (same_key_silent dexp dexp_eqb impl_key). rewrite !(impl_key_lossy R). reflexivity.
  - unfold F8. cbn [existsb]. unfold f8_param. cbn [xfind xname Nat.eqb xkind var_kind negb andb xdef]. rewrite !(impl_key_lossy R). reflexivity.
Qed.

(* comparing parenthesis-free renderings does NOT refine identity of the compiled expression, not even the computed value:
   60 * (2 + 3) and 60 * 2 + 3 have the same tokens, CPython computes 300 and 123, and nothing would be reported *)
Definition grp_a := DNode 3 (DNum 60) (DNode 1 (DNum 2) (DNum 3)).
Definition grp_b := DNode 1 (DNode 3 (DNum 60) (DNum 2)) (DNum 3).
Theorem text_equality_does_not_refine :
  text_key grp_a = text_key grp_b /\ dval grp_a = Some 300%Z /\ dval grp_b = Some 123%Z /\
  xdiff text_ident [xmk 0 PK (Some grp_a)] [xmk 0 PK (Some grp_b)] = [] /\
  xdiff impl_ident [xmk 0 PK (Some grp_a)] [xmk 0 PK (Some grp_b)] = [ChDef 0].
Proof.
  split; [reflexivity|]. split; [reflexivity|]. split; [reflexivity|]. split.
  - unfold xdiff, fdiff_m, text_ident. apply (same_key_silent (list tok) toks_eqb text_key). reflexivity.
  - unfold xdiff, impl_ident, impl_key. destruct FMT_LOSSY; rewrite fdiff_m_eq; destruct COLLISION_RULE; reflexivity.
Qed.

(* a different computed value is a different compiled expression *)
Lemma dval_differs_neq a b : dval a <> dval b -> a <> b.
Proof. intros H E. apply H. rewrite E. reflexivity. Qed.

(* identical signatures (same compiled defaults, whatever the layout of the source) are silent for the code under test *)
Theorem identical_silent_x idf s : nodup_names (abs_sig (idf s s) s) = true -> xdiff idf s s = [].
Proof. intros H. unfold xdiff, fdiff_m. apply identical_silent_g. exact H. Qed.
