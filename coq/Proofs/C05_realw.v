(* C05: the real traversal of expand_wildcards (expw: recursion with a seen-set, targets expanded on demand, submodules
   visited inside the same loop) computes exactly the per-module schedule step (sched_wild_step), module after module, in the
   order in which it completes the modules -- provided every wildcard import of a completed module names a module of the table
   at the time the module is completed (no `a/b/*` pseudo-member is left behind). *)
From Coq Require Import List ZArith String Ascii Bool Arith Lia.
From Verif Require Import Lib.Sexp Model.C05_imports Model.C05_wf Proofs.C05_imports Proofs.C05_real Proofs.C05_main.
Import ListNotations.
Open Scope string_scope.
Open Scope list_scope.
Open Scope nat_scope.

(* ------------------------------------------------------------------------------------------------------------ *)
(* expw with its loop named                                                                                      *)
(* ------------------------------------------------------------------------------------------------------------ *)
Section WLoop.
Variable rec : path -> wstate -> outcome wstate.
Variable top : string.
Variable mp : path.

Fixpoint wloop (ms : list (string * member)) (ex : list expanded_entry) (rm : list string) (s : wstate)
  : outcome (list expanded_entry * list string * wstate) :=
  match ms with
  | [] => Done (ex, rm, s)
  | (n, MAlias tgt ln true) :: r =>
      match lookup_path (wt s) top tgt with
      | LMod q =>
          let after := if mem_path q (wseen s) then Done s else rec q s in
          match after with
          | Done s' =>
              match get_mod (wt s') q with
              | Some stq =>
                  let pend := mem_path q (wseen s) && negb (mem_path q (wdone s')) && has_star stq in
                  let s2 := if pend then mkW (wt s') (wseen s') (wdone s') (wpending s' ++ [(mp, q)]) (wunsup s') (wreplaced s') (wambig s') else s' in
                  wloop r (ex ++ collect stq q ln) (rm ++ [n]) s2
              | None => wloop r ex rm s'
              end
          | other => match other with Crash e => Crash e | _ => OutOfFuel end
          end
      | LNone => wloop r ex rm s
      | _ => wloop r ex rm (mkW (wt s) (wseen s) (wdone s) (wpending s) true (wreplaced s) (wambig s))
      end
  | (n, MSub) :: r =>
      if mem_path (mp ++ [n]) (wseen s) then wloop r ex rm s
      else match rec (mp ++ [n]) s with
           | Done s' => wloop r ex rm s'
           | other => match other with Crash e => Crash e | _ => OutOfFuel end
           end
  | _ :: r => wloop r ex rm s
  end.
End WLoop.

Lemma expw_unfold f top mp s :
  expw (S f) top mp s =
  let s := mkW (wt s) (mp :: wseen s) (wdone s) (wpending s) (wunsup s) (wreplaced s) (wambig s) in
  match get_mod (wt s) mp with
  | None => Done s
  | Some st0 =>
      match wloop (expw f top) top mp (members st0) [] [] s with
      | Done (ex, rm, s') =>
          let ms1 := fold_left (fun ms n => remove_key n ms) rm (members st0) in
          let fl := S (List.length (wt s') * 8 + 64) in
          let ms2 := apply_expanded fl (wt s') top mp ms1 ex in
          Done (mkW (set_mod_members (wt s') mp ms2) (wseen s') (mp :: wdone s') (wpending s') (wunsup s')
                    (wreplaced s' ++ apply_events fl (wt s') top mp ms1 ex)
                    (wambig s' ++ apply_ambig fl (wt s') top mp ms1 ex (wreplaced s' ++ wambig s')))
      | Crash e => Crash e
      | OutOfFuel => OutOfFuel
      end
  end.
Proof. reflexivity. Qed.

(* ------------------------------------------------------------------------------------------------------------ *)
(* dictionaries, the application step                                                                            *)
(* ------------------------------------------------------------------------------------------------------------ *)
Lemma assign_nodup {A} n (v : A) l : NoDup (map fst l) -> NoDup (map fst (assign n v l)).
Proof.
  induction l as [|[k w] r IH]; simpl; intros H.
  - constructor; auto.
  - inversion H as [|? ? Hnotin Hnd]; subst. destruct (String.eqb k n) eqn:E; simpl.
    + constructor; auto.
    + constructor; auto. intros Hin. apply in_map_iff in Hin. destruct Hin as [[k' w'] [Hk Hin]]. simpl in Hk. subst k'.
      apply In_assign in Hin. destruct Hin as [[Hk _]|Hin].
      * subst. rewrite String.eqb_refl in E. discriminate.
      * apply Hnotin. apply in_map_iff. exists (k, w'). auto.
Qed.

Lemma remove_In {A} n (l : list (string * A)) k v : In (k, v) (remove_key n l) -> In (k, v) l.
Proof.
  induction l as [|[k0 w] r IH]; simpl; auto.
  destruct (String.eqb k0 n); simpl; intros H; auto. destruct H; auto.
Qed.

Lemma remove_nodup {A} n (l : list (string * A)) : NoDup (map fst l) -> NoDup (map fst (remove_key n l)).
Proof.
  induction l as [|[k w] r IH]; simpl; intros H; auto.
  inversion H as [|? ? Hnotin Hnd]; subst. destruct (String.eqb k n); simpl; auto.
  constructor; auto. intros Hin. apply Hnotin. apply in_map_iff in Hin. destruct Hin as [[k' w'] [Hk Hin]]. simpl in Hk. subst k'.
  apply in_map_iff. exists (k, w'). split; auto. eapply remove_In; eauto.
Qed.

Lemma removes_nodup {A} ks : forall (l : list (string * A)), NoDup (map fst l) -> NoDup (map fst (fold_left (fun ms n => remove_key n ms) ks l)).
Proof. induction ks as [|k ks IH]; intros l H; simpl; auto. apply IH. apply remove_nodup. auto. Qed.

Lemma In_nodup_lookup {A} n (v : A) l : NoDup (map fst l) -> In (n, v) l -> lookup n l = Some v.
Proof.
  induction l as [|[k w] r IH]; simpl; intros Hnd Hin; [contradiction|].
  inversion Hnd as [|? ? Hnotin Hnd']; subst. destruct Hin as [Hin|Hin].
  - inversion Hin; subst. rewrite String.eqb_refl. reflexivity.
  - destruct (String.eqb k n) eqn:E; auto. apply String.eqb_eq in E. subst k.
    exfalso. apply Hnotin. apply in_map_iff. exists (n, v). auto.
Qed.

Lemma removes_lookup_sub {A} ks : forall (l : list (string * A)) c v, NoDup (map fst l) ->
  lookup c (fold_left (fun ms n => remove_key n ms) ks l) = Some v -> lookup c l = Some v.
Proof.
  induction ks as [|k ks IH]; intros l c v Hnd H; simpl in H; auto.
  apply IH in H; [|apply remove_nodup; auto]. apply In_nodup_lookup; auto. eapply remove_In. apply lookup_In. eauto.
Qed.

Lemma apply_one_shape fuel t top mp ms e :
  apply_one fuel t top mp ms e = ms \/ apply_one fuel t top mp ms e = assign (e_name e) (wrap e) ms \/
  exists old, lookup (e_name e) ms = Some old /\ apply_one fuel t top mp ms e = assign (e_name e) (relineno old (e_ln e)) ms.
Proof.
  unfold apply_one. fold (wrap e). destruct (lookup (e_name e) ms) as [old|] eqn:El.
  - destruct (negb _ && _); auto.
    destruct (final fuel _ top old _); auto.
    destruct (fres_eqb _ _); auto. destruct (is_alias old); auto. right. right. eauto.
  - destruct (is_alias (e_member e) && _); auto.
Qed.

Lemma apply_expanded_inv (Q : list (string * member) -> Prop) fuel t top mp :
  (forall ms n m, Q ms -> m <> MSub \/ lookup n ms = Some MSub -> Q (assign n m ms)) ->
  forall es ms, Q ms -> Q (apply_expanded fuel t top mp ms es).
Proof.
  intros Hq. unfold apply_expanded. induction es as [|e es IH]; intros ms H; simpl; auto. apply IH.
  destruct (apply_one_shape fuel t top mp ms e) as [E|[E|[old [Ho E]]]]; rewrite E; auto.
  - apply Hq; auto. left. discriminate.
  - apply Hq; auto. destruct old; simpl; auto; left; discriminate.
Qed.

Lemma apply_expanded_nodup fuel t top mp es ms : NoDup (map fst ms) -> NoDup (map fst (apply_expanded fuel t top mp ms es)).
Proof. intros Hn. apply (apply_expanded_inv (fun l => NoDup (map fst l))); auto. intros. apply assign_nodup. auto. Qed.

(* the application step never turns a member into a submodule *)
Lemma apply_expanded_no_new_sub fuel t top mp es ms c :
  lookup c (apply_expanded fuel t top mp ms es) = Some MSub -> lookup c ms = Some MSub.
Proof.
  revert ms. unfold apply_expanded. induction es as [|e es IH]; intros ms H; simpl in H; auto.
  apply IH in H. destruct (apply_one_shape fuel t top mp ms e) as [E|[E|[old [Ho E]]]]; rewrite E in H; auto.
  - destruct (string_dec (e_name e) c) as [Heq|Hne].
    + subst. rewrite lookup_assign_same in H. discriminate.
    + rewrite lookup_assign_other in H; auto.
  - destruct (string_dec (e_name e) c) as [Heq|Hne].
    + subst. rewrite lookup_assign_same in H. destruct old; simpl in H; try discriminate. auto.
    + rewrite lookup_assign_other in H; auto.
Qed.

(* ------------------------------------------------------------------------------------------------------------ *)
(* the schedule steps                                                                                            *)
(* ------------------------------------------------------------------------------------------------------------ *)
Definition wsteps (fl : nat) (top : string) (order : list path) (t : table) : table :=
  fold_left (sched_wild_step fl top) order t.

Lemma wsteps_app fl top o1 o2 t : wsteps fl top (o1 ++ o2) t = wsteps fl top o2 (wsteps fl top o1 t).
Proof. unfold wsteps. apply fold_left_app. Qed.

Definition keys_ok (t : table) : Prop := forall q st, get_mod t q = Some st -> NoDup (map fst (members st)).

(* t' has the modules of t, and no submodule member that t does not have *)
Definition back (t t' : table) : Prop :=
  (forall q, get_mod t' q = None <-> get_mod t q = None) /\
  (forall q st st' c, get_mod t q = Some st -> get_mod t' q = Some st' -> lookup c (members st') = Some MSub -> lookup c (members st) = Some MSub).

Lemma back_refl t : back t t.
Proof. split; [tauto|]. intros q st st' c H1 H2. rewrite H1 in H2. inversion H2; subst. auto. Qed.

Lemma back_trans t1 t2 t3 : back t1 t2 -> back t2 t3 -> back t1 t3.
Proof.
  intros [D1 S1] [D2 S2]. split.
  - intros q. rewrite D2. apply D1.
  - intros q st st3 c H1 H3 Hc. destruct (get_mod t2 q) as [st2|] eqn:E2.
    + eapply S1; eauto.
    + apply D1 in E2. congruence.
Qed.

Lemma set_members_back t mp ms st :
  get_mod t mp = Some st -> (forall c, lookup c ms = Some MSub -> lookup c (members st) = Some MSub) ->
  back t (set_mod_members t mp ms).
Proof.
  intros Hg Hs. unfold set_mod_members. rewrite Hg. split.
  - intros q. destruct (path_eqb mp q) eqn:E.
    + apply path_eqb_eq in E. subst q. rewrite (get_set_same t mp _ st Hg), Hg. split; discriminate.
    + rewrite get_set_other; [tauto|]. intros Heq. subst. rewrite path_eqb_refl in E. discriminate.
  - intros q st1 st' c H1 H2 Hc. destruct (path_eqb mp q) eqn:E.
    + apply path_eqb_eq in E. subst q. rewrite (get_set_same t mp _ st Hg) in H2. inversion H2; subst st'. simpl in Hc.
      rewrite Hg in H1. inversion H1; subst. auto.
    + rewrite get_set_other in H2 by (intros Heq; subst; rewrite path_eqb_refl in E; discriminate). rewrite H1 in H2. inversion H2; subst. auto.
Qed.

(* a path that names a module in the later table named it before *)
Lemma walk_back t t' : back t t' -> forall rest cur q, walk t' cur rest = LMod q -> walk t cur rest = LMod q.
Proof.
  intros [Hd Hs]. induction rest as [|c rest IH]; intros cur q H; simpl in *; auto.
  destruct (get_mod t' cur) as [st'|] eqn:E'; try discriminate.
  destruct (get_mod t cur) as [st|] eqn:E; [|apply Hd in E; congruence].
  destruct (lookup c (members st')) as [m|] eqn:El; try discriminate.
  destruct m; try (destruct rest; discriminate).
  rewrite (Hs cur st st' c E E' El). apply IH. auto.
Qed.

Lemma lookup_path_back t t' top p q : back t t' -> lookup_path t' top p = LMod q -> lookup_path t top p = LMod q.
Proof.
  intros Hb. unfold lookup_path. destruct p; try discriminate. destruct (String.eqb s top); try discriminate. apply walk_back. auto.
Qed.

(* one schedule step *)
Lemma wild_step_other fl top t m q : m <> q -> get_mod (sched_wild_step fl top t m) q = get_mod t q.
Proof.
  intros Hne. unfold sched_wild_step. destruct (get_mod t m) as [st|] eqn:E; auto.
  unfold set_mod_members. rewrite E. apply get_set_other. auto.
Qed.

Lemma wild_step_len fl top t m : List.length (sched_wild_step fl top t m) = List.length t.
Proof.
  unfold sched_wild_step. destruct (get_mod t m) as [st|] eqn:E; auto.
  unfold set_mod_members. rewrite E. eapply set_mod_len; eauto.
Qed.

Lemma wsteps_other fl top q order : forall t, (forall m, In m order -> m <> q) -> get_mod (wsteps fl top order t) q = get_mod t q.
Proof.
  induction order as [|m order IH]; intros t Hn; simpl; auto.
  change (fold_left (sched_wild_step fl top) order (sched_wild_step fl top t m)) with (wsteps fl top order (sched_wild_step fl top t m)).
  rewrite IH by (intros m' Hm'; apply Hn; right; auto).
  apply wild_step_other. apply Hn. left. auto.
Qed.

(* every wildcard import of the module names a module of the table *)
Definition stars_resolve (t : table) (top : string) (ms : list (string * member)) : Prop :=
  forall n tgt ln, In (n, MAlias tgt ln true) ms -> exists q stq, lookup_path t top tgt = LMod q /\ get_mod t q = Some stq.

Fixpoint ok_run (fl : nat) (top : string) (order : list path) (t : table) : Prop :=
  match order with
  | [] => True
  | m :: r => (forall st, get_mod t m = Some st -> stars_resolve t top (members st)) /\ ok_run fl top r (sched_wild_step fl top t m)
  end.

Lemma ok_run_app fl top o1 : forall o2 t, ok_run fl top (o1 ++ o2) t <-> ok_run fl top o1 t /\ ok_run fl top o2 (wsteps fl top o1 t).
Proof.
  induction o1 as [|m o1 IH]; intros o2 t; simpl.
  - tauto.
  - rewrite IH. unfold wsteps. simpl. tauto.
Qed.

(* ------------------------------------------------------------------------------------------------------------ *)
(* what a call of the traversal does                                                                             *)
(* ------------------------------------------------------------------------------------------------------------ *)
Record WFacts (top : string) (s s' : wstate) : Prop := mkWF {
  wf_keys : keys_ok (wt s');
  wf_back : back (wt s) (wt s');
  wf_len : List.length (wt s') = List.length (wt s);
  wf_frame : forall p, In p (wseen s) -> get_mod (wt s') p = get_mod (wt s) p;     (* modules entered before are not touched *)
  wf_incl : incl (wseen s) (wseen s');
  wf_order : exists order, (forall m, In m order -> ~ In m (wseen s)) /\
                           wdone s' = rev order ++ wdone s /\      (* the order in which the modules are marked done *)
                           (ok_run (FLof (wt s)) top order (wt s) -> wt s' = wsteps (FLof (wt s)) top order (wt s))
}.

Definition WSpec (top : string) (rec : path -> wstate -> outcome wstate) : Prop :=
  forall q s s', rec q s = Done s' -> ~ In q (wseen s) -> keys_ok (wt s) -> WFacts top s s' /\ In q (wseen s').

Lemma WFacts_refl top s : keys_ok (wt s) -> WFacts top s s.
Proof.
  intros Hk. split; auto.
  - apply back_refl.
  - apply incl_refl.
  - exists []. split; [intros m []|]. split; [reflexivity|]. intros _. reflexivity.
Qed.

Lemma FLof_len t t' : List.length t' = List.length t -> FLof t' = FLof t.
Proof. intros H. unfold FLof. rewrite H. reflexivity. Qed.

(* two calls in a row, the second starting in a state that has the table and the seen-set the first one ended with *)
Lemma WFacts_trans top s s1 s2 s' :
  WFacts top s s1 -> wt s2 = wt s1 -> wseen s2 = wseen s1 -> wdone s2 = wdone s1 -> WFacts top s2 s' -> WFacts top s s'.
Proof.
  intros [K1 B1 L1 F1 I1 [o1 [N1 [D1 O1]]]] Ht Hs Hd [K2 B2 L2 F2 I2 [o2 [N2 [D2 O2]]]]. rewrite Ht in *. rewrite Hs in *. rewrite Hd in *. split; auto.
  - eapply back_trans; eauto.
  - congruence.
  - intros p Hp. rewrite F2 by (apply I1; auto). apply F1. auto.
  - intros x Hx. apply I2. apply I1. auto.
  - exists (o1 ++ o2). split.
    + intros m Hm. apply in_app_or in Hm. destruct Hm as [Hm|Hm]; auto. intros Hin. apply (N2 m Hm). apply I1. auto.
    + split; [rewrite D2, D1, rev_app_distr, <- app_assoc; reflexivity|].
      intros Hok. apply ok_run_app in Hok. destruct Hok as [Hok1 Hok2]. rewrite wsteps_app, <- (O1 Hok1).
      rewrite (FLof_len _ _ L1) in O2. apply O2. rewrite (O1 Hok1). exact Hok2.
Qed.

Section WLoopSpec.
Variable top : string.
Variable rec : path -> wstate -> outcome wstate.
Hypothesis Hrec : WSpec top rec.
Variable mp : path.

Lemma star_entries_cons t nm r : star_entries t top (nm :: r) =
  (match snd nm with
   | MAlias tgt ln true => match lookup_path t top tgt with
                           | LMod q => match get_mod t q with Some stq => collect stq q ln | None => [] end
                           | _ => []
                           end
   | _ => []
   end) ++ star_entries t top r.
Proof. reflexivity. Qed.

Lemma stars_resolve_tail t x r : stars_resolve t top (x :: r) -> stars_resolve t top r.
Proof. intros H n tgt ln Hin. apply (H n tgt ln). right. auto. Qed.

Lemma wloop_spec : forall ms ex rm s ex' rm' s',
  wloop rec top mp ms ex rm s = Done (ex', rm', s') -> keys_ok (wt s) ->
  WFacts top s s' /\
  (stars_resolve (wt s') top ms -> ex' = ex ++ star_entries (wt s') top ms /\ rm' = rm ++ star_names_of ms).
Proof.
  induction ms as [|[n m] ms IH]; intros ex rm s ex' rm' s' Hx Hk.
  - simpl in Hx. inversion Hx; subst. split; [apply WFacts_refl; auto|]. intros _. simpl. rewrite !app_nil_r. auto.
  - assert (Hskip : forall s0, wt s0 = wt s -> wseen s0 = wseen s -> wdone s0 = wdone s ->
                      wloop rec top mp ms ex rm s0 = Done (ex', rm', s') ->
                      (stars_resolve (wt s') top ((n, m) :: ms) ->
                       star_entries (wt s') top [(n, m)] = [] /\ star_names_of [(n, m)] = []) ->
                      WFacts top s s' /\
                      (stars_resolve (wt s') top ((n, m) :: ms) ->
                       ex' = ex ++ star_entries (wt s') top ((n, m) :: ms) /\ rm' = rm ++ star_names_of ((n, m) :: ms))).
    { intros s0 Ht0 Hs0 Hd0 Hx0 Hnil. assert (Hk0 : keys_ok (wt s0)) by (rewrite Ht0; auto).
      destruct (IH _ _ _ _ _ _ Hx0 Hk0) as [Hf Hc2]. split.
      - apply (WFacts_trans top s s s0 s'); auto. apply WFacts_refl. auto.
      - intros Hres. destruct (Hnil Hres) as [He Hn]. destruct (Hc2 (stars_resolve_tail _ _ _ Hres)) as [Hex Hrm].
        change ((n, m) :: ms) with ([(n, m)] ++ ms). unfold star_entries, star_names_of in *. rewrite !flat_map_app, He, Hn. simpl. auto. }
    assert (Hcall : forall q s1, rec q s = Done s1 -> mem_path q (wseen s) = false -> forall s2 ex2 rm2,
                      wt s2 = wt s1 -> wseen s2 = wseen s1 -> wdone s2 = wdone s1 ->
                      wloop rec top mp ms ex2 rm2 s2 = Done (ex', rm', s') ->
                      WFacts top s s' /\ In q (wseen s2) /\
                      (forall p, In p (wseen s2) -> get_mod (wt s') p = get_mod (wt s2) p) /\
                      (stars_resolve (wt s') top ms -> ex' = ex2 ++ star_entries (wt s') top ms /\ rm' = rm2 ++ star_names_of ms)).
    { intros q s1 Hr Hseen s2 ex2 rm2 Ht2 Hs2 Hd2 Hx2.
      assert (Hq : ~ In q (wseen s)) by (intros Hin; apply mem_path_In in Hin; congruence).
      destruct (Hrec q s s1 Hr Hq Hk) as [Hf1 Hq1].
      assert (Hk2 : keys_ok (wt s2)) by (rewrite Ht2; apply (wf_keys _ _ _ Hf1)).
      destruct (IH _ _ _ _ _ _ Hx2 Hk2) as [Hf2 Hc2]. split; [eapply WFacts_trans; eauto|]. split; [rewrite Hs2; auto|]. split; auto.
      apply (wf_frame _ _ _ Hf2). }
    destruct m as [k l0| |tgt ln [|]|src inner l0].
    + (* a definition *) apply (Hskip s eq_refl eq_refl eq_refl Hx). intros _. auto.
    + (* a submodule *)
      simpl in Hx. destruct (mem_path (mp ++ [n]) (wseen s)) eqn:Eseen.
      * apply (Hskip s eq_refl eq_refl eq_refl Hx). intros _. auto.
      * destruct (rec (mp ++ [n]) s) as [s1| |] eqn:Er; try discriminate.
        destruct (Hcall _ s1 Er Eseen s1 ex rm eq_refl eq_refl eq_refl Hx) as [Hf [_ [_ Hc2]]]. split; auto.
        intros Hres. destruct (Hc2 (stars_resolve_tail _ _ _ Hres)) as [Hex Hrm]. auto.
    + (* a wildcard import *)
      simpl in Hx. destruct (lookup_path (wt s) top tgt) as [q|amp an am| |] eqn:El.
      * (* the target is a module *)
        assert (Hafter : exists s1, (if mem_path q (wseen s) then Done s else rec q s) = Done s1 /\
                  WFacts top s s1 /\ In q (wseen s1)).
        { destruct (mem_path q (wseen s)) eqn:Eseen.
          - exists s. split; auto. split; [apply WFacts_refl; auto|apply mem_path_In; auto].
          - destruct (rec q s) as [s1| |] eqn:Er; try (exfalso; simpl in Hx; discriminate).
            assert (Hq : ~ In q (wseen s)) by (intros Hin; apply mem_path_In in Hin; congruence).
            destruct (Hrec q s s1 Er Hq Hk) as [Hf1 Hq1]. exists s1. auto. }
        destruct Hafter as [s1 [Ha [Hf1 Hq1]]]. rewrite Ha in Hx.
        assert (Hk1 : keys_ok (wt s1)) by apply (wf_keys _ _ _ Hf1).
        destruct (get_mod (wt s1) q) as [stq|] eqn:Eg.
        -- match type of Hx with wloop _ _ _ _ _ _ ?sx = _ => set (s2 := sx) in Hx end.
           assert (Ht2 : wt s2 = wt s1) by (unfold s2; destruct (_ && _); reflexivity).
           assert (Hs2 : wseen s2 = wseen s1) by (unfold s2; destruct (_ && _); reflexivity).
           assert (Hd2 : wdone s2 = wdone s1) by (unfold s2; destruct (_ && _); reflexivity).
           assert (Hk2 : keys_ok (wt s2)) by (rewrite Ht2; auto).
           destruct (IH _ _ _ _ _ _ Hx Hk2) as [Hf2 Hc2]. split; [eapply WFacts_trans; eauto|].
           intros Hres. destruct (Hc2 (stars_resolve_tail _ _ _ Hres)) as [Hex Hrm].
           destruct (Hres n tgt ln (or_introl eq_refl)) as [q' [stq' [Hl' Hg']]].
           assert (Hb : back (wt s) (wt s')) by (eapply back_trans; [apply (wf_back _ _ _ Hf1)|rewrite <- Ht2; apply (wf_back _ _ _ Hf2)]).
           pose proof (lookup_path_back _ _ top tgt q' Hb Hl') as Hl0. rewrite El in Hl0. inversion Hl0; subst q'.
           assert (Hgq : get_mod (wt s') q = Some stq).
           { rewrite (wf_frame _ _ _ Hf2 q) by (rewrite Hs2; auto). rewrite Ht2. auto. }
           split.
           ++ rewrite Hex. unfold star_entries. simpl flat_map. rewrite Hl', Hgq. rewrite <- app_assoc. reflexivity.
           ++ rewrite Hrm. unfold star_names_of. simpl flat_map. rewrite <- app_assoc. reflexivity.
        -- destruct (IH _ _ _ _ _ _ Hx Hk1) as [Hf2 Hc2]. split; [eapply WFacts_trans; eauto|].
           intros Hres. exfalso. destruct (Hres n tgt ln (or_introl eq_refl)) as [q' [stq' [Hl' Hg']]].
           assert (Hb : back (wt s) (wt s')) by (eapply back_trans; [apply (wf_back _ _ _ Hf1)|apply (wf_back _ _ _ Hf2)]).
           pose proof (lookup_path_back _ _ top tgt q' Hb Hl') as Hl0. rewrite El in Hl0. inversion Hl0; subst q'.
           rewrite (wf_frame _ _ _ Hf2 q Hq1) in Hg'. congruence.
      * (* the target is a member, not a module: the pseudo-member stays; excluded by stars_resolve *)
        destruct (IH _ _ _ _ _ _ Hx Hk) as [Hf2' Hc2].
        assert (Hf2 : WFacts top s s') by (eapply (WFacts_trans top s s _ s' (WFacts_refl top s Hk)); [| | |exact Hf2']; reflexivity).
        split; [exact Hf2|].
        intros Hres. exfalso. destruct (Hres n tgt ln (or_introl eq_refl)) as [q' [stq' [Hl' Hg']]].
        pose proof (lookup_path_back _ _ top tgt q' (wf_back _ _ _ Hf2) Hl') as Hl0. simpl in Hl0. congruence.
      * destruct (IH _ _ _ _ _ _ Hx Hk) as [Hf2 Hc2]. split; auto.
        intros Hres. exfalso. destruct (Hres n tgt ln (or_introl eq_refl)) as [q' [stq' [Hl' Hg']]].
        pose proof (lookup_path_back _ _ top tgt q' (wf_back _ _ _ Hf2) Hl') as Hl0. congruence.
      * destruct (IH _ _ _ _ _ _ Hx Hk) as [Hf2' Hc2].
        assert (Hf2 : WFacts top s s') by (eapply (WFacts_trans top s s _ s' (WFacts_refl top s Hk)); [| | |exact Hf2']; reflexivity).
        split; [exact Hf2|].
        intros Hres. exfalso. destruct (Hres n tgt ln (or_introl eq_refl)) as [q' [stq' [Hl' Hg']]].
        pose proof (lookup_path_back _ _ top tgt q' (wf_back _ _ _ Hf2) Hl') as Hl0. simpl in Hl0. congruence.
    + (* an explicit import *) apply (Hskip s eq_refl eq_refl eq_refl Hx). intros _. auto.
    + (* a member created by an earlier expansion *) apply (Hskip s eq_refl eq_refl eq_refl Hx). intros _. auto.
Qed.

End WLoopSpec.

(* ------------------------------------------------------------------------------------------------------------ *)
(* the traversal                                                                                                 *)
(* ------------------------------------------------------------------------------------------------------------ *)
Lemma expw_spec top : forall fuel, WSpec top (expw fuel top).
Proof.
  induction fuel as [|f IH]; intros mp s s' Hx Hnew Hk; [simpl in Hx; discriminate|].
  rewrite expw_unfold in Hx. cbv zeta in Hx.
  set (s0 := mkW (wt s) (mp :: wseen s) (wdone s) (wpending s) (wunsup s) (wreplaced s) (wambig s)) in *.
  change (wt s0) with (wt s) in Hx.
  assert (Hf0 : WFacts top s s0).
  { split; auto.
    - apply back_refl.
    - intros x Hx0. right. auto.
    - exists []. split; [intros m []|]. split; [reflexivity|]. intros _. reflexivity. }
  destruct (get_mod (wt s) mp) as [st0|] eqn:Eg.
  2:{ inversion Hx; subst s'. split; auto. left. auto. }
  destruct (wloop (expw f top) top mp (members st0) [] [] s0) as [[[ex rm] s1]| |] eqn:El; try discriminate.
  destruct (wloop_spec top (expw f top) IH mp _ _ _ _ _ _ _ El Hk) as [Hf1 Hc2].
  inversion Hx; subst s'. clear Hx. simpl wseen.
  assert (Hmp1 : get_mod (wt s1) mp = Some st0).
  { rewrite (wf_frame _ _ _ Hf1 mp) by (left; auto). exact Eg. }
  set (ms1 := fold_left (fun ms n => remove_key n ms) rm (members st0)).
  set (fl := S (List.length (wt s1) * 8 + 64)).
  set (ms2 := apply_expanded fl (wt s1) top mp ms1 ex).
  assert (Hfl : fl = FLof (wt s)).
  { unfold fl, FLof. rewrite (wf_len _ _ _ Hf1). reflexivity. }
  assert (Hnd0 : NoDup (map fst (members st0))) by (eapply Hk; eauto).
  split; [|apply (wf_incl _ _ _ Hf1); left; auto].
  split; simpl.
  - (* keys *)
    intros q st Hg. unfold set_mod_members in Hg. rewrite Hmp1 in Hg. destruct (path_eqb mp q) eqn:E.
    + apply path_eqb_eq in E. subst q. rewrite (get_set_same _ mp _ st0 Hmp1) in Hg. inversion Hg; subst st. simpl.
      apply apply_expanded_nodup. apply removes_nodup. auto.
    + rewrite get_set_other in Hg by (intros Heq; subst; rewrite path_eqb_refl in E; discriminate).
      eapply (wf_keys _ _ _ Hf1); eauto.
  - (* no new submodule member *)
    eapply back_trans; [apply (wf_back _ _ _ Hf1)|]. apply (set_members_back _ mp ms2 st0 Hmp1).
    intros c Hc. apply apply_expanded_no_new_sub in Hc. eapply removes_lookup_sub; eauto.
  - unfold set_mod_members. rewrite Hmp1. rewrite (set_mod_len _ mp _ st0 Hmp1). apply (wf_len _ _ _ Hf1).
  - intros p Hp. unfold set_mod_members. rewrite Hmp1. rewrite get_set_other by (intros Heq; subst; contradiction).
    apply (wf_frame _ _ _ Hf1). right. auto.
  - intros x Hx0. apply (wf_incl _ _ _ Hf1). right. auto.
  - destruct (wf_order _ _ _ Hf1) as [order1 [Hn1 [Hd1 Ho1]]]. exists (order1 ++ [mp]). split; [|split].
    + intros m Hm. apply in_app_or in Hm. destruct Hm as [Hm|[Hm|[]]].
      * intros Hin. apply (Hn1 m Hm). right. auto.
      * subst m. auto.
    + change (wdone s0) with (wdone s) in Hd1. rewrite Hd1, rev_app_distr. reflexivity.
    + intros Hok. apply ok_run_app in Hok. destruct Hok as [Hok1 [Hmpok _]].
      change (wt s0) with (wt s) in Ho1. rewrite wsteps_app, <- (Ho1 Hok1). rewrite <- (Ho1 Hok1) in Hmpok.
      destruct (Hc2 (Hmpok st0 Hmp1)) as [Hex Hrm]. simpl in Hex, Hrm.
      simpl. unfold sched_wild_step. rewrite Hmp1. unfold ms2, ms1. rewrite Hex, Hrm, Hfl. reflexivity.
Qed.

(* The wildcard phase of griffe.load: every table with one entry per name in each module, every fuel.  The traversal performs exactly
   the schedule's per-module wildcard steps, one per module it enters, in the order in which it completes them -- provided that, when a
   module is completed, each of its wildcard imports names a module of the table (otherwise the traversal leaves the `a/b/*`
   pseudo-member in place, which the schedule does not model). *)
Theorem expw_is_a_schedule fuel top mp s s' :
  expw fuel top mp s = Done s' -> ~ In mp (wseen s) -> keys_ok (wt s) ->
  exists order, (forall m, In m order -> ~ In m (wseen s)) /\ wdone s' = rev order ++ wdone s /\
                (ok_run (S (List.length (wt s) * 8 + 64)) top order (wt s) ->
                 wt s' = fold_left (sched_wild_step (S (List.length (wt s) * 8 + 64)) top) order (wt s)).
Proof.
  intros Hx Hnew Hk. destruct (expw_spec top fuel mp s s' Hx Hnew Hk) as [Hf _]. exact (wf_order _ _ _ Hf).
Qed.

(* both phases of griffe_load *)
Lemma xsteps_keys fl top order : forall t, keys_ok t -> keys_ok (xsteps fl top order t).
Proof.
  intros t Hk q st Hg. pose proof (proj2 (xsteps_same fl top order t) q) as Hm. rewrite Hg in Hm.
  destruct (get_mod t q) as [st0|] eqn:E; simpl in Hm; try discriminate.
  assert (Hm' : members st = members st0) by congruence. rewrite Hm'. eapply Hk; eauto.
Qed.

Lemma visit_stmt_keys mp is_init st s : NoDup (map fst (members st)) -> NoDup (map fst (members (visit_stmt mp is_init st s))).
Proof.
  intros Hn. rewrite visit_members. destruct (bind_of mp is_init s) as [[a v]|]; auto. apply assign_nodup. auto.
Qed.

Lemma visit_fold_keys mp is_init body : forall st0, NoDup (map fst (members st0)) ->
  NoDup (map fst (members (fold_left (visit_stmt mp is_init) body st0))).
Proof. induction body as [|s b IH]; intros st0 Hn; simpl; auto. apply IH. apply visit_stmt_keys. auto. Qed.

Lemma attach_fold_keys cs : forall st0, NoDup (map fst (members st0)) -> NoDup (map fst (members (attach_children st0 cs))).
Proof.
  unfold attach_children. induction cs as [|c cs IH]; intros st0 Hn; simpl; auto. apply IH. simpl. apply assign_nodup. auto.
Qed.

Lemma initial_keys ms : keys_ok (initial_table ms).
Proof.
  intros q st Hg. unfold initial_table in Hg. induction ms as [|m ms IH]; simpl in Hg; try discriminate.
  destruct (path_eqb (ms_path m) q); auto. inversion Hg; subst st. unfold visit_module.
  apply attach_fold_keys. unfold visit_body. apply visit_fold_keys. constructor.
Qed.

(* both phases of griffe_load, with their orders: the modules in the order in which each phase marks them done *)
Theorem load_phases_explicit top ms x w :
  expx (total_fuel ms) top [top] (mkX (initial_table ms) [] false [] [] [] []) = Done x ->
  expw (total_fuel ms) top [top] (mkW (xt x) [] [] [] (xunsup x) [] []) = Done w ->
  let fl := S (List.length ms * 8 + 64) in
  let tx := fold_left (sched_exports_step fl top) (rev (xdone x)) (initial_table ms) in
  xt x = tx /\
  (ok_run fl top (rev (wdone w)) tx -> wt w = fold_left (sched_wild_step fl top) (rev (wdone w)) tx).
Proof.
  intros Ex Ew. simpl. pose proof (load_exports_phase top ms x Ex) as Htx. split; [exact Htx|].
  assert (Hkx : keys_ok (xt x)).
  { rewrite Htx. apply (xsteps_keys (S (List.length ms * 8 + 64)) top (rev (xdone x))). apply initial_keys. }
  destruct (expw_is_a_schedule _ _ _ _ _ Ew) as [order_w [_ [Hd Hw]]]; [intros []|exact Hkx|].
  simpl in Hw, Hd. rewrite app_nil_r in Hd.
  assert (Hlen : List.length (xt x) = List.length ms).
  { rewrite Htx. fold (xsteps (S (List.length ms * 8 + 64)) top (rev (xdone x)) (initial_table ms)).
    rewrite <- (proj1 (xsteps_same (S (List.length ms * 8 + 64)) top (rev (xdone x)) (initial_table ms))). unfold initial_table. apply map_length. }
  rewrite Hd, rev_involutive. rewrite Hlen in Hw. rewrite <- Htx. exact Hw.
Qed.

Theorem load_is_two_schedules top ms l :
  griffe_load top ms = Done l ->
  exists order_x order_w,
    let fl := S (List.length ms * 8 + 64) in
    let tx := fold_left (sched_exports_step fl top) order_x (initial_table ms) in
    (ok_run fl top order_w tx -> l_table l = fold_left (sched_wild_step fl top) order_w tx).
Proof.
  unfold griffe_load. intros Hl.
  destruct (expx (total_fuel ms) top [top] (mkX (initial_table ms) [] false [] [] [] [])) as [x| |] eqn:Ex; try discriminate.
  destruct (expw (total_fuel ms) top [top] (mkW (xt x) [] [] [] (xunsup x) [] [])) as [w| |] eqn:Ew; try discriminate.
  inversion Hl; subst l. simpl. exists (rev (xdone x)), (rev (wdone w)).
  apply (proj2 (load_phases_explicit top ms x w Ex Ew)).
Qed.

(* ---- the side condition is decidable; it holds on the example program of the composition theorem ---- *)
Lemma stars_resolveb_ok t top ms : stars_resolveb t top ms = true -> stars_resolve t top ms.
Proof.
  unfold stars_resolveb. rewrite forallb_forall. intros H n tgt ln Hin. specialize (H _ Hin). simpl in H.
  destruct (lookup_path t top tgt) as [q|amp an am| |] eqn:El; try discriminate. destruct (get_mod t q) as [stq|] eqn:Eg; try discriminate. eauto.
Qed.

Lemma ok_runb_ok fl top order : forall t, ok_runb fl top order t = true -> ok_run fl top order t.
Proof.
  induction order as [|m r IH]; intros t H; simpl in *; auto.
  apply andb_true_iff in H. destruct H as [H1 H2]. split; auto.
  intros st Hg. rewrite Hg in H1. apply stars_resolveb_ok. auto.
Qed.

(* the program of the composition theorem's example: both phases, with their completion orders *)
Definition ox13 : list path := [["q"]; ["q"; "a"]; ["q"; "b"]; ["q"; "s"]; ["q"; "s"; "n"]].
Definition ow13 : list path := [["q"; "a"]; ["q"; "b"]; ["q"; "s"; "n"]; ["q"; "s"]; ["q"]].

Example load_two_schedules_not_vacuous :
  let fl := S (List.length w13 * 8 + 64) in
  let tx := fold_left (sched_exports_step fl "q") ox13 (initial_table w13) in
  ok_run fl "q" ow13 tx /\
  exists l, griffe_load "q" w13 = Done l /\ l_table l = fold_left (sched_wild_step fl "q") ow13 tx.
Proof.
  split.
  - apply ok_runb_ok. vm_compute. reflexivity.
  - eexists. split; vm_compute; reflexivity.
Qed.

Lemma load_phases_decidable top ms x w :
  expx (total_fuel ms) top [top] (mkX (initial_table ms) [] false [] [] [] []) = Done x ->
  expw (total_fuel ms) top [top] (mkW (xt x) [] [] [] (xunsup x) [] []) = Done w ->
  let fl := S (List.length ms * 8 + 64) in
  let tx := fold_left (sched_exports_step fl top) (rev (xdone x)) (initial_table ms) in
  xt x = tx /\
  (ok_runb fl top (rev (wdone w)) tx = true -> wt w = fold_left (sched_wild_step fl top) (rev (wdone w)) tx).
Proof.
  intros Ex Ew. destruct (load_phases_explicit top ms x w Ex Ew) as [H1 H2]. split; [exact H1|].
  intros Hb. apply H2. apply ok_runb_ok. exact Hb.
Qed.
