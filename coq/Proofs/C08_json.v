(* C08 proofs: the JSON round trip of Griffe trees. *)
From Coq Require Import List ZArith String Ascii Bool Arith Lia.
From Verif Require Import Lib.Sexp Gen.C08_tables Model.C08_json.
Import ListNotations.
Open Scope string_scope.
Open Scope list_scope.
Open Scope nat_scope.

(* ------------------------------------------------------------------------------------------------ *)
(* 0. Generic lemmas                                                                                  *)

Lemma mapM_nil {A B} (f : A -> res B) : mapM f [] = Ok [].
Proof. reflexivity. Qed.
Lemma mapM_cons {A B} (f : A -> res B) x r :
  mapM f (x :: r) = bind (f x) (fun y => bind (mapM f r) (fun ys => Ok (y :: ys))).
Proof. reflexivity. Qed.

Lemma mapM_map {A B C} (f : B -> res C) (g : A -> B) (l : list A) :
  mapM f (map g l) = mapM (fun x => f (g x)) l.
Proof. induction l as [|x r IH]; [reflexivity|]. cbn [map]. rewrite !mapM_cons, IH. reflexivity. Qed.

Lemma mapM_ok_in {A B} (f : A -> res B) (h : A -> B) (l : list A) :
  (forall x, In x l -> f x = Ok (h x)) -> mapM f l = Ok (map h l).
Proof.
  induction l as [|x r IH]; intro H; [reflexivity|].
  rewrite mapM_cons, (H x (or_introl eq_refl)). simpl bind. rewrite IH by (intros; apply H; right; assumption). reflexivity.
Qed.

Lemma mapM_ok_forall {A B} (P : A -> Prop) (f : A -> res B) (h : A -> B) (l : list A) :
  Forall P l -> (forall x, P x -> f x = Ok (h x)) -> mapM f l = Ok (map h l).
Proof. intros HF H. apply mapM_ok_in. intros x Hx. apply H. rewrite Forall_forall in HF. auto. Qed.

Lemma mapM_app {A B} (f : A -> res B) (a b : list A) :
  mapM f (a ++ b) = bind (mapM f a) (fun a' => bind (mapM f b) (fun b' => Ok (a' ++ b'))).
Proof.
  induction a as [|x r IH].
  - cbn [app]. rewrite mapM_nil. simpl bind. destruct (mapM f b); reflexivity.
  - cbn [app]. rewrite !mapM_cons. destruct (f x); simpl bind; [|reflexivity]. rewrite IH.
    destruct (mapM f r); simpl bind; [|reflexivity].
    destruct (mapM f b); reflexivity.
Qed.

Lemma mapM_err_in {A B} (f : A -> res B) (l : list A) x e :
  In x l -> f x = Err e -> exists e', mapM f l = Err e'.
Proof.
  induction l as [|y r IH]; [simpl; tauto|]. intros [->|Hin] Hx; rewrite mapM_cons.
  - rewrite Hx. simpl. eauto.
  - destruct (f y); simpl bind; [|eauto]. destruct (IH Hin Hx) as [e' ->]. simpl. eauto.
Qed.

Lemma map_opt'_ok_in {A B} (f : A -> option B) (h : A -> B) (l : list A) :
  (forall x, In x l -> f x = Some (h x)) -> map_opt' f l = Some (map h l).
Proof.
  induction l as [|x r IH]; simpl; intro H; [reflexivity|].
  rewrite (H x (or_introl eq_refl)). rewrite IH by (intros; apply H; right; assumption). reflexivity.
Qed.

Lemma forallb_map {A B} (p : B -> bool) (g : A -> B) (l : list A) :
  forallb p (map g l) = forallb (fun x => p (g x)) l.
Proof. induction l; simpl; congruence. Qed.

Lemma list_eqb_eq a b : list_eqb a b = true -> a = b.
Proof.
  revert b; induction a as [|x a IH]; destruct b as [|y b]; simpl; try discriminate; [reflexivity|].
  intro H. apply andb_true_iff in H as [H1 H2]. apply String.eqb_eq in H1. f_equal; auto.
Qed.
Lemma list_eqb_refl a : list_eqb a a = true.
Proof. induction a; simpl; [reflexivity|]. rewrite String.eqb_refl. assumption. Qed.

Lemma mem_str_in s l : mem_str s l = true <-> In s l.
Proof.
  unfold mem_str. rewrite existsb_exists. split.
  - intros [x [Hin Heq]]. apply String.eqb_eq in Heq. subst. assumption.
  - intro H. exists s. split; [assumption|apply String.eqb_refl].
Qed.
Lemma mem_str_false s l : mem_str s l = false -> ~ In s l.
Proof. intros H Hin. apply mem_str_in in Hin. congruence. Qed.

(* assoc lists *)
Lemma lookup_not_in {A} k (l : list (string * A)) : ~ In k (keys_of l) -> lookup k l = None.
Proof.
  induction l as [|[k' v] r IH]; simpl; [reflexivity|]. intro H.
  destruct (String.eqb_spec k' k); [exfalso; apply H; left; assumption|]. apply IH. tauto.
Qed.
Lemma lookup_app_r {A} k (a b : list (string * A)) : ~ In k (keys_of a) -> lookup k (a ++ b) = lookup k b.
Proof.
  induction a as [|[k' v] r IH]; simpl; [reflexivity|]. intro H.
  destruct (String.eqb_spec k' k); [exfalso; apply H; left; assumption|]. apply IH. tauto.
Qed.
Lemma remove_key_app_last {A} k (a : list (string * A)) v :
  ~ In k (keys_of a) -> remove_key k (a ++ [(k, v)]) = a.
Proof.
  induction a as [|[k' w] r IH]; simpl; intro H.
  - rewrite String.eqb_refl. reflexivity.
  - destruct (String.eqb_spec k' k); [exfalso; apply H; left; assumption|]. rewrite IH by tauto. reflexivity.
Qed.
Lemma keys_map_snd {A B} (g : A -> B) (l : list (string * A)) :
  keys_of (map (fun kv => match kv with (k, v) => (k, g v) end) l) = keys_of l.
Proof. unfold keys_of. induction l as [|[k v] r IH]; simpl; congruence. Qed.
Lemma lookup_in_keys {A} k (l : list (string * A)) : In k (keys_of l) -> has_key k l = true.
Proof.
  unfold has_key. induction l as [|[k' v] r IH]; simpl; [tauto|]. intros [->|H].
  - rewrite String.eqb_refl. reflexivity.
  - destruct (String.eqb k' k); [reflexivity|]. auto.
Qed.
Lemma lookup_some_in {A} k (l : list (string * A)) v : lookup k l = Some v -> In (k, v) l.
Proof.
  induction l as [|[k' w] r IH]; simpl; [discriminate|].
  destruct (String.eqb_spec k' k); [intro H; inversion H; subst; left; reflexivity|]. intro H. right. auto.
Qed.

(* ------------------------------------------------------------------------------------------------ *)
(* 1. Induction principles for the nested types                                                       *)

Section EvInd.
  Variable P : ev -> Prop.
  Hypothesis HNone : P VNone.
  Hypothesis HBool : forall b, P (VBool b).
  Hypothesis HStr : forall s, P (VStr s).
  Hypothesis HEnum : forall s, P (VEnum s).
  Hypothesis HList : forall l, Forall P l -> P (VList l).
  Hypothesis HName : forall n p, P (VName n p).
  Hypothesis HNode : forall c fs, Forall (fun kv => P (snd kv)) fs -> P (VNode c fs).

  Fixpoint ev_ind' (e : ev) : P e :=
    match e with
    | VNone => HNone
    | VBool b => HBool b
    | VStr s => HStr s
    | VEnum s => HEnum s
    | VList l => HList l ((fix go (l : list ev) : Forall P l :=
                             match l with [] => Forall_nil _ | x :: r => Forall_cons x (ev_ind' x) (go r) end) l)
    | VName n p => HName n p
    | VNode c fs => HNode c fs ((fix go (fs : list (string * ev)) : Forall (fun kv => P (snd kv)) fs :=
                                   match fs with
                                   | [] => Forall_nil _
                                   | kv :: r => Forall_cons kv (ev_ind' (snd kv)) (go r)
                                   end) fs)
    end.
End EvInd.

Section TreeInd.
  Variable P : tree -> Prop.
  Hypothesis HAlias : forall n tp ln eln, P (TAlias n tp ln eln).
  Hypothesis HObj : forall n ln eln doc ls ms x, Forall (fun km => P (snd km)) ms -> P (TObj n ln eln doc ls ms x).

  Fixpoint tree_ind' (t : tree) : P t :=
    match t with
    | TAlias n tp ln eln => HAlias n tp ln eln
    | TObj n ln eln doc ls ms x =>
        HObj n ln eln doc ls ms x
             ((fix go (ms : list (string * tree)) : Forall (fun km => P (snd km)) ms :=
                 match ms with
                 | [] => Forall_nil _
                 | km :: r => Forall_cons km (tree_ind' (snd km)) (go r)
                 end) ms)
    end.
End TreeInd.

(* ------------------------------------------------------------------------------------------------ *)
(* 2. Decoder unfolding                                                                               *)

Definition dec_kv (kv : string * json) : res (string * pv) :=
  match kv with (k, v) => bind (decode v) (fun v' => Ok (k, v')) end.

Lemma decode_obj kvs : decode (JObj kvs) = bind (mapM dec_kv kvs) hook.
Proof. reflexivity. Qed.
Lemma decode_arr l : decode (JArr l) = bind (mapM decode l) (fun l' => Ok (PList l')).
Proof. reflexivity. Qed.

(* ------------------------------------------------------------------------------------------------ *)
(* 3. Expressions                                                                                     *)

Lemma reload_is_name v : is_name (reload_ev v) = is_name v.
Proof. destruct v; simpl; try reflexivity. destruct (String.eqb cls "ExprAttribute"); reflexivity. Qed.

(* a decoded, reloaded expression is again the content of an expression field *)
Lemma as_of_reload : forall e, as_ev (of_ev (reload_ev e)) = Some (reload_ev e).
Proof.
  induction e using ev_ind'; simpl; try reflexivity.
  - (* list *)
    rewrite map_map.
    assert (Hm : map_opt' as_ev (map (fun x => of_ev (reload_ev x)) l) = Some (map reload_ev l)).
    { induction l as [|x r IH]; simpl; [reflexivity|]. inversion H; subst.
      rewrite H2. rewrite IH by assumption. reflexivity. }
    change (fix go (l0 : list pv) : option (list ev) := match l0 with
            | [] => Some [] | x :: r => match as_ev x with
                                        | Some y => match go r with Some ys => Some (y :: ys) | None => None end
                                        | None => None end end) with (map_opt' as_ev).
    rewrite Hm. reflexivity.
  - destruct (String.eqb c "ExprAttribute"); reflexivity.
Qed.

Lemma ev_res_of_reload e : ev_res (of_ev (reload_ev e)) = Ok (reload_ev e).
Proof. unfold ev_res. rewrite as_of_reload. reflexivity. Qed.

(* the chain re-linking of _load_expression succeeds on what the builders produce *)
Lemma forallb_tl {A} (p : A -> bool) l : forallb p l = true -> forallb p (tl l) = true.
Proof. destruct l; simpl; [auto|]. intro H. apply andb_true_iff in H. tauto. Qed.

Lemma relink_chain_total : forall (l : list ev) (prev : bool),
  forallb is_name (if prev then l else tl l) = true -> relink_chain prev l = Ok (relink_chain_t prev l).
Proof.
  induction l as [|v r IH]; intros prev H; simpl; [reflexivity|].
  destruct prev; simpl in *.
  - apply andb_true_iff in H as [Hv Hr]. destruct v; simpl in Hv; try discriminate. simpl.
    rewrite (IH true) by assumption. reflexivity.
  - rewrite (IH (is_name v)); [reflexivity|]. destruct (is_name v); [assumption|apply forallb_tl; assumption].
Qed.

(* facts about the regenerated class table, checked by computation *)
Lemma table_parent_optional :
  forallb (fun c => forallb (fun fd => negb (String.eqb (fst fd) "parent") || negb (is_required (snd fd))) (snd c)) expr_classes = true.
Proof. vm_compute. reflexivity. Qed.

Lemma table_fields_distinct : forallb (fun c => distinct (keys_of (snd c))) expr_classes = true.
Proof. vm_compute. reflexivity. Qed.

Lemma distinct_cons x l : distinct (x :: l) = true -> ~ In x l /\ distinct l = true.
Proof. simpl. intro H. apply andb_true_iff in H as [H1 H2]. split; [|assumption]. apply mem_str_false. destruct (mem_str x l); [discriminate|reflexivity]. Qed.

(* filling the constructor from a document that gives exactly the dumped fields, in dump order, changes nothing *)
Lemma fill_fields_id : forall (spec : list (string * c08_default)) (fs : list (string * ev)),
  distinct (keys_of spec) = true ->
  keys_of fs = filter (fun k => negb (String.eqb k "parent")) (keys_of spec) ->
  filter (fun kv => negb (String.eqb (fst kv) "parent"))
         (map (fun fd => (fst fd, match lookup (fst fd) fs with Some v => v | None => default_ev (snd fd) end)) spec) = fs.
Proof.
  induction spec as [|[f d] spec IH]; intros fs Hd Hk.
  - destruct fs; [reflexivity|discriminate].
  - cbn [keys_of map fst] in Hd. apply distinct_cons in Hd as [Hnin Hd]. cbn [keys_of map fst filter] in Hk. cbn [map filter fst snd].
    destruct (negb (String.eqb f "parent")) eqn:Enp.
    + destruct fs as [|[k v] fs']; [discriminate|]. cbn [keys_of map fst] in Hk. inversion Hk as [[Hkf Hk']]. subst k.
      cbn [lookup]. rewrite String.eqb_refl. f_equal.
      etransitivity; [|exact (IH fs' Hd Hk')]. f_equal. apply map_ext_in. intros [f' d'] Hin. cbn [fst snd lookup].
      destruct (String.eqb_spec f f') as [->|Hne]; [|reflexivity].
      exfalso. apply Hnin. unfold keys_of. apply in_map_iff. exists (f', d'). auto.
    + apply IH; assumption.
Qed.

Lemma class_fields_in c spec : class_fields c = Some spec -> In (c, spec) expr_classes.
Proof. unfold class_fields. apply lookup_some_in. Qed.

Definition nonparent (k : string) : bool := negb (String.eqb k "parent").

Lemma spec_check_given (spec : list (string * c08_default)) (given : list (string * pv)) :
  keys_of given = filter nonparent (keys_of spec) ->
  forallb (fun kv => has_key (fst kv) spec) given = true.
Proof.
  intro Hk. apply forallb_forall. intros [k v] Hin. simpl.
  apply lookup_in_keys.
  assert (In k (keys_of given)) by (unfold keys_of; apply in_map_iff; exists (k, v); auto).
  rewrite Hk in H. apply filter_In in H. tauto.
Qed.

Lemma spec_check_required c (spec : list (string * c08_default)) (given : list (string * pv)) :
  class_fields c = Some spec ->
  keys_of given = filter nonparent (keys_of spec) ->
  forallb (fun fd => negb (is_required (snd fd)) || has_key (fst fd) given) spec = true.
Proof.
  intros Hc Hk. apply forallb_forall. intros [f d] Hin. simpl.
  pose proof table_parent_optional as HT. rewrite forallb_forall in HT.
  specialize (HT _ (class_fields_in _ _ Hc)). simpl in HT. rewrite forallb_forall in HT.
  specialize (HT _ Hin). simpl in HT.
  destruct (String.eqb_spec f "parent") as [->|Hne].
  - simpl in HT. rewrite HT. reflexivity.
  - apply orb_true_iff. right. apply lookup_in_keys. rewrite Hk. apply filter_In. split.
    + unfold keys_of. apply in_map_iff. exists (f, d). auto.
    + unfold nonparent. destruct (String.eqb_spec f "parent"); [contradiction|reflexivity].
Qed.

Lemma filter_nonparent_id (l : list (string * ev)) :
  forallb nonparent (keys_of l) = true -> filter (fun kv => negb (String.eqb (fst kv) "parent")) l = l.
Proof.
  induction l as [|[k v] r IH]; simpl; [reflexivity|]. intro H. apply andb_true_iff in H as [H1 H2].
  unfold nonparent in H1. rewrite H1. rewrite IH by assumption. reflexivity.
Qed.
Lemma forallb_filter_self {A} (p : A -> bool) l : forallb p (filter p l) = true.
Proof. induction l as [|x r IH]; simpl; [reflexivity|]. destruct (p x) eqn:E; simpl; [rewrite E|]; assumption. Qed.

Definition encf (kv : string * ev) : string * json := match kv with (k, v) => (k, enc_ev v) end.
Definition relf (kv : string * ev) : string * ev := match kv with (k, v) => (k, reload_ev v) end.

Lemma wf_ev_node c fs :
  wf_ev (VNode c fs) = true ->
  String.eqb c "ExprName" = false /\
  (exists spec, class_fields c = Some spec /\ keys_of fs = filter nonparent (keys_of spec)) /\
  ~ In "cls" (keys_of fs) /\
  (String.eqb c "ExprAttribute" = true -> attr_values_ok fs = true) /\
  Forall (fun kv => wf_ev (snd kv) = true) fs.
Proof.
  intro H. cbn [wf_ev] in H.
  apply andb_true_iff in H as [H HE]. apply andb_true_iff in H as [H HD].
  apply andb_true_iff in H as [H HC]. apply andb_true_iff in H as [HA HB].
  split; [destruct (String.eqb c "ExprName"); [discriminate|reflexivity]|].
  split.
  { unfold dumped_fields in HB. destruct (class_fields c) as [spec|]; [|discriminate].
    exists spec. split; [reflexivity|]. apply list_eqb_eq in HB. exact HB. }
  split; [apply mem_str_false; destruct (mem_str "cls" (keys_of fs)); [discriminate|reflexivity]|].
  split; [intro Hc; rewrite Hc in HD; simpl in HD; exact HD|].
  apply Forall_forall. intros [k v] Hin. rewrite forallb_forall in HE. exact (HE _ Hin).
Qed.

Lemma attr_values_ok_inv fs :
  attr_values_ok fs = true -> exists first r, fs = [("values", VList (first :: r))] /\ forallb is_name r = true.
Proof.
  unfold attr_values_ok. destruct fs as [|[k v] rest]; [discriminate|].
  destruct v; try (destruct rest; discriminate).
  destruct l as [|first r]; [destruct rest; discriminate|].
  destruct rest; [|discriminate]. intro H. apply andb_true_iff in H as [Hk Hr].
  apply String.eqb_eq in Hk. subst. eauto.
Qed.

(* Main lemma for expressions: what was encoded decodes to the reloaded expression. *)
Lemma expr_roundtrip : forall e, wf_ev e = true -> decode (enc_ev e) = Ok (of_ev (reload_ev e)).
Proof.
  induction e using ev_ind'; intro Hwf; try reflexivity.
  - (* list *)
    simpl in Hwf. rewrite forallb_forall in Hwf.
    cbn [enc_ev]. rewrite decode_arr, mapM_map.
    rewrite (mapM_ok_in _ (fun x => of_ev (reload_ev x))).
    + simpl. rewrite map_map. reflexivity.
    + intros x Hx. rewrite Forall_forall in H. apply H; auto.
  - (* node *)
    destruct (wf_ev_node _ _ Hwf) as (Hname & (spec & Hspec & Hkeys) & Hcls & Hattr & Hch).
    cbn [enc_ev]. rewrite decode_obj.
    change (map (fun kv : string * ev => let (k, v) := kv in (k, enc_ev v)) fs) with (map encf fs).
    rewrite mapM_app, mapM_map.
    set (dfs := map (fun kv : string * ev => (fst kv, of_ev (reload_ev (snd kv)))) fs).
    assert (Hd : mapM (fun x => dec_kv (encf x)) fs = Ok dfs).
    { apply mapM_ok_in. intros [k v] Hin. simpl.
      rewrite Forall_forall in H. rewrite Forall_forall in Hch.
      pose proof (H _ Hin (Hch _ Hin)) as Hx. simpl in Hx. rewrite Hx. reflexivity. }
    rewrite Hd. simpl bind.
    assert (Hkd : keys_of dfs = keys_of fs).
    { unfold dfs, keys_of. rewrite map_map. reflexivity. }
    (* hook *)
    unfold hook.
    assert (Hhas : has_key "cls" (dfs ++ [("cls", PStr c)]) = true).
    { unfold has_key. rewrite lookup_app_r by (rewrite Hkd; assumption). simpl. reflexivity. }
    rewrite Hhas. unfold load_expression.
    rewrite lookup_app_r by (rewrite Hkd; assumption). cbn [lookup String.eqb Ascii.eqb Bool.eqb].
    simpl lookup. rewrite remove_key_app_last by (rewrite Hkd; assumption).
    rewrite Hspec.
    rewrite spec_check_given by (rewrite Hkd; assumption).
    rewrite (spec_check_required c) by (try rewrite Hkd; assumption).
    cbn [negb].
    assert (Hfs : mapM (fun kv : string * pv => bind (ev_res (snd kv)) (fun e => Ok (fst kv, e))) dfs = Ok (map relf fs)).
    { unfold dfs. rewrite mapM_map. apply mapM_ok_in. intros [k v] _. simpl. rewrite ev_res_of_reload. reflexivity. }
    rewrite Hfs. simpl bind.
    assert (Hkr : keys_of (map relf fs) = keys_of fs).
    { unfold keys_of. rewrite map_map. apply map_ext. intros [k v]; reflexivity. }
    rewrite Hname.
    assert (Hdist : distinct (keys_of spec) = true).
    { pose proof table_fields_distinct as HT. rewrite forallb_forall in HT. exact (HT _ (class_fields_in _ _ Hspec)). }
    rewrite (fill_fields_id spec (map relf fs) Hdist) by (rewrite Hkr; exact Hkeys).
    cbn [reload_ev]. change (map (fun kv : string * ev => let (k, v) := kv in (k, reload_ev v)) fs) with (map relf fs).
    destruct (String.eqb c "ExprAttribute") eqn:Eattr; [|reflexivity].
    (* ExprAttribute: the chain is re-linked *)
    destruct (attr_values_ok_inv _ (Hattr eq_refl)) as (first & r & -> & Hr).
    cbn [map relf reload_ev relink_fields mapM String.eqb Ascii.eqb Bool.eqb].
    simpl.
    assert (Hchain : relink_chain (is_name (reload_ev first)) (map reload_ev r)
                     = Ok (relink_chain_t (is_name (reload_ev first)) (map reload_ev r))).
    { apply relink_chain_total.
      assert (Hn : forallb is_name (map reload_ev r) = true).
      { rewrite forallb_map. rewrite forallb_forall in Hr. apply forallb_forall. intros x Hx. rewrite reload_is_name. auto. }
      destruct (is_name (reload_ev first)); [assumption|apply forallb_tl; assumption]. }
    rewrite Hchain. reflexivity.
Qed.

(* re-encoding ignores parent links and the enum/str distinction *)
Lemma relink_chain_t_enc : forall (l : list ev) (prev : bool), map enc_ev (relink_chain_t prev l) = map enc_ev l.
Proof.
  induction l as [|v r IH]; intro prev; simpl; [reflexivity|]. rewrite IH. f_equal.
  destruct prev; [|reflexivity]. destruct v; reflexivity.
Qed.

Lemma enc_reload_ev : forall e, enc_ev (reload_ev e) = enc_ev e.
Proof.
  induction e using ev_ind'; try reflexivity.
  - simpl. f_equal. rewrite map_map. apply map_ext_in. intros x Hx. rewrite Forall_forall in H. auto.
  - assert (Hm : map encf (map relf fs) = map encf fs).
    { rewrite map_map. apply map_ext_in. intros [k v] Hin. simpl. rewrite Forall_forall in H.
      pose proof (H _ Hin) as Hx. simpl in Hx. rewrite Hx. reflexivity. }
    cbn [reload_ev]. change (map (fun kv : string * ev => let (k, v) := kv in (k, reload_ev v)) fs) with (map relf fs).
    destruct (String.eqb c "ExprAttribute").
    + cbn [enc_ev]. f_equal. f_equal.
      change (map (fun kv : string * ev => let (k, v) := kv in (k, enc_ev v)) fs) with (map encf fs).
      rewrite <- Hm.
      change (fun kv : string * ev => let (k, v) := kv in (k, enc_ev v)) with encf.
      rewrite map_map. apply map_ext. intros [k v]. simpl.
      destruct (String.eqb k "values"); [|reflexivity]. destruct v; try reflexivity.
      simpl. rewrite relink_chain_t_enc. reflexivity.
    + cbn [enc_ev]. f_equal. f_equal. exact Hm.
Qed.

Lemma enc_set_scope e : enc_ev (set_scope e) = enc_ev e.
Proof.
  destruct e; try reflexivity. simpl. destruct (String.eqb cls "ExprAttribute"); [|reflexivity].
  simpl. f_equal. f_equal. rewrite map_map. apply map_ext. intros [k v].
  destruct (String.eqb k "values"); [|reflexivity]. destruct v; try reflexivity.
  destruct l as [|x r]; [reflexivity|]. destruct x; reflexivity.
Qed.

Lemma enc_attach_lambda_param p : enc_ev (attach_lambda_param p) = enc_ev p.
Proof.
  destruct p; try reflexivity. simpl.
  destruct (match field_str "kind" fs with Some k => (String.eqb k pk_var_positional || String.eqb k pk_var_keyword)%bool | None => false end);
    [reflexivity|].
  simpl. f_equal. f_equal. rewrite map_map. apply map_ext. intros [k v].
  destruct (String.eqb k "default"); [rewrite enc_set_scope|]; reflexivity.
Qed.

Lemma enc_attach_field c k v : enc_ev (attach_field c k v) = enc_ev v.
Proof.
  unfold attach_field.
  destruct (String.eqb c "ExprParameter" || (String.eqb c "ExprKeyword" && String.eqb k "function"))%bool; [reflexivity|].
  destruct (String.eqb c "ExprLambda" && String.eqb k "parameters")%bool.
  - destruct v; try reflexivity. simpl. f_equal. rewrite map_map. apply map_ext. intro. apply enc_attach_lambda_param.
  - destruct v; try apply enc_set_scope. simpl. f_equal. rewrite map_map. apply map_ext. intro. apply enc_set_scope.
Qed.

Lemma enc_attach_top e : enc_ev (attach_top e) = enc_ev e.
Proof.
  destruct e; try reflexivity. simpl. f_equal. f_equal. rewrite map_map. apply map_ext. intros [k v].
  rewrite enc_attach_field. reflexivity.
Qed.

(* ------------------------------------------------------------------------------------------------ *)
(* 4. Pieces of an object: docstrings, decorators, parameters, labels                                 *)

Lemma wf_slot_ev e : wf_slot e = true -> wf_ev e = true.
Proof. destruct e; simpl; auto; discriminate. Qed.

Lemma slot_roundtrip e : wf_slot e = true -> decode (enc_ev e) = Ok (of_ev (reload_ev e)).
Proof. intro H. apply expr_roundtrip, wf_slot_ev, H. Qed.

Definition pnum (o : option Z) : pv := match o with Some z => PNum z | None => PNull end.
Definition ddoc (d : docstring) : pv :=
  PDict [("value", PStr (d_value d)); ("lineno", pnum (d_lineno d)); ("endlineno", pnum (d_endlineno d))].
Definition ddeco (d : decorator) : pv :=
  PDict [("value", of_ev (reload_ev (dc_value d))); ("lineno", pnum (dc_lineno d)); ("endlineno", pnum (dc_endlineno d))].

Lemma dec_doc d : decode (enc_doc d) = Ok (ddoc d).
Proof. destruct d as [v [l|] [e|]]; reflexivity. Qed.

Lemma dec_deco d : wf_deco d = true -> decode (enc_deco d) = Ok (ddeco d).
Proof.
  destruct d as [v l e]. unfold wf_deco, enc_deco, ddeco. cbn [dc_value dc_lineno dc_endlineno]. intro H.
  rewrite decode_obj. rewrite !mapM_cons, mapM_nil. cbn [dec_kv].
  rewrite (slot_roundtrip _ H). destruct l, e; reflexivity.
Qed.

Lemma load_doc_value d :
  (let dd := [("value", PStr (d_value d)); ("lineno", pnum (d_lineno d)); ("endlineno", pnum (d_endlineno d))] in
   if negb (forallb (fun kv => has_key (fst kv) docstring_init) dd) then Err EType
   else if negb (forallb (fun pr => negb (snd pr) || has_key (fst pr) dd) docstring_init) then Err EType
   else if has_key "parent" dd || has_key "parser" dd || has_key "parser_options" dd then Err EUnmodelled
   else bind (getitem "value" dd) (fun v => bind (as_string v) (fun s =>
        bind (as_optnum (lookup "lineno" dd)) (fun ln => bind (as_optnum (lookup "endlineno" dd)) (fun eln =>
        Ok (Some (mkDoc (clean s) ln eln)))))))
  = Ok (Some (reload_doc d)).
Proof. destruct d as [v [l|] [e|]]; reflexivity. Qed.

Lemma load_decorator_ok d : load_decorator (ddeco d) = Ok (reload_deco d).
Proof.
  destruct d as [v l e]. unfold ddeco, load_decorator, reload_deco. cbn [dc_value dc_lineno dc_endlineno].
  cbn [forallb has_key lookup fst snd decorator_init String.eqb Ascii.eqb Bool.eqb negb orb andb getitem of_option bind].
  rewrite ev_res_of_reload. destruct l, e; reflexivity.
Qed.

Lemma dec_labels ls : decode (JArr (map JStr ls)) = Ok (PList (map PStr ls)).
Proof.
  rewrite decode_arr, mapM_map. rewrite (mapM_ok_in _ PStr) by reflexivity. reflexivity.
Qed.

Lemma mapM_as_string ls : mapM as_string (map PStr ls) = Ok ls.
Proof. rewrite mapM_map. rewrite (mapM_ok_in _ (fun x => x)) by reflexivity. rewrite map_id. reflexivity. Qed.

Lemma dec_ev_list l :
  forallb wf_slot l = true -> decode (JArr (map enc_ev l)) = Ok (PList (map (fun e => of_ev (reload_ev e)) l)).
Proof.
  intro H. rewrite decode_arr, mapM_map. rewrite forallb_forall in H.
  rewrite (mapM_ok_in _ (fun e => of_ev (reload_ev e))); [reflexivity|]. intros x Hx. apply slot_roundtrip; auto.
Qed.

Lemma dec_deco_list l :
  forallb wf_deco l = true -> decode (JArr (map enc_deco l)) = Ok (PList (map ddeco l)).
Proof.
  intro H. rewrite decode_arr, mapM_map. rewrite forallb_forall in H.
  rewrite (mapM_ok_in _ ddeco); [reflexivity|]. intros x Hx. apply dec_deco; auto.
Qed.

Lemma load_decorator_list l : mapM load_decorator (map ddeco l) = Ok (map reload_deco l).
Proof. rewrite mapM_map. apply mapM_ok_in. intros. apply load_decorator_ok. Qed.

Lemma as_ev_list_ok l : as_ev_list (PList (map (fun e => of_ev (reload_ev e)) l)) = Ok (map reload_ev l).
Proof. unfold as_ev_list. rewrite mapM_map. apply mapM_ok_in. intros. apply ev_res_of_reload. Qed.

(* parameters: the five kind strings are not object kinds, so the hook falls through to _load_parameter *)
Lemma pk_not_kind k :
  mem_str k parameter_kind_values = true ->
  String.eqb k kind_module = false /\ String.eqb k kind_class = false /\ String.eqb k kind_function = false /\
  String.eqb k kind_attribute = false /\ String.eqb k kind_alias = false.
Proof.
  intro H. apply mem_str_in in H. simpl in H.
  repeat (destruct H as [H|H]; [subst k; repeat split; reflexivity|]). contradiction.
Qed.

Lemma dec_param p : wf_param p = true -> decode (enc_param p) = Ok (PParam (reload_param p)).
Proof.
  destruct p as [n a k df doc]. unfold wf_param. cbn [p_annotation p_default p_kind].
  intro H. apply andb_true_iff in H as [H Hk]. apply andb_true_iff in H as [Ha Hd].
  destruct k as [k|]; [|discriminate].
  destruct (pk_not_kind _ Hk) as (K1 & K2 & K3 & K4 & K5).
  unfold enc_param. cbn [p_name p_annotation p_default p_kind p_doc].
  rewrite decode_obj.
  assert (Hm : mapM dec_kv ([("name", JStr n); ("annotation", enc_ev a); ("kind", enc_optstr (Some k)); ("default", enc_ev df)]
                            ++ match doc with Some d => [("docstring", enc_doc d)] | None => [] end)
               = Ok ([("name", PStr n); ("annotation", of_ev (reload_ev a)); ("kind", PStr k); ("default", of_ev (reload_ev df))]
                     ++ match doc with Some d => [("docstring", ddoc d)] | None => [] end)).
  { rewrite mapM_app. rewrite !mapM_cons, mapM_nil. cbn [dec_kv].
    rewrite (slot_roundtrip _ Ha), (slot_roundtrip _ Hd). simpl decode. simpl bind.
    destruct doc as [d|]; [|reflexivity]. rewrite mapM_cons, mapM_nil. cbn [dec_kv]. rewrite dec_doc. reflexivity. }
  rewrite Hm. simpl bind.
  unfold hook, reload_param. cbn [p_name p_annotation p_default p_kind p_doc].
  destruct doc as [d|].
  - cbn [app has_key lookup String.eqb Ascii.eqb Bool.eqb]. rewrite K1, K2, K3, K4, K5.
    unfold load_parameter. cbn [getitem lookup of_option String.eqb Ascii.eqb Bool.eqb bind]. rewrite Hk.
    cbn [bind]. unfold load_docstring. cbn [lookup String.eqb Ascii.eqb Bool.eqb]. unfold ddoc.
    rewrite load_doc_value. cbn [bind as_string]. rewrite !ev_res_of_reload. reflexivity.
  - cbn [app has_key lookup String.eqb Ascii.eqb Bool.eqb]. rewrite K1, K2, K3, K4, K5.
    unfold load_parameter. cbn [getitem lookup of_option String.eqb Ascii.eqb Bool.eqb bind]. rewrite Hk.
    cbn [bind]. unfold load_docstring. cbn [lookup String.eqb Ascii.eqb Bool.eqb bind as_string].
    rewrite !ev_res_of_reload. reflexivity.
Qed.

Lemma dec_param_list l :
  forallb wf_param l = true -> decode (JArr (map enc_param l)) = Ok (PList (map (fun p => PParam (reload_param p)) l)).
Proof.
  intro H. rewrite decode_arr, mapM_map. rewrite forallb_forall in H.
  rewrite (mapM_ok_in _ (fun p => PParam (reload_param p))); [reflexivity|]. intros x Hx. apply dec_param; auto.
Qed.

(* ------------------------------------------------------------------------------------------------ *)
(* 5. The dict an object's JSON decodes to before the hook is applied, and its accessors             *)

Definition p_opt (k : string) (o : option Z) : list (string * pv) := match o with Some z => [(k, PNum z)] | None => [] end.
Definition p_docf (doc : option docstring) : list (string * pv) := match doc with Some d => [("docstring", ddoc d)] | None => [] end.
Definition dmembers (ms : list (string * tree)) : list (string * pv) :=
  map (fun km => match km with (k, m) => (k, PTree (reload m)) end) ms.
Definition pev (k : string) (e : ev) : list (string * pv) := if is_vnone e then [] else [(k, of_ev (reload_ev e))].
Definition dfpath (fp : fpath) : pv := match fp with FPNone => PNull | FPStr s => PStr s | FPList l => PList (map PStr l) end.
Definition dextra (x : extra) : list (string * pv) :=
  match x with
  | XModule fp => [("filepath", dfpath fp)]
  | XClass bases decos => [("bases", PList (map (fun e => of_ev (reload_ev e)) bases)); ("decorators", PList (map ddeco decos))]
  | XFunction decos params ret =>
      [("decorators", PList (map ddeco decos)); ("parameters", PList (map (fun p => PParam (reload_param p)) params));
       ("returns", of_ev (reload_ev ret))]
  | XAttribute v a => pev "value" v ++ pev "annotation" a
  end.
Definition dobj n ln eln doc (ls : list string) ms x : list (string * pv) :=
  [("kind", PStr (kind_of x)); ("name", PStr n)] ++ p_opt "lineno" ln ++ p_opt "endlineno" eln ++ p_docf doc
  ++ [("labels", PList (map PStr ls)); ("members", PDict (dmembers ms))] ++ dextra x.

Ltac obj_cases ln eln doc x :=
  destruct ln, eln, doc, x; unfold dextra, pev;
  repeat match goal with |- context [is_vnone ?v] => destruct (is_vnone v) end;
  reflexivity.

Lemma dobj_kind n ln eln doc ls ms x : lookup "kind" (dobj n ln eln doc ls ms x) = Some (PStr (kind_of x)).
Proof. reflexivity. Qed.
Lemma dobj_name n ln eln doc ls ms x : lookup "name" (dobj n ln eln doc ls ms x) = Some (PStr n).
Proof. reflexivity. Qed.
Lemma dobj_cls n ln eln doc ls ms x : has_key "cls" (dobj n ln eln doc ls ms x) = false.
Proof. unfold dobj. obj_cases ln eln doc x. Qed.
Lemma dobj_lineno n ln eln doc ls ms x : lookup "lineno" (dobj n ln eln doc ls ms x) = option_map PNum ln.
Proof. unfold dobj. obj_cases ln eln doc x. Qed.
Lemma dobj_endlineno n ln eln doc ls ms x : lookup "endlineno" (dobj n ln eln doc ls ms x) = option_map PNum eln.
Proof. unfold dobj. obj_cases ln eln doc x. Qed.
Lemma dobj_docstring n ln eln doc ls ms x : lookup "docstring" (dobj n ln eln doc ls ms x) = option_map ddoc doc.
Proof. unfold dobj. obj_cases ln eln doc x. Qed.
Lemma dobj_labels n ln eln doc ls ms x : lookup "labels" (dobj n ln eln doc ls ms x) = Some (PList (map PStr ls)).
Proof. unfold dobj. obj_cases ln eln doc x. Qed.
Lemma dobj_members n ln eln doc ls ms x : lookup "members" (dobj n ln eln doc ls ms x) = Some (PDict (dmembers ms)).
Proof. unfold dobj. obj_cases ln eln doc x. Qed.

Definition extra_key (k : string) : bool :=
  mem_str k ["filepath"; "bases"; "decorators"; "parameters"; "returns"; "value"; "annotation"].
Lemma dobj_extra k n ln eln doc ls ms x :
  extra_key k = true -> lookup k (dobj n ln eln doc ls ms x) = lookup k (dextra x).
Proof.
  intro H. apply mem_str_in in H. simpl in H.
  repeat (destruct H as [H|H]; [subst k; unfold dobj; destruct ln, eln, doc; reflexivity|]). contradiction.
Qed.

Lemma load_docstring_dobj n ln eln doc ls ms x :
  load_docstring (dobj n ln eln doc ls ms x) = Ok (option_map reload_doc doc).
Proof.
  unfold load_docstring. rewrite dobj_docstring. destruct doc as [d|]; [|reflexivity].
  simpl option_map. unfold ddoc. apply load_doc_value.
Qed.

Lemma load_labels_dobj n ln eln doc ls ms x :
  load_labels (dobj n ln eln doc ls ms x) = Ok (canon_labels ls).
Proof. unfold load_labels. rewrite dobj_labels, mapM_as_string. reflexivity. Qed.

Lemma tree_name_reload m : tree_name (reload m) = tree_name m.
Proof. destruct m; reflexivity. Qed.
Lemma tree_name_attach m : tree_name (attach_tree m) = tree_name m.
Proof. destruct m; reflexivity. Qed.

Definition members_ok (ms : list (string * tree)) : Prop :=
  Forall (fun km => fst km = tree_name (snd km) /\ plain_name (fst km) = true) ms /\ distinct (keys_of ms) = true.

Lemma load_members_dobj n ln eln doc ls ms x :
  members_ok ms ->
  load_members (dobj n ln eln doc ls ms x)
  = Ok (map (fun km => match km with (_, m) => (tree_name m, attach_tree (reload m)) end) ms).
Proof.
  intros [Hk Hd]. unfold load_members. rewrite dobj_members. cbn [bind].
  assert (Hs : map snd (dmembers ms) = map (fun km => PTree (reload (snd km))) ms).
  { unfold dmembers. rewrite map_map. apply map_ext. intros [k m]. reflexivity. }
  rewrite Hs, mapM_map.
  rewrite (mapM_ok_in _ (fun km => reload (snd km))) by reflexivity. cbn [bind].
  assert (Hn : map tree_name (map (fun km => reload (snd km)) ms) = keys_of ms).
  { unfold keys_of. rewrite map_map. apply map_ext_in. intros [k m] Hin. simpl. rewrite tree_name_reload.
    rewrite Forall_forall in Hk. destruct (Hk _ Hin) as [E _]. simpl in E. symmetry. exact E. }
  rewrite Hn, Hd.
  assert (Hp : forallb plain_name (keys_of ms) = true).
  { apply forallb_forall. intros k Hin. unfold keys_of in Hin. apply in_map_iff in Hin as [[k' m] [E Hin]]. simpl in E. subst k'.
    rewrite Forall_forall in Hk. destruct (Hk _ Hin) as [_ P]. exact P. }
  rewrite Hp. cbn [andb]. f_equal. rewrite map_map. apply map_ext. intros [k m]. simpl. rewrite tree_name_reload. reflexivity.
Qed.

(* ------------------------------------------------------------------------------------------------ *)
(* 6. Decoding the fields of an encoded object                                                        *)

Lemma mapM_app_ok {A B} (f : A -> res B) a b a' b' :
  mapM f a = Ok a' -> mapM f b = Ok b' -> mapM f (a ++ b) = Ok (a' ++ b').
Proof. intros Ha Hb. rewrite mapM_app, Ha, Hb. reflexivity. Qed.

Lemma dec_opt_field k o : mapM dec_kv (opt_field k o) = Ok (p_opt k o).
Proof. destruct o; reflexivity. Qed.
Lemma dec_docfield doc : mapM dec_kv (enc_docfield doc) = Ok (p_docf doc).
Proof. destruct doc as [d|]; [|reflexivity]. simpl enc_docfield. rewrite mapM_cons, mapM_nil. cbn [dec_kv]. rewrite dec_doc. reflexivity. Qed.

Lemma dec_ev_field k e : wf_slot e = true -> mapM dec_kv (enc_ev_field k e) = Ok (pev k e).
Proof.
  intro H. unfold enc_ev_field, pev. destruct (is_vnone e); [reflexivity|].
  rewrite mapM_cons, mapM_nil. cbn [dec_kv]. rewrite (slot_roundtrip _ H). reflexivity.
Qed.

Lemma dec_fpath fp : decode (enc_fpath fp) = Ok (dfpath fp).
Proof. destruct fp; try reflexivity. simpl. apply dec_labels. Qed.

Lemma dec_extra x : wf_extra x = true -> mapM dec_kv (enc_extra x) = Ok (dextra x).
Proof.
  destruct x as [fp|bases decos|decos params ret|v a]; simpl wf_extra; intro H.
  - cbn [enc_extra dextra]. rewrite mapM_cons, mapM_nil. cbn [dec_kv]. rewrite dec_fpath. reflexivity.
  - apply andb_true_iff in H as [Hb Hd]. cbn [enc_extra dextra]. rewrite !mapM_cons, mapM_nil. cbn [dec_kv].
    rewrite (dec_ev_list _ Hb), (dec_deco_list _ Hd). reflexivity.
  - apply andb_true_iff in H as [H Hr]. apply andb_true_iff in H as [Hd Hp]. cbn [enc_extra dextra].
    rewrite !mapM_cons, mapM_nil. cbn [dec_kv].
    rewrite (dec_deco_list _ Hd), (dec_param_list _ Hp), (slot_roundtrip _ Hr). reflexivity.
  - apply andb_true_iff in H as [Hv Ha]. cbn [enc_extra dextra].
    apply mapM_app_ok; apply dec_ev_field; assumption.
Qed.

Lemma has_key_dmembers k ms : has_key k (dmembers ms) = mem_str k (keys_of ms).
Proof.
  unfold has_key, dmembers, mem_str, keys_of. induction ms as [|[k' m] r IH]; [reflexivity|].
  cbn [map lookup existsb fst]. rewrite (String.eqb_sym k k'). destruct (String.eqb k' k); [reflexivity|]. exact IH.
Qed.

Lemma dec_members ms :
  Forall (fun km => decode (enc_min (snd km)) = Ok (PTree (reload (snd km)))) ms ->
  mem_str "cls" (keys_of ms) = false -> mem_str "kind" (keys_of ms) = false ->
  decode (JObj (map (fun km => match km with (k, m) => (k, enc_min m) end) ms)) = Ok (PDict (dmembers ms)).
Proof.
  intros HF Hc Hk. rewrite decode_obj, mapM_map.
  rewrite (mapM_ok_in _ (fun km => match km with (k, m) => (k, PTree (reload m)) end)).
  - cbn [bind]. fold (dmembers ms). unfold hook. rewrite has_key_dmembers, Hc.
    pose proof (has_key_dmembers "kind" ms) as Hh. rewrite Hk in Hh. unfold has_key in Hh.
    destruct (lookup "kind" (dmembers ms)); [discriminate|reflexivity].
  - intros [k m] Hin. rewrite Forall_forall in HF. specialize (HF _ Hin). simpl in HF. simpl. rewrite HF. reflexivity.
Qed.

Lemma dec_obj_fields n ln eln doc ls ms x :
  wf_extra x = true ->
  Forall (fun km => decode (enc_min (snd km)) = Ok (PTree (reload (snd km)))) ms ->
  mem_str "cls" (keys_of ms) = false -> mem_str "kind" (keys_of ms) = false ->
  decode (enc_min (TObj n ln eln doc ls ms x)) = hook (dobj n ln eln doc ls ms x).
Proof.
  intros Hx HF Hc Hk. cbn [enc_min]. rewrite decode_obj.
  assert (Hm : mapM dec_kv ([("kind", JStr (kind_of x)); ("name", JStr n)] ++ opt_field "lineno" ln ++ opt_field "endlineno" eln
                            ++ enc_docfield doc
                            ++ [("labels", JArr (map JStr ls));
                                ("members", JObj (map (fun km : string * tree => let (k, m) := km in (k, enc_min m)) ms))]
                            ++ enc_extra x) = Ok (dobj n ln eln doc ls ms x)).
  { unfold dobj. apply mapM_app_ok; [reflexivity|].
    apply mapM_app_ok; [apply dec_opt_field|]. apply mapM_app_ok; [apply dec_opt_field|].
    apply mapM_app_ok; [apply dec_docfield|]. apply mapM_app_ok; [|apply dec_extra; assumption].
    rewrite !mapM_cons, mapM_nil. cbn [dec_kv]. rewrite dec_labels. rewrite (dec_members ms HF Hc Hk). reflexivity. }
  rewrite Hm. reflexivity.
Qed.

(* ------------------------------------------------------------------------------------------------ *)
(* 7. What `decodable` says about one node                                                            *)

Lemma negb_orb_existsb {A} (a : bool) (f : A -> bool) l :
  negb (a || existsb f l) = true -> a = false /\ forall x, In x l -> f x = false.
Proof.
  intro H. apply negb_true_iff, orb_false_iff in H as [Ha He]. split; [assumption|].
  intros x Hx. destruct (f x) eqn:E; [|reflexivity].
  assert (existsb f l = true) by (apply existsb_exists; eauto). congruence.
Qed.

Lemma decodable_alias n tp ln eln :
  decodable (TAlias n tp ln eln) = true -> (exists z, ln = Some z /\ Z.eqb z 0 = false) /\ nonzero eln = true.
Proof.
  unfold decodable. simpl. intro H. repeat (apply andb_true_iff in H as [H ?]).
  split; [|assumption]. destruct ln as [z|]; [|discriminate]. exists z. split; [reflexivity|].
  destruct (Z.eqb z 0); [discriminate|reflexivity].
Qed.

Record node_facts (n : string) (ln eln : option Z) (doc : option docstring) (ls : list string)
       (ms : list (string * tree)) (x : extra) : Prop := {
  nf_labels : canon_labels ls = ls;
  nf_extra : wf_extra x = true;
  nf_module : is_module x = true -> ln = None /\ eln = None;
  nf_leaf : has_members x = false -> ms = [];
  nf_members : members_ok ms;
  nf_lineno : is_module x = false -> exists z, ln = Some z;
  nf_filepath : forall fp, x = XModule fp -> exists s, fp = FPStr s;
  nf_cls : mem_str "cls" (keys_of ms) = false;
  nf_kind : mem_str "kind" (keys_of ms) = false;
  nf_children : Forall (fun km => decodable (snd km) = true) ms }.

Lemma decodable_obj n ln eln doc ls ms x :
  decodable (TObj n ln eln doc ls ms x) = true -> node_facts n ln eln doc ls ms x.
Proof.
  unfold decodable. intro H.
  apply andb_true_iff in H as [H Hkey]. apply andb_true_iff in H as [H Hfp]. apply andb_true_iff in H as [Hrep Hln].
  cbn [rep] in Hrep.
  apply andb_true_iff in Hrep as [Hrep Hdist]. apply andb_true_iff in Hrep as [Hrep Hms].
  apply andb_true_iff in Hrep as [Hrep Hleaf]. apply andb_true_iff in Hrep as [Hrep Hmod].
  apply andb_true_iff in Hrep as [Hlab Hx].
  cbn [gap_lineno] in Hln. apply negb_orb_existsb in Hln as [Hln1 Hln2].
  cbn [gap_filepath] in Hfp. apply negb_orb_existsb in Hfp as [Hfp1 Hfp2].
  cbn [gap_memberkey] in Hkey. apply negb_orb_existsb in Hkey as [Hkey1 Hkey2].
  apply orb_false_iff in Hkey1 as [Hc Hk].
  rewrite forallb_forall in Hms.
  constructor; try assumption.
  - apply list_eqb_eq. assumption.
  - intro Hm. rewrite Hm in Hmod. destruct ln, eln; simpl in Hmod; try discriminate. auto.
  - intro Hh. destruct ms; [reflexivity|]. rewrite Hh in Hleaf. discriminate.
  - split; [|assumption]. apply Forall_forall. intros [k m] Hin. specialize (Hms _ Hin). cbv beta iota in Hms.
    apply andb_true_iff in Hms as [Hms _]. apply andb_true_iff in Hms as [E P]. apply String.eqb_eq in E. cbn [fst snd]. auto.
  - intro Hm. rewrite Hm in Hln1. simpl in Hln1. destruct ln as [z|]; [eauto|discriminate].
  - intros fp ->. destruct fp; try discriminate. eauto.
  - apply Forall_forall. intros [k m] Hin. cbn [snd]. unfold decodable.
    specialize (Hms _ Hin). cbv beta iota in Hms. apply andb_true_iff in Hms as [_ Hr].
    specialize (Hln2 _ Hin). specialize (Hfp2 _ Hin). specialize (Hkey2 _ Hin). cbv beta iota in Hln2, Hfp2, Hkey2.
    rewrite Hr, Hln2, Hfp2, Hkey2. reflexivity.
Qed.

(* ------------------------------------------------------------------------------------------------ *)
(* 8. The hook on an object's dict                                                                    *)

Global Opaque dobj.

Lemma hook_obj n ln eln doc ls ms x :
  node_facts n ln eln doc ls ms x -> hook (dobj n ln eln doc ls ms x) = Ok (PTree (reload (TObj n ln eln doc ls ms x))).
Proof.
  intros [Hlab Hx Hmod Hleaf Hms Hln Hfp _ _ _].
  unfold hook. rewrite dobj_cls, dobj_kind.
  destruct x as [fp|bases decos|decos params ret|v a].
  - (* module *)
    destruct (Hmod eq_refl) as [-> ->]. destruct (Hfp fp eq_refl) as [s ->].
    cbn [kind_of]. change (String.eqb kind_module kind_module) with true. cbn iota.
    unfold load_module, getitem. rewrite dobj_name, (dobj_extra "filepath") by reflexivity.
    cbn [dextra lookup dfpath of_option bind String.eqb Ascii.eqb Bool.eqb].
    rewrite load_docstring_dobj. cbn [bind as_string]. rewrite (load_members_dobj _ _ _ _ _ _ _ Hms). cbn [bind].
    rewrite load_labels_dobj. reflexivity.
  - (* class *)
    destruct (Hln eq_refl) as [z ->].
    cbn [kind_of]. change (String.eqb kind_class kind_module) with false. change (String.eqb kind_class kind_class) with true. cbn iota.
    unfold load_class, getitem, load_decorators. rewrite dobj_name, dobj_lineno, dobj_endlineno.
    rewrite !dobj_extra by reflexivity.
    cbn [dextra lookup of_option bind option_map String.eqb Ascii.eqb Bool.eqb].
    rewrite load_docstring_dobj. cbn [bind]. rewrite load_decorator_list. cbn [bind as_string as_optnum].
    rewrite as_ev_list_ok. cbn [bind].
    assert (He : as_optnum (option_map PNum eln) = Ok eln) by (destruct eln; reflexivity). rewrite He. cbn [bind].
    rewrite (load_members_dobj _ _ _ _ _ _ _ Hms). cbn [bind]. rewrite load_labels_dobj. reflexivity.
  - (* function *)
    destruct (Hln eq_refl) as [z ->]. rewrite (Hleaf eq_refl).
    cbn [kind_of]. change (String.eqb kind_function kind_module) with false. change (String.eqb kind_function kind_class) with false.
    change (String.eqb kind_function kind_function) with true. cbn iota.
    unfold load_function, getitem, load_decorators. rewrite dobj_name, dobj_lineno, dobj_endlineno.
    rewrite !dobj_extra by reflexivity.
    cbn [dextra lookup of_option bind option_map String.eqb Ascii.eqb Bool.eqb].
    rewrite load_decorator_list. cbn [bind]. rewrite load_docstring_dobj. cbn [bind as_string].
    rewrite mapM_map. rewrite (mapM_ok_in _ reload_param) by reflexivity. cbn [bind].
    rewrite ev_res_of_reload. cbn [bind as_optnum].
    assert (He : as_optnum (option_map PNum eln) = Ok eln) by (destruct eln; reflexivity). rewrite He. cbn [bind].
    rewrite load_labels_dobj. reflexivity.
  - (* attribute *)
    destruct (Hln eq_refl) as [z ->]. rewrite (Hleaf eq_refl).
    cbn [kind_of]. change (String.eqb kind_attribute kind_module) with false. change (String.eqb kind_attribute kind_class) with false.
    change (String.eqb kind_attribute kind_function) with false. change (String.eqb kind_attribute kind_attribute) with true. cbn iota.
    unfold load_attribute, getitem, get_ev. rewrite dobj_name, dobj_lineno, dobj_endlineno.
    rewrite !dobj_extra by reflexivity.
    cbn [of_option bind option_map]. rewrite load_docstring_dobj. cbn [bind as_string as_optnum].
    assert (He : as_optnum (option_map PNum eln) = Ok eln) by (destruct eln; reflexivity). rewrite He. cbn [bind].
    rewrite load_labels_dobj.
    assert (Hv : forall e, match lookup "value" (dextra (XAttribute e a)) with None => Ok VNone | Some v0 => ev_res v0 end = Ok (reload_ev e)).
    { intro e. unfold dextra, pev. destruct e; cbn [is_vnone app lookup String.eqb Ascii.eqb Bool.eqb]; try (rewrite ev_res_of_reload; reflexivity).
      destruct (is_vnone a); reflexivity. }
    assert (Ha : forall e, match lookup "annotation" (dextra (XAttribute v e)) with None => Ok VNone | Some v0 => ev_res v0 end = Ok (reload_ev e)).
    { intro e. unfold dextra, pev. destruct (is_vnone v); destruct e; cbn [is_vnone app lookup String.eqb Ascii.eqb Bool.eqb];
        try (rewrite ev_res_of_reload; reflexivity); reflexivity. }
    rewrite Hv, Ha. reflexivity.
Qed.

(* ------------------------------------------------------------------------------------------------ *)
(* 9. Main theorems, minimal mode                                                                     *)

Lemma decode_alias n tp ln eln :
  decodable (TAlias n tp ln eln) = true ->
  decode (enc_min (TAlias n tp ln eln)) = Ok (PTree (reload (TAlias n tp ln eln))).
Proof.
  intro H. destruct (decodable_alias _ _ _ _ H) as [[z [-> Hz]] He].
  cbn [enc_min truthy_field reload]. rewrite Hz.
  destruct eln as [e|]; cbn [truthy_field zero_to_none nonzero] in *.
  - destruct (Z.eqb e 0); [discriminate|]. reflexivity.
  - reflexivity.
Qed.

Theorem decode_enc_min : forall t, decodable t = true -> decode (enc_min t) = Ok (PTree (reload t)).
Proof.
  induction t using tree_ind'; intro Hd.
  - apply decode_alias. assumption.
  - pose proof (decodable_obj _ _ _ _ _ _ _ Hd) as NF.
    assert (HF : Forall (fun km => decode (enc_min (snd km)) = Ok (PTree (reload (snd km)))) ms).
    { apply Forall_forall. intros km Hin. rewrite Forall_forall in H.
      apply H; [assumption|]. pose proof (nf_children _ _ _ _ _ _ _ NF) as Hc. rewrite Forall_forall in Hc. auto. }
    rewrite dec_obj_fields; [apply hook_obj; assumption|apply NF|assumption|apply NF|apply NF].
Qed.

Theorem from_json_enc_min : forall n ln eln doc ls ms fp,
  decodable (TObj n ln eln doc ls ms (XModule fp)) = true ->
  from_json (enc_min (TObj n ln eln doc ls ms (XModule fp))) = Ok (reload (TObj n ln eln doc ls ms (XModule fp))).
Proof. intros. unfold from_json. rewrite decode_enc_min by assumption. reflexivity. Qed.

(* -- re-encoding *)
Lemma enc_reload_doc d : doc_fix d = true -> enc_doc (reload_doc d) = enc_doc d.
Proof. unfold doc_fix, enc_doc, reload_doc. simpl. intro H. apply String.eqb_eq in H. rewrite H. reflexivity. Qed.

Lemma enc_reload_deco d : enc_deco (reload_deco d) = enc_deco d.
Proof. unfold enc_deco, reload_deco. simpl. rewrite enc_reload_ev. reflexivity. Qed.
Lemma enc_attach_deco d : enc_deco (attach_deco d) = enc_deco d.
Proof. unfold enc_deco, attach_deco. simpl. rewrite enc_attach_top. reflexivity. Qed.

Lemma enc_reload_param p : optdoc_fix (p_doc p) = true -> enc_param (reload_param p) = enc_param p.
Proof.
  unfold enc_param, reload_param. simpl. rewrite !enc_reload_ev. intro H.
  destruct (p_doc p) as [d|]; [|reflexivity]. simpl. simpl in H. rewrite (enc_reload_doc _ H). reflexivity.
Qed.
Lemma enc_attach_param p : enc_param (attach_param p) = enc_param p.
Proof. unfold enc_param, attach_param. simpl. rewrite !enc_attach_top. reflexivity. Qed.

Lemma is_vnone_enc e e' : enc_ev e' = enc_ev e -> is_vnone e' = is_vnone e.
Proof. destruct e, e'; simpl; intro H; try reflexivity; try discriminate. Qed.

Lemma enc_ev_field_ext k e e' : enc_ev e' = enc_ev e -> enc_ev_field k e' = enc_ev_field k e.
Proof. intro H. unfold enc_ev_field. rewrite (is_vnone_enc _ _ H), H. reflexivity. Qed.

Lemma map_enc_ext {A} (enc : A -> json) (g : A -> A) l : (forall x, In x l -> enc (g x) = enc x) -> map enc (map g l) = map enc l.
Proof. intro H. rewrite map_map. apply map_ext_in. assumption. Qed.

Lemma enc_reload_extra x : extra_docs_fix x = true -> enc_extra (reload_extra x) = enc_extra x.
Proof.
  destruct x as [fp|bases decos|decos params ret|v a]; cbn [reload_extra enc_extra extra_docs_fix]; intro H.
  - reflexivity.
  - rewrite (map_enc_ext enc_ev reload_ev) by (intros; apply enc_reload_ev).
    rewrite (map_enc_ext enc_deco reload_deco) by (intros; apply enc_reload_deco). reflexivity.
  - rewrite (map_enc_ext enc_deco reload_deco) by (intros; apply enc_reload_deco).
    rewrite forallb_forall in H.
    rewrite (map_enc_ext enc_param reload_param) by (intros; apply enc_reload_param; auto).
    rewrite enc_reload_ev. reflexivity.
  - rewrite (enc_ev_field_ext "value" v (reload_ev v)), (enc_ev_field_ext "annotation" a (reload_ev a)); auto using enc_reload_ev.
Qed.

Lemma enc_attach_extra x : enc_extra (attach_extra x) = enc_extra x.
Proof.
  destruct x as [fp|bases decos|decos params ret|v a]; cbn [attach_extra enc_extra].
  - reflexivity.
  - rewrite (map_enc_ext enc_deco attach_deco) by (intros; apply enc_attach_deco). reflexivity.
  - rewrite (map_enc_ext enc_deco attach_deco) by (intros; apply enc_attach_deco).
    rewrite (map_enc_ext enc_param attach_param) by (intros; apply enc_attach_param).
    rewrite enc_attach_top. reflexivity.
  - rewrite (enc_ev_field_ext "value" v (attach_top v)); auto using enc_attach_top.
Qed.

Lemma kind_of_reload x : kind_of (reload_extra x) = kind_of x.
Proof. destruct x; reflexivity. Qed.
Lemma kind_of_attach x : kind_of (attach_extra x) = kind_of x.
Proof. destruct x; reflexivity. Qed.

Lemma enc_attach_tree t : enc_min (attach_tree t) = enc_min t.
Proof. destruct t; [|reflexivity]. cbn [attach_tree enc_min]. rewrite enc_attach_extra, kind_of_attach. reflexivity. Qed.

(* the part of `rep` and `gap_doc` the re-encoding needs *)
Theorem reencode_identical : forall t, rep t = true -> gap_doc t = false -> enc_min (reload t) = enc_min t.
Proof.
  induction t using tree_ind'; intros Hrep Hdoc.
  - cbn [rep] in Hrep. cbn [reload enc_min]. destruct eln as [e|]; [|reflexivity].
    cbn [nonzero] in Hrep. cbn [zero_to_none]. destruct (Z.eqb e 0); [discriminate|reflexivity].
  - cbn [rep] in Hrep.
    apply andb_true_iff in Hrep as [Hrep Hdist]. apply andb_true_iff in Hrep as [Hrep Hms].
    apply andb_true_iff in Hrep as [Hrep Hleaf]. apply andb_true_iff in Hrep as [Hrep Hmod].
    apply andb_true_iff in Hrep as [Hlab Hx]. apply list_eqb_eq in Hlab.
    cbn [gap_doc] in Hdoc. apply orb_false_iff in Hdoc as [Hdoc Hch]. apply orb_false_iff in Hdoc as [Hd1 Hd2].
    apply negb_false_iff in Hd1, Hd2.
    cbn [reload enc_min]. rewrite kind_of_reload, Hlab, (enc_reload_extra _ Hd2).
    assert (Hl : (if is_module x then None else ln) = ln /\ (if is_module x then None else eln) = eln).
    { destruct (is_module x); [|auto]. destruct ln, eln; simpl in Hmod; try discriminate. auto. }
    destruct Hl as [-> ->].
    assert (Hdf : enc_docfield (option_map reload_doc doc) = enc_docfield doc).
    { destruct doc as [d|]; [|reflexivity]. simpl. simpl in Hd1. rewrite (enc_reload_doc _ Hd1). reflexivity. }
    rewrite Hdf.
    assert (Hmem : map (fun km : string * tree => let (k, m) := km in (k, enc_min m))
                     (if has_members x then map (fun km : string * tree => let (_, m) := km in (tree_name m, attach_tree (reload m))) ms else [])
                   = map (fun km : string * tree => let (k, m) := km in (k, enc_min m)) ms).
    { destruct (has_members x).
      - rewrite map_map. apply map_ext_in. intros [k m] Hin.
        rewrite forallb_forall in Hms. specialize (Hms _ Hin). cbv beta iota in Hms.
        apply andb_true_iff in Hms as [Hms Hr]. apply andb_true_iff in Hms as [E _]. apply String.eqb_eq in E.
        rewrite enc_attach_tree. rewrite Forall_forall in H. specialize (H _ Hin). cbn [snd] in H.
        rewrite H; [rewrite <- E; reflexivity|assumption|].
        destruct (gap_doc m) eqn:G; [|reflexivity].
        assert (existsb (fun km : string * tree => let (_, m0) := km in gap_doc m0) ms = true) by (apply existsb_exists; exists (k, m); auto).
        congruence.
      - destruct ms; [reflexivity|discriminate]. }
    rewrite Hmem. reflexivity.
Qed.

Theorem roundtrip_min : forall t, wf t = true ->
  exists t', decode (enc_min t) = Ok (PTree t') /\ enc_min t' = enc_min t.
Proof.
  intros t H. unfold wf in H. apply andb_true_iff in H as [Hd Hg]. apply negb_true_iff in Hg.
  exists (reload t). split; [apply decode_enc_min; assumption|].
  apply reencode_identical; [|assumption].
  unfold decodable in Hd. repeat (apply andb_true_iff in Hd as [Hd ?]). assumption.
Qed.

(* ------------------------------------------------------------------------------------------------ *)
(* 10. Non-vacuity: a tree with every node kind that satisfies every hypothesis                       *)

Definition nm (n : string) : ev := VName n LScope.
Definition ex_sub (l s : ev) : ev := VNode "ExprSubscript" [("left", l); ("slice", s)].
Definition ex_dotted (a b : string) : ev := VNode "ExprAttribute" [("values", VList [VName a LScope; VName b LPrev])].
Definition ex_call (f : ev) (args : list ev) : ev := VNode "ExprCall" [("arguments", VList args); ("function", f)].

Definition ex_method : tree :=
  TObj "m" (Some 7%Z) (Some 9%Z) (Some (mkDoc "Method." (Some 8%Z) (Some 8%Z))) ["async"] []
    (XFunction [mkDeco (ex_call (nm "deco") [VStr "1"]) (Some 6%Z) (Some 6%Z)]
               [mkParam "self" VNone (Some "positional or keyword") VNone None;
                mkParam "a" (ex_sub (nm "List") (nm "int")) (Some "positional-only") (VStr "0") None;
                mkParam "args" VNone (Some "variadic positional") (VStr "()") None;
                mkParam "k" (ex_sub (ex_dotted "typing" "Optional") (nm "Foo")) (Some "keyword-only") (nm "CONST")
                        (Some (mkDoc "Param." None None));
                mkParam "kw" VNone (Some "variadic keyword") (VStr "{}") None]
               (nm "int")).

Definition ex_class : tree :=
  TObj "C" (Some 4%Z) (Some 12%Z) (Some (mkDoc "Class." (Some 5%Z) (Some 5%Z))) ["dataclass"; "final"]
    [("x", TObj "x" (Some 6%Z) (Some 6%Z) None ["class-attribute"] [] (XAttribute (VStr "1") (VStr "int")));
     ("m", ex_method);
     ("Inner", TObj "Inner" (Some 10%Z) (Some 12%Z) None [] [] (XClass [] []))]
    (XClass [VStr "Base"] [mkDeco (nm "dataclass") (Some 3%Z) (Some 3%Z)]).

Definition ex_tree : tree :=
  TObj "pkg" None None (Some (mkDoc "Package." (Some 1%Z) (Some 1%Z))) [] 
    [("os", TAlias "os" "os" (Some 2%Z) (Some 2%Z));
     ("C", ex_class);
     ("f", TObj "f" (Some 14%Z) None None [] [] (XFunction [] [] VNone));
     ("V", TObj "V" (Some 20%Z) (Some 20%Z) (Some (mkDoc "Doc of V." (Some 21%Z) (Some 21%Z))) ["module-attribute"] []
              (XAttribute (VNode "ExprList" [("elements", VList [VStr "1"; nm "CONST"])]) VNone));
     ("sub", TObj "sub" None None None [] [] (XModule (FPStr "/p/pkg/sub.py")))]
    (XModule (FPStr "/p/pkg/__init__.py")).

Example example_wf : wf ex_tree = true /\ gap_expr ex_tree = false.
Proof. vm_compute. split; reflexivity. Qed.

Example example_roundtrip_exact : decode (enc_min ex_tree) = Ok (PTree ex_tree).
Proof. vm_compute. reflexivity. Qed.

(* ------------------------------------------------------------------------------------------------ *)
(* 11. The known gaps, each refuted by a computed witness                                             *)

Definition w_module (ms : list (string * tree)) (fp : fpath) : tree := TObj "w" None None None [] ms (XModule fp).
Definition w_attr (n : string) (ln : option Z) : tree := TObj n ln ln None [] [] (XAttribute (VStr "1") VNone).

Lemma refuted_lineno :
  exists t, rep t = true /\ gap_lineno t = true /\ decode (enc_min t) = Err (EKey "lineno").
Proof. exists (w_module [("a", w_attr "a" None)] (FPStr "/x/w.py")). vm_compute. repeat split; reflexivity. Qed.

Lemma refuted_lineno_alias :
  exists t, rep t = true /\ gap_lineno t = true /\ decode (enc_min t) = Err (EKey "lineno").
Proof. exists (w_module [("a", TAlias "a" "os.a" None None)] (FPStr "/x/w.py")). vm_compute. repeat split; reflexivity. Qed.

Lemma refuted_filepath :
  (exists t, rep t = true /\ gap_filepath t = true /\ decode (enc_min t) = Err EType) /\
  (exists t, rep t = true /\ gap_filepath t = true /\ decode (enc_min t) = Err EType).
Proof.
  split; [exists (w_module [] (FPList ["/x/w"]))|exists (w_module [] FPNone)]; vm_compute; repeat split; reflexivity.
Qed.

Lemma refuted_memberkey_kind :
  exists t, rep t = true /\ gap_memberkey t = true /\ decode (enc_min t) = Err (EKey "name").
Proof. exists (w_module [("kind", w_attr "kind" (Some 1%Z))] (FPStr "/x/w.py")). vm_compute. repeat split; reflexivity. Qed.

Lemma refuted_memberkey_cls :
  exists t, rep t = true /\ gap_memberkey t = true /\ decode (enc_min t) = Err EType.
Proof. exists (w_module [("cls", w_attr "cls" (Some 1%Z))] (FPStr "/x/w.py")). vm_compute. repeat split; reflexivity. Qed.

Definition w_docvalue : string := append "    Deep first line." (String nl "Rest.").
Definition w_doctree : tree := TObj "w" None None (Some (mkDoc w_docvalue (Some 1%Z) (Some 4%Z))) [] [] (XModule (FPStr "/x/w.py")).

Lemma refuted_docstring :
  exists t t', decodable t = true /\ gap_doc t = true /\ decode (enc_min t) = Ok (PTree t') /\ enc_min t' <> enc_min t.
Proof.
  exists w_doctree, (reload w_doctree). split; [vm_compute; reflexivity|]. split; [vm_compute; reflexivity|].
  split; [apply decode_enc_min; vm_compute; reflexivity|]. vm_compute. intro H. discriminate H.
Qed.

Definition w_lambda : ev :=
  VNode "ExprLambda" [("body", VStr "0");
                      ("parameters", VList [VNode "ExprParameter" [("annotation", VNone); ("default", VNone);
                                                                   ("kind", VEnum "variadic positional"); ("name", VStr "a")]])].
Lemma refuted_enum :
  wf_slot w_lambda = true /\ has_enum w_lambda = true /\
  exists e', decode (enc_ev w_lambda) = Ok (PExpr e') /\ e' <> w_lambda /\ slot_restored true w_lambda = false.
Proof.
  split; [vm_compute; reflexivity|]. split; [vm_compute; reflexivity|].
  exists (reload_ev w_lambda). split; [vm_compute; reflexivity|]. split; [vm_compute; intro H; discriminate H|vm_compute; reflexivity].
Qed.

(* names: Optional[List[Foo]] in an attached slot; a base class; a dotted default; a name attached to a method *)
Lemma refuted_links_depth :
  let e := ex_sub (nm "Optional") (ex_sub (nm "List") (nm "Foo")) in
  wf_slot e = true /\ has_enum e = false /\ slot_restored true e = false /\
  attach_top (reload_ev e) = ex_sub (nm "Optional") (ex_sub (VName "List" LNone) (VName "Foo" LNone)).
Proof. vm_compute. repeat split; reflexivity. Qed.

Lemma refuted_links_slot :
  wf_slot (nm "Foo") = true /\ slot_restored false (nm "Foo") = false /\ slot_restored true (nm "Foo") = true.
Proof. vm_compute. repeat split; reflexivity. Qed.

Lemma refuted_links_chain :
  let e := ex_dotted "osp" "join" in
  wf_slot e = true /\ slot_restored true e = false /\
  attach_top (reload_ev e) = VNode "ExprAttribute" [("values", VList [VName "osp" LScope; VName "join" LScope])].
Proof. vm_compute. repeat split; reflexivity. Qed.

Lemma refuted_links_other :
  wf_slot (VName "p" LOther) = true /\ slot_restored true (VName "p" LOther) = false /\
  (let e := VNode "ExprAttribute" [("values", VList [VStr "'lit'"; VName "join" LStr])] in wf_slot e = true /\ slot_restored true e = false).
Proof. vm_compute. repeat split; reflexivity. Qed.

(* ------------------------------------------------------------------------------------------------ *)
(* 12. Field-by-field equivalence of the reloaded tree                                                *)

Definition eraf (kv : string * ev) : string * ev := match kv with (k, v) => (k, erase_ev v) end.

Lemma relink_chain_t_erase : forall (l : list ev) (prev : bool), map erase_ev (relink_chain_t prev l) = map erase_ev l.
Proof.
  induction l as [|v r IH]; intro prev; simpl; [reflexivity|]. rewrite IH. f_equal.
  destruct prev; [|reflexivity]. destruct v; reflexivity.
Qed.

Lemma erase_reload_ev : forall e, erase_ev (reload_ev e) = erase_ev e.
Proof.
  induction e using ev_ind'; try reflexivity.
  - simpl. f_equal. rewrite map_map. apply map_ext_in. intros x Hx. rewrite Forall_forall in H. auto.
  - assert (Hm : map eraf (map relf fs) = map eraf fs).
    { rewrite map_map. apply map_ext_in. intros [k v] Hin. simpl. rewrite Forall_forall in H.
      pose proof (H _ Hin) as Hx. simpl in Hx. rewrite Hx. reflexivity. }
    cbn [reload_ev]. change (map (fun kv : string * ev => let (k, v) := kv in (k, reload_ev v)) fs) with (map relf fs).
    destruct (String.eqb c "ExprAttribute").
    + cbn [erase_ev]. f_equal.
      change (map (fun kv : string * ev => let (k, v) := kv in (k, erase_ev v)) fs) with (map eraf fs).
      rewrite <- Hm.
      change (fun kv : string * ev => let (k, v) := kv in (k, erase_ev v)) with eraf.
      rewrite map_map. apply map_ext. intros [k v]. simpl.
      destruct (String.eqb k "values"); [|reflexivity]. destruct v; try reflexivity.
      simpl. rewrite relink_chain_t_erase. reflexivity.
    + cbn [erase_ev]. f_equal. exact Hm.
Qed.

Lemma erase_set_scope e : erase_ev (set_scope e) = erase_ev e.
Proof.
  destruct e; try reflexivity. simpl. destruct (String.eqb cls "ExprAttribute"); [|reflexivity].
  simpl. f_equal. rewrite map_map. apply map_ext. intros [k v].
  destruct (String.eqb k "values"); [|reflexivity]. destruct v; try reflexivity.
  destruct l as [|x r]; [reflexivity|]. destruct x; reflexivity.
Qed.

Lemma erase_attach_lambda_param p : erase_ev (attach_lambda_param p) = erase_ev p.
Proof.
  destruct p; try reflexivity. simpl.
  destruct (match field_str "kind" fs with Some k => (String.eqb k pk_var_positional || String.eqb k pk_var_keyword)%bool | None => false end);
    [reflexivity|].
  simpl. f_equal. rewrite map_map. apply map_ext. intros [k v].
  destruct (String.eqb k "default"); [rewrite erase_set_scope|]; reflexivity.
Qed.

Lemma erase_attach_field c k v : erase_ev (attach_field c k v) = erase_ev v.
Proof.
  unfold attach_field.
  destruct (String.eqb c "ExprParameter" || (String.eqb c "ExprKeyword" && String.eqb k "function"))%bool; [reflexivity|].
  destruct (String.eqb c "ExprLambda" && String.eqb k "parameters")%bool.
  - destruct v; try reflexivity. simpl. f_equal. rewrite map_map. apply map_ext. intro. apply erase_attach_lambda_param.
  - destruct v; try apply erase_set_scope. simpl. f_equal. rewrite map_map. apply map_ext. intro. apply erase_set_scope.
Qed.

Lemma erase_attach_top e : erase_ev (attach_top e) = erase_ev e.
Proof.
  destruct e; try reflexivity. simpl. f_equal. rewrite map_map. apply map_ext. intros [k v].
  rewrite erase_attach_field. reflexivity.
Qed.

Lemma map_ext_comp {A B} (f : A -> B) (g : A -> A) l : (forall x, In x l -> f (g x) = f x) -> map f (map g l) = map f l.
Proof. intro H. rewrite map_map. apply map_ext_in. assumption. Qed.

Lemma erase_reload_deco d : erase_deco (reload_deco d) = erase_deco d.
Proof. unfold erase_deco, reload_deco. simpl. rewrite erase_reload_ev. reflexivity. Qed.
Lemma erase_attach_deco d : erase_deco (attach_deco d) = erase_deco d.
Proof. unfold erase_deco, attach_deco. simpl. rewrite erase_attach_top. reflexivity. Qed.
Lemma reload_doc_fix d : doc_fix d = true -> reload_doc d = d.
Proof. destruct d as [v l e]. unfold doc_fix, reload_doc. simpl. intro H. apply String.eqb_eq in H. rewrite H. reflexivity. Qed.
Lemma reload_optdoc_fix o : optdoc_fix o = true -> option_map reload_doc o = o.
Proof. destruct o as [d|]; [|reflexivity]. simpl. intro H. rewrite reload_doc_fix by assumption. reflexivity. Qed.
Lemma erase_reload_param p : optdoc_fix (p_doc p) = true -> erase_param (reload_param p) = erase_param p.
Proof. intro H. unfold erase_param, reload_param. simpl. rewrite !erase_reload_ev, reload_optdoc_fix by assumption. reflexivity. Qed.
Lemma erase_attach_param p : erase_param (attach_param p) = erase_param p.
Proof. unfold erase_param, attach_param. simpl. rewrite !erase_attach_top. reflexivity. Qed.

Lemma erase_reload_extra x : extra_docs_fix x = true -> erase_extra (reload_extra x) = erase_extra x.
Proof.
  destruct x as [fp|bases decos|decos params ret|v a]; cbn [reload_extra erase_extra extra_docs_fix]; intro H.
  - reflexivity.
  - rewrite (map_ext_comp erase_ev reload_ev) by (intros; apply erase_reload_ev).
    rewrite (map_ext_comp erase_deco reload_deco) by (intros; apply erase_reload_deco). reflexivity.
  - rewrite (map_ext_comp erase_deco reload_deco) by (intros; apply erase_reload_deco).
    rewrite forallb_forall in H.
    rewrite (map_ext_comp erase_param reload_param) by (intros; apply erase_reload_param; auto).
    rewrite erase_reload_ev. reflexivity.
  - rewrite !erase_reload_ev. reflexivity.
Qed.
Lemma erase_attach_extra x : erase_extra (attach_extra x) = erase_extra x.
Proof.
  destruct x as [fp|bases decos|decos params ret|v a]; cbn [attach_extra erase_extra].
  - reflexivity.
  - rewrite (map_ext_comp erase_deco attach_deco) by (intros; apply erase_attach_deco). reflexivity.
  - rewrite (map_ext_comp erase_deco attach_deco) by (intros; apply erase_attach_deco).
    rewrite (map_ext_comp erase_param attach_param) by (intros; apply erase_attach_param).
    rewrite erase_attach_top. reflexivity.
  - rewrite erase_attach_top. reflexivity.
Qed.
Lemma erase_attach_tree t : erase (attach_tree t) = erase t.
Proof. destruct t; [|reflexivity]. cbn [attach_tree erase]. rewrite erase_attach_extra. reflexivity. Qed.

Theorem equiv_fields : forall t, rep t = true -> gap_doc t = false -> erase (reload t) = erase t.
Proof.
  induction t using tree_ind'; intros Hrep Hdoc.
  - cbn [rep] in Hrep. cbn [reload erase]. destruct eln as [e|]; [|reflexivity].
    cbn [nonzero] in Hrep. cbn [zero_to_none]. destruct (Z.eqb e 0); [discriminate|reflexivity].
  - cbn [rep] in Hrep.
    apply andb_true_iff in Hrep as [Hrep Hdist]. apply andb_true_iff in Hrep as [Hrep Hms].
    apply andb_true_iff in Hrep as [Hrep Hleaf]. apply andb_true_iff in Hrep as [Hrep Hmod].
    apply andb_true_iff in Hrep as [Hlab Hx]. apply list_eqb_eq in Hlab.
    cbn [gap_doc] in Hdoc. apply orb_false_iff in Hdoc as [Hdoc Hch]. apply orb_false_iff in Hdoc as [Hd1 Hd2].
    apply negb_false_iff in Hd1, Hd2.
    cbn [reload erase]. rewrite Hlab, (erase_reload_extra _ Hd2), (reload_optdoc_fix _ Hd1).
    assert (Hl : (if is_module x then None else ln) = ln /\ (if is_module x then None else eln) = eln).
    { destruct (is_module x); [|auto]. destruct ln, eln; simpl in Hmod; try discriminate. auto. }
    destruct Hl as [-> ->].
    f_equal.
    destruct (has_members x).
    + rewrite map_map. apply map_ext_in. intros [k m] Hin.
      rewrite forallb_forall in Hms. specialize (Hms _ Hin). cbv beta iota in Hms.
      apply andb_true_iff in Hms as [Hms Hr]. apply andb_true_iff in Hms as [E _]. apply String.eqb_eq in E.
      rewrite erase_attach_tree. rewrite Forall_forall in H. specialize (H _ Hin). cbn [snd] in H.
      rewrite H; [rewrite <- E; reflexivity|assumption|].
      destruct (gap_doc m) eqn:G; [|reflexivity].
      assert (existsb (fun km : string * tree => let (_, m0) := km in gap_doc m0) ms = true) by (apply existsb_exists; exists (k, m); auto).
      congruence.
    + destruct ms; [reflexivity|discriminate].
Qed.

(* ------------------------------------------------------------------------------------------------ *)
(* 13. Without any gap the reloaded tree is the original tree                                         *)

Lemma ev_eqb_eq : forall a b, ev_eqb a b = true -> a = b.
Proof.
  induction a using ev_ind'; intros b' E; destruct b' as [|b'|s'|s'|l'|n' p'|c' fs']; simpl in E; try discriminate; try reflexivity.
  - apply Bool.eqb_prop in E. subst. reflexivity.
  - apply String.eqb_eq in E. subst. reflexivity.
  - apply String.eqb_eq in E. subst. reflexivity.
  - f_equal. revert l' E. induction l as [|x r IH]; destruct l' as [|y s]; intro E; try discriminate; [reflexivity|].
    apply andb_true_iff in E as [E1 E2]. inversion H; subst. f_equal; [auto|]. apply IH; assumption.
  - apply andb_true_iff in E as [E1 E2]. apply String.eqb_eq in E1. subst. destruct p, p'; try discriminate; reflexivity.
  - apply andb_true_iff in E as [E1 E2]. apply String.eqb_eq in E1. subst. f_equal.
    revert fs' E2. induction fs as [|[k x] r IH]; destruct fs' as [|[k' y] s]; intro E; try discriminate; [reflexivity|].
    apply andb_true_iff in E as [E E3]. apply andb_true_iff in E as [E1 E2]. apply String.eqb_eq in E1. subst.
    inversion H; subst. simpl in H2. f_equal; [f_equal; auto|]. apply IH; assumption.
Qed.

Lemma slot_restored_true e : slot_restored true e = true -> attach_top (reload_ev e) = e.
Proof. apply ev_eqb_eq. Qed.
Lemma slot_restored_false e : slot_restored false e = true -> reload_ev e = e.
Proof. apply ev_eqb_eq. Qed.

Lemma map_id_in {A} (f : A -> A) l : (forall x, In x l -> f x = x) -> map f l = l.
Proof. intro H. induction l as [|x r IH]; simpl; [reflexivity|]. rewrite H by (left; reflexivity). rewrite IH; [reflexivity|]. intros; apply H; right; assumption. Qed.

Lemma attach_reload_extra x :
  extra_docs_fix x = true -> extra_restored x = true -> attach_extra (reload_extra x) = x.
Proof.
  destruct x as [fp|bases decos|decos params ret|v a]; cbn [extra_docs_fix extra_restored reload_extra attach_extra]; intros Hd Hr.
  - reflexivity.
  - apply andb_true_iff in Hr as [Hb Hdc]. rewrite forallb_forall in Hb, Hdc. f_equal.
    + apply map_id_in. intros; apply slot_restored_false; auto.
    + rewrite map_map. apply map_id_in. intros d Hin. specialize (Hdc _ Hin). unfold deco_restored in Hdc.
      destruct d as [dv dl de]. unfold attach_deco, reload_deco. simpl in *. rewrite (slot_restored_true _ Hdc). reflexivity.
  - apply andb_true_iff in Hr as [Hr Hret]. apply andb_true_iff in Hr as [Hdc Hp].
    rewrite forallb_forall in Hdc, Hp, Hd. f_equal.
    + rewrite map_map. apply map_id_in. intros d Hin. specialize (Hdc _ Hin). unfold deco_restored in Hdc.
      destruct d as [dv dl de]. unfold attach_deco, reload_deco. simpl in *. rewrite (slot_restored_true _ Hdc). reflexivity.
    + rewrite map_map. apply map_id_in. intros p Hin. specialize (Hp _ Hin). specialize (Hd _ Hin). unfold param_restored in Hp.
      apply andb_true_iff in Hp as [Hpa Hpd]. destruct p as [pn pa pk pd pdoc]. unfold attach_param, reload_param. simpl in *.
      rewrite (slot_restored_true _ Hpa), (slot_restored_true _ Hpd), (reload_optdoc_fix _ Hd). reflexivity.
    + apply slot_restored_true. assumption.
  - apply andb_true_iff in Hr as [Hv Ha]. rewrite (slot_restored_true _ Hv), (slot_restored_false _ Ha). reflexivity.
Qed.

Lemma attach_reload_identity : forall t,
  rep t = true -> gap_doc t = false -> gap_expr t = false -> attach_tree (reload t) = t.
Proof.
  induction t using tree_ind'; intros Hrep Hdoc Hex.
  - cbn [rep] in Hrep. cbn [reload attach_tree]. destruct eln as [e|]; [|reflexivity].
    cbn [nonzero] in Hrep. cbn [zero_to_none]. destruct (Z.eqb e 0); [discriminate|reflexivity].
  - cbn [rep] in Hrep.
    apply andb_true_iff in Hrep as [Hrep Hdist]. apply andb_true_iff in Hrep as [Hrep Hms].
    apply andb_true_iff in Hrep as [Hrep Hleaf]. apply andb_true_iff in Hrep as [Hrep Hmod].
    apply andb_true_iff in Hrep as [Hlab Hx]. apply list_eqb_eq in Hlab.
    cbn [gap_doc] in Hdoc. apply orb_false_iff in Hdoc as [Hdoc Hch]. apply orb_false_iff in Hdoc as [Hd1 Hd2].
    apply negb_false_iff in Hd1, Hd2.
    cbn [gap_expr] in Hex. apply orb_false_iff in Hex as [He1 He2]. apply negb_false_iff in He1.
    cbn [reload attach_tree]. rewrite Hlab, (attach_reload_extra _ Hd2 He1), (reload_optdoc_fix _ Hd1).
    assert (Hl : (if is_module x then None else ln) = ln /\ (if is_module x then None else eln) = eln).
    { destruct (is_module x); [|auto]. destruct ln, eln; simpl in Hmod; try discriminate. auto. }
    destruct Hl as [-> ->].
    f_equal.
    destruct (has_members x).
    + apply map_id_in. intros [k m] Hin.
      rewrite forallb_forall in Hms. specialize (Hms _ Hin). cbv beta iota in Hms.
      apply andb_true_iff in Hms as [Hms Hr]. apply andb_true_iff in Hms as [E _]. apply String.eqb_eq in E.
      rewrite Forall_forall in H. specialize (H _ Hin). cbn [snd] in H.
      rewrite H; [rewrite <- E; reflexivity|assumption| |].
      * destruct (gap_doc m) eqn:G; [|reflexivity].
        assert (existsb (fun km : string * tree => let (_, m0) := km in gap_doc m0) ms = true) by (apply existsb_exists; exists (k, m); auto).
        congruence.
      * destruct (gap_expr m) eqn:G; [|reflexivity].
        assert (existsb (fun km : string * tree => let (_, m0) := km in gap_expr m0) ms = true) by (apply existsb_exists; exists (k, m); auto).
        congruence.
    + destruct ms; [reflexivity|discriminate].
Qed.

Theorem reload_identity : forall n ln eln doc ls ms fp,
  let t := TObj n ln eln doc ls ms (XModule fp) in
  rep t = true -> gap_doc t = false -> gap_expr t = false -> reload t = t.
Proof.
  intros n ln eln doc ls ms fp t Hr Hd He.
  pose proof (attach_reload_identity t Hr Hd He) as H. unfold t in *. cbn [reload attach_tree] in *.
  cbn [reload_extra attach_extra] in H. exact H.
Qed.

(* ------------------------------------------------------------------------------------------------ *)
(* 14. Full mode: a document with a docstring does not decode                                         *)

Lemma dec_kv_err k v e : decode v = Err e -> dec_kv (k, v) = Err e.
Proof. intro H. simpl. rewrite H. reflexivity. Qed.

Lemma decode_obj_field_err kvs k v e :
  In (k, v) kvs -> decode v = Err e -> exists e', decode (JObj kvs) = Err e'.
Proof.
  intros Hin Hv. rewrite decode_obj.
  destruct (mapM_err_in dec_kv kvs (k, v) e Hin (dec_kv_err k v e Hv)) as [e' ->]. simpl. eauto.
Qed.

Lemma decode_arr_elem_err l v e : In v l -> decode v = Err e -> exists e', decode (JArr l) = Err e'.
Proof.
  intros Hin Hv. rewrite decode_arr. destruct (mapM_err_in decode l v e Hin Hv) as [e' ->]. simpl. eauto.
Qed.

(* a parsed section {"kind": ..., "value": ...} is taken for an object or a parameter: KeyError 'name' *)
Lemma section_fails s : exists e, decode (enc_section s) = Err e.
Proof.
  destruct s as [k title v]. unfold enc_section. cbn [s_kind s_title s_value].
  destruct (decode v) as [v'|e] eqn:Ev.
  2:{ eapply decode_obj_field_err; [|exact Ev]. right. left. reflexivity. }
  rewrite decode_obj.
  set (tl := match title with Some t => if is_empty t then [] else [("title", JStr t)] | None => [] end).
  set (tl' := match title with Some t => if is_empty t then [] else [("title", PStr t)] | None => [] end).
  assert (Hm : mapM dec_kv ([("kind", JStr k); ("value", v)] ++ tl) = Ok ([("kind", PStr k); ("value", v')] ++ tl')).
  { apply mapM_app_ok.
    - rewrite !mapM_cons, mapM_nil. cbn [dec_kv]. rewrite Ev. reflexivity.
    - unfold tl, tl'. destruct title as [t|]; [destruct (is_empty t)|]; reflexivity. }
  rewrite Hm. cbn [bind].
  assert (Hcls : has_key "cls" ([("kind", PStr k); ("value", v')] ++ tl') = false).
  { unfold tl'. destruct title as [t|]; [destruct (is_empty t)|]; reflexivity. }
  assert (Hname : forall d, d = [("kind", PStr k); ("value", v')] ++ tl' -> getitem "name" d = Err (EKey "name")).
  { intros d ->. unfold tl'. destruct title as [t|]; [destruct (is_empty t)|]; reflexivity. }
  unfold hook. rewrite Hcls. cbn [app lookup String.eqb Ascii.eqb Bool.eqb].
  pose proof (Hname _ eq_refl) as Hn. cbn [app] in Hn.
  destruct (String.eqb k kind_module); [unfold load_module; rewrite Hn; simpl; eauto|].
  destruct (String.eqb k kind_class); [unfold load_class; rewrite Hn; simpl; eauto|].
  destruct (String.eqb k kind_function); [unfold load_function; rewrite Hn; simpl; eauto|].
  destruct (String.eqb k kind_attribute); [unfold load_attribute; rewrite Hn; simpl; eauto|].
  destruct (String.eqb k kind_alias); [unfold load_alias; rewrite Hn; simpl; eauto|].
  unfold load_parameter; rewrite Hn; simpl; eauto.
Qed.

Lemma doc_full_fails secs d : secs <> [] -> exists e, decode (enc_doc_full secs d) = Err e.
Proof.
  intro Hne. destruct secs as [|s r]; [contradiction|].
  destruct (section_fails s) as [e He].
  destruct (decode_arr_elem_err (map enc_section (s :: r)) (enc_section s) e (or_introl eq_refl) He) as [e' He'].
  unfold enc_doc_full. eapply decode_obj_field_err; [|exact He']. right. right. right. left. reflexivity.
Qed.

Lemma mapM_ok_inv {A B} (f : A -> res B) l l' x :
  mapM f l = Ok l' -> In x l -> exists y, f x = Ok y /\ In y l'.
Proof.
  revert l'. induction l as [|a r IH]; intros l' H Hin; [contradiction|].
  rewrite mapM_cons in H. destruct (f a) as [b|] eqn:Ea; [|discriminate]. simpl in H.
  destruct (mapM f r) as [bs|] eqn:Er; [|discriminate]. simpl in H. inversion H; subst.
  destruct Hin as [->|Hin]; [exists b; split; [assumption|left; reflexivity]|].
  destruct (IH _ eq_refl Hin) as [y [Hy Hi]]. exists y. split; [assumption|right; assumption].
Qed.

Lemma in_set_key k v (l : list (string * json)) k' v' :
  In (k', v') l -> k' <> k -> In (k', v') (set_key k v l).
Proof.
  induction l as [|[a b] r IH]; [contradiction|]. intros [E|Hin] Hne; simpl.
  - inversion E; subst. destruct (String.eqb_spec k' k); [contradiction|]. left. reflexivity.
  - destruct (String.eqb a k); right; [assumption|auto].
Qed.

Theorem full_docstring_not_decodable : forall F,
  (forall path, f_parsed (F path) <> []) ->
  forall t prefix j, has_obj_doc t = true -> enc_full F prefix t = Ok j -> exists e, decode j = Err e.
Proof.
  intros F HF. induction t using tree_ind'; intros prefix j Hdoc Henc; [discriminate|].
  cbn [enc_full] in Henc.
  destruct (full_keys F (dotted prefix n)) as [fk|] eqn:Efk; [|discriminate]. cbn [bind] in Henc.
  match type of Henc with context [mapM ?f ms] => destruct (mapM f ms) as [ms'|] eqn:Ems; [|discriminate] end.
  cbn [bind] in Henc. inversion Henc as [Hj]. clear Henc. subst j.
  set (base := [("kind", JStr (kind_of x)); ("name", JStr n)] ++ fk ++ opt_field "lineno" ln ++ opt_field "endlineno" eln
               ++ match doc with Some d => [("docstring", enc_doc_full (f_parsed (F (dotted prefix n))) d)] | None => [] end
               ++ [("labels", JArr (map JStr ls)); ("members", JObj ms')]) in *.
  assert (Hfield : forall k v, In (k, v) base -> k <> "filepath" ->
                   In (k, v) (match x with XModule fp => set_key "filepath" (enc_fpath fp) base | _ => base ++ enc_extra_full (F (dotted prefix n)) x end)).
  { intros k v Hin Hne. destruct x; try (apply in_or_app; left; assumption). apply in_set_key; assumption. }
  cbn [has_obj_doc] in Hdoc. apply orb_true_iff in Hdoc as [Hd|Hm].
  - destruct doc as [d|]; [|discriminate].
    destruct (doc_full_fails _ d (HF (dotted prefix n))) as [e He].
    eapply decode_obj_field_err; [|exact He]. apply Hfield.
    + unfold base. apply in_or_app; right. apply in_or_app; right. apply in_or_app; right. apply in_or_app; right.
      apply in_or_app; left. left. reflexivity.
    + discriminate.
  - apply existsb_exists in Hm as [[k m] [Hin Hmd]].
    destruct (mapM_ok_inv _ _ _ _ Ems Hin) as [[k' jm] [Hy Hi]]. cbv beta iota in Hy.
    destruct (enc_full F (dotted prefix n) m) as [jm'|] eqn:Em; [|discriminate]. cbn [bind] in Hy. inversion Hy; subst k' jm'.
    rewrite Forall_forall in H. destruct (H _ Hin (dotted prefix n) jm Hmd Em) as [e He].
    destruct (decode_obj_field_err ms' k jm e Hi He) as [e' He'].
    eapply decode_obj_field_err; [|exact He']. apply Hfield.
    + unfold base. apply in_or_app; right. apply in_or_app; right. apply in_or_app; right. apply in_or_app; right.
      apply in_or_app; right. right. left. reflexivity.
    + discriminate.
Qed.

(* witnesses for full mode *)
Definition w_F (secs : list section) (fp : option json) : string -> finfo :=
  fun _ => mkFinfo fp (Some (JStr "w.py")) (Some (JStr "w.py")) secs [].
Definition w_fulldoc : tree := TObj "w" None None (Some (mkDoc "Doc." (Some 1%Z) (Some 1%Z))) [] [] (XModule (FPStr "/x/w.py")).

Lemma refuted_full_docstring :
  (exists j, enc_full (w_F [mkSection "text" None (JStr "Doc.")] (Some (JStr "/x/w.py"))) "" w_fulldoc = Ok j /\ decode j = Err (EKey "name")) /\
  (exists j, enc_full (w_F [] (Some (JStr "/x/w.py"))) "" w_fulldoc = Ok j /\ decode j = Err EType) /\
  wf w_fulldoc = true.
Proof.
  split; [|split]; [eexists; split; [vm_compute; reflexivity|vm_compute; reflexivity]..|vm_compute; reflexivity].
Qed.

Lemma refuted_full_builtin :
  enc_full (w_F [] None) "" (w_module [] FPNone) = Err EBuiltin /\
  exists j, enc_full (w_F [] (Some (JStr "/x/w.py"))) "" (w_module [] (FPStr "/x/w.py")) = Ok j
            /\ decode j = Ok (PTree (w_module [] (FPStr "/x/w.py"))).
Proof. split; [vm_compute; reflexivity|]. eexists. split; vm_compute; reflexivity. Qed.

(* ------------------------------------------------------------------------------------------------ *)
(* 15. The decoding gaps are exact: a tree with one of them does not decode (no hypothesis on the tree) *)

Lemma mapM_dec_kv_lookup kvs : forall d k,
  mapM dec_kv kvs = Ok d ->
  match lookup k kvs with
  | Some j => exists v, decode j = Ok v /\ lookup k d = Some v
  | None => lookup k d = None
  end.
Proof.
  induction kvs as [|[k' j] r IH]; intros d k H.
  - rewrite mapM_nil in H. inversion H. reflexivity.
  - rewrite mapM_cons in H. cbn [dec_kv] in H. destruct (decode j) as [v|] eqn:Ej; [|discriminate]. cbn [bind] in H.
    destruct (mapM dec_kv r) as [d'|] eqn:Er; [|discriminate]. cbn [bind] in H. inversion H; subst d.
    cbn [lookup]. destruct (String.eqb k' k); [eauto|]. apply IH. reflexivity.
Qed.

Lemma lookup_none_has_key {A} k (d : list (string * A)) : lookup k d = None -> has_key k d = false.
Proof. unfold has_key. intros ->. reflexivity. Qed.

Ltac bind_step := match goal with
  | |- exists e, bind ?r _ = Err e => let E := fresh "E" in destruct r eqn:E; cbn [bind]; [|eauto]
  end.

Lemma load_class_no_lineno d : lookup "lineno" d = None -> exists e, load_class d = Err e.
Proof. intro H. unfold load_class. bind_step. unfold getitem at 1. rewrite H. simpl. eauto. Qed.
Lemma load_function_no_lineno d : lookup "lineno" d = None -> exists e, load_function d = Err e.
Proof. intro H. unfold load_function. do 4 bind_step. unfold getitem at 1. rewrite H. simpl. eauto. Qed.
Lemma load_attribute_no_lineno d : lookup "lineno" d = None -> exists e, load_attribute d = Err e.
Proof. intro H. unfold load_attribute. bind_step. unfold getitem at 1. rewrite H. simpl. eauto. Qed.
Lemma load_alias_no_lineno d : lookup "lineno" d = None -> exists e, load_alias d = Err e.
Proof. intro H. unfold load_alias. do 2 bind_step. unfold getitem at 1. rewrite H. simpl. eauto. Qed.

Lemma load_module_bad_filepath d v :
  lookup "filepath" d = Some v -> (v = PNull \/ exists l, v = PList l) -> exists e, load_module d = Err e.
Proof.
  intros H Hv. unfold load_module. bind_step. unfold getitem at 1. rewrite H. cbn [of_option bind].
  destruct Hv as [->|[l ->]]; simpl; eauto.
Qed.

(* every loader, when it succeeds, returns a tree *)
Ltac bind_inv H :=
  repeat match type of H with
         | bind ?r _ = Ok _ => let E := fresh "E" in destruct r eqn:E; cbn [bind] in H; [|discriminate H]
         end.

Lemma decode_enc_min_is_tree t v : decode (enc_min t) = Ok v -> exists t', v = PTree t'.
Proof.
  intro H. destruct t as [n ln eln doc ls ms x|n tp ln eln]; cbn [enc_min] in H; rewrite decode_obj in H.
  - destruct (mapM dec_kv _) as [d|] eqn:Ed in H; [|discriminate]. cbn [bind] in H.
    pose proof (mapM_dec_kv_lookup _ d "cls" Ed) as Hc. pose proof (mapM_dec_kv_lookup _ d "kind" Ed) as Hk.
    assert (Hcls : lookup "cls" d = None).
    { revert Hc. destruct ln, eln, doc, x; unfold enc_extra, enc_ev_field;
        repeat match goal with |- context [is_vnone ?v] => destruct (is_vnone v) end; cbn; auto. }
    assert (Hkind : lookup "kind" d = Some (PStr (kind_of x))).
    { cbn in Hk. destruct Hk as [v' [Hv' Hl]]. inversion Hv'; subst. exact Hl. }
    unfold hook in H. rewrite (lookup_none_has_key _ _ Hcls), Hkind in H.
    destruct x; cbn [kind_of] in H;
      repeat match type of H with context [String.eqb ?a ?b] => change (String.eqb a b) with true in H || change (String.eqb a b) with false in H end;
      cbn iota in H.
    + unfold load_module in H. bind_inv H. inversion H. eauto.
    + unfold load_class in H. bind_inv H. inversion H. eauto.
    + unfold load_function in H. bind_inv H. inversion H. eauto.
    + unfold load_attribute in H. bind_inv H. inversion H. eauto.
  - destruct (mapM dec_kv _) as [d|] eqn:Ed in H; [|discriminate]. cbn [bind] in H.
    pose proof (mapM_dec_kv_lookup _ d "cls" Ed) as Hc. pose proof (mapM_dec_kv_lookup _ d "kind" Ed) as Hk.
    assert (Hcls : lookup "cls" d = None).
    { revert Hc. unfold truthy_field. destruct ln as [z|]; [destruct (Z.eqb z 0)|]; (destruct eln as [z'|]; [destruct (Z.eqb z' 0)|]); cbn; auto. }
    assert (Hkind : lookup "kind" d = Some (PStr kind_alias)).
    { cbn in Hk. destruct Hk as [v' [Hv' Hl]]. inversion Hv'; subst. exact Hl. }
    unfold hook in H. rewrite (lookup_none_has_key _ _ Hcls), Hkind in H.
    change (String.eqb kind_alias kind_module) with false in H. change (String.eqb kind_alias kind_class) with false in H.
    change (String.eqb kind_alias kind_function) with false in H. change (String.eqb kind_alias kind_attribute) with false in H.
    change (String.eqb kind_alias kind_alias) with true in H. cbn iota in H.
    unfold load_alias in H. bind_inv H. inversion H. eauto.
Qed.

(* a members dict with a key "cls" or "kind" is not returned as a dict *)
Lemma members_dict_fails ms :
  (mem_str "cls" (keys_of ms) || mem_str "kind" (keys_of ms))%bool = true ->
  exists e, decode (JObj (map (fun km : string * tree => let (k, m) := km in (k, enc_min m)) ms)) = Err e.
Proof.
  intro Hk. rewrite decode_obj.
  destruct (mapM dec_kv _) as [d|] eqn:Ed; [|simpl; eauto]. cbn [bind].
  assert (Hval : forall k, mem_str k (keys_of ms) = true -> exists t', lookup k d = Some (PTree t')).
  { intros k Hm. pose proof (mapM_dec_kv_lookup _ d k Ed) as Hl.
    assert (Hex : exists m, lookup k (map (fun km : string * tree => let (k0, m) := km in (k0, enc_min m)) ms) = Some (enc_min m)).
    { clear -Hm. induction ms as [|[k' m] r IH]; [discriminate|]. cbn [map lookup]. unfold keys_of, mem_str in Hm. cbn [map existsb fst] in Hm.
      rewrite (String.eqb_sym k k') in Hm. destruct (String.eqb k' k); [eauto|]. apply IH. exact Hm. }
    destruct Hex as [m Hm']. rewrite Hm' in Hl. destruct Hl as [v [Hv Hl]].
    destruct (decode_enc_min_is_tree _ _ Hv) as [t' ->]. eauto. }
  unfold hook. destruct (mem_str "cls" (keys_of ms)) eqn:Hc.
  - destruct (Hval _ Hc) as [t' Ht]. unfold has_key. rewrite Ht. unfold load_expression. rewrite Ht. eauto.
  - cbn [orb] in Hk. destruct (Hval _ Hk) as [t' Ht].
    destruct (has_key "cls" d) eqn:Hh.
    + unfold load_expression. unfold has_key in Hh. destruct (lookup "cls" d) as [v|] eqn:Hv; [|discriminate].
      pose proof (mapM_dec_kv_lookup _ d "cls" Ed) as Hl.
      destruct (lookup "cls" (map (fun km : string * tree => let (k0, m) := km in (k0, enc_min m)) ms)) as [j|] eqn:Hj.
      * exfalso. assert (mem_str "cls" (keys_of ms) = true); [|congruence].
        clear -Hj. induction ms as [|[k' m] r IH]; [discriminate|]. cbn [map lookup] in Hj. unfold keys_of, mem_str. cbn [map existsb fst].
        rewrite (String.eqb_sym "cls" k'). destruct (String.eqb k' "cls"); [reflexivity|]. apply IH. exact Hj.
      * congruence.
    + rewrite Ht. unfold load_parameter. do 2 bind_step. unfold getitem at 1. rewrite Ht. cbn [of_option bind]. eauto.
Qed.

Lemma in_enc_fields_members n ln eln doc ls ms x :
  lookup "members" ([("kind", JStr (kind_of x)); ("name", JStr n)] ++ opt_field "lineno" ln ++ opt_field "endlineno" eln ++ enc_docfield doc
                    ++ [("labels", JArr (map JStr ls));
                        ("members", JObj (map (fun km : string * tree => let (k, m) := km in (k, enc_min m)) ms))] ++ enc_extra x)
  = Some (JObj (map (fun km : string * tree => let (k, m) := km in (k, enc_min m)) ms)).
Proof. destruct ln, eln, doc; reflexivity. Qed.

Theorem gap_decode_fails : forall t,
  (gap_lineno t || gap_filepath t || gap_memberkey t)%bool = true -> exists e, decode (enc_min t) = Err e.
Proof.
  induction t using tree_ind'; intro Hg.
  - (* alias: only the line-number gap applies *)
    cbn [gap_lineno gap_filepath gap_memberkey orb] in Hg. rewrite !orb_false_r in Hg.
    cbn [enc_min]. rewrite decode_obj.
    destruct (mapM dec_kv _) as [d|] eqn:Ed; [|simpl; eauto]. cbn [bind].
    pose proof (mapM_dec_kv_lookup _ d "cls" Ed) as Hc. pose proof (mapM_dec_kv_lookup _ d "kind" Ed) as Hk.
    pose proof (mapM_dec_kv_lookup _ d "lineno" Ed) as Hl.
    assert (Hcls : lookup "cls" d = None).
    { revert Hc. unfold truthy_field. destruct ln as [z|]; [destruct (Z.eqb z 0)|]; (destruct eln as [z'|]; [destruct (Z.eqb z' 0)|]); cbn; auto. }
    assert (Hkind : lookup "kind" d = Some (PStr kind_alias)).
    { cbn in Hk. destruct Hk as [v' [Hv' Hl']]. inversion Hv'; subst. exact Hl'. }
    assert (Hline : lookup "lineno" d = None).
    { revert Hl. unfold truthy_field. destruct ln as [z|]; [destruct (Z.eqb z 0); [|discriminate]|];
        (destruct eln as [z'|]; [destruct (Z.eqb z' 0)|]); cbn; auto. }
    unfold hook. rewrite (lookup_none_has_key _ _ Hcls), Hkind.
    change (String.eqb kind_alias kind_module) with false. change (String.eqb kind_alias kind_class) with false.
    change (String.eqb kind_alias kind_function) with false. change (String.eqb kind_alias kind_attribute) with false.
    change (String.eqb kind_alias kind_alias) with true. cbn iota. apply load_alias_no_lineno. assumption.
  - (* object *)
    cbn [enc_min]. rewrite decode_obj.
    destruct (mapM dec_kv _) as [d|] eqn:Ed; [|simpl; eauto]. cbn [bind].
    pose proof (mapM_dec_kv_lookup _ d "members" Ed) as Hmem. rewrite in_enc_fields_members in Hmem.
    destruct Hmem as [vm [Hvm _]].
    (* a gap below: the members dict would not have decoded *)
    assert (Hsub : forall km, In km ms -> (gap_lineno (snd km) || gap_filepath (snd km) || gap_memberkey (snd km))%bool = true -> False).
    { intros [k m] Hin Hgm. rewrite Forall_forall in H. destruct (H _ Hin Hgm) as [e He]. cbn [snd] in He.
      assert (Hin' : In (k, enc_min m) (map (fun km : string * tree => let (k, m) := km in (k, enc_min m)) ms)).
      { apply in_map_iff. exists (k, m). auto. }
      destruct (decode_obj_field_err _ _ _ _ Hin' He) as [e' He']. congruence. }
    assert (Hkeys : (mem_str "cls" (keys_of ms) || mem_str "kind" (keys_of ms))%bool = false).
    { destruct (mem_str "cls" (keys_of ms) || mem_str "kind" (keys_of ms))%bool eqn:Hk; [|reflexivity].
      destruct (members_dict_fails ms Hk) as [e He]. congruence. }
    assert (Hnone : forall f, (forall km, In km ms -> f (snd km) = true -> (gap_lineno (snd km) || gap_filepath (snd km) || gap_memberkey (snd km))%bool = true) ->
                    existsb (fun km : string * tree => let (_, m) := km in f m) ms = false).
    { intros f Hf. destruct (existsb _ ms) eqn:He; [|reflexivity]. apply existsb_exists in He as [[k m] [Hin Hfm]].
      exfalso. apply (Hsub (k, m) Hin). apply (Hf (k, m) Hin). exact Hfm. }
    cbn [gap_lineno gap_filepath gap_memberkey] in Hg.
    rewrite (Hnone gap_lineno) in Hg by (intros km _ ->; reflexivity).
    rewrite (Hnone gap_filepath) in Hg by (intros km _ ->; apply orb_true_iff; left; apply orb_true_r).
    rewrite (Hnone gap_memberkey) in Hg by (intros km _ ->; apply orb_true_r).
    rewrite Hkeys in Hg. rewrite !orb_false_r in Hg.
    (* the gap is at this node *)
    pose proof (mapM_dec_kv_lookup _ d "cls" Ed) as Hc. pose proof (mapM_dec_kv_lookup _ d "kind" Ed) as Hk.
    pose proof (mapM_dec_kv_lookup _ d "lineno" Ed) as Hl. pose proof (mapM_dec_kv_lookup _ d "filepath" Ed) as Hf.
    assert (Hcls : lookup "cls" d = None).
    { revert Hc. destruct ln, eln, doc, x; unfold enc_extra, enc_ev_field;
        repeat match goal with |- context [is_vnone ?v] => destruct (is_vnone v) end; cbn; auto. }
    assert (Hkind : lookup "kind" d = Some (PStr (kind_of x))).
    { cbn in Hk. destruct Hk as [v' [Hv' Hl']]. inversion Hv'; subst. exact Hl'. }
    unfold hook. rewrite (lookup_none_has_key _ _ Hcls), Hkind.
    destruct x as [fp|bases decos|decos params ret|v a]; cbn [kind_of is_module negb andb orb] in *;
      repeat match goal with |- context [String.eqb ?a ?b] => change (String.eqb a b) with true || change (String.eqb a b) with false end;
      cbn iota.
    + (* module: file path *)
      assert (Hfp : exists v, lookup "filepath" d = Some v /\ (v = PNull \/ exists l, v = PList l)).
      { revert Hf. destruct ln, eln, doc; cbn; intros [v [Hv Hl']]; exists v; (split; [exact Hl'|]);
          (destruct fp as [|s|l]; [inversion Hv; auto|discriminate Hg|
             right; cbn [enc_fpath] in Hv; rewrite dec_labels in Hv; inversion Hv; eauto]). }
      destruct Hfp as [v [Hv Hb]]. eapply load_module_bad_filepath; eassumption.
    + destruct ln as [z|]; [discriminate Hg|].
      apply load_class_no_lineno. revert Hl. destruct eln, doc; cbn; auto.
    + destruct ln as [z|]; [discriminate Hg|].
      apply load_function_no_lineno. revert Hl. destruct eln, doc; cbn; auto.
    + destruct ln as [z|]; [discriminate Hg|].
      apply load_attribute_no_lineno. revert Hl. destruct eln, doc; unfold enc_extra, enc_ev_field;
        repeat match goal with |- context [is_vnone ?v] => destruct (is_vnone v) end; cbn; auto.
Qed.
