(* C08 proofs: the JSON round trip of Griffe trees. *)
From Coq Require Import List ZArith String Ascii Bool Arith Lia.
From Verif Require Import Lib.Sexp Gen.C08_tables Model.C08_json.
Import ListNotations.
Open Scope string_scope.
Open Scope list_scope.
Open Scope nat_scope.

(* ------------------------------------------------------------------------------------------------ *)
(* 0. Generic lemmas                                                                                  *)

Lemma mapM_nil {A B} (f : A -> res B) : mapM f [] = Ok [].
Proof. reflexivity. Qed.
Lemma mapM_cons {A B} (f : A -> res B) x r :
  mapM f (x :: r) = bind (f x) (fun y => bind (mapM f r) (fun ys => Ok (y :: ys))).
Proof. reflexivity. Qed.

Lemma mapM_map {A B C} (f : B -> res C) (g : A -> B) (l : list A) :
  mapM f (map g l) = mapM (fun x => f (g x)) l.
Proof. induction l as [|x r IH]; [reflexivity|]. cbn [map]. rewrite !mapM_cons, IH. reflexivity. Qed.

Lemma mapM_ok_in {A B} (f : A -> res B) (h : A -> B) (l : list A) :
  (forall x, In x l -> f x = Ok (h x)) -> mapM f l = Ok (map h l).
Proof.
  induction l as [|x r IH]; intro H; [reflexivity|].
  rewrite mapM_cons, (H x (or_introl eq_refl)). simpl bind. rewrite IH by (intros; apply H; right; assumption). reflexivity.
Qed.

Lemma mapM_ok_forall {A B} (P : A -> Prop) (f : A -> res B) (h : A -> B) (l : list A) :
  Forall P l -> (forall x, P x -> f x = Ok (h x)) -> mapM f l = Ok (map h l).
Proof. intros HF H. apply mapM_ok_in. intros x Hx. apply H. rewrite Forall_forall in HF. auto. Qed.

Lemma mapM_app {A B} (f : A -> res B) (a b : list A) :
  mapM f (a ++ b) = bind (mapM f a) (fun a' => bind (mapM f b) (fun b' => Ok (a' ++ b'))).
Proof.
  induction a as [|x r IH].
  - cbn [app]. rewrite mapM_nil. simpl bind. destruct (mapM f b); reflexivity.
  - cbn [app]. rewrite !mapM_cons. destruct (f x); simpl bind; [|reflexivity]. rewrite IH.
    destruct (mapM f r); simpl bind; [|reflexivity].
    destruct (mapM f b); reflexivity.
Qed.

Lemma mapM_err_in {A B} (f : A -> res B) (l : list A) x e :
  In x l -> f x = Err e -> exists e', mapM f l = Err e'.
Proof.
  induction l as [|y r IH]; [simpl; tauto|]. intros [->|Hin] Hx; rewrite mapM_cons.
  - rewrite Hx. simpl. eauto.
  - destruct (f y); simpl bind; [|eauto]. destruct (IH Hin Hx) as [e' ->]. simpl. eauto.
Qed.

Lemma map_opt'_ok_in {A B} (f : A -> option B) (h : A -> B) (l : list A) :
  (forall x, In x l -> f x = Some (h x)) -> map_opt' f l = Some (map h l).
Proof.
  induction l as [|x r IH]; simpl; intro H; [reflexivity|].
  rewrite (H x (or_introl eq_refl)). rewrite IH by (intros; apply H; right; assumption). reflexivity.
Qed.

Lemma forallb_map {A B} (p : B -> bool) (g : A -> B) (l : list A) :
  forallb p (map g l) = forallb (fun x => p (g x)) l.
Proof. induction l; simpl; congruence. Qed.

Lemma list_eqb_eq a b : list_eqb a b = true -> a = b.
Proof.
  revert b; induction a as [|x a IH]; destruct b as [|y b]; simpl; try discriminate; [reflexivity|].
  intro H. apply andb_true_iff in H as [H1 H2]. apply String.eqb_eq in H1. f_equal; auto.
Qed.
Lemma list_eqb_refl a : list_eqb a a = true.
Proof. induction a; simpl; [reflexivity|]. rewrite String.eqb_refl. assumption. Qed.

Lemma mem_str_in s l : mem_str s l = true <-> In s l.
Proof.
  unfold mem_str. rewrite existsb_exists. split.
  - intros [x [Hin Heq]]. apply String.eqb_eq in Heq. subst. assumption.
  - intro H. exists s. split; [assumption|apply String.eqb_refl].
Qed.
Lemma mem_str_false s l : mem_str s l = false -> ~ In s l.
Proof. intros H Hin. apply mem_str_in in Hin. congruence. Qed.

(* assoc lists *)
Lemma lookup_not_in {A} k (l : list (string * A)) : ~ In k (keys_of l) -> lookup k l = None.
Proof.
  induction l as [|[k' v] r IH]; simpl; [reflexivity|]. intro H.
  destruct (String.eqb_spec k' k); [exfalso; apply H; left; assumption|]. apply IH. tauto.
Qed.
Lemma lookup_app_r {A} k (a b : list (string * A)) : ~ In k (keys_of a) -> lookup k (a ++ b) = lookup k b.
Proof.
  induction a as [|[k' v] r IH]; simpl; [reflexivity|]. intro H.
  destruct (String.eqb_spec k' k); [exfalso; apply H; left; assumption|]. apply IH. tauto.
Qed.
Lemma remove_key_app_last {A} k (a : list (string * A)) v :
  ~ In k (keys_of a) -> remove_key k (a ++ [(k, v)]) = a.
Proof.
  induction a as [|[k' w] r IH]; simpl; intro H.
  - rewrite String.eqb_refl. reflexivity.
  - destruct (String.eqb_spec k' k); [exfalso; apply H; left; assumption|]. rewrite IH by tauto. reflexivity.
Qed.
Lemma keys_map_snd {A B} (g : A -> B) (l : list (string * A)) :
  keys_of (map (fun kv => match kv with (k, v) => (k, g v) end) l) = keys_of l.
Proof. unfold keys_of. induction l as [|[k v] r IH]; simpl; congruence. Qed.
Lemma lookup_in_keys {A} k (l : list (string * A)) : In k (keys_of l) -> has_key k l = true.
Proof.
  unfold has_key. induction l as [|[k' v] r IH]; simpl; [tauto|]. intros [->|H].
  - rewrite String.eqb_refl. reflexivity.
  - destruct (String.eqb k' k); [reflexivity|]. auto.
Qed.
Lemma lookup_some_in {A} k (l : list (string * A)) v : lookup k l = Some v -> In (k, v) l.
Proof.
  induction l as [|[k' w] r IH]; simpl; [discriminate|].
  destruct (String.eqb_spec k' k); [intro H; inversion H; subst; left; reflexivity|]. intro H. right. auto.
Qed.

(* ------------------------------------------------------------------------------------------------ *)
(* 1. Induction principles for the nested types                                                       *)

Section EvInd.
  Variable P : ev -> Prop.
  Hypothesis HNone : P VNone.
  Hypothesis HBool : forall b, P (VBool b).
  Hypothesis HStr : forall s, P (VStr s).
  Hypothesis HEnum : forall s, P (VEnum s).
  Hypothesis HList : forall l, Forall P l -> P (VList l).
  Hypothesis HName : forall n p, P (VName n p).
  Hypothesis HNode : forall c fs, Forall (fun kv => P (snd kv)) fs -> P (VNode c fs).
  Hypothesis HInt : forall z, P (VInt z).

  Fixpoint ev_ind' (e : ev) : P e :=
    match e with
    | VNone => HNone
    | VBool b => HBool b
    | VStr s => HStr s
    | VEnum s => HEnum s
    | VList l => HList l ((fix go (l : list ev) : Forall P l :=
                             match l with [] => Forall_nil _ | x :: r => Forall_cons x (ev_ind' x) (go r) end) l)
    | VName n p => HName n p
    | VNode c fs => HNode c fs ((fix go (fs : list (string * ev)) : Forall (fun kv => P (snd kv)) fs :=
                                   match fs with
                                   | [] => Forall_nil _
                                   | kv :: r => Forall_cons kv (ev_ind' (snd kv)) (go r)
                                   end) fs)
    | VInt z => HInt z
    end.
End EvInd.

Section TreeInd.
  Variable P : tree -> Prop.
  Hypothesis HAlias : forall n tp ln eln, P (TAlias n tp ln eln).
  Hypothesis HObj : forall n ln eln doc ls ms x, Forall (fun km => P (snd km)) ms -> P (TObj n ln eln doc ls ms x).

  Fixpoint tree_ind' (t : tree) : P t :=
    match t with
    | TAlias n tp ln eln => HAlias n tp ln eln
    | TObj n ln eln doc ls ms x =>
        HObj n ln eln doc ls ms x
             ((fix go (ms : list (string * tree)) : Forall (fun km => P (snd km)) ms :=
                 match ms with
                 | [] => Forall_nil _
                 | km :: r => Forall_cons km (tree_ind' (snd km)) (go r)
                 end) ms)
    end.
End TreeInd.

(* ------------------------------------------------------------------------------------------------ *)
(* 2. Decoder unfolding                                                                               *)

Definition dec_kv (kv : string * json) : res (string * pv) :=
  match kv with (k, v) => bind (decode v) (fun v' => Ok (k, v')) end.

Lemma decode_obj kvs : decode (JObj kvs) = bind (mapM dec_kv kvs) hook.
Proof. reflexivity. Qed.
Lemma decode_arr l : decode (JArr l) = bind (mapM decode l) (fun l' => Ok (PList l')).
Proof. reflexivity. Qed.

(* ------------------------------------------------------------------------------------------------ *)
(* 3. Expressions                                                                                     *)

Lemma reload_is_name v : is_name (reload_ev v) = is_name v.
Proof. destruct v; simpl; try reflexivity. destruct (String.eqb cls "ExprAttribute"); [reflexivity|]. destruct (String.eqb cls "ExprParameter"); reflexivity. Qed.

(* a decoded, reloaded expression is again the content of an expression field *)
Lemma as_of_reload : forall e, as_ev (of_ev (reload_ev e)) = Some (reload_ev e).
Proof.
  induction e using ev_ind'; simpl; try reflexivity.
  - (* list *)
    rewrite map_map.
    assert (Hm : map_opt' as_ev (map (fun x => of_ev (reload_ev x)) l) = Some (map reload_ev l)).
    { induction l as [|x r IH]; simpl; [reflexivity|]. inversion H; subst.
      rewrite H2. rewrite IH by assumption. reflexivity. }
    change (fix go (l0 : list pv) : option (list ev) := match l0 with
            | [] => Some [] | x :: r => match as_ev x with
                                        | Some y => match go r with Some ys => Some (y :: ys) | None => None end
                                        | None => None end end) with (map_opt' as_ev).
    rewrite Hm. reflexivity.
  - destruct (String.eqb c "ExprAttribute"); [reflexivity|]. destruct (String.eqb c "ExprParameter"); reflexivity.
Qed.

Lemma ev_res_of_reload e : ev_res (of_ev (reload_ev e)) = Ok (reload_ev e).
Proof. unfold ev_res. rewrite as_of_reload. reflexivity. Qed.

(* the chain re-linking of _load_expression succeeds on what the builders produce *)
Lemma forallb_tl {A} (p : A -> bool) l : forallb p l = true -> forallb p (tl l) = true.
Proof. destruct l; simpl; [auto|]. intro H. apply andb_true_iff in H. tauto. Qed.

Lemma relink_chain_names : forall (l : list ev) (prev : prevk),
  forallb is_name l = true -> relink_chain prev l = Ok (relink_chain_t prev l).
Proof.
  induction l as [|v r IH]; intros prev H; [reflexivity|].
  cbn [forallb] in H. apply andb_true_iff in H as [Hv Hr]. destruct v; simpl in Hv; try discriminate.
  cbn [relink_chain relink_chain_t]. rewrite (IH _ Hr). destruct (link_of prev); reflexivity.
Qed.

(* a chain whose elements after the first are names is always re-linked *)
Lemma relink_chain_total : forall (first : ev) (r : list ev),
  forallb is_name r = true -> relink_chain PvNone (first :: r) = Ok (relink_chain_t PvNone (first :: r)).
Proof.
  intros first r H. cbn [relink_chain relink_chain_t link_of]. rewrite (relink_chain_names _ _ H). reflexivity.
Qed.

(* facts about the regenerated class table, checked by computation *)
Lemma table_parent_optional :
  forallb (fun c => forallb (fun fd => negb (String.eqb (fst fd) "parent") || negb (is_required (snd fd))) (snd c)) expr_classes = true.
Proof. vm_compute. reflexivity. Qed.

Lemma table_fields_distinct : forallb (fun c => distinct (keys_of (snd c))) expr_classes = true.
Proof. vm_compute. reflexivity. Qed.

Lemma distinct_cons x l : distinct (x :: l) = true -> ~ In x l /\ distinct l = true.
Proof. simpl. intro H. apply andb_true_iff in H as [H1 H2]. split; [|assumption]. apply mem_str_false. destruct (mem_str x l); [discriminate|reflexivity]. Qed.

(* filling the constructor from a document that gives exactly the dumped fields, in dump order, changes nothing *)
Lemma fill_fields_id : forall (spec : list (string * c08_default)) (fs : list (string * ev)),
  distinct (keys_of spec) = true ->
  keys_of fs = filter (fun k => negb (String.eqb k "parent")) (keys_of spec) ->
  filter (fun kv => negb (String.eqb (fst kv) "parent"))
         (map (fun fd => (fst fd, match lookup (fst fd) fs with Some v => v | None => default_ev (snd fd) end)) spec) = fs.
Proof.
  induction spec as [|[f d] spec IH]; intros fs Hd Hk.
  - destruct fs; [reflexivity|discriminate].
  - cbn [keys_of map fst] in Hd. apply distinct_cons in Hd as [Hnin Hd]. cbn [keys_of map fst filter] in Hk. cbn [map filter fst snd].
    destruct (negb (String.eqb f "parent")) eqn:Enp.
    + destruct fs as [|[k v] fs']; [discriminate|]. cbn [keys_of map fst] in Hk. inversion Hk as [[Hkf Hk']]. subst k.
      cbn [lookup]. rewrite String.eqb_refl. f_equal.
      etransitivity; [|exact (IH fs' Hd Hk')]. f_equal. apply map_ext_in. intros [f' d'] Hin. cbn [fst snd lookup].
      destruct (String.eqb_spec f f') as [->|Hne]; [|reflexivity].
      exfalso. apply Hnin. unfold keys_of. apply in_map_iff. exists (f', d'). auto.
    + apply IH; assumption.
Qed.

Lemma class_fields_in c spec : class_fields c = Some spec -> In (c, spec) expr_classes.
Proof. unfold class_fields. apply lookup_some_in. Qed.

Definition nonparent (k : string) : bool := negb (String.eqb k "parent").

Lemma spec_check_given (spec : list (string * c08_default)) (given : list (string * pv)) :
  keys_of given = filter nonparent (keys_of spec) ->
  forallb (fun kv => has_key (fst kv) spec) given = true.
Proof.
  intro Hk. apply forallb_forall. intros [k v] Hin. simpl.
  apply lookup_in_keys.
  assert (In k (keys_of given)) by (unfold keys_of; apply in_map_iff; exists (k, v); auto).
  rewrite Hk in H. apply filter_In in H. tauto.
Qed.

Lemma spec_check_required c (spec : list (string * c08_default)) (given : list (string * pv)) :
  class_fields c = Some spec ->
  keys_of given = filter nonparent (keys_of spec) ->
  forallb (fun fd => negb (is_required (snd fd)) || has_key (fst fd) given) spec = true.
Proof.
  intros Hc Hk. apply forallb_forall. intros [f d] Hin. simpl.
  pose proof table_parent_optional as HT. rewrite forallb_forall in HT.
  specialize (HT _ (class_fields_in _ _ Hc)). simpl in HT. rewrite forallb_forall in HT.
  specialize (HT _ Hin). simpl in HT.
  destruct (String.eqb_spec f "parent") as [->|Hne].
  - simpl in HT. rewrite HT. reflexivity.
  - apply orb_true_iff. right. apply lookup_in_keys. rewrite Hk. apply filter_In. split.
    + unfold keys_of. apply in_map_iff. exists (f, d). auto.
    + unfold nonparent. destruct (String.eqb_spec f "parent"); [contradiction|reflexivity].
Qed.

Lemma filter_nonparent_id (l : list (string * ev)) :
  forallb nonparent (keys_of l) = true -> filter (fun kv => negb (String.eqb (fst kv) "parent")) l = l.
Proof.
  induction l as [|[k v] r IH]; simpl; [reflexivity|]. intro H. apply andb_true_iff in H as [H1 H2].
  unfold nonparent in H1. rewrite H1. rewrite IH by assumption. reflexivity.
Qed.
Lemma forallb_filter_self {A} (p : A -> bool) l : forallb p (filter p l) = true.
Proof. induction l as [|x r IH]; simpl; [reflexivity|]. destruct (p x) eqn:E; simpl; [rewrite E|]; assumption. Qed.

Definition encf (kv : string * ev) : string * json := match kv with (k, v) => (k, enc_ev v) end.
Definition relf (kv : string * ev) : string * ev := match kv with (k, v) => (k, reload_ev v) end.

Lemma wf_ev_node c fs :
  wf_ev (VNode c fs) = true ->
  String.eqb c "ExprName" = false /\
  (exists spec, class_fields c = Some spec /\ keys_of fs = filter nonparent (keys_of spec)) /\
  ~ In "cls" (keys_of fs) /\
  (String.eqb c "ExprAttribute" = true -> attr_values_ok fs = true) /\
  (String.eqb c "ExprParameter" = true -> param_kind_ok fs = true) /\
  Forall (fun kv => wf_ev (snd kv) = true) fs.
Proof.
  intro H. cbn [wf_ev] in H.
  apply andb_true_iff in H as [H HE]. apply andb_true_iff in H as [H HP]. apply andb_true_iff in H as [H HD].
  apply andb_true_iff in H as [H HC]. apply andb_true_iff in H as [HA HB].
  split; [destruct (String.eqb c "ExprName"); [discriminate|reflexivity]|].
  split.
  { unfold dumped_fields in HB. destruct (class_fields c) as [spec|]; [|discriminate].
    exists spec. split; [reflexivity|]. apply list_eqb_eq in HB. exact HB. }
  split; [apply mem_str_false; destruct (mem_str "cls" (keys_of fs)); [discriminate|reflexivity]|].
  split; [intro Hc; rewrite Hc in HD; simpl in HD; exact HD|].
  split; [intro Hc; rewrite Hc in HP; simpl in HP; exact HP|].
  apply Forall_forall. intros [k v] Hin. rewrite forallb_forall in HE. exact (HE _ Hin).
Qed.

Lemma attr_values_ok_inv fs :
  attr_values_ok fs = true -> exists first r, fs = [("values", VList (first :: r))] /\ forallb is_name r = true.
Proof.
  unfold attr_values_ok. destruct fs as [|[k v] rest]; [discriminate|].
  destruct v; try (destruct rest; discriminate).
  destruct l as [|first r]; [destruct rest; discriminate|].
  destruct rest; [|discriminate]. intro H. apply andb_true_iff in H as [Hk Hr].
  apply String.eqb_eq in Hk. subst. eauto.
Qed.

Lemma lookup_map_snd {A B} (g : A -> B) k (l : list (string * A)) :
  lookup k (map (fun kv => (fst kv, g (snd kv))) l) = option_map g (lookup k l).
Proof. induction l as [|[k' v] r IH]; [reflexivity|]. cbn [map lookup fst snd]. destruct (String.eqb k' k); [reflexivity|exact IH]. Qed.

Lemma distinct_lookup_in {A} (l : list (string * A)) k v : distinct (keys_of l) = true -> In (k, v) l -> lookup k l = Some v.
Proof.
  induction l as [|[k' v'] r IH]; [contradiction|]. cbn [keys_of map fst]. intros Hd [E|Hin].
  - inversion E; subst. cbn [lookup]. rewrite String.eqb_refl. reflexivity.
  - apply distinct_cons in Hd as [Hn Hd]. cbn [lookup]. destruct (String.eqb_spec k' k) as [->|_]; [|apply IH; assumption].
    exfalso. apply Hn. unfold keys_of. apply in_map_iff. exists (k, v). auto.
Qed.

Lemma filter_distinct (p : string -> bool) l : distinct l = true -> distinct (filter p l) = true.
Proof.
  induction l as [|x r IH]; [reflexivity|]. intro H. apply distinct_cons in H as [Hn Hd]. cbn [filter].
  destruct (p x); [|auto]. cbn [distinct]. rewrite (IH Hd), andb_true_r. apply negb_true_iff.
  destruct (mem_str x (filter p r)) eqn:E; [|reflexivity]. apply mem_str_in, filter_In in E. tauto.
Qed.

Lemma fix_kind_total fs :
  (forall k v, In (k, v) fs -> k = "kind" -> exists s, v = VStr s /\ mem_str s parameter_kind_values = true) ->
  fix_kind fs = Ok (fix_kind_t fs).
Proof.
  intro H. unfold fix_kind, fix_kind_t. apply mapM_ok_in. intros [k v] Hin.
  destruct (String.eqb_spec k "kind") as [->|_]; [|reflexivity].
  destruct (H _ _ Hin eq_refl) as [s [-> Hs]]. rewrite Hs. reflexivity.
Qed.

(* Main lemma for expressions: what was encoded decodes to the reloaded expression. *)
Lemma expr_roundtrip : forall e, wf_ev e = true -> decode (enc_ev e) = Ok (of_ev (reload_ev e)).
Proof.
  induction e using ev_ind'; intro Hwf; try reflexivity.
  - (* list *)
    simpl in Hwf. rewrite forallb_forall in Hwf.
    cbn [enc_ev]. rewrite decode_arr, mapM_map.
    rewrite (mapM_ok_in _ (fun x => of_ev (reload_ev x))).
    + simpl. rewrite map_map. reflexivity.
    + intros x Hx. rewrite Forall_forall in H. apply H; auto.
  - (* node *)
    destruct (wf_ev_node _ _ Hwf) as (Hname & (spec & Hspec & Hkeys) & Hcls & Hattr & Hparam & Hch).
    cbn [enc_ev]. rewrite decode_obj.
    change (map (fun kv : string * ev => let (k, v) := kv in (k, enc_ev v)) fs) with (map encf fs).
    rewrite mapM_app, mapM_map.
    set (dfs := map (fun kv : string * ev => (fst kv, of_ev (reload_ev (snd kv)))) fs).
    assert (Hd : mapM (fun x => dec_kv (encf x)) fs = Ok dfs).
    { apply mapM_ok_in. intros [k v] Hin. simpl.
      rewrite Forall_forall in H. rewrite Forall_forall in Hch.
      pose proof (H _ Hin (Hch _ Hin)) as Hx. simpl in Hx. rewrite Hx. reflexivity. }
    rewrite Hd. simpl bind.
    assert (Hkd : keys_of dfs = keys_of fs).
    { unfold dfs, keys_of. rewrite map_map. reflexivity. }
    (* hook *)
    unfold hook. rewrite lookup_app_r by (rewrite Hkd; assumption). cbn [lookup String.eqb Ascii.eqb Bool.eqb].
    unfold load_expression.
    rewrite lookup_app_r by (rewrite Hkd; assumption). cbn [lookup String.eqb Ascii.eqb Bool.eqb].
    rewrite remove_key_app_last by (rewrite Hkd; assumption).
    rewrite Hspec.
    assert (Hlk : forall k, lookup k dfs = option_map (fun v => of_ev (reload_ev v)) (lookup k fs)).
    { intro k. unfold dfs. exact (lookup_map_snd (fun v => of_ev (reload_ev v)) k fs). }
    assert (Hearly : (String.eqb c "ExprParameter"
                      && match lookup "kind" dfs with Some (PStr s0) => negb (mem_str s0 parameter_kind_values) | Some _ => true | None => false end)%bool = false).
    { destruct (String.eqb c "ExprParameter") eqn:Ep; [|reflexivity]. specialize (Hparam eq_refl). unfold param_kind_ok in Hparam.
      rewrite Hlk. destruct (lookup "kind" fs) as [[]|]; try discriminate; cbn [option_map of_ev reload_ev]; rewrite Hparam; reflexivity. }
    rewrite Hearly.
    rewrite spec_check_given by (rewrite Hkd; assumption).
    rewrite (spec_check_required c) by (try rewrite Hkd; assumption).
    cbn [negb].
    assert (Hfs : mapM (fun kv : string * pv => bind (ev_res (snd kv)) (fun e => Ok (fst kv, e))) dfs = Ok (map relf fs)).
    { unfold dfs. rewrite mapM_map. apply mapM_ok_in. intros [k v] _. simpl. rewrite ev_res_of_reload. reflexivity. }
    rewrite Hfs. simpl bind.
    assert (Hkr : keys_of (map relf fs) = keys_of fs).
    { unfold keys_of. rewrite map_map. apply map_ext. intros [k v]; reflexivity. }
    rewrite Hname.
    assert (Hdist : distinct (keys_of spec) = true).
    { pose proof table_fields_distinct as HT. rewrite forallb_forall in HT. exact (HT _ (class_fields_in _ _ Hspec)). }
    rewrite (fill_fields_id spec (map relf fs) Hdist) by (rewrite Hkr; exact Hkeys).
    cbn [reload_ev]. change (map (fun kv : string * ev => let (k, v) := kv in (k, reload_ev v)) fs) with (map relf fs).
    destruct (String.eqb c "ExprAttribute") eqn:Eattr.
    2:{ (* ExprParameter: the kind becomes a ParameterKind again *)
      destruct (String.eqb c "ExprParameter") eqn:Ep; [|reflexivity]. specialize (Hparam eq_refl). unfold param_kind_ok in Hparam.
      assert (Hhk : has_key "kind" dfs = true).
      { unfold has_key. rewrite Hlk. destruct (lookup "kind" fs); [reflexivity|discriminate]. }
      rewrite Hhk. cbn [andb].
      rewrite fix_kind_total; [reflexivity|].
      intros k v Hin ->.
      assert (Hd' : distinct (keys_of (map relf fs)) = true).
      { rewrite Hkr, Hkeys. apply filter_distinct. exact Hdist. }
      pose proof (distinct_lookup_in _ _ _ Hd' Hin) as Hl.
      assert (Hl2 : lookup "kind" (map relf fs) = option_map reload_ev (lookup "kind" fs)).
      { clear. induction fs as [|[k' v'] r IH]; [reflexivity|]. cbn [map relf lookup]. destruct (String.eqb k' "kind"); [reflexivity|exact IH]. }
      rewrite Hl2 in Hl. destruct (lookup "kind" fs) as [[]|]; try discriminate; simpl in Hl; inversion Hl; eauto. }
    (* ExprAttribute: the chain is re-linked *)
    destruct (attr_values_ok_inv _ (Hattr eq_refl)) as (first & r & -> & Hr).
    cbn [map relf reload_ev relink_fields mapM String.eqb Ascii.eqb Bool.eqb].
    simpl.
    assert (Hchain : relink_chain (next_prev PvNone (reload_ev first)) (map reload_ev r)
                     = Ok (relink_chain_t (next_prev PvNone (reload_ev first)) (map reload_ev r))).
    { apply relink_chain_names.
      rewrite forallb_map. rewrite forallb_forall in Hr. apply forallb_forall. intros x Hx. rewrite reload_is_name. auto. }
    rewrite Hchain. reflexivity.
Qed.

(* re-encoding ignores parent links and the enum/str distinction *)
Lemma relink_chain_t_enc : forall (l : list ev) (prev : prevk), map enc_ev (relink_chain_t prev l) = map enc_ev l.
Proof.
  induction l as [|v r IH]; intro prev; [reflexivity|]. cbn [relink_chain_t map]. rewrite IH. f_equal.
  destruct (link_of prev); [|reflexivity]. destruct v; reflexivity.
Qed.

Lemma enc_reload_ev : forall e, enc_ev (reload_ev e) = enc_ev e.
Proof.
  induction e using ev_ind'; try reflexivity.
  - simpl. f_equal. rewrite map_map. apply map_ext_in. intros x Hx. rewrite Forall_forall in H. auto.
  - assert (Hm : map encf (map relf fs) = map encf fs).
    { rewrite map_map. apply map_ext_in. intros [k v] Hin. simpl. rewrite Forall_forall in H.
      pose proof (H _ Hin) as Hx. simpl in Hx. rewrite Hx. reflexivity. }
    cbn [reload_ev]. change (map (fun kv : string * ev => let (k, v) := kv in (k, reload_ev v)) fs) with (map relf fs).
    destruct (String.eqb c "ExprAttribute").
    + cbn [enc_ev]. f_equal. f_equal.
      change (map (fun kv : string * ev => let (k, v) := kv in (k, enc_ev v)) fs) with (map encf fs).
      rewrite <- Hm.
      change (fun kv : string * ev => let (k, v) := kv in (k, enc_ev v)) with encf.
      rewrite map_map. apply map_ext. intros [k v]. simpl.
      destruct (String.eqb k "values"); [|reflexivity]. destruct v; try reflexivity.
      simpl. rewrite relink_chain_t_enc. reflexivity.
    + destruct (String.eqb c "ExprParameter"); cbn [enc_ev]; f_equal; f_equal; [|exact Hm].
      change (fun kv : string * ev => let (k, v) := kv in (k, enc_ev v)) with encf.
      rewrite <- Hm. generalize (map relf fs). intro L. unfold fix_kind_t. rewrite map_map. apply map_ext. intros [k v]. cbv beta iota.
      destruct (String.eqb k "kind"); [|reflexivity]. destruct v; try reflexivity.
      destruct (mem_str s parameter_kind_values); reflexivity.
Qed.

(* attaching changes parent links only: anything that does not look at links is unchanged.  [erase_ev] forgets the
   links (and the enum/str typing); the JSON encoding factors through it. *)
Definition eraf (kv : string * ev) : string * ev := match kv with (k, v) => (k, erase_ev v) end.

Lemma map_eq_pointwise {A B} (f : A -> B) (g : A -> A) (r : list A) :
  map f (map g r) = map f r -> forall x, In x r -> f (g x) = f x.
Proof.
  induction r as [|y r IH]; intros H x Hin; [contradiction|]. cbn [map] in H. inversion H as [[H1 H2]].
  destruct Hin as [<-|Hin]; [exact H1|]. apply IH; assumption.
Qed.

Lemma erase_attach_ev : forall e, erase_ev (attach_ev e) = erase_ev e.
Proof.
  induction e using ev_ind'; try reflexivity.
  - cbn [attach_ev erase_ev]. f_equal. rewrite map_map. apply map_ext_in. intros x Hx. rewrite Forall_forall in H. auto.
  - cbn [attach_ev]. destruct (String.eqb c "ExprAttribute").
    + cbn [erase_ev]. f_equal. rewrite map_map. apply map_ext_in. intros [k v] Hin.
      rewrite Forall_forall in H. pose proof (H _ Hin) as Hv. cbn [snd] in Hv.
      destruct (String.eqb k "values"); [|reflexivity]. destruct v as [| | | |l| | |]; try reflexivity.
      destruct l as [|v0 r]; [reflexivity|].
      cbn [attach_ev erase_ev map] in Hv. inversion Hv as [[H0 Hr]].
      cbn [erase_ev map]. rewrite H0. f_equal. f_equal. f_equal.
      rewrite map_map. apply map_ext_in. intros x Hx. destruct (is_name x); [reflexivity|].
      exact (map_eq_pointwise erase_ev attach_ev r Hr x Hx).
    + cbn [erase_ev]. f_equal. rewrite map_map. apply map_ext_in. intros [k v] Hin.
      rewrite Forall_forall in H. pose proof (H _ Hin) as Hv. cbn [snd] in Hv. rewrite Hv. reflexivity.
Qed.

Lemma enc_erase_ev : forall e, enc_ev (erase_ev e) = enc_ev e.
Proof.
  induction e using ev_ind'; try reflexivity.
  - cbn [erase_ev enc_ev]. f_equal. rewrite map_map. apply map_ext_in. intros x Hx. rewrite Forall_forall in H. auto.
  - cbn [erase_ev enc_ev]. f_equal. f_equal. rewrite map_map. apply map_ext_in. intros [k v] Hin.
    rewrite Forall_forall in H. pose proof (H _ Hin) as Hv. cbn [snd] in Hv. rewrite Hv. reflexivity.
Qed.

Lemma erase_attach_top e : erase_ev (attach_top e) = erase_ev e.
Proof. apply erase_attach_ev. Qed.

Lemma enc_attach_top e : enc_ev (attach_top e) = enc_ev e.
Proof. rewrite <- (enc_erase_ev (attach_top e)), erase_attach_top. apply enc_erase_ev. Qed.

(* ------------------------------------------------------------------------------------------------ *)
(* 4. Pieces of an object: docstrings, decorators, parameters, labels                                 *)

Lemma wf_slot_ev e : wf_slot e = true -> wf_ev e = true.
Proof. destruct e; simpl; auto; discriminate. Qed.

Lemma slot_roundtrip e : wf_slot e = true -> decode (enc_ev e) = Ok (of_ev (reload_ev e)).
Proof. intro H. apply expr_roundtrip, wf_slot_ev, H. Qed.

Definition pnum (o : option Z) : pv := match o with Some z => PNum z | None => PNull end.
Definition ddoc (d : docstring) : pv :=
  PDict [("value", PStr (d_value d)); ("lineno", pnum (d_lineno d)); ("endlineno", pnum (d_endlineno d))].
Definition ddeco (d : decorator) : pv :=
  PDict [("value", of_ev (reload_ev (dc_value d))); ("lineno", pnum (dc_lineno d)); ("endlineno", pnum (dc_endlineno d))].

Lemma dec_doc d : decode (enc_doc d) = Ok (ddoc d).
Proof. destruct d as [v [l|] [e|]]; reflexivity. Qed.

Lemma dec_deco d : wf_deco d = true -> decode (enc_deco d) = Ok (ddeco d).
Proof.
  destruct d as [v l e]. unfold wf_deco, enc_deco, ddeco. cbn [dc_value dc_lineno dc_endlineno]. intro H.
  rewrite decode_obj. rewrite !mapM_cons, mapM_nil. cbn [dec_kv].
  rewrite (slot_roundtrip _ H). destruct l, e; reflexivity.
Qed.

Lemma load_docstring_lookup (D : list (string * pv)) d :
  lookup "docstring" D = Some (ddoc d) -> load_docstring D = Ok (Some (reload_doc d)).
Proof. intro H. unfold load_docstring. rewrite H. destruct d as [v [l|] [e|]]; reflexivity. Qed.

Lemma load_decorator_ok d : load_decorator (ddeco d) = Ok (reload_deco d).
Proof.
  destruct d as [v l e]. unfold ddeco, load_decorator, reload_deco. cbn [dc_value dc_lineno dc_endlineno].
  cbn [forallb has_key lookup fst snd decorator_init String.eqb Ascii.eqb Bool.eqb negb orb andb getitem of_option bind].
  rewrite ev_res_of_reload. destruct l, e; reflexivity.
Qed.

Lemma dec_labels ls : decode (JArr (map JStr ls)) = Ok (PList (map PStr ls)).
Proof.
  rewrite decode_arr, mapM_map. rewrite (mapM_ok_in _ PStr) by reflexivity. reflexivity.
Qed.

Lemma mapM_as_string ls : mapM as_string (map PStr ls) = Ok ls.
Proof. rewrite mapM_map. rewrite (mapM_ok_in _ (fun x => x)) by reflexivity. rewrite map_id. reflexivity. Qed.

Lemma dec_ev_list l :
  forallb wf_slot l = true -> decode (JArr (map enc_ev l)) = Ok (PList (map (fun e => of_ev (reload_ev e)) l)).
Proof.
  intro H. rewrite decode_arr, mapM_map. rewrite forallb_forall in H.
  rewrite (mapM_ok_in _ (fun e => of_ev (reload_ev e))); [reflexivity|]. intros x Hx. apply slot_roundtrip; auto.
Qed.

Lemma dec_deco_list l :
  forallb wf_deco l = true -> decode (JArr (map enc_deco l)) = Ok (PList (map ddeco l)).
Proof.
  intro H. rewrite decode_arr, mapM_map. rewrite forallb_forall in H.
  rewrite (mapM_ok_in _ ddeco); [reflexivity|]. intros x Hx. apply dec_deco; auto.
Qed.

Lemma load_decorator_list l : mapM load_decorator (map ddeco l) = Ok (map reload_deco l).
Proof. rewrite mapM_map. apply mapM_ok_in. intros. apply load_decorator_ok. Qed.

Lemma as_ev_list_ok l : as_ev_list (PList (map (fun e => of_ev (reload_ev e)) l)) = Ok (map reload_ev l).
Proof. unfold as_ev_list. rewrite mapM_map. apply mapM_ok_in. intros. apply ev_res_of_reload. Qed.

(* parameters: the five kind strings are not object kinds, so the hook falls through to _load_parameter *)
Lemma pk_not_kind k :
  mem_str k parameter_kind_values = true ->
  String.eqb k kind_module = false /\ String.eqb k kind_class = false /\ String.eqb k kind_function = false /\
  String.eqb k kind_attribute = false /\ String.eqb k kind_alias = false.
Proof.
  intro H. apply mem_str_in in H. simpl in H.
  repeat (destruct H as [H|H]; [subst k; repeat split; reflexivity|]). contradiction.
Qed.

Lemma dec_param p : wf_param p = true -> decode (enc_param p) = Ok (PParam (reload_param p)).
Proof.
  destruct p as [n a k df doc]. unfold wf_param. cbn [p_annotation p_default p_kind].
  intro H. apply andb_true_iff in H as [H Hk]. apply andb_true_iff in H as [Ha Hd].
  destruct k as [k|]; [|discriminate].
  destruct (pk_not_kind _ Hk) as (K1 & K2 & K3 & K4 & K5).
  unfold enc_param. cbn [p_name p_annotation p_default p_kind p_doc].
  rewrite decode_obj.
  assert (Hm : mapM dec_kv ([("name", JStr n); ("annotation", enc_ev a); ("kind", enc_optstr (Some k)); ("default", enc_ev df)]
                            ++ match doc with Some d => [("docstring", enc_doc d)] | None => [] end)
               = Ok ([("name", PStr n); ("annotation", of_ev (reload_ev a)); ("kind", PStr k); ("default", of_ev (reload_ev df))]
                     ++ match doc with Some d => [("docstring", ddoc d)] | None => [] end)).
  { rewrite mapM_app. rewrite !mapM_cons, mapM_nil. cbn [dec_kv].
    rewrite (slot_roundtrip _ Ha), (slot_roundtrip _ Hd). simpl decode. simpl bind.
    destruct doc as [d|]; [|reflexivity]. rewrite mapM_cons, mapM_nil. cbn [dec_kv]. rewrite dec_doc. reflexivity. }
  rewrite Hm. simpl bind.
  unfold hook, reload_param. cbn [p_name p_annotation p_default p_kind p_doc].
  destruct doc as [d|].
  - cbn [app has_key lookup String.eqb Ascii.eqb Bool.eqb]. rewrite K1, K2, K3, K4, K5.
    unfold load_parameter. cbn [getitem lookup of_option String.eqb Ascii.eqb Bool.eqb bind]. rewrite Hk.
    cbn [bind]. rewrite (load_docstring_lookup _ d) by reflexivity. cbn [bind as_string]. rewrite !ev_res_of_reload. reflexivity.
  - cbn [app has_key lookup String.eqb Ascii.eqb Bool.eqb]. rewrite K1, K2, K3, K4, K5.
    unfold load_parameter. cbn [getitem lookup of_option String.eqb Ascii.eqb Bool.eqb bind]. rewrite Hk.
    cbn [bind]. unfold load_docstring. cbn [lookup String.eqb Ascii.eqb Bool.eqb bind as_string].
    rewrite !ev_res_of_reload. reflexivity.
Qed.

Lemma dec_param_list l :
  forallb wf_param l = true -> decode (JArr (map enc_param l)) = Ok (PList (map (fun p => PParam (reload_param p)) l)).
Proof.
  intro H. rewrite decode_arr, mapM_map. rewrite forallb_forall in H.
  rewrite (mapM_ok_in _ (fun p => PParam (reload_param p))); [reflexivity|]. intros x Hx. apply dec_param; auto.
Qed.

(* ------------------------------------------------------------------------------------------------ *)
(* 5. The dict an object's JSON decodes to before the hook is applied, and its accessors             *)

Definition p_opt (k : string) (o : option Z) : list (string * pv) := match o with Some z => [(k, PNum z)] | None => [] end.
Definition p_docf (doc : option docstring) : list (string * pv) := match doc with Some d => [("docstring", ddoc d)] | None => [] end.
Definition dmembers (ms : list (string * tree)) : list (string * pv) :=
  map (fun km => match km with (k, m) => (k, PTree (reload m)) end) ms.
Definition pev (k : string) (e : ev) : list (string * pv) := if is_vnone e then [] else [(k, of_ev (reload_ev e))].
Definition dfpath (fp : fpath) : pv := match fp with FPNone => PNull | FPStr s => PStr s | FPList l => PList (map PStr l) end.
Definition dextra (x : extra) : list (string * pv) :=
  match x with
  | XModule fp => [("filepath", dfpath fp)]
  | XClass bases decos => [("bases", PList (map (fun e => of_ev (reload_ev e)) bases)); ("decorators", PList (map ddeco decos))]
  | XFunction decos params ret =>
      [("decorators", PList (map ddeco decos)); ("parameters", PList (map (fun p => PParam (reload_param p)) params));
       ("returns", of_ev (reload_ev ret))]
  | XAttribute v a => pev "value" v ++ pev "annotation" a
  end.
Definition dobj n ln eln doc (ls : list string) ms x : list (string * pv) :=
  [("kind", PStr (kind_of x)); ("name", PStr n)] ++ p_opt "lineno" ln ++ p_opt "endlineno" eln ++ p_docf doc
  ++ [("labels", PList (map PStr ls)); ("members", PDict (dmembers ms))] ++ dextra x.

Ltac obj_cases ln eln doc x :=
  destruct ln, eln, doc, x; unfold dextra, pev;
  repeat match goal with |- context [is_vnone ?v] => destruct (is_vnone v) end;
  reflexivity.

Lemma dobj_kind n ln eln doc ls ms x : lookup "kind" (dobj n ln eln doc ls ms x) = Some (PStr (kind_of x)).
Proof. reflexivity. Qed.
Lemma dobj_name n ln eln doc ls ms x : lookup "name" (dobj n ln eln doc ls ms x) = Some (PStr n).
Proof. reflexivity. Qed.
Lemma dobj_cls n ln eln doc ls ms x : lookup "cls" (dobj n ln eln doc ls ms x) = None.
Proof. unfold dobj. obj_cases ln eln doc x. Qed.
Lemma dobj_lineno n ln eln doc ls ms x : lookup "lineno" (dobj n ln eln doc ls ms x) = option_map PNum ln.
Proof. unfold dobj. obj_cases ln eln doc x. Qed.
Lemma dobj_endlineno n ln eln doc ls ms x : lookup "endlineno" (dobj n ln eln doc ls ms x) = option_map PNum eln.
Proof. unfold dobj. obj_cases ln eln doc x. Qed.
Lemma dobj_docstring n ln eln doc ls ms x : lookup "docstring" (dobj n ln eln doc ls ms x) = option_map ddoc doc.
Proof. unfold dobj. obj_cases ln eln doc x. Qed.
Lemma dobj_labels n ln eln doc ls ms x : lookup "labels" (dobj n ln eln doc ls ms x) = Some (PList (map PStr ls)).
Proof. unfold dobj. obj_cases ln eln doc x. Qed.
Lemma dobj_members n ln eln doc ls ms x : lookup "members" (dobj n ln eln doc ls ms x) = Some (PDict (dmembers ms)).
Proof. unfold dobj. obj_cases ln eln doc x. Qed.

Definition extra_key (k : string) : bool :=
  mem_str k ["filepath"; "bases"; "decorators"; "parameters"; "returns"; "value"; "annotation"].
Lemma dobj_extra k n ln eln doc ls ms x :
  extra_key k = true -> lookup k (dobj n ln eln doc ls ms x) = lookup k (dextra x).
Proof.
  intro H. apply mem_str_in in H. simpl in H.
  repeat (destruct H as [H|H]; [subst k; unfold dobj; destruct ln, eln, doc; reflexivity|]). contradiction.
Qed.

Lemma load_docstring_dobj n ln eln doc ls ms x :
  load_docstring (dobj n ln eln doc ls ms x) = Ok (option_map reload_doc doc).
Proof.
  destruct doc as [d|]; [apply load_docstring_lookup; rewrite dobj_docstring; reflexivity|].
  unfold load_docstring. rewrite dobj_docstring. reflexivity.
Qed.

Lemma load_labels_lookup (D : list (string * pv)) ls :
  lookup "labels" D = Some (PList (map PStr ls)) -> load_labels D = Ok (canon_labels ls).
Proof. intro H. unfold load_labels. rewrite H, mapM_as_string. reflexivity. Qed.
Lemma load_labels_dobj n ln eln doc ls ms x :
  load_labels (dobj n ln eln doc ls ms x) = Ok (canon_labels ls).
Proof. apply load_labels_lookup, dobj_labels. Qed.

Lemma tree_name_reload m : tree_name (reload m) = tree_name m.
Proof. destruct m; reflexivity. Qed.
Lemma tree_name_attach m : tree_name (attach_tree m) = tree_name m.
Proof. destruct m; reflexivity. Qed.

Definition members_ok (ms : list (string * tree)) : Prop :=
  Forall (fun km => fst km = tree_name (snd km) /\ plain_name (fst km) = true) ms /\ distinct (keys_of ms) = true.

Lemma load_members_lookup (D : list (string * pv)) ms :
  lookup "members" D = Some (PDict (dmembers ms)) ->
  members_ok ms ->
  load_members D = Ok (map (fun km => match km with (_, m) => (tree_name m, attach_tree (reload m)) end) ms).
Proof.
  intros HD [Hk Hd]. unfold load_members. rewrite HD. cbn [bind].
  assert (Hs : map snd (dmembers ms) = map (fun km => PTree (reload (snd km))) ms).
  { unfold dmembers. rewrite map_map. apply map_ext. intros [k m]. reflexivity. }
  rewrite Hs, mapM_map.
  rewrite (mapM_ok_in _ (fun km => reload (snd km))) by reflexivity. cbn [bind].
  assert (Hn : map tree_name (map (fun km => reload (snd km)) ms) = keys_of ms).
  { unfold keys_of. rewrite map_map. apply map_ext_in. intros [k m] Hin. simpl. rewrite tree_name_reload.
    rewrite Forall_forall in Hk. destruct (Hk _ Hin) as [E _]. simpl in E. symmetry. exact E. }
  rewrite Hn, Hd.
  assert (Hp : forallb plain_name (keys_of ms) = true).
  { apply forallb_forall. intros k Hin. unfold keys_of in Hin. apply in_map_iff in Hin as [[k' m] [E Hin]]. simpl in E. subst k'.
    rewrite Forall_forall in Hk. destruct (Hk _ Hin) as [_ P]. exact P. }
  rewrite Hp. cbn [andb]. f_equal. rewrite map_map. apply map_ext. intros [k m]. simpl. rewrite tree_name_reload. reflexivity.
Qed.
Lemma load_members_dobj n ln eln doc ls ms x :
  members_ok ms ->
  load_members (dobj n ln eln doc ls ms x)
  = Ok (map (fun km => match km with (_, m) => (tree_name m, attach_tree (reload m)) end) ms).
Proof. apply load_members_lookup, dobj_members. Qed.

(* ------------------------------------------------------------------------------------------------ *)
(* 6. Decoding the fields of an encoded object                                                        *)

Lemma mapM_app_ok {A B} (f : A -> res B) a b a' b' :
  mapM f a = Ok a' -> mapM f b = Ok b' -> mapM f (a ++ b) = Ok (a' ++ b').
Proof. intros Ha Hb. rewrite mapM_app, Ha, Hb. reflexivity. Qed.

Lemma dec_opt_field k o : mapM dec_kv (opt_field k o) = Ok (p_opt k o).
Proof. destruct o; reflexivity. Qed.
Lemma dec_docfield doc : mapM dec_kv (enc_docfield doc) = Ok (p_docf doc).
Proof. destruct doc as [d|]; [|reflexivity]. simpl enc_docfield. rewrite mapM_cons, mapM_nil. cbn [dec_kv]. rewrite dec_doc. reflexivity. Qed.

Lemma dec_ev_field k e : wf_slot e = true -> mapM dec_kv (enc_ev_field k e) = Ok (pev k e).
Proof.
  intro H. unfold enc_ev_field, pev. destruct (is_vnone e); [reflexivity|].
  rewrite mapM_cons, mapM_nil. cbn [dec_kv]. rewrite (slot_roundtrip _ H). reflexivity.
Qed.

Lemma dec_fpath fp : decode (enc_fpath fp) = Ok (dfpath fp).
Proof. destruct fp; try reflexivity. simpl. apply dec_labels. Qed.

Lemma dec_extra x : wf_extra x = true -> mapM dec_kv (enc_extra x) = Ok (dextra x).
Proof.
  destruct x as [fp|bases decos|decos params ret|v a]; simpl wf_extra; intro H.
  - cbn [enc_extra dextra]. rewrite mapM_cons, mapM_nil. cbn [dec_kv]. rewrite dec_fpath. reflexivity.
  - apply andb_true_iff in H as [Hb Hd]. cbn [enc_extra dextra]. rewrite !mapM_cons, mapM_nil. cbn [dec_kv].
    rewrite (dec_ev_list _ Hb), (dec_deco_list _ Hd). reflexivity.
  - apply andb_true_iff in H as [H Hr]. apply andb_true_iff in H as [Hd Hp]. cbn [enc_extra dextra].
    rewrite !mapM_cons, mapM_nil. cbn [dec_kv].
    rewrite (dec_deco_list _ Hd), (dec_param_list _ Hp), (slot_roundtrip _ Hr). reflexivity.
  - apply andb_true_iff in H as [Hv Ha]. cbn [enc_extra dextra].
    apply mapM_app_ok; apply dec_ev_field; assumption.
Qed.

Lemma lookup_dmembers k ms : lookup k (dmembers ms) = None \/ exists t, lookup k (dmembers ms) = Some (PTree t).
Proof.
  unfold dmembers. induction ms as [|[k' m] r IH]; [left; reflexivity|]. cbn [map lookup].
  destruct (String.eqb k' k); [right; eauto|exact IH].
Qed.

(* the dictionary of members has objects as values: neither test of the hook fires, whatever the member names *)
Lemma dec_members ms :
  Forall (fun km => decode (enc_min (snd km)) = Ok (PTree (reload (snd km)))) ms ->
  decode (JObj (map (fun km => match km with (k, m) => (k, enc_min m) end) ms)) = Ok (PDict (dmembers ms)).
Proof.
  intros HF. rewrite decode_obj, mapM_map.
  rewrite (mapM_ok_in _ (fun km => match km with (k, m) => (k, PTree (reload m)) end)).
  - cbn [bind]. fold (dmembers ms). unfold hook.
    destruct (lookup_dmembers "cls" ms) as [->|[t ->]]; destruct (lookup_dmembers "kind" ms) as [->|[t' ->]]; reflexivity.
  - intros [k m] Hin. rewrite Forall_forall in HF. specialize (HF _ Hin). simpl in HF. simpl. rewrite HF. reflexivity.
Qed.

Lemma dec_obj_fields n ln eln doc ls ms x :
  wf_extra x = true ->
  Forall (fun km => decode (enc_min (snd km)) = Ok (PTree (reload (snd km)))) ms ->
  decode (enc_min (TObj n ln eln doc ls ms x)) = hook (dobj n ln eln doc ls ms x).
Proof.
  intros Hx HF. cbn [enc_min]. rewrite decode_obj.
  assert (Hm : mapM dec_kv ([("kind", JStr (kind_of x)); ("name", JStr n)] ++ opt_field "lineno" ln ++ opt_field "endlineno" eln
                            ++ enc_docfield doc
                            ++ [("labels", JArr (map JStr ls));
                                ("members", JObj (map (fun km : string * tree => let (k, m) := km in (k, enc_min m)) ms))]
                            ++ enc_extra x) = Ok (dobj n ln eln doc ls ms x)).
  { unfold dobj. apply mapM_app_ok; [reflexivity|].
    apply mapM_app_ok; [apply dec_opt_field|]. apply mapM_app_ok; [apply dec_opt_field|].
    apply mapM_app_ok; [apply dec_docfield|]. apply mapM_app_ok; [|apply dec_extra; assumption].
    rewrite !mapM_cons, mapM_nil. cbn [dec_kv]. rewrite dec_labels. rewrite (dec_members ms HF). reflexivity. }
  rewrite Hm. reflexivity.
Qed.

(* ------------------------------------------------------------------------------------------------ *)
(* 7. What `rep` says about one node                                                                   *)

Record node_facts (n : string) (ln eln : option Z) (doc : option docstring) (ls : list string)
       (ms : list (string * tree)) (x : extra) : Prop := {
  nf_labels : canon_labels ls = ls;
  nf_extra : wf_extra x = true;
  nf_module : is_module x = true -> ln = None /\ eln = None;
  nf_leaf : has_members x = false -> ms = [];
  nf_members : members_ok ms;
  nf_children : Forall (fun km => rep (snd km) = true) ms }.

Lemma rep_obj n ln eln doc ls ms x :
  rep (TObj n ln eln doc ls ms x) = true -> node_facts n ln eln doc ls ms x.
Proof.
  intro Hrep. cbn [rep] in Hrep.
  apply andb_true_iff in Hrep as [Hrep Hdist]. apply andb_true_iff in Hrep as [Hrep Hms].
  apply andb_true_iff in Hrep as [Hrep Hleaf]. apply andb_true_iff in Hrep as [Hrep Hmod].
  apply andb_true_iff in Hrep as [Hlab Hx].
  rewrite forallb_forall in Hms.
  constructor; try assumption.
  - apply list_eqb_eq. assumption.
  - intro Hm. rewrite Hm in Hmod. destruct ln, eln; simpl in Hmod; try discriminate. auto.
  - intro Hh. destruct ms; [reflexivity|]. rewrite Hh in Hleaf. discriminate.
  - split; [|assumption]. apply Forall_forall. intros [k m] Hin. specialize (Hms _ Hin). cbv beta iota in Hms.
    apply andb_true_iff in Hms as [Hms _]. apply andb_true_iff in Hms as [E P]. apply String.eqb_eq in E. cbn [fst snd]. auto.
  - apply Forall_forall. intros [k m] Hin. cbn [snd].
    specialize (Hms _ Hin). cbv beta iota in Hms. apply andb_true_iff in Hms as [_ Hr]. exact Hr.
Qed.

(* ------------------------------------------------------------------------------------------------ *)
(* 8. The hook on an object's dict                                                                    *)

Global Opaque dobj.

Lemma as_optnum_pnum o : as_optnum (option_map PNum o) = Ok o.
Proof. destruct o; reflexivity. Qed.

Definition slot_key (k : string) : bool := mem_str k ["bases"; "decorators"; "parameters"; "returns"; "value"; "annotation"].

(* the hook on any dict that answers the loaders' lookups like the dict of an encoded object *)
Lemma hook_generic (D : list (string * pv)) n ln eln doc ls ms x :
  lookup "cls" D = None -> lookup "kind" D = Some (PStr (kind_of x)) -> lookup "name" D = Some (PStr n) ->
  lookup "lineno" D = option_map PNum ln -> lookup "endlineno" D = option_map PNum eln ->
  load_docstring D = Ok (option_map reload_doc doc) ->
  lookup "labels" D = Some (PList (map PStr ls)) -> lookup "members" D = Some (PDict (dmembers ms)) ->
  (is_module x = true -> lookup "filepath" D = lookup "filepath" (dextra x)) ->
  (forall k, slot_key k = true -> lookup k D = lookup k (dextra x)) ->
  node_facts n ln eln doc ls ms x -> hook D = Ok (PTree (reload (TObj n ln eln doc ls ms x))).
Proof.
  intros Hcls Hkind Hname Hln Heln Hdoc Hlabels Hmembers Hfpk Hex [Hlab Hx Hmod Hleaf Hms _].
  unfold hook. rewrite Hcls, Hkind.
  destruct x as [fp|bases decos|decos params ret|v a].
  - (* module *)
    destruct (Hmod eq_refl) as [-> ->].
    cbn [kind_of]. change (String.eqb kind_module kind_module) with true. cbn iota.
    unfold load_module, getitem. rewrite Hname, (Hfpk eq_refl).
    cbn [dextra lookup of_option bind String.eqb Ascii.eqb Bool.eqb].
    assert (Hfp : match dfpath fp with
                  | PStr s => Ok (FPStr s) | PNull => Ok FPNone
                  | PList l => bind (mapM as_string l) (fun ss => Ok (FPList ss))
                  | PNum _ => Err EType | PBool _ => Err EType | _ => Err EUnmodelled end = Ok fp).
    { destruct fp as [|s|l]; cbn [dfpath]; [reflexivity|reflexivity|]. rewrite mapM_as_string. reflexivity. }
    rewrite Hfp. cbn [bind].
    rewrite Hdoc. cbn [bind as_string]. rewrite (load_members_lookup _ _ Hmembers Hms). cbn [bind].
    rewrite (load_labels_lookup _ _ Hlabels). reflexivity.
  - (* class *)
    cbn [kind_of]. change (String.eqb kind_class kind_module) with false. change (String.eqb kind_class kind_class) with true. cbn iota.
    unfold load_class, getitem, load_decorators. rewrite Hname, Hln, Heln.
    rewrite !Hex by reflexivity.
    cbn [dextra lookup of_option bind option_map String.eqb Ascii.eqb Bool.eqb].
    rewrite Hdoc. cbn [bind]. rewrite load_decorator_list. cbn [bind as_string].
    rewrite !as_optnum_pnum. cbn [bind]. rewrite as_ev_list_ok. cbn [bind].
    rewrite (load_members_lookup _ _ Hmembers Hms). cbn [bind]. rewrite (load_labels_lookup _ _ Hlabels). reflexivity.
  - (* function *)
    rewrite (Hleaf eq_refl).
    cbn [kind_of]. change (String.eqb kind_function kind_module) with false. change (String.eqb kind_function kind_class) with false.
    change (String.eqb kind_function kind_function) with true. cbn iota.
    unfold load_function, getitem, load_decorators. rewrite Hname, Hln, Heln.
    rewrite !Hex by reflexivity.
    cbn [dextra lookup of_option bind option_map String.eqb Ascii.eqb Bool.eqb].
    rewrite load_decorator_list. cbn [bind]. rewrite Hdoc. cbn [bind as_string].
    rewrite mapM_map. rewrite (mapM_ok_in _ reload_param) by reflexivity. cbn [bind].
    rewrite ev_res_of_reload. cbn [bind]. rewrite !as_optnum_pnum. cbn [bind].
    rewrite (load_labels_lookup _ _ Hlabels). reflexivity.
  - (* attribute *)
    rewrite (Hleaf eq_refl).
    cbn [kind_of]. change (String.eqb kind_attribute kind_module) with false. change (String.eqb kind_attribute kind_class) with false.
    change (String.eqb kind_attribute kind_function) with false. change (String.eqb kind_attribute kind_attribute) with true. cbn iota.
    unfold load_attribute, getitem, get_ev. rewrite Hname, Hln, Heln.
    rewrite !Hex by reflexivity.
    cbn [of_option bind option_map]. rewrite Hdoc. cbn [bind as_string].
    rewrite !as_optnum_pnum. cbn [bind].
    rewrite (load_labels_lookup _ _ Hlabels).
    assert (Hv : forall e, match lookup "value" (dextra (XAttribute e a)) with None => Ok VNone | Some v0 => ev_res v0 end = Ok (reload_ev e)).
    { intro e. unfold dextra, pev. destruct e; cbn [is_vnone app lookup String.eqb Ascii.eqb Bool.eqb]; try (rewrite ev_res_of_reload; reflexivity).
      destruct (is_vnone a); reflexivity. }
    assert (Ha : forall e, match lookup "annotation" (dextra (XAttribute v e)) with None => Ok VNone | Some v0 => ev_res v0 end = Ok (reload_ev e)).
    { intro e. unfold dextra, pev. destruct (is_vnone v); destruct e; cbn [is_vnone app lookup String.eqb Ascii.eqb Bool.eqb];
        try (rewrite ev_res_of_reload; reflexivity); reflexivity. }
    rewrite Hv, Ha. reflexivity.
Qed.

Lemma hook_obj n ln eln doc ls ms x :
  node_facts n ln eln doc ls ms x -> hook (dobj n ln eln doc ls ms x) = Ok (PTree (reload (TObj n ln eln doc ls ms x))).
Proof.
  intro NF. apply hook_generic; try assumption.
  - apply dobj_cls. - apply dobj_kind. - apply dobj_name. - apply dobj_lineno. - apply dobj_endlineno.
  - apply load_docstring_dobj. - apply dobj_labels. - apply dobj_members.
  - intros _. apply dobj_extra. reflexivity.
  - intros k Hk. apply dobj_extra. unfold slot_key in Hk. apply mem_str_in in Hk. simpl in Hk. unfold extra_key. apply mem_str_in. simpl. tauto.
Qed.

(* ------------------------------------------------------------------------------------------------ *)
(* 9. Main theorems, minimal mode                                                                     *)

Lemma zero_to_none_id o : nonzero o = true -> zero_to_none o = o.
Proof. destruct o as [z|]; [|reflexivity]. simpl. destruct (Z.eqb z 0); [discriminate|reflexivity]. Qed.

Lemma decode_alias n tp ln eln :
  rep (TAlias n tp ln eln) = true ->
  decode (enc_min (TAlias n tp ln eln)) = Ok (PTree (reload (TAlias n tp ln eln))).
Proof.
  cbn [rep]. intro H. apply andb_true_iff in H as [Hl He].
  cbn [enc_min truthy_field reload].
  destruct ln as [l|]; destruct eln as [e|]; cbn [truthy_field zero_to_none nonzero] in *;
    repeat match goal with |- context [Z.eqb ?z 0] => destruct (Z.eqb z 0); [discriminate|] end; reflexivity.
Qed.

Theorem decode_enc_min : forall t, rep t = true -> decode (enc_min t) = Ok (PTree (reload t)).
Proof.
  induction t using tree_ind'; intro Hd.
  - apply decode_alias. assumption.
  - pose proof (rep_obj _ _ _ _ _ _ _ Hd) as NF.
    assert (HF : Forall (fun km => decode (enc_min (snd km)) = Ok (PTree (reload (snd km)))) ms).
    { apply Forall_forall. intros km Hin. rewrite Forall_forall in H.
      apply H; [assumption|]. pose proof (nf_children _ _ _ _ _ _ _ NF) as Hc. rewrite Forall_forall in Hc. auto. }
    rewrite dec_obj_fields; [apply hook_obj; assumption|apply NF|assumption].
Qed.

Theorem from_json_enc_min : forall n ln eln doc ls ms fp,
  rep (TObj n ln eln doc ls ms (XModule fp)) = true ->
  from_json (enc_min (TObj n ln eln doc ls ms (XModule fp))) = Ok (reload (TObj n ln eln doc ls ms (XModule fp))).
Proof. intros. unfold from_json. rewrite decode_enc_min by assumption. reflexivity. Qed.

(* -- re-encoding *)
Lemma enc_reload_doc d : doc_fix d = true -> enc_doc (reload_doc d) = enc_doc d.
Proof. unfold doc_fix, enc_doc, reload_doc. simpl. intro H. apply String.eqb_eq in H. rewrite H. reflexivity. Qed.

Lemma enc_reload_deco d : enc_deco (reload_deco d) = enc_deco d.
Proof. unfold enc_deco, reload_deco. simpl. rewrite enc_reload_ev. reflexivity. Qed.
Lemma enc_attach_deco d : enc_deco (attach_deco d) = enc_deco d.
Proof. unfold enc_deco, attach_deco. simpl. rewrite enc_attach_top. reflexivity. Qed.

Lemma enc_reload_param p : optdoc_fix (p_doc p) = true -> enc_param (reload_param p) = enc_param p.
Proof.
  unfold enc_param, reload_param. simpl. rewrite !enc_reload_ev. intro H.
  destruct (p_doc p) as [d|]; [|reflexivity]. simpl. simpl in H. rewrite (enc_reload_doc _ H). reflexivity.
Qed.
Lemma enc_attach_param p : enc_param (attach_param p) = enc_param p.
Proof. unfold enc_param, attach_param. simpl. rewrite !enc_attach_top. reflexivity. Qed.

Lemma is_vnone_enc e e' : enc_ev e' = enc_ev e -> is_vnone e' = is_vnone e.
Proof. destruct e, e'; simpl; intro H; try reflexivity; try discriminate. Qed.

Lemma enc_ev_field_ext k e e' : enc_ev e' = enc_ev e -> enc_ev_field k e' = enc_ev_field k e.
Proof. intro H. unfold enc_ev_field. rewrite (is_vnone_enc _ _ H), H. reflexivity. Qed.

Lemma map_enc_ext {A} (enc : A -> json) (g : A -> A) l : (forall x, In x l -> enc (g x) = enc x) -> map enc (map g l) = map enc l.
Proof. intro H. rewrite map_map. apply map_ext_in. assumption. Qed.

Lemma enc_reload_extra x : extra_docs_fix x = true -> enc_extra (reload_extra x) = enc_extra x.
Proof.
  destruct x as [fp|bases decos|decos params ret|v a]; cbn [reload_extra enc_extra extra_docs_fix]; intro H.
  - reflexivity.
  - rewrite (map_enc_ext enc_ev reload_ev) by (intros; apply enc_reload_ev).
    rewrite (map_enc_ext enc_deco reload_deco) by (intros; apply enc_reload_deco). reflexivity.
  - rewrite (map_enc_ext enc_deco reload_deco) by (intros; apply enc_reload_deco).
    rewrite forallb_forall in H.
    rewrite (map_enc_ext enc_param reload_param) by (intros; apply enc_reload_param; auto).
    rewrite enc_reload_ev. reflexivity.
  - rewrite (enc_ev_field_ext "value" v (reload_ev v)), (enc_ev_field_ext "annotation" a (reload_ev a)); auto using enc_reload_ev.
Qed.

Lemma enc_attach_extra x : enc_extra (attach_extra x) = enc_extra x.
Proof.
  destruct x as [fp|bases decos|decos params ret|v a]; cbn [attach_extra enc_extra].
  - reflexivity.
  - rewrite (map_enc_ext enc_ev attach_top) by (intros; apply enc_attach_top).
    rewrite (map_enc_ext enc_deco attach_deco) by (intros; apply enc_attach_deco). reflexivity.
  - rewrite (map_enc_ext enc_deco attach_deco) by (intros; apply enc_attach_deco).
    rewrite (map_enc_ext enc_param attach_param) by (intros; apply enc_attach_param).
    rewrite enc_attach_top. reflexivity.
  - rewrite (enc_ev_field_ext "value" v (attach_top v)), (enc_ev_field_ext "annotation" a (attach_top a)); auto using enc_attach_top.
Qed.

Lemma kind_of_reload x : kind_of (reload_extra x) = kind_of x.
Proof. destruct x; reflexivity. Qed.
Lemma kind_of_attach x : kind_of (attach_extra x) = kind_of x.
Proof. destruct x; reflexivity. Qed.

Lemma enc_attach_tree t : enc_min (attach_tree t) = enc_min t.
Proof. destruct t; [|reflexivity]. cbn [attach_tree enc_min]. rewrite enc_attach_extra, kind_of_attach. reflexivity. Qed.

(* the part of `rep` and `gap_doc` the re-encoding needs *)
Theorem reencode_identical : forall t, rep t = true -> gap_doc t = false -> enc_min (reload t) = enc_min t.
Proof.
  induction t using tree_ind'; intros Hrep Hdoc.
  - cbn [rep] in Hrep. apply andb_true_iff in Hrep as [Hl He]. cbn [reload].
    rewrite !zero_to_none_id by assumption. reflexivity.
  - cbn [rep] in Hrep.
    apply andb_true_iff in Hrep as [Hrep Hdist]. apply andb_true_iff in Hrep as [Hrep Hms].
    apply andb_true_iff in Hrep as [Hrep Hleaf]. apply andb_true_iff in Hrep as [Hrep Hmod].
    apply andb_true_iff in Hrep as [Hlab Hx]. apply list_eqb_eq in Hlab.
    cbn [gap_doc] in Hdoc. apply orb_false_iff in Hdoc as [Hdoc Hch]. apply orb_false_iff in Hdoc as [Hd1 Hd2].
    apply negb_false_iff in Hd1, Hd2.
    cbn [reload enc_min]. rewrite kind_of_reload, Hlab, (enc_reload_extra _ Hd2).
    assert (Hl : (if is_module x then None else ln) = ln /\ (if is_module x then None else eln) = eln).
    { destruct (is_module x); [|auto]. destruct ln, eln; simpl in Hmod; try discriminate. auto. }
    destruct Hl as [-> ->].
    assert (Hdf : enc_docfield (option_map reload_doc doc) = enc_docfield doc).
    { destruct doc as [d|]; [|reflexivity]. simpl. simpl in Hd1. rewrite (enc_reload_doc _ Hd1). reflexivity. }
    rewrite Hdf.
    assert (Hmem : map (fun km : string * tree => let (k, m) := km in (k, enc_min m))
                     (if has_members x then map (fun km : string * tree => let (_, m) := km in (tree_name m, attach_tree (reload m))) ms else [])
                   = map (fun km : string * tree => let (k, m) := km in (k, enc_min m)) ms).
    { destruct (has_members x).
      - rewrite map_map. apply map_ext_in. intros [k m] Hin.
        rewrite forallb_forall in Hms. specialize (Hms _ Hin). cbv beta iota in Hms.
        apply andb_true_iff in Hms as [Hms Hr]. apply andb_true_iff in Hms as [E _]. apply String.eqb_eq in E.
        rewrite enc_attach_tree. rewrite Forall_forall in H. specialize (H _ Hin). cbn [snd] in H.
        rewrite H; [rewrite <- E; reflexivity|assumption|].
        destruct (gap_doc m) eqn:G; [|reflexivity].
        assert (existsb (fun km : string * tree => let (_, m0) := km in gap_doc m0) ms = true) by (apply existsb_exists; exists (k, m); auto).
        congruence.
      - destruct ms; [reflexivity|discriminate]. }
    rewrite Hmem. reflexivity.
Qed.

Theorem roundtrip_min : forall t, wf t = true ->
  exists t', decode (enc_min t) = Ok (PTree t') /\ enc_min t' = enc_min t.
Proof.
  intros t H. unfold wf in H. apply andb_true_iff in H as [Hd Hg]. apply negb_true_iff in Hg.
  exists (reload t). split; [apply decode_enc_min; assumption|]. apply reencode_identical; assumption.
Qed.

(* ------------------------------------------------------------------------------------------------ *)
(* 10. Non-vacuity: a tree with every node kind that satisfies every hypothesis                       *)

Definition nm (n : string) : ev := VName n LScope.
Definition ex_sub (l s : ev) : ev := VNode "ExprSubscript" [("left", l); ("slice", s)].
Definition ex_dotted (a b : string) : ev := VNode "ExprAttribute" [("values", VList [VName a LScope; VName b LPrev])].
Definition ex_call (f : ev) (args : list ev) : ev := VNode "ExprCall" [("arguments", VList args); ("function", f)].

Definition ex_method : tree :=
  TObj "m" (Some 7%Z) (Some 9%Z) (Some (mkDoc "Method." (Some 8%Z) (Some 8%Z))) ["async"] []
    (XFunction [mkDeco (ex_call (nm "deco") [VStr "1"]) (Some 6%Z) (Some 6%Z)]
               [mkParam "self" VNone (Some "positional or keyword") VNone None;
                mkParam "a" (ex_sub (nm "List") (nm "int")) (Some "positional-only") (VStr "0") None;
                mkParam "args" VNone (Some "variadic positional") (VStr "()") None;
                mkParam "k" (ex_sub (ex_dotted "typing" "Optional") (nm "Foo")) (Some "keyword-only") (nm "CONST")
                        (Some (mkDoc "Param." None None));
                mkParam "kw" VNone (Some "variadic keyword") (VStr "{}") None]
               (nm "int")).

Definition ex_class : tree :=
  TObj "C" (Some 4%Z) (Some 12%Z) (Some (mkDoc "Class." (Some 5%Z) (Some 5%Z))) ["dataclass"; "final"]
    [("x", TObj "x" (Some 6%Z) (Some 6%Z) None ["class-attribute"] [] (XAttribute (VStr "1") (VStr "int")));
     ("m", ex_method);
     ("Inner", TObj "Inner" (Some 10%Z) (Some 12%Z) None [] [] (XClass [] []))]
    (XClass [VStr "Base"] [mkDeco (nm "dataclass") (Some 3%Z) (Some 3%Z)]).

Definition ex_tree : tree :=
  TObj "pkg" None None (Some (mkDoc "Package." (Some 1%Z) (Some 1%Z))) [] 
    [("os", TAlias "os" "os" (Some 2%Z) (Some 2%Z));
     ("C", ex_class);
     ("f", TObj "f" (Some 14%Z) None None [] [] (XFunction [] [] VNone));
     ("V", TObj "V" (Some 20%Z) (Some 20%Z) (Some (mkDoc "Doc of V." (Some 21%Z) (Some 21%Z))) ["module-attribute"] []
              (XAttribute (VNode "ExprList" [("elements", VList [VStr "1"; nm "CONST"])]) VNone));
     ("sub", TObj "sub" None None None [] [] (XModule (FPStr "/p/pkg/sub.py")))]
    (XModule (FPStr "/p/pkg/__init__.py")).

Example example_wf : wf ex_tree = true /\ gap_expr ex_tree = false.
Proof. vm_compute. split; reflexivity. Qed.

Example example_roundtrip_exact : decode (enc_min ex_tree) = Ok (PTree ex_tree).
Proof. vm_compute. reflexivity. Qed.

(* ------------------------------------------------------------------------------------------------ *)
(* 11. The known gaps, each refuted by a computed witness                                             *)

Definition w_module (ms : list (string * tree)) (fp : fpath) : tree := TObj "w" None None None [] ms (XModule fp).
Definition w_attr (n : string) (ln : option Z) : tree := TObj n ln ln None [] [] (XAttribute (VStr "1") VNone).

(* the repaired defects: their witnesses now round-trip to themselves *)
Example fixed_lineno :
  let t := w_module [("a", w_attr "a" None); ("al", TAlias "al" "os.al" None None)] (FPStr "/x/w.py") in
  rep t = true /\ decode (enc_min t) = Ok (PTree t).
Proof. vm_compute. split; reflexivity. Qed.

Example fixed_filepath :
  (let t := w_module [] (FPList ["/x/w"; "/y/w"]) in rep t = true /\ decode (enc_min t) = Ok (PTree t)) /\
  (let t := w_module [] FPNone in rep t = true /\ decode (enc_min t) = Ok (PTree t)).
Proof. vm_compute. repeat split; reflexivity. Qed.

Example fixed_memberkey :
  let t := w_module [("kind", w_attr "kind" (Some 1%Z)); ("cls", w_attr "cls" (Some 2%Z)); ("name", w_attr "name" (Some 3%Z))] (FPStr "/x/w.py") in
  rep t = true /\ decode (enc_min t) = Ok (PTree t).
Proof. vm_compute. split; reflexivity. Qed.

Definition w_docvalue : string := append "    Deep first line." (String nl "Rest.").
Definition w_doctree : tree := TObj "w" None None (Some (mkDoc w_docvalue (Some 1%Z) (Some 4%Z))) [] [] (XModule (FPStr "/x/w.py")).

Lemma refuted_docstring :
  exists t t', rep t = true /\ gap_doc t = true /\ decode (enc_min t) = Ok (PTree t') /\ enc_min t' <> enc_min t.
Proof.
  exists w_doctree, (reload w_doctree). split; [vm_compute; reflexivity|]. split; [vm_compute; reflexivity|].
  split; [apply decode_enc_min; vm_compute; reflexivity|]. vm_compute. intro H. discriminate H.
Qed.

Definition w_lambda : ev :=
  VNode "ExprLambda" [("body", VStr "0");
                      ("parameters", VList [VNode "ExprParameter" [("annotation", VNone); ("default", VNone);
                                                                   ("kind", VEnum "variadic positional"); ("name", VStr "a")]])].
Example fixed_enum :
  wf_slot w_lambda = true /\ decode (enc_ev w_lambda) = Ok (PExpr w_lambda) /\ slot_restored w_lambda = true.
Proof. vm_compute. repeat split; reflexivity. Qed.

(* names: Optional[List[Foo]] in an attached slot; a base class; a dotted default; a name attached to a method *)
(* repaired (8c597ee, 5995d8a, bc5643e, 47f36fc): names below the first layer, names in any slot (class bases and
   attribute annotations included), dotted names and attributes of string literals come back with their links *)
Example fixed_links :
  (let e := ex_sub (nm "Optional") (ex_sub (nm "List") (nm "Foo")) in wf_slot e = true /\ slot_restored e = true) /\
  (let e := ex_dotted "osp" "join" in wf_slot e = true /\ slot_restored e = true) /\
  (let e := VNode "ExprAttribute" [("values", VList [VStr "'lit'"; VName "join" LStr])] in wf_slot e = true /\ slot_restored e = true) /\
  (let e := VNode "ExprAttribute" [("values", VList [ex_call (nm "f") []; VName "res" LNone])] in wf_slot e = true /\ slot_restored e = true) /\
  (let x := XClass [nm "Foo"; ex_dotted "sub" "Foo"] [] in extra_restored x = true) /\
  (let x := XAttribute (nm "v") (ex_sub (nm "List") (nm "Foo")) in extra_restored x = true).
Proof. vm_compute. repeat split; reflexivity. Qed.

(* F11: a name whose parent was neither the scope, nor the preceding name, nor "str" is not restorable from the document *)
Lemma refuted_links_other :
  wf_slot (VName "p" LOther) = true /\ slot_restored (VName "p" LOther) = false /\
  attach_top (reload_ev (VName "p" LOther)) = VName "p" LScope /\
  (let e := ex_sub (nm "List") (VName "p" LOther) in wf_slot e = true /\ slot_restored e = false).
Proof. vm_compute. repeat split; reflexivity. Qed.

(* ------------------------------------------------------------------------------------------------ *)
(* 12. Field-by-field equivalence of the reloaded tree                                                *)

Lemma relink_chain_t_erase : forall (l : list ev) (prev : prevk), map erase_ev (relink_chain_t prev l) = map erase_ev l.
Proof.
  induction l as [|v r IH]; intro prev; [reflexivity|]. cbn [relink_chain_t map]. rewrite IH. f_equal.
  destruct (link_of prev); [|reflexivity]. destruct v; reflexivity.
Qed.

Lemma erase_reload_ev : forall e, erase_ev (reload_ev e) = erase_ev e.
Proof.
  induction e using ev_ind'; try reflexivity.
  - simpl. f_equal. rewrite map_map. apply map_ext_in. intros x Hx. rewrite Forall_forall in H. auto.
  - assert (Hm : map eraf (map relf fs) = map eraf fs).
    { rewrite map_map. apply map_ext_in. intros [k v] Hin. simpl. rewrite Forall_forall in H.
      pose proof (H _ Hin) as Hx. simpl in Hx. rewrite Hx. reflexivity. }
    cbn [reload_ev]. change (map (fun kv : string * ev => let (k, v) := kv in (k, reload_ev v)) fs) with (map relf fs).
    destruct (String.eqb c "ExprAttribute").
    + cbn [erase_ev]. f_equal.
      change (map (fun kv : string * ev => let (k, v) := kv in (k, erase_ev v)) fs) with (map eraf fs).
      rewrite <- Hm.
      change (fun kv : string * ev => let (k, v) := kv in (k, erase_ev v)) with eraf.
      rewrite map_map. apply map_ext. intros [k v]. simpl.
      destruct (String.eqb k "values"); [|reflexivity]. destruct v; try reflexivity.
      simpl. rewrite relink_chain_t_erase. reflexivity.
    + destruct (String.eqb c "ExprParameter"); cbn [erase_ev]; f_equal; [|exact Hm].
      change (fun kv : string * ev => let (k, v) := kv in (k, erase_ev v)) with eraf.
      rewrite <- Hm. generalize (map relf fs). intro L. unfold fix_kind_t. rewrite map_map. apply map_ext. intros [k v]. cbv beta iota.
      destruct (String.eqb k "kind"); [|reflexivity]. destruct v; try reflexivity.
      destruct (mem_str s parameter_kind_values); reflexivity.
Qed.

Lemma map_ext_comp {A B} (f : A -> B) (g : A -> A) l : (forall x, In x l -> f (g x) = f x) -> map f (map g l) = map f l.
Proof. intro H. rewrite map_map. apply map_ext_in. assumption. Qed.

Lemma erase_reload_deco d : erase_deco (reload_deco d) = erase_deco d.
Proof. unfold erase_deco, reload_deco. simpl. rewrite erase_reload_ev. reflexivity. Qed.
Lemma erase_attach_deco d : erase_deco (attach_deco d) = erase_deco d.
Proof. unfold erase_deco, attach_deco. simpl. rewrite erase_attach_top. reflexivity. Qed.
Lemma reload_doc_fix d : doc_fix d = true -> reload_doc d = d.
Proof. destruct d as [v l e]. unfold doc_fix, reload_doc. simpl. intro H. apply String.eqb_eq in H. rewrite H. reflexivity. Qed.
Lemma reload_optdoc_fix o : optdoc_fix o = true -> option_map reload_doc o = o.
Proof. destruct o as [d|]; [|reflexivity]. simpl. intro H. rewrite reload_doc_fix by assumption. reflexivity. Qed.
Lemma erase_reload_param p : optdoc_fix (p_doc p) = true -> erase_param (reload_param p) = erase_param p.
Proof. intro H. unfold erase_param, reload_param. simpl. rewrite !erase_reload_ev, reload_optdoc_fix by assumption. reflexivity. Qed.
Lemma erase_attach_param p : erase_param (attach_param p) = erase_param p.
Proof. unfold erase_param, attach_param. simpl. rewrite !erase_attach_top. reflexivity. Qed.

Lemma erase_reload_extra x : extra_docs_fix x = true -> erase_extra (reload_extra x) = erase_extra x.
Proof.
  destruct x as [fp|bases decos|decos params ret|v a]; cbn [reload_extra erase_extra extra_docs_fix]; intro H.
  - reflexivity.
  - rewrite (map_ext_comp erase_ev reload_ev) by (intros; apply erase_reload_ev).
    rewrite (map_ext_comp erase_deco reload_deco) by (intros; apply erase_reload_deco). reflexivity.
  - rewrite (map_ext_comp erase_deco reload_deco) by (intros; apply erase_reload_deco).
    rewrite forallb_forall in H.
    rewrite (map_ext_comp erase_param reload_param) by (intros; apply erase_reload_param; auto).
    rewrite erase_reload_ev. reflexivity.
  - rewrite !erase_reload_ev. reflexivity.
Qed.
Lemma erase_attach_extra x : erase_extra (attach_extra x) = erase_extra x.
Proof.
  destruct x as [fp|bases decos|decos params ret|v a]; cbn [attach_extra erase_extra].
  - reflexivity.
  - rewrite (map_ext_comp erase_ev attach_top) by (intros; apply erase_attach_top).
    rewrite (map_ext_comp erase_deco attach_deco) by (intros; apply erase_attach_deco). reflexivity.
  - rewrite (map_ext_comp erase_deco attach_deco) by (intros; apply erase_attach_deco).
    rewrite (map_ext_comp erase_param attach_param) by (intros; apply erase_attach_param).
    rewrite erase_attach_top. reflexivity.
  - rewrite !erase_attach_top. reflexivity.
Qed.
Lemma erase_attach_tree t : erase (attach_tree t) = erase t.
Proof. destruct t; [|reflexivity]. cbn [attach_tree erase]. rewrite erase_attach_extra. reflexivity. Qed.

Theorem equiv_fields : forall t, rep t = true -> gap_doc t = false -> erase (reload t) = erase t.
Proof.
  induction t using tree_ind'; intros Hrep Hdoc.
  - cbn [rep] in Hrep. apply andb_true_iff in Hrep as [Hl He]. cbn [reload].
    rewrite !zero_to_none_id by assumption. reflexivity.
  - cbn [rep] in Hrep.
    apply andb_true_iff in Hrep as [Hrep Hdist]. apply andb_true_iff in Hrep as [Hrep Hms].
    apply andb_true_iff in Hrep as [Hrep Hleaf]. apply andb_true_iff in Hrep as [Hrep Hmod].
    apply andb_true_iff in Hrep as [Hlab Hx]. apply list_eqb_eq in Hlab.
    cbn [gap_doc] in Hdoc. apply orb_false_iff in Hdoc as [Hdoc Hch]. apply orb_false_iff in Hdoc as [Hd1 Hd2].
    apply negb_false_iff in Hd1, Hd2.
    cbn [reload erase]. rewrite Hlab, (erase_reload_extra _ Hd2), (reload_optdoc_fix _ Hd1).
    assert (Hl : (if is_module x then None else ln) = ln /\ (if is_module x then None else eln) = eln).
    { destruct (is_module x); [|auto]. destruct ln, eln; simpl in Hmod; try discriminate. auto. }
    destruct Hl as [-> ->].
    f_equal.
    destruct (has_members x).
    + rewrite map_map. apply map_ext_in. intros [k m] Hin.
      rewrite forallb_forall in Hms. specialize (Hms _ Hin). cbv beta iota in Hms.
      apply andb_true_iff in Hms as [Hms Hr]. apply andb_true_iff in Hms as [E _]. apply String.eqb_eq in E.
      rewrite erase_attach_tree. rewrite Forall_forall in H. specialize (H _ Hin). cbn [snd] in H.
      rewrite H; [rewrite <- E; reflexivity|assumption|].
      destruct (gap_doc m) eqn:G; [|reflexivity].
      assert (existsb (fun km : string * tree => let (_, m0) := km in gap_doc m0) ms = true) by (apply existsb_exists; exists (k, m); auto).
      congruence.
    + destruct ms; [reflexivity|discriminate].
Qed.

(* ------------------------------------------------------------------------------------------------ *)
(* 13. Without any gap the reloaded tree is the original tree                                         *)

Lemma ev_eqb_eq : forall a b, ev_eqb a b = true -> a = b.
Proof.
  induction a using ev_ind'; intros b' E; destruct b' as [|b'|s'|s'|l'|n' p'|c' fs'|z']; simpl in E; try discriminate; try reflexivity.
  - apply Bool.eqb_prop in E. subst. reflexivity.
  - apply String.eqb_eq in E. subst. reflexivity.
  - apply String.eqb_eq in E. subst. reflexivity.
  - f_equal. revert l' E. induction l as [|x r IH]; destruct l' as [|y s]; intro E; try discriminate; [reflexivity|].
    apply andb_true_iff in E as [E1 E2]. inversion H; subst. f_equal; [auto|]. apply IH; assumption.
  - apply andb_true_iff in E as [E1 E2]. apply String.eqb_eq in E1. subst. destruct p, p'; try discriminate; reflexivity.
  - apply andb_true_iff in E as [E1 E2]. apply String.eqb_eq in E1. subst. f_equal.
    revert fs' E2. induction fs as [|[k x] r IH]; destruct fs' as [|[k' y] s]; intro E; try discriminate; [reflexivity|].
    apply andb_true_iff in E as [E E3]. apply andb_true_iff in E as [E1 E2]. apply String.eqb_eq in E1. subst.
    inversion H; subst. simpl in H2. f_equal; [f_equal; auto|]. apply IH; assumption.
  - apply Z.eqb_eq in E. subst. reflexivity.
Qed.

Lemma slot_restored_true e : slot_restored e = true -> attach_top (reload_ev e) = e.
Proof. apply ev_eqb_eq. Qed.

Lemma map_id_in {A} (f : A -> A) l : (forall x, In x l -> f x = x) -> map f l = l.
Proof. intro H. induction l as [|x r IH]; simpl; [reflexivity|]. rewrite H by (left; reflexivity). rewrite IH; [reflexivity|]. intros; apply H; right; assumption. Qed.

Lemma attach_reload_extra x :
  extra_docs_fix x = true -> extra_restored x = true -> attach_extra (reload_extra x) = x.
Proof.
  destruct x as [fp|bases decos|decos params ret|v a]; cbn [extra_docs_fix extra_restored reload_extra attach_extra]; intros Hd Hr.
  - reflexivity.
  - apply andb_true_iff in Hr as [Hb Hdc]. rewrite forallb_forall in Hb, Hdc. f_equal.
    + rewrite map_map. apply map_id_in. intros; apply slot_restored_true; auto.
    + rewrite map_map. apply map_id_in. intros d Hin. specialize (Hdc _ Hin). unfold deco_restored in Hdc.
      destruct d as [dv dl de]. unfold attach_deco, reload_deco. simpl in *. rewrite (slot_restored_true _ Hdc). reflexivity.
  - apply andb_true_iff in Hr as [Hr Hret]. apply andb_true_iff in Hr as [Hdc Hp].
    rewrite forallb_forall in Hdc, Hp, Hd. f_equal.
    + rewrite map_map. apply map_id_in. intros d Hin. specialize (Hdc _ Hin). unfold deco_restored in Hdc.
      destruct d as [dv dl de]. unfold attach_deco, reload_deco. simpl in *. rewrite (slot_restored_true _ Hdc). reflexivity.
    + rewrite map_map. apply map_id_in. intros p Hin. specialize (Hp _ Hin). specialize (Hd _ Hin). unfold param_restored in Hp.
      apply andb_true_iff in Hp as [Hpa Hpd]. destruct p as [pn pa pk pd pdoc]. unfold attach_param, reload_param. simpl in *.
      rewrite (slot_restored_true _ Hpa), (slot_restored_true _ Hpd), (reload_optdoc_fix _ Hd). reflexivity.
    + apply slot_restored_true. assumption.
  - apply andb_true_iff in Hr as [Hv Ha]. rewrite (slot_restored_true _ Hv), (slot_restored_true _ Ha). reflexivity.
Qed.

Lemma attach_reload_identity : forall t,
  rep t = true -> gap_doc t = false -> gap_expr t = false -> attach_tree (reload t) = t.
Proof.
  induction t using tree_ind'; intros Hrep Hdoc Hex.
  - cbn [rep] in Hrep. apply andb_true_iff in Hrep as [Hl He]. cbn [reload attach_tree].
    rewrite !zero_to_none_id by assumption. reflexivity.
  - cbn [rep] in Hrep.
    apply andb_true_iff in Hrep as [Hrep Hdist]. apply andb_true_iff in Hrep as [Hrep Hms].
    apply andb_true_iff in Hrep as [Hrep Hleaf]. apply andb_true_iff in Hrep as [Hrep Hmod].
    apply andb_true_iff in Hrep as [Hlab Hx]. apply list_eqb_eq in Hlab.
    cbn [gap_doc] in Hdoc. apply orb_false_iff in Hdoc as [Hdoc Hch]. apply orb_false_iff in Hdoc as [Hd1 Hd2].
    apply negb_false_iff in Hd1, Hd2.
    cbn [gap_expr] in Hex. apply orb_false_iff in Hex as [He1 He2]. apply negb_false_iff in He1.
    cbn [reload attach_tree]. rewrite Hlab, (attach_reload_extra _ Hd2 He1), (reload_optdoc_fix _ Hd1).
    assert (Hl : (if is_module x then None else ln) = ln /\ (if is_module x then None else eln) = eln).
    { destruct (is_module x); [|auto]. destruct ln, eln; simpl in Hmod; try discriminate. auto. }
    destruct Hl as [-> ->].
    f_equal.
    destruct (has_members x).
    + apply map_id_in. intros [k m] Hin.
      rewrite forallb_forall in Hms. specialize (Hms _ Hin). cbv beta iota in Hms.
      apply andb_true_iff in Hms as [Hms Hr]. apply andb_true_iff in Hms as [E _]. apply String.eqb_eq in E.
      rewrite Forall_forall in H. specialize (H _ Hin). cbn [snd] in H.
      rewrite H; [rewrite <- E; reflexivity|assumption| |].
      * destruct (gap_doc m) eqn:G; [|reflexivity].
        assert (existsb (fun km : string * tree => let (_, m0) := km in gap_doc m0) ms = true) by (apply existsb_exists; exists (k, m); auto).
        congruence.
      * destruct (gap_expr m) eqn:G; [|reflexivity].
        assert (existsb (fun km : string * tree => let (_, m0) := km in gap_expr m0) ms = true) by (apply existsb_exists; exists (k, m); auto).
        congruence.
    + destruct ms; [reflexivity|discriminate].
Qed.

Theorem reload_identity : forall n ln eln doc ls ms fp,
  let t := TObj n ln eln doc ls ms (XModule fp) in
  rep t = true -> gap_doc t = false -> gap_expr t = false -> reload t = t.
Proof.
  intros n ln eln doc ls ms fp t Hr Hd He.
  pose proof (attach_reload_identity t Hr Hd He) as H. unfold t in *. cbn [reload attach_tree] in *.
  cbn [reload_extra attach_extra] in H. exact H.
Qed.

(* ------------------------------------------------------------------------------------------------ *)
(* 14. Full mode witnesses *)

Definition w_F (secs : list section) (fp : option json) : string -> finfo :=
  fun _ => mkFinfo fp (Some (JStr "w.py")) (Some (JStr "w.py")) secs [].
Definition w_fulldoc : tree := TObj "w" None None (Some (mkDoc "Doc." (Some 1%Z) (Some 1%Z))) [] [] (XModule (FPStr "/x/w.py")).

Lemma refuted_full_builtin :
  enc_full (w_F [] None) "" (w_module [] FPNone) = Err EBuiltin /\
  exists j, enc_full (w_F [] (Some (JStr "/x/w.py"))) "" (w_module [] (FPStr "/x/w.py")) = Ok j
            /\ decode j = Ok (PTree (w_module [] (FPStr "/x/w.py"))).
Proof. split; [vm_compute; reflexivity|]. eexists. split; vm_compute; reflexivity. Qed.


(* ------------------------------------------------------------------------------------------------ *)
(* 15. Full mode: whatever the derived values, a full document decodes to the same tree as the minimal one *)

Definition sections_decode (secs : list section) : Prop := Forall (fun s => exists v, decode (enc_section s) = Ok v) secs.
Definition opt_decodes (o : option json) : Prop := forall j, o = Some j -> exists v, decode j = Ok v.
Definition finfo_ok (fi : finfo) : Prop :=
  opt_decodes (f_filepath fi) /\ opt_decodes (f_relative fi) /\ opt_decodes (f_relative_package fi) /\
  sections_decode (f_parsed fi) /\ (forall n secs, lookup n (f_param_parsed fi) = Some secs -> sections_decode secs).

Lemma mapM_ok_exists {A B} (f : A -> res B) l : Forall (fun x => exists v, f x = Ok v) l -> exists l', mapM f l = Ok l'.
Proof.
  induction l as [|x r IH]; intro H; [exists []; reflexivity|]. inversion H as [|? ? [v Hv] Hr]; subst.
  destruct (IH Hr) as [l' Hl']. exists (v :: l'). rewrite mapM_cons, Hv, Hl'. reflexivity.
Qed.

Definition ddocF (secs' : list pv) (d : docstring) : pv :=
  PDict [("value", PStr (d_value d)); ("lineno", pnum (d_lineno d)); ("endlineno", pnum (d_endlineno d)); ("parsed", PList secs')].

Lemma dec_doc_full secs : sections_decode secs -> exists secs', forall d, decode (enc_doc_full secs d) = Ok (ddocF secs' d).
Proof.
  intro H. destruct (mapM_ok_exists decode (map enc_section secs)) as [secs' Hs].
  { apply Forall_forall. intros j Hin. apply in_map_iff in Hin as [s [<- Hin]]. unfold sections_decode in H. rewrite Forall_forall in H. auto. }
  exists secs'. intro d. unfold enc_doc_full, ddocF. rewrite decode_obj. rewrite !mapM_cons, mapM_nil. cbn [dec_kv].
  rewrite decode_arr, Hs. destruct d as [v [l|] [e|]]; reflexivity.
Qed.

Lemma load_docstring_lookupF (D : list (string * pv)) secs' d :
  lookup "docstring" D = Some (ddocF secs' d) -> load_docstring D = Ok (Some (reload_doc d)).
Proof. intro H. unfold load_docstring. rewrite H. destruct d as [v [l|] [e|]]; reflexivity. Qed.

(* parameters, with any docstring encoding that decodes to a dict the docstring loader accepts *)
Lemma dec_param_gen (jd : docstring -> json) (pd : docstring -> pv) n a k df doc :
  (forall d, decode (jd d) = Ok (pd d)) ->
  (forall (D : list (string * pv)) d, lookup "docstring" D = Some (pd d) -> load_docstring D = Ok (Some (reload_doc d))) ->
  wf_param (mkParam n a k df doc) = true ->
  decode (JObj ([("name", JStr n); ("annotation", enc_ev a); ("kind", enc_optstr k); ("default", enc_ev df)]
                ++ match doc with Some d => [("docstring", jd d)] | None => [] end))
  = Ok (PParam (reload_param (mkParam n a k df doc))).
Proof.
  intros Hjd Hld. unfold wf_param. cbn [p_annotation p_default p_kind].
  intro H. apply andb_true_iff in H as [H Hk]. apply andb_true_iff in H as [Ha Hd].
  destruct k as [k|]; [|discriminate].
  destruct (pk_not_kind _ Hk) as (K1 & K2 & K3 & K4 & K5).
  rewrite decode_obj.
  assert (Hm : mapM dec_kv ([("name", JStr n); ("annotation", enc_ev a); ("kind", enc_optstr (Some k)); ("default", enc_ev df)]
                            ++ match doc with Some d => [("docstring", jd d)] | None => [] end)
               = Ok ([("name", PStr n); ("annotation", of_ev (reload_ev a)); ("kind", PStr k); ("default", of_ev (reload_ev df))]
                     ++ match doc with Some d => [("docstring", pd d)] | None => [] end)).
  { rewrite mapM_app. rewrite !mapM_cons, mapM_nil. cbn [dec_kv].
    rewrite (slot_roundtrip _ Ha), (slot_roundtrip _ Hd). simpl decode. simpl bind.
    destruct doc as [d|]; [|reflexivity]. rewrite mapM_cons, mapM_nil. cbn [dec_kv]. rewrite Hjd. reflexivity. }
  rewrite Hm. simpl bind.
  unfold hook, reload_param. cbn [p_name p_annotation p_default p_kind p_doc].
  destruct doc as [d|].
  - cbn [app has_key lookup String.eqb Ascii.eqb Bool.eqb]. rewrite K1, K2, K3, K4, K5.
    unfold load_parameter. cbn [getitem lookup of_option String.eqb Ascii.eqb Bool.eqb bind]. rewrite Hk.
    cbn [bind]. rewrite (Hld _ d) by reflexivity. cbn [bind as_string]. rewrite !ev_res_of_reload. reflexivity.
  - cbn [app has_key lookup String.eqb Ascii.eqb Bool.eqb]. rewrite K1, K2, K3, K4, K5.
    unfold load_parameter. cbn [getitem lookup of_option String.eqb Ascii.eqb Bool.eqb bind]. rewrite Hk.
    cbn [bind]. unfold load_docstring. cbn [lookup String.eqb Ascii.eqb Bool.eqb bind as_string].
    rewrite !ev_res_of_reload. reflexivity.
Qed.

Lemma dec_param_full fi p : finfo_ok fi -> wf_param p = true -> decode (enc_param_full fi p) = Ok (PParam (reload_param p)).
Proof.
  intros (_ & _ & _ & _ & Hp) Hwf. destruct p as [n a k df doc]. unfold enc_param_full. cbn [p_name p_annotation p_kind p_default p_doc].
  set (secs := match lookup n (f_param_parsed fi) with Some s => s | None => [] end).
  assert (Hs : sections_decode secs).
  { unfold secs. destruct (lookup n (f_param_parsed fi)) eqn:E; [eapply Hp; exact E|constructor]. }
  destruct (dec_doc_full secs Hs) as [secs' Hd].
  apply (dec_param_gen (enc_doc_full secs) (ddocF secs')); [exact Hd| |exact Hwf].
  intros D d. apply load_docstring_lookupF.
Qed.

Lemma dec_extra_full fi x : finfo_ok fi -> wf_extra x = true -> mapM dec_kv (enc_extra_full fi x) = Ok (dextra x).
Proof.
  intros Hfi Hx. destruct x as [fp|bases decos|decos params ret|v a]; try (apply dec_extra; assumption).
  simpl wf_extra in Hx. apply andb_true_iff in Hx as [H Hr]. apply andb_true_iff in H as [Hd Hp]. cbn [enc_extra_full dextra].
  rewrite !mapM_cons, mapM_nil. cbn [dec_kv].
  rewrite (dec_deco_list _ Hd), (slot_roundtrip _ Hr).
  rewrite decode_arr, mapM_map. rewrite forallb_forall in Hp.
  rewrite (mapM_ok_in _ (fun p => PParam (reload_param p))); [reflexivity|]. intros p Hin. apply dec_param_full; auto.
Qed.

(* the dict of a full-mode object *)
Definition p_docfF (secs' : list pv) (doc : option docstring) : list (string * pv) :=
  match doc with Some d => [("docstring", ddocF secs' d)] | None => [] end.
Definition dobjF n (path : string) (vfp vrel vrelp : pv) (secs' : list pv) ln eln doc (ls : list string) ms x : list (string * pv) :=
  [("kind", PStr (kind_of x)); ("name", PStr n)]
  ++ [("path", PStr path); ("filepath", match x with XModule fp => dfpath fp | _ => vfp end);
      ("relative_filepath", vrel); ("relative_package_filepath", vrelp)]
  ++ p_opt "lineno" ln ++ p_opt "endlineno" eln ++ p_docfF secs' doc
  ++ [("labels", PList (map PStr ls)); ("members", PDict (dmembers ms))]
  ++ match x with XModule _ => [] | _ => dextra x end.

Ltac objF_cases ln eln doc x :=
  unfold dobjF; destruct ln, eln, doc, x; unfold dextra, pev;
  repeat match goal with |- context [is_vnone ?v] => destruct (is_vnone v) end;
  reflexivity.

Lemma hook_objF n path vfp vrel vrelp secs' ln eln doc ls ms x :
  node_facts n ln eln doc ls ms x ->
  hook (dobjF n path vfp vrel vrelp secs' ln eln doc ls ms x) = Ok (PTree (reload (TObj n ln eln doc ls ms x))).
Proof.
  intro NF. apply hook_generic; try assumption.
  - objF_cases ln eln doc x.
  - reflexivity.
  - reflexivity.
  - objF_cases ln eln doc x.
  - objF_cases ln eln doc x.
  - destruct doc as [d|].
    + apply (load_docstring_lookupF _ secs'). unfold dobjF; destruct ln, eln, x; unfold dextra, pev;
        repeat match goal with |- context [is_vnone ?v] => destruct (is_vnone v) end; reflexivity.
    + unfold load_docstring.
      assert (H : lookup "docstring" (dobjF n path vfp vrel vrelp secs' ln eln None ls ms x) = None).
      { unfold dobjF; destruct ln, eln, x; unfold dextra, pev;
          repeat match goal with |- context [is_vnone ?v] => destruct (is_vnone v) end; reflexivity. }
      rewrite H. reflexivity.
  - objF_cases ln eln doc x.
  - objF_cases ln eln doc x.
  - intro Hm. destruct x; try discriminate Hm. unfold dobjF. destruct ln, eln, doc; reflexivity.
  - intros k Hk. unfold slot_key in Hk. apply mem_str_in in Hk. simpl in Hk.
    repeat (destruct Hk as [Hk|Hk]; [subst k; objF_cases ln eln doc x|]). contradiction.
Qed.

Lemma mapM_cons_ok {A B} (f : A -> res B) x r y r' : f x = Ok y -> mapM f r = Ok r' -> mapM f (x :: r) = Ok (y :: r').
Proof. intros Hx Hr. rewrite mapM_cons, Hx, Hr. reflexivity. Qed.

Lemma hook_dmembers ms : hook (dmembers ms) = Ok (PDict (dmembers ms)).
Proof.
  unfold hook. destruct (lookup_dmembers "cls" ms) as [->|[t ->]]; destruct (lookup_dmembers "kind" ms) as [->|[t' ->]]; reflexivity.
Qed.

Lemma members_full_decode F path ms ms' :
  mapM (fun km : string * tree => let (k, m) := km in bind (enc_full F path m) (fun j => Ok (k, j))) ms = Ok ms' ->
  (forall km, In km ms -> forall j, enc_full F path (snd km) = Ok j -> decode j = Ok (PTree (reload (snd km)))) ->
  decode (JObj ms') = Ok (PDict (dmembers ms)).
Proof.
  intros Hm IH. rewrite decode_obj.
  assert (H : mapM dec_kv ms' = Ok (dmembers ms)).
  { revert ms' Hm. induction ms as [|[k m] r IHr]; intros ms' Hm.
    - rewrite mapM_nil in Hm. inversion Hm. reflexivity.
    - rewrite mapM_cons in Hm. destruct (enc_full F path m) as [jm|] eqn:Em; [|discriminate]. cbn [bind] in Hm.
      match type of Hm with context [mapM ?f r] => destruct (mapM f r) as [r'|] eqn:Er; [|discriminate] end.
      cbn [bind] in Hm. inversion Hm; subst ms'.
      rewrite mapM_cons. cbn [dec_kv]. rewrite (IH (k, m) (or_introl eq_refl) jm Em). cbn [bind].
      rewrite (IHr (fun km Hin => IH km (or_intror Hin)) r' eq_refl). reflexivity. }
  rewrite H. cbn [bind]. apply hook_dmembers.
Qed.

Theorem full_decode : forall F, (forall path, finfo_ok (F path)) ->
  forall t prefix j, rep t = true -> enc_full F prefix t = Ok j -> decode j = Ok (PTree (reload t)).
Proof.
  intros F HF. induction t using tree_ind'; intros prefix j Hrep Henc.
  - (* alias *)
    cbn [enc_full] in Henc. inversion Henc; subst j. clear Henc.
    cbn [rep] in Hrep. apply andb_true_iff in Hrep as [Hl He]. cbn [reload].
    destruct ln as [l|]; destruct eln as [e|]; cbn [truthy_field zero_to_none nonzero] in *;
      repeat match goal with |- context [Z.eqb ?z 0] => destruct (Z.eqb z 0); [discriminate|] end; reflexivity.
  - (* object *)
    pose proof (rep_obj _ _ _ _ _ _ _ Hrep) as NF.
    cbn [enc_full] in Henc. set (path := dotted prefix n) in *.
    destruct (HF path) as (Hfp & Hrel & Hrelp & Hsecs & _).
    unfold full_keys in Henc.
    destruct (f_filepath (F path)) as [jfp|] eqn:Efp; [|discriminate]. cbn [of_option bind] in Henc.
    destruct (f_relative (F path)) as [jrel|] eqn:Erel; [|discriminate]. cbn [of_option bind] in Henc.
    destruct (f_relative_package (F path)) as [jrelp|] eqn:Erelp; [|discriminate]. cbn [of_option bind] in Henc.
    match type of Henc with context [mapM ?f ms] => destruct (mapM f ms) as [ms'|] eqn:Ems; [|discriminate] end.
    cbn [bind] in Henc. inversion Henc as [Hj]. clear Henc. subst j.
    destruct (Hfp _ eq_refl) as [vfp Hvfp]. destruct (Hrel _ eq_refl) as [vrel Hvrel]. destruct (Hrelp _ eq_refl) as [vrelp Hvrelp].
    destruct (dec_doc_full _ Hsecs) as [secs' Hdoc].
    assert (Hmem : decode (JObj ms') = Ok (PDict (dmembers ms))).
    { apply (members_full_decode F path ms ms' Ems). intros km Hin jm Hjm. rewrite Forall_forall in H.
      apply (H km Hin path jm); [|exact Hjm]. pose proof (nf_children _ _ _ _ _ _ _ NF) as Hc. rewrite Forall_forall in Hc. auto. }
    rewrite <- (hook_objF n path vfp vrel vrelp secs' ln eln doc ls ms x NF).
    rewrite decode_obj.
    assert (Hdocf : mapM dec_kv (match doc with Some d => [("docstring", enc_doc_full (f_parsed (F path)) d)] | None => [] end) = Ok (p_docfF secs' doc)).
    { destruct doc as [d|]; [|reflexivity]. rewrite mapM_cons, mapM_nil. cbn [dec_kv]. rewrite Hdoc. reflexivity. }
    assert (Hlm : mapM dec_kv [("labels", JArr (map JStr ls)); ("members", JObj ms')]
                  = Ok [("labels", PList (map PStr ls)); ("members", PDict (dmembers ms))]).
    { rewrite !mapM_cons, mapM_nil. cbn [dec_kv]. rewrite dec_labels, Hmem. reflexivity. }
    match goal with |- bind (mapM dec_kv ?fl) hook = _ =>
      assert (Hf : mapM dec_kv fl = Ok (dobjF n path vfp vrel vrelp secs' ln eln doc ls ms x)); [|rewrite Hf; reflexivity] end.
    unfold dobjF.
    destruct x as [fp|bases decos|decos params ret|v a]; cbn [app set_key String.eqb Ascii.eqb Bool.eqb kind_of];
      (apply mapM_cons_ok; [reflexivity|]); (apply mapM_cons_ok; [reflexivity|]); (apply mapM_cons_ok; [reflexivity|]);
      (apply mapM_cons_ok; [cbn [dec_kv]; rewrite ?dec_fpath, ?Hvfp; reflexivity|]);
      (apply mapM_cons_ok; [cbn [dec_kv]; rewrite Hvrel; reflexivity|]);
      (apply mapM_cons_ok; [cbn [dec_kv]; rewrite Hvrelp; reflexivity|]);
      rewrite <- ?app_assoc;
      (apply mapM_app_ok; [apply dec_opt_field|]); (apply mapM_app_ok; [apply dec_opt_field|]);
      (apply mapM_app_ok; [exact Hdocf|]).
    + rewrite ?app_nil_r. exact Hlm.
    + refine (mapM_app_ok dec_kv _ _ _ (dextra _) Hlm _). apply dec_extra_full; [apply HF|apply NF].
    + refine (mapM_app_ok dec_kv _ _ _ (dextra _) Hlm _). apply dec_extra_full; [apply HF|apply NF].
    + refine (mapM_app_ok dec_kv _ _ _ (dextra _) Hlm _). apply dec_extra_full; [apply HF|apply NF].
Qed.

(* -- full mode, re-encoding: with the same derived values the reloaded tree gives the identical full document *)
Lemma enc_param_full_reload fi p : optdoc_fix (p_doc p) = true -> enc_param_full fi (reload_param p) = enc_param_full fi p.
Proof.
  intro H. unfold enc_param_full, reload_param. cbn [p_name p_annotation p_kind p_default p_doc].
  rewrite !enc_reload_ev, (reload_optdoc_fix _ H). reflexivity.
Qed.
Lemma enc_param_full_attach fi p : enc_param_full fi (attach_param p) = enc_param_full fi p.
Proof. unfold enc_param_full, attach_param. cbn [p_name p_annotation p_kind p_default p_doc]. rewrite !enc_attach_top. reflexivity. Qed.

Lemma enc_extra_full_reload fi x : extra_docs_fix x = true -> enc_extra_full fi (reload_extra x) = enc_extra_full fi x.
Proof.
  intro H. destruct x as [fp|bases decos|decos params ret|v a]; try (apply enc_reload_extra; assumption).
  cbn [reload_extra enc_extra_full extra_docs_fix] in *.
  rewrite (map_enc_ext enc_deco reload_deco) by (intros; apply enc_reload_deco).
  rewrite forallb_forall in H.
  rewrite (map_enc_ext (enc_param_full fi) reload_param) by (intros; apply enc_param_full_reload; auto).
  rewrite enc_reload_ev. reflexivity.
Qed.
Lemma enc_extra_full_attach fi x : enc_extra_full fi (attach_extra x) = enc_extra_full fi x.
Proof.
  destruct x as [fp|bases decos|decos params ret|v a]; try apply enc_attach_extra.
  cbn [attach_extra enc_extra_full].
  rewrite (map_enc_ext enc_deco attach_deco) by (intros; apply enc_attach_deco).
  rewrite (map_enc_ext (enc_param_full fi) attach_param) by (intros; apply enc_param_full_attach).
  rewrite enc_attach_top. reflexivity.
Qed.

Lemma enc_full_attach F prefix t : enc_full F prefix (attach_tree t) = enc_full F prefix t.
Proof.
  destruct t as [n ln eln doc ls ms x|]; [|reflexivity]. cbn [attach_tree enc_full].
  rewrite kind_of_attach, enc_extra_full_attach. destruct x; reflexivity.
Qed.

Lemma mapM_ext_in {A B} (f g : A -> res B) l : (forall x, In x l -> f x = g x) -> mapM f l = mapM g l.
Proof.
  induction l as [|x r IH]; intro H; [reflexivity|]. rewrite !mapM_cons, (H x (or_introl eq_refl)).
  rewrite IH by (intros; apply H; right; assumption). reflexivity.
Qed.

Theorem reencode_identical_full : forall F t prefix,
  rep t = true -> gap_doc t = false -> enc_full F prefix (reload t) = enc_full F prefix t.
Proof.
  intros F. induction t using tree_ind'; intros prefix Hrep Hdoc.
  - cbn [rep] in Hrep. apply andb_true_iff in Hrep as [Hl He]. cbn [reload enc_full].
    rewrite !zero_to_none_id by assumption. reflexivity.
  - cbn [rep] in Hrep.
    apply andb_true_iff in Hrep as [Hrep Hdist]. apply andb_true_iff in Hrep as [Hrep Hms].
    apply andb_true_iff in Hrep as [Hrep Hleaf]. apply andb_true_iff in Hrep as [Hrep Hmod].
    apply andb_true_iff in Hrep as [Hlab Hx]. apply list_eqb_eq in Hlab.
    cbn [gap_doc] in Hdoc. apply orb_false_iff in Hdoc as [Hdoc Hch]. apply orb_false_iff in Hdoc as [Hd1 Hd2].
    apply negb_false_iff in Hd1, Hd2.
    cbn [reload enc_full]. rewrite kind_of_reload, Hlab, (enc_extra_full_reload _ _ Hd2), (reload_optdoc_fix _ Hd1).
    assert (Hl : (if is_module x then None else ln) = ln /\ (if is_module x then None else eln) = eln).
    { destruct (is_module x); [|auto]. destruct ln, eln; simpl in Hmod; try discriminate. auto. }
    destruct Hl as [-> ->].
    assert (Hmem : mapM (fun km : string * tree => let (k, m) := km in bind (enc_full F (dotted prefix n) m) (fun j => Ok (k, j)))
                     (if has_members x then map (fun km : string * tree => let (_, m) := km in (tree_name m, attach_tree (reload m))) ms else [])
                   = mapM (fun km : string * tree => let (k, m) := km in bind (enc_full F (dotted prefix n) m) (fun j => Ok (k, j))) ms).
    { destruct (has_members x).
      - rewrite mapM_map. apply mapM_ext_in. intros [k m] Hin.
        rewrite forallb_forall in Hms. specialize (Hms _ Hin). cbv beta iota in Hms.
        apply andb_true_iff in Hms as [Hms Hr]. apply andb_true_iff in Hms as [E _]. apply String.eqb_eq in E.
        rewrite enc_full_attach. rewrite Forall_forall in H. specialize (H _ Hin). cbn [snd] in H.
        rewrite H; [rewrite <- E; reflexivity|assumption|].
        destruct (gap_doc m) eqn:G; [|reflexivity].
        assert (existsb (fun km : string * tree => let (_, m0) := km in gap_doc m0) ms = true) by (apply existsb_exists; exists (k, m); auto).
        congruence.
      - destruct ms; [reflexivity|discriminate]. }
    rewrite Hmem. destruct x; reflexivity.
Qed.

Theorem roundtrip_full : forall F, (forall path, finfo_ok (F path)) ->
  forall t prefix j, wf t = true -> enc_full F prefix t = Ok j ->
  exists t', decode j = Ok (PTree t') /\ enc_full F prefix t' = Ok j.
Proof.
  intros F HF t prefix j H Henc. unfold wf in H. apply andb_true_iff in H as [Hd Hg]. apply negb_true_iff in Hg.
  exists (reload t). split; [apply (full_decode F HF t prefix j Hd Henc)|].
  rewrite reencode_identical_full by assumption. exact Henc.
Qed.

Example example_full :
  let F := w_F [mkSection "text" None (JStr "Doc.")] (Some (JStr "/p/pkg/__init__.py")) in
  (forall path, finfo_ok (F path)) /\ exists j, enc_full F "" ex_tree = Ok j /\ decode j = Ok (PTree ex_tree).
Proof.
  split.
  - intro path. unfold finfo_ok, w_F. cbn [f_filepath f_relative f_relative_package f_parsed f_param_parsed].
    repeat split; try (intros j H; inversion H; eexists; reflexivity).
    + constructor; [eexists; vm_compute; reflexivity|constructor].
    + intros n secs H. discriminate H.
  - eexists. split; vm_compute; reflexivity.
Qed.
