(* C16 proofs, part 2: lookups through aliases (Model/C16_through.v).  Every statement holds in EVERY state. *)
From Coq Require Import List ZArith String Ascii Bool Arith Lia.
From Verif Require Import Lib.Sexp.
From Verif Require Import Gen.C16_shape Model.C16_tree Model.C16_through Proofs.C16_tree.
Import ListNotations.
Open Scope string_scope.
Open Scope list_scope.
Open Scope nat_scope.

(* ---- the dictionary of wrappers: one entry per member of the target, same keys, same order *)
Lemma rlookup_wrap : forall (G : name -> nat -> ref) k l,
  rlookup k (map (fun ky => (fst ky, G (fst ky) (snd ky))) l) = option_map (G k) (mlookup k l).
Proof.
  intros G k l. induction l as [|[k' y] r IH]; [reflexivity|].
  unfold rlookup, mlookup in *. simpl. destruct (String.eqb k k') eqn:E.
  - apply String.eqb_eq in E. subst k'. reflexivity.
  - exact IH.
Qed.

Lemma map_fst_wrap : forall (G : name -> nat -> ref) (l : list (name * nat)),
  map fst (map (fun ky => (fst ky, G (fst ky) (snd ky))) l) = map fst l.
Proof. intros G l. rewrite map_map. apply map_ext. intros [k y]. reflexivity. Qed.

(* ---- Alias.final_target *)
Lemma final_from_seen_mono : forall s f seen seen' x y,
  (forall p, existsb (path_eqb p) seen' = true -> existsb (path_eqb p) seen = true) ->
  final_from s f seen x = Ok y -> final_from s f seen' x = Ok y.
Proof.
  intros s f. induction f as [|f IH]; intros seen seen' x y Hsub H; simpl in *; [discriminate|].
  destruct (getn s x) as [n|]; [|discriminate].
  destruct (is_ali (nkind n)); [|exact H].
  destruct (path_of s x) as [p| |]; try discriminate.
  destruct (existsb (path_eqb p) seen) eqn:E; [discriminate|].
  destruct (existsb (path_eqb p) seen') eqn:E'; [rewrite (Hsub p E') in E; discriminate|].
  destruct (ntarget n) as [t|]; [|discriminate].
  apply (IH (p :: seen) (p :: seen') t y); auto.
  intros q Hq. simpl in *. apply orb_true_iff in Hq. apply orb_true_iff. destruct Hq as [Hq|Hq]; [left; exact Hq|right; auto].
Qed.

Lemma final_from_plain : forall s f seen x y, final_from s f seen x = Ok y -> is_plain s y = true.
Proof.
  intros s f. induction f as [|f IH]; intros seen x y H; simpl in H; [discriminate|].
  destruct (getn s x) as [n|] eqn:G; [|discriminate].
  destruct (is_ali (nkind n)) eqn:A.
  - destruct (path_of s x) as [p| |]; try discriminate.
    destruct (existsb (path_eqb p) seen); [discriminate|].
    destruct (ntarget n) as [t|]; [|discriminate]. eapply IH; eauto.
  - inversion H; subst y. unfold is_plain. rewrite G, A. reflexivity.
Qed.

(* the final target of an object that is not an alias is the object *)
Lemma final_from_self : forall s seen i, is_plain s i = true -> final_from s (ffuel s) seen i = Ok i.
Proof.
  intros s seen i H. unfold ffuel. simpl. unfold is_plain in H. destruct (getn s i) as [n|]; [|discriminate].
  destruct (is_ali (nkind n)); [discriminate|reflexivity].
Qed.

(* ---- what is seen through an alias: the names of its final target's members, now *)
Theorem through_names : forall s x ms, members_t s x = Ok ms ->
  exists f, ref_final s x = Ok f /\ is_plain s f = true /\ map fst ms = map fst (members_of s f).
Proof.
  intros s x ms H. destruct x as [i|a suf m]; unfold members_t in H.
  - destruct (getn s i) as [n|] eqn:G; [|discriminate].
    destruct (is_ali (nkind n)) eqn:A.
    + destruct (ref_final s (RN i)) as [f|e] eqn:F; [|discriminate]. destruct (needs_resolution s f); [discriminate|]. inversion H; subst ms.
      exists f. split; [reflexivity|]. split; [eapply final_from_plain; exact F|].
      exact (map_fst_wrap (fun k y => RW i [k] y) (members_of s f)).
    + inversion H; subst ms. exists i.
      assert (P : is_plain s i = true) by (unfold is_plain; rewrite G, A; reflexivity).
      split; [apply final_from_self; exact P|]. split; [exact P|].
      unfold members_of. rewrite G. exact (map_fst_wrap (fun _ y => RN y) (nmembers n)).
  - destruct (ref_final s (RW a suf m)) as [f|e] eqn:F; [|discriminate]. destruct (needs_resolution s f); [discriminate|]. inversion H; subst ms.
    exists f. split; [reflexivity|]. split.
    + unfold ref_final, ref_path in F. destruct (path_of s a) as [p| |]; try discriminate. eapply final_from_plain; exact F.
    + exact (map_fst_wrap (fun k y => RW a (suf ++ [k]) y) (members_of s f)).
Qed.

(* one step of a lookup: the entry found through x is the wrapper (or the object) around what the final target of x holds *)
Lemma members_t_lookup : forall s x ms k y, members_t s x = Ok ms -> rlookup k ms = Some y ->
  exists f, final_from s (ffuel s) [] (obj_of x) = Ok f /\ mlookup k (members_of s f) = Some (obj_of y).
Proof.
  intros s x ms k y H L. destruct x as [i|a suf m]; unfold members_t in H.
  - destruct (getn s i) as [n|] eqn:G; [|discriminate].
    destruct (is_ali (nkind n)) eqn:A.
    + destruct (ref_final s (RN i)) as [f|e] eqn:F; [|discriminate]. destruct (needs_resolution s f); [discriminate|]. inversion H; subst ms.
      rewrite (rlookup_wrap (fun k0 y0 => RW i [k0] y0)) in L.
      destruct (mlookup k (members_of s f)) as [y0|] eqn:L0; [|discriminate]. inversion L; subst y.
      exists f. split; [exact F|exact L0].
    + inversion H; subst ms. rewrite (rlookup_wrap (fun _ y0 => RN y0)) in L.
      destruct (mlookup k (nmembers n)) as [y0|] eqn:L0; [|discriminate]. inversion L; subst y.
      exists i. split.
      * apply final_from_self. unfold is_plain. rewrite G, A. reflexivity.
      * unfold members_of. rewrite G. exact L0.
  - destruct (ref_final s (RW a suf m)) as [f|e] eqn:F; [|discriminate]. destruct (needs_resolution s f); [discriminate|]. inversion H; subst ms.
    rewrite (rlookup_wrap (fun k0 y0 => RW a (suf ++ [k0]) y0)) in L.
    destruct (mlookup k (members_of s f)) as [y0|] eqn:L0; [|discriminate]. inversion L; subst y.
    exists f. split; [|exact L0].
    unfold ref_final, ref_path in F. destruct (path_of s a) as [p| |]; try discriminate.
    apply (final_from_seen_mono s (ffuel s) [p ++ suf] [] m f); [intros q Hq; discriminate|exact F].
Qed.

(* ---- dotted lookup through aliases = chained lookup through aliases (one name at a time) *)
Theorem gett_from_app : forall s p x q,
  gett_from s x (p ++ q) = match gett_from s x p with Ok y => gett_from s y q | Err e => Err e end.
Proof.
  intros s p. induction p as [|k p IH]; intros x q; [reflexivity|].
  simpl. destruct (members_t s x) as [ms|e]; [|reflexivity].
  destruct (rlookup k ms) as [y|]; [apply IH|reflexivity].
Qed.

(* ---- ... = chained lookup through the FINAL TARGETS: whatever a lookup through aliases returns wraps exactly the object
   that is found by going, at every step, to the final target and taking its member *)
Theorem through_eq_chained : forall s p x y, gett_from s x p = Ok y -> getc s (obj_of x) p = Ok (obj_of y).
Proof.
  intros s p. induction p as [|k p IH]; intros x y H; cbn [getc gett_from] in *.
  - inversion H. reflexivity.
  - destruct (members_t s x) as [ms|e] eqn:M; [|discriminate].
    destruct (rlookup k ms) as [y1|] eqn:L; [|discriminate].
    destruct (members_t_lookup s x ms k y1 M L) as [f [F Lk]]. rewrite F, Lk. apply IH. exact H.
Qed.

(* the same from the collection or an object *)
Theorem gett_eq_chained : forall s r p y, gett s r p = Ok y ->
  match r with
  | RRoot => exists k rest top, p = k :: rest /\ mlookup k (root s) = Some top /\ getc s top rest = Ok (obj_of y)
  | RObj i => getc s i p = Ok (obj_of y)
  end.
Proof.
  intros s r p y H. destruct p as [|k rest]; [discriminate|]. destruct r as [|i]; simpl in H.
  - destruct (mlookup k (root s)) as [top|] eqn:L; [|discriminate].
    exists k, rest, top. split; [reflexivity|]. split; [exact L|]. exact (through_eq_chained s rest (RN top) y H).
  - exact (through_eq_chained s (k :: rest) (RN i) y H).
Qed.

(* where no alias is on the way, the lookup through aliases is the plain lookup of part 1 *)
Theorem gett_from_plain : forall s p i x, get s (RObj i) p = Ok x -> p <> [] -> gett_from s (RN i) p = Ok (RN x).
Proof.
  intros s p. induction p as [|k p IH]; intros i x H Hp; [congruence|].
  cbn [get] in H. destruct (members_r s (RObj i)) as [ms|] eqn:M; [|discriminate].
  apply members_r_obj in M. destruct M as [n [G [A E]]]. subst ms.
  destruct (mlookup k (nmembers n)) as [y|] eqn:L; [|discriminate].
  simpl. rewrite G, A. rewrite (rlookup_wrap (fun _ y0 => RN y0)). rewrite L. simpl.
  destruct p as [|k2 p2]; [inversion H; reflexivity|]. apply IH; [exact H|discriminate].
Qed.

(* ---- the path of what a lookup returns is the path that was looked up (wrappers: the alias's path plus the names walked) *)
Lemma gett_from_path : forall s, SInv s -> forall p x px y,
  ref_path s x = POk px -> gett_from s x p = Ok y -> ref_path s y = POk (px ++ p).
Proof.
  intros s HI p. induction p as [|k p IH]; intros x px y Px H; cbn [gett_from] in H.
  - inversion H; subst y. rewrite app_nil_r. exact Px.
  - destruct (members_t s x) as [ms|e] eqn:M; [|discriminate].
    destruct (rlookup k ms) as [y1|] eqn:L; [|discriminate].
    assert (P1 : ref_path s y1 = POk (px ++ [k])).
    { destruct x as [i|a suf m]; unfold members_t in M.
      - destruct (getn s i) as [n|] eqn:G; [|discriminate]. destruct (is_ali (nkind n)) eqn:A.
        + destruct (ref_final s (RN i)) as [f|e]; [|discriminate]. destruct (needs_resolution s f); [discriminate|]. inversion M; subst ms.
          rewrite (rlookup_wrap (fun k0 y0 => RW i [k0] y0)) in L.
          destruct (mlookup k (members_of s f)) as [y0|]; [|discriminate]. inversion L; subst y1.
          simpl in *. rewrite Px. reflexivity.
        + inversion M; subst ms. rewrite (rlookup_wrap (fun _ y0 => RN y0)) in L.
          destruct (mlookup k (nmembers n)) as [y0|] eqn:L0; [|discriminate]. inversion L; subst y1.
          destruct (s_mem s HI i n k y0 G L0) as [n0 [G0 [P0 N0]]].
          simpl in *. rewrite (path_of_unfold s y0 n0 (s_par s HI) G0). unfold node_path. rewrite P0, Px, N0. reflexivity.
      - destruct (ref_final s (RW a suf m)) as [f|e]; [|discriminate]. destruct (needs_resolution s f); [discriminate|]. inversion M; subst ms.
        rewrite (rlookup_wrap (fun k0 y0 => RW a (suf ++ [k0]) y0)) in L.
        destruct (mlookup k (members_of s f)) as [y0|]; [|discriminate]. inversion L; subst y1.
        simpl in *. destruct (path_of s a) as [pa| |]; try discriminate. inversion Px; subst px.
        rewrite app_assoc. reflexivity. }
    rewrite (IH y1 (px ++ [k]) y P1 H). rewrite <- app_assoc. reflexivity.
Qed.

Theorem gett_path : forall s, SInv s -> forall p y, gett s RRoot p = Ok y -> ref_path s y = POk p.
Proof.
  intros s HI p y H. destruct p as [|k rest]; [discriminate|]. simpl in H.
  destruct (mlookup k (root s)) as [top|] eqn:L; [|discriminate].
  destruct (s_root s HI k top L) as [n [G [P [N [A _]]]]].
  apply (gett_from_path s HI rest (RN top) [k] y); [|exact H].
  simpl. rewrite (path_of_unfold s top n (s_par s HI) G). unfold node_path. rewrite P, A, N. reflexivity.
Qed.

(* ---- non-vacuity: m.al is an alias of the class m.C, which has a method x and a nested class K with y *)
Definition sample_through : list op :=
  [ ONew Producer RRoot ["m"] KMod TNone;
    ONew Producer RRoot ["m"; "C"] KCls TNone;
    ONew Producer RRoot ["m"; "C"; "x"] KFun TNone;
    ONew Producer RRoot ["m"; "C"; "K"] KCls TNone;
    ONew Producer RRoot ["m"; "C"; "K"; "y"] KAttr TNone;
    ONew Producer RRoot ["m"; "al"] KAli (TStr ["m"; "C"]);
    OResolve 5 ].

Example sample_through_lookups : forall ab,
  let s := run ab init sample_through in
  gett s RRoot ["m"; "al"; "x"] = Ok (RW 5 ["x"] 2) /\
  gett s RRoot ["m"; "al"; "K"; "y"] = Ok (RW 5 ["K"; "y"] 4) /\
  ref_path s (RW 5 ["K"; "y"] 4) = POk ["m"; "al"; "K"; "y"] /\
  gett s RRoot ["m"; "al"; "zz"] = Err EMissing /\
  getc s 0 ["al"; "K"; "y"] = Ok 4.
Proof. intros [|]; vm_compute; repeat split; reflexivity. Qed.
