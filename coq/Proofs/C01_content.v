(* C01 content proofs: the member tables computed by the visitor (names, order, kind, span, runtime flag, labels,
   docstring span, alias target) are the declarative tables of Model/C01_content.v, at module level, for every class
   at any depth (instance attributes included) and for the function object of every __init__;
   decorator-derived labels are the documented table applied to the decorator heads, for every decorator list. *)
From Coq Require Import List ZArith String Ascii Bool Arith Lia.
From Verif Require Import Lib.Sexp Model.C01_base Gen.C01_tables Model.C01_visitor Model.C01_content Proofs.C01_visitor.
Import ListNotations.
Open Scope string_scope.
Open Scope list_scope.
Open Scope nat_scope.

(* ================= tables ================= *)
Definition T (f : frame) : table := minfo (fmembers f).

Lemma lookup_minfo : forall n ms, lookup n (minfo ms) = option_map oinfo (lookup n ms).
Proof. induction ms as [|[k v] r IH]; simpl; auto. destruct (String.eqb k n); auto. Qed.
Lemma minfo_assign : forall n o ms, minfo (assign n o ms) = assign n (oinfo o) (minfo ms).
Proof. induction ms as [|[k v] r IH]; simpl; auto. destruct (String.eqb k n); simpl; congruence. Qed.
Lemma assign_lookup_id : forall A n (v : A) l, lookup n l = Some v -> assign n v l = l.
Proof.
  induction l as [|[k w] r IH]; simpl; intros; [discriminate|].
  destruct (String.eqb k n) eqn:E.
  - apply String.eqb_eq in E. subst. congruence.
  - rewrite IH; auto.
Qed.
Lemma keys_minfo : forall ms, keys (minfo ms) = keys ms.
Proof. unfold keys, minfo. intros. rewrite map_map. reflexivity. Qed.

Lemma run_table_app : forall a b t, run_table (a ++ b) t = run_table b (run_table a t).
Proof. intros. unfold run_table. apply fold_left_app. Qed.
Lemma content_app : forall n a b c, content n c (a ++ b) = content n (content n c a) b.
Proof. intros. unfold content. apply fold_left_app. Qed.

Lemma step_none : forall c d, step c d = None -> c = None.
Proof.
  intros c d. destruct d; simpl.
  - destruct (def_is_property a ds); [discriminate|]. destruct (def_is_overload ds); [auto|].
    destruct (base_property_i c name ds); [|discriminate]. destruct c; simpl; [discriminate|auto].
  - discriminate.
  - destruct c; [|discriminate]. destruct cond; discriminate.
  - discriminate.
Qed.

(* the table read one name at a time *)
Lemma lookup_apply_d : forall n t d,
  lookup n (apply_d t d) = if String.eqb (db_name d) n then step (lookup n t) d else lookup n t.
Proof.
  intros. unfold apply_d. destruct (String.eqb (db_name d) n) eqn:E.
  - apply String.eqb_eq in E. subst n.
    destruct (step (lookup (db_name d) t) d) eqn:S.
    + apply lookup_assign_same.
    + apply step_none in S. exact S.
  - destruct (step (lookup (db_name d) t) d); auto. apply lookup_assign_other. exact E.
Qed.
Lemma lookup_run_table : forall n ds t, lookup n (run_table ds t) = content n (lookup n t) ds.
Proof.
  induction ds as [|d r IH]; intros; simpl; auto.
  unfold run_table in *. simpl. rewrite IH, lookup_apply_d. reflexivity.
Qed.

(* ================= frame operations ================= *)
Lemma member_is_property_info : forall ms n, member_is_property ms n = info_is_property (option_map oinfo (lookup n ms)).
Proof. intros. unfold member_is_property, info_is_property. destruct (lookup n ms); reflexivity. Qed.
Lemma base_property_info : forall ms n ds, base_property ms n ds = base_property_i (option_map oinfo (lookup n ms)) n ds.
Proof.
  induction ds as [|d r IH]; simpl; auto. destruct d; auto.
  rewrite member_is_property_info, IH. reflexivity.
Qed.

Lemma minfo_add_label : forall n l ms,
  minfo (add_label n l ms) =
  match lookup n (minfo ms) with Some i => assign n (info_add_label l i) (minfo ms) | None => minfo ms end.
Proof.
  intros. unfold add_label. rewrite lookup_minfo. destruct (lookup n ms) as [[i sub im ex]|]; simpl; auto.
  rewrite minfo_assign. reflexivity.
Qed.

Lemma T_op_def : forall g ln dln eln name a ds doc f,
  T (fst (op_def g ln dln eln name a ds doc f)) = apply_d (T f) (DBDef g ln dln eln name a ds doc).
Proof.
  intros. unfold op_def, apply_d, T. simpl db_name. simpl step.
  destruct (def_is_property a ds); simpl fst.
  - cbn [fmembers set_members]. rewrite minfo_assign. reflexivity.
  - destruct (def_is_overload ds); simpl fst.
    + destruct (lookup name (minfo (fmembers f))) eqn:L; auto. symmetry. apply assign_lookup_id. exact L.
    + rewrite base_property_info, <- lookup_minfo.
      destruct (base_property_i (lookup name (minfo (fmembers f))) name ds); simpl fst; cbn [fmembers set_members].
      * rewrite minfo_add_label. destruct (lookup name (minfo (fmembers f))); reflexivity.
      * rewrite minfo_assign. reflexivity.
Qed.

Lemma T_set_exports : forall f e, T (set_exports f e) = T f.
Proof. reflexivity. Qed.

Lemma apply_d_attr : forall g cond ln eln m labels doc f,
  apply_d (T f) (DBAttr g cond ln eln m labels doc) =
  match lookup m (fmembers f) with
  | Some ex =>
      if cond then T f
      else
        let fwd := match ikind (oinfo ex) with KAlias => false | _ => true end in
        assign m (mkInfo KAttr ln eln (negb g) (if fwd then lunion labels (ilabels (oinfo ex)) else labels)
                         (if fwd then match doc with Some d => Some d | None => idoc (oinfo ex) end else doc) "") (T f)
  | None => assign m (mkInfo KAttr ln eln (negb g) labels doc "") (T f)
  end.
Proof.
  intros. unfold apply_d. simpl db_name. unfold T at 1. rewrite lookup_minfo.
  destruct (lookup m (fmembers f)) as [ex|] eqn:L; simpl; [|reflexivity].
  destruct cond; [|reflexivity]. apply assign_lookup_id. unfold T. rewrite lookup_minfo, L. reflexivity.
Qed.

Lemma T_attr_loop : forall cond g ln eln items pf names labels doc f,
  T (fst (attr_loop cond g ln eln items pf names labels doc f)) =
  run_table (attr_details g cond ln eln labels doc names) (T f).
Proof.
  induction names as [|m r IH]; intros; [reflexivity|].
  simpl attr_loop. unfold attr_details, plain_names in *. simpl filter.
  destruct (has_dot m) eqn:D; simpl negb; cbv iota; [apply IH|].
  simpl map. unfold run_table in *. simpl fold_left. rewrite apply_d_attr.
  assert (M : forall fr, T (if String.eqb m "__all__" && items_ok items then set_exports fr (Some items) else fr) = T fr)
    by (intros; destruct (String.eqb m "__all__" && items_ok items); reflexivity).
  destruct (lookup m (fmembers f)) as [ex|] eqn:L.
  - destruct cond; [apply IH|].
    match goal with |- context [attr_loop ?c0 ?g0 ?a0 ?b0 ?i0 ?p0 r ?l0 ?d0 ?f2] =>
      specialize (IH l0 d0 f2); destruct (attr_loop c0 g0 a0 b0 i0 p0 r l0 d0 f2) as [f3 evs] eqn:EQ end.
    simpl fst in *. rewrite IH, M. unfold T. cbn [fmembers set_members]. rewrite minfo_assign. reflexivity.
  - match goal with |- context [attr_loop ?c0 ?g0 ?a0 ?b0 ?i0 ?p0 r ?l0 ?d0 ?f2] =>
      specialize (IH l0 d0 f2); destruct (attr_loop c0 g0 a0 b0 i0 p0 r l0 d0 f2) as [f3 evs] eqn:EQ end.
    simpl fst in *. rewrite IH, M. unfold T. cbn [fmembers set_members]. rewrite minfo_assign. reflexivity.
Qed.

Lemma T_op_import : forall g ln eln names f,
  T (fst (op_import g ln eln names f)) = run_table (import_details g ln eln names) (T f).
Proof.
  induction names as [|[an ap] r IH]; intros; [reflexivity|].
  simpl op_import.
  match goal with |- context [op_import g ln eln r ?f2] =>
    specialize (IH f2); destruct (op_import g ln eln r f2) as [f3 evs] end.
  simpl fst in *. rewrite IH. unfold T. cbn [fmembers set_members set_imports]. rewrite minfo_assign. reflexivity.
Qed.

Lemma T_op_importfrom : forall g ln eln names f,
  T (fst (op_importfrom g ln eln names f)) = run_table (importfrom_details g ln eln (fpath f) names) (T f).
Proof.
  induction names as [|x r IH]; intros; [reflexivity|].
  simpl op_importfrom. simpl importfrom_details. destruct x as [an ap|an ap|]; [| |apply IH].
  - destruct (String.eqb ap (dot (fpath f) an)).
    + rewrite IH. reflexivity.
    + match goal with |- context [op_importfrom g ln eln r ?f2] =>
        specialize (IH f2); destruct (op_importfrom g ln eln r f2) as [f3 evs] end.
      simpl fst in *. rewrite IH, path_import_all. unfold T. rewrite members_import_all. cbn [fmembers set_members set_imports fpath]. rewrite minfo_assign. reflexivity.
  - destruct (String.eqb ap (dot (fpath f) an)).
    + apply IH.
    + match goal with |- context [op_importfrom g ln eln r ?f2] =>
        specialize (IH f2); destruct (op_importfrom g ln eln r f2) as [f3 evs] end.
      simpl fst in *. rewrite IH. unfold T. cbn [fmembers set_members fpath]. rewrite minfo_assign. reflexivity.
Qed.

Lemma T_op_augall : forall items f, T (op_augall items f) = T f.
Proof.
  intros. unfold op_augall. destruct (fkind f); auto. destruct (fexports f); auto. destruct (items_ok items); auto.
Qed.

Lemma T_close_fun : forall inst name c p, T (close_fun inst name c p) = T p.
Proof.
  intros. unfold close_fun. destruct inst; auto.
  destruct (lookup name (fmembers p)) as [[i ? ? ?]|] eqn:L; auto. destruct (ikind i); auto.
  unfold T. cbn [fmembers set_members]. rewrite minfo_assign. apply assign_lookup_id.
  rewrite lookup_minfo, L. reflexivity.
Qed.

(* ================= unfolding of the declarative detail functions ================= *)
Lemma idl_eq : forall l g pk,
  (fix idl (g : bool) (pk : pkind) (l : list stmt) {struct l} : list dbind :=
     match l with [] => [] | x :: r => init_details g pk (next_doc r None) x ++ idl g pk r end) g pk l
  = init_details_list g pk None l.
Proof. induction l; intros; simpl; [reflexivity|]. rewrite IHl. reflexivity. Qed.
Lemma id_SIf : forall g pk nd tc body orelse,
  init_details g pk nd (SIf tc body orelse) =
  init_details_list (gbody g pk tc) PIf None body ++ init_details_list (gelse g pk tc) PIf None orelse.
Proof. intros. simpl. rewrite !idl_eq. reflexivity. Qed.
Lemma id_SBlock : forall g pk nd ch, init_details g pk nd (SBlock ch) = init_details_list g POther None ch.
Proof. intros. simpl. rewrite !idl_eq. reflexivity. Qed.
Lemma id_SSub : forall g pk nd h body,
  init_details g pk nd (SSub h body) = init_details_list g (if h then PHandler else POther) None body.
Proof. intros. simpl. rewrite !idl_eq. reflexivity. Qed.

Lemma ldl_eq : forall k path l g pk,
  (fix ldl (g : bool) (pk : pkind) (l : list stmt) {struct l} : list dbind :=
     match l with [] => [] | x :: r => level_details k path g pk (next_doc r None) x ++ ldl g pk r end) g pk l
  = level_details_list k path g pk None l.
Proof. induction l; intros; simpl; [reflexivity|]. rewrite IHl. reflexivity. Qed.
Lemma ld_SDef : forall k path g pk nd ln dln eln name a ds body,
  level_details k path g pk nd (SDef ln dln eln name a ds body) =
  DBDef g ln dln eln name a ds (head_doc body) ::
  (match k with
   | InClass => if String.eqb name "__init__" && negb (def_is_property a ds)
                then init_details_list g PFunction None body else []
   | _ => [] end).
Proof. reflexivity. Qed.
Lemma ld_SIf : forall k path g pk nd tc body orelse,
  level_details k path g pk nd (SIf tc body orelse) =
  level_details_list k path (gbody g pk tc) PIf None body ++ level_details_list k path (gelse g pk tc) PIf None orelse.
Proof. intros. simpl. rewrite !ldl_eq. reflexivity. Qed.
Lemma ld_SBlock : forall k path g pk nd ch, level_details k path g pk nd (SBlock ch) = level_details_list k path g POther None ch.
Proof. intros. simpl. rewrite !ldl_eq. reflexivity. Qed.
Lemma ld_SSub : forall k path g pk nd h body,
  level_details k path g pk nd (SSub h body) = level_details_list k path g (if h then PHandler else POther) None body.
Proof. intros. simpl. rewrite !ldl_eq. reflexivity. Qed.

(* ================= instance attributes: what an __init__ body does to the class ================= *)
Definition up_stmt (s : stmt) : Prop := forall g pk nd own up,
  fkind own = InInit ->
  T (l_up (sem_stmt g pk nd s own up)) = run_table (init_details g pk nd s) (T up).
Definition up_list (l : list stmt) : Prop := forall g pk follow own up,
  fkind own = InInit ->
  T (l_up (sem_list g pk follow l own up)) = run_table (init_details_list g pk follow l) (T up).

Lemma up_list_of : forall l, Forall up_stmt l -> up_list l.
Proof.
  induction 1 as [|x r Hx Hr IH]; intros g pk follow own up K.
  - reflexivity.
  - rewrite sem_list_cons. cbv zeta. cbn [l_up].
    destruct (sem_facts_all x g pk (next_doc r follow) own up) as [[A1 _] _].
    set (a := sem_stmt g pk (next_doc r follow) x own up) in *.
    assert (K' : fkind (l_own a) = InInit) by congruence.
    rewrite (IH g pk follow (l_own a) (l_up a) K'). unfold a. rewrite (Hx g pk (next_doc r follow) own up K).
    simpl init_details_list. rewrite run_table_app. reflexivity.
Qed.

Lemma up_stmt_all : forall s, up_stmt s.
Proof.
  induction s using stmt_ind2; intros g pk nd own up K.
  - (* SDef: the current object is a function, so no descent *)
    rewrite sem_SDef. cbv zeta. unfold descends. rewrite K. reflexivity.
  - rewrite sem_SCls. reflexivity.
  - (* SAssign *)
    simpl sem_stmt. unfold op_attr. rewrite K. simpl init_details.
    destruct (names_init ts) as [names|]; [|reflexivity].
    pose proof (T_attr_loop (is_cond pk) g ln eln items false names (attr_labels InInit true false) nd up) as Ka.
    destruct (attr_loop (is_cond pk) g ln eln items false names (attr_labels InInit true false) nd up) as [u' evs].
    exact Ka.
  - (* SAnn *)
    simpl sem_stmt. unfold op_attr. rewrite K. simpl init_details.
    destruct (names_init [t]) as [names|]; [|reflexivity].
    pose proof (T_attr_loop (is_cond pk) g ln eln items false names (attr_labels InInit hv cv) nd up) as Ka.
    destruct (attr_loop (is_cond pk) g ln eln items false names (attr_labels InInit hv cv) nd up) as [u' evs].
    exact Ka.
  - reflexivity.
  - simpl sem_stmt. destruct (op_import g ln eln names own). reflexivity.
  - simpl sem_stmt. destruct (op_importfrom g ln eln names own). reflexivity.
  - (* SIf *)
    rewrite sem_SIf, id_SIf. cbv zeta. cbn [l_up].
    destruct (sem_list_facts body (gbody g pk tc) PIf None own up) as [[A1 _] _].
    set (a := sem_list (gbody g pk tc) PIf None body own up) in *.
    assert (K' : fkind (l_own a) = InInit) by congruence.
    rewrite (up_list_of _ H0 (gelse g pk tc) PIf None (l_own a) (l_up a) K'). unfold a.
    rewrite (up_list_of _ H (gbody g pk tc) PIf None own up K), run_table_app. reflexivity.
  - rewrite sem_SBlock, id_SBlock. apply (up_list_of _ H). exact K.
  - rewrite sem_SSub, id_SSub. apply (up_list_of _ H). exact K.
  - reflexivity.
  - reflexivity.
Qed.

Lemma up_list_all : forall l, up_list l.
Proof. intros. apply up_list_of. apply Forall_forall. intros. apply up_stmt_all. Qed.

(* ================= the receiving level itself ================= *)
Definition own_stmt (s : stmt) : Prop := forall g pk nd own up,
  T (l_own (sem_stmt g pk nd s own up)) = run_table (level_details (fkind own) (fpath own) g pk nd s) (T own).
Definition own_list (l : list stmt) : Prop := forall g pk follow own up,
  T (l_own (sem_list g pk follow l own up)) = run_table (level_details_list (fkind own) (fpath own) g pk follow l) (T own).

Lemma own_list_of : forall l, Forall own_stmt l -> own_list l.
Proof.
  induction 1 as [|x r Hx Hr IH]; intros g pk follow own up.
  - reflexivity.
  - rewrite sem_list_cons. cbv zeta. cbn [l_own].
    destruct (sem_facts_all x g pk (next_doc r follow) own up) as [[A1 [_ A3]] _].
    set (a := sem_stmt g pk (next_doc r follow) x own up) in *.
    rewrite (IH g pk follow (l_own a) (l_up a)), A1, A3. unfold a. rewrite (Hx g pk (next_doc r follow) own up).
    simpl level_details_list. rewrite run_table_app. reflexivity.
Qed.

Lemma own_stmt_all : forall s, own_stmt s.
Proof.
  induction s using stmt_ind2; intros g pk nd own up.
  - (* SDef *)
    rewrite sem_SDef, ld_SDef. cbv zeta.
    pose proof (T_op_def g ln dln eln name a ds (head_doc body) own) as K.
    destruct (descends own name a ds) eqn:D.
    + destruct (descends_kind _ _ _ _ D) as [Kd [Nm Pr]].
      cbn [l_own]. rewrite T_close_fun.
      rewrite (up_list_all body g PFunction None (empty_frame InInit name (child_path own name))
                 (fst (op_def g ln dln eln name a ds (head_doc body) own)) eq_refl).
      rewrite K, Kd, Nm, Pr. reflexivity.
    + cbn [l_own]. rewrite K. unfold descends in D.
      destruct (fkind own); try reflexivity. rewrite D. reflexivity.
  - (* SCls *)
    rewrite sem_SCls. cbv zeta. cbn [l_own]. unfold T. cbn [fmembers set_members]. rewrite minfo_assign. reflexivity.
  - (* SAssign *)
    simpl sem_stmt. unfold op_attr. simpl level_details. destruct (fkind own) eqn:Kd.
    + destruct (names_scope ts) as [names|]; [|reflexivity].
      pose proof (T_attr_loop (is_cond pk) g ln eln items false names (attr_labels InModule true false) nd own) as Ka.
      destruct (attr_loop (is_cond pk) g ln eln items false names (attr_labels InModule true false) nd own) as [o' evs].
      exact Ka.
    + destruct (names_scope ts) as [names|]; [|reflexivity].
      pose proof (T_attr_loop (is_cond pk) g ln eln items false names (attr_labels InClass true false) nd own) as Ka.
      destruct (attr_loop (is_cond pk) g ln eln items false names (attr_labels InClass true false) nd own) as [o' evs].
      exact Ka.
    + destruct (names_init ts) as [names|]; [|reflexivity].
      destruct (attr_loop (is_cond pk) g ln eln items false names (attr_labels InInit true false) nd up) as [u' evs].
      reflexivity.
  - (* SAnn *)
    simpl sem_stmt. unfold op_attr. simpl level_details. destruct (fkind own) eqn:Kd.
    + destruct (names_scope [t]) as [names|]; [|reflexivity].
      pose proof (T_attr_loop (is_cond pk) g ln eln items false names (attr_labels InModule hv cv) nd own) as Ka.
      destruct (attr_loop (is_cond pk) g ln eln items false names (attr_labels InModule hv cv) nd own) as [o' evs].
      exact Ka.
    + destruct (names_scope [t]) as [names|]; [|reflexivity].
      pose proof (T_attr_loop (is_cond pk) g ln eln items false names (attr_labels InClass hv cv) nd own) as Ka.
      destruct (attr_loop (is_cond pk) g ln eln items false names (attr_labels InClass hv cv) nd own) as [o' evs].
      exact Ka.
    + destruct (names_init [t]) as [names|]; [|reflexivity].
      destruct (attr_loop (is_cond pk) g ln eln items false names (attr_labels InInit hv cv) nd up) as [u' evs].
      reflexivity.
  - (* SAugAll *) simpl sem_stmt. cbn [l_own]. apply T_op_augall.
  - (* SImport *)
    simpl sem_stmt. pose proof (T_op_import g ln eln names own) as Ka.
    destruct (op_import g ln eln names own) as [o' evs]. exact Ka.
  - (* SImportFrom *)
    simpl sem_stmt. pose proof (T_op_importfrom g ln eln names own) as Ka.
    destruct (op_importfrom g ln eln names own) as [o' evs]. exact Ka.
  - (* SIf *)
    rewrite sem_SIf, ld_SIf. cbv zeta. cbn [l_own].
    destruct (sem_list_facts body (gbody g pk tc) PIf None own up) as [[A1 [_ A3]] _].
    set (a := sem_list (gbody g pk tc) PIf None body own up) in *.
    rewrite (own_list_of _ H0 (gelse g pk tc) PIf None (l_own a) (l_up a)), A1, A3. unfold a.
    rewrite (own_list_of _ H (gbody g pk tc) PIf None own up), run_table_app. reflexivity.
  - rewrite sem_SBlock, ld_SBlock. apply (own_list_of _ H).
  - rewrite sem_SSub, ld_SSub. apply (own_list_of _ H).
  - reflexivity.
  - reflexivity.
Qed.

Lemma own_list_all : forall l, own_list l.
Proof. intros. apply own_list_of. apply Forall_forall. intros. apply own_stmt_all. Qed.

(* ================= the theorems ================= *)
(* module level: names, order and full content of every member *)
Theorem module_table : forall mname body r,
  run_visit mname body = Ok r ->
  minfo (r_members r) = run_table (level_details_list InModule mname false PScope None body) [].
Proof.
  intros mname body r. rewrite machine_computes_level_semantics. unfold spec_module.
  destruct (l_err _); [discriminate|]. intros E. injection E as E. subst r. cbn [r_members].
  apply (own_list_all body false PScope None (empty_frame InModule mname mname) sentinel).
Qed.

Theorem module_member_content : forall mname body r n,
  run_visit mname body = Ok r ->
  option_map oinfo (lookup n (r_members r)) = content n None (level_details_list InModule mname false PScope None body).
Proof.
  intros. rewrite <- lookup_minfo, (module_table _ _ _ H), lookup_run_table. reflexivity.
Qed.

(* every class statement, wherever it is evaluated: the class object carries the table of its body, instance
   attributes of its __init__ included *)
Theorem class_table : forall g pk nd ln dln eln name ds body own up,
  exists o, lookup name (fmembers (l_own (sem_stmt g pk nd (SCls ln dln eln name ds body) own up))) = Some o /\
            oinfo o = cls_info g ln dln eln ds body /\
            minfo (omembers o) = run_table (level_details_list InClass (child_path own name) g PScope None body) [].
Proof.
  intros. rewrite sem_SCls. cbv zeta. cbn [l_own fmembers set_members]. rewrite lookup_assign_same.
  eexists. split; [reflexivity|]. split; [reflexivity|]. cbn [omembers].
  apply (own_list_all body g PScope None (empty_frame InClass name (child_path own name)) sentinel).
Qed.

(* the function object of a class's __init__: while it is the member bound to its name, its members are the
   definitions, classes and imports of its body *)
Theorem init_function_table : forall g pk nd ln dln eln name a ds body own up o,
  descends own name a ds = true ->
  def_installed (fmembers own) name ds = true ->
  lookup name (fmembers (l_own (sem_stmt g pk nd (SDef ln dln eln name a ds body) own up))) = Some o ->
  ikind (oinfo o) = KFun ->
  minfo (omembers o) = run_table (level_details_list InInit (child_path own name) g PFunction None body) [].
Proof.
  intros g pk nd ln dln eln name a ds body own up o D I L Kf.
  rewrite sem_SDef in L. cbv zeta in L. rewrite D in L. cbn [l_own] in L. rewrite I in L.
  set (b := sem_list g PFunction None body (empty_frame InInit name (child_path own name))
              (fst (op_def g ln dln eln name a ds (head_doc body) own))) in *.
  unfold close_fun in L.
  destruct (lookup name (fmembers (l_up b))) as [[i ms im ex]|] eqn:L0.
  - destruct (ikind i) eqn:Ki.
    + rewrite L0 in L. injection L as L. subst o. simpl in Kf. congruence.
    + cbn [fmembers set_members] in L. rewrite lookup_assign_same in L. injection L as L. subst o. cbn [omembers].
      apply (own_list_all body g PFunction None (empty_frame InInit name (child_path own name))
               (fst (op_def g ln dln eln name a ds (head_doc body) own))).
    + rewrite L0 in L. injection L as L. subst o. simpl in Kf. congruence.
    + rewrite L0 in L. injection L as L. subst o. simpl in Kf. congruence.
    + rewrite L0 in L. injection L as L. subst o. simpl in Kf. congruence.
  - rewrite L0 in L. discriminate.
Qed.

(* ================= the detailed bindings refine the plain bindings of Model/C01_visitor.v ================= *)
Lemma tb_attr_details : forall g cond ln eln labels nd ns,
  flat_map to_bindings (attr_details g cond ln eln labels nd ns) = map (fun n => mkB n ln BAttr cond g) (plain_names ns).
Proof. intros. unfold attr_details. induction (plain_names ns); simpl; congruence. Qed.
Lemma tb_import : forall g ln eln names, flat_map to_bindings (import_details g ln eln names) = import_bindings g ln names.
Proof. intros. unfold import_details, import_bindings. induction names; simpl; congruence. Qed.
Lemma tb_importfrom : forall g ln eln path names,
  flat_map to_bindings (importfrom_details g ln eln path names) = importfrom_bindings g ln path names.
Proof.
  induction names as [|x r IH]; simpl; auto. destruct x; auto;
    destruct (String.eqb ap (dot path an)); simpl; congruence.
Qed.

Definition tbi_stmt (s : stmt) : Prop := forall g pk nd, flat_map to_bindings (init_details g pk nd s) = init_bindings g pk s.
Lemma tbi_list_of : forall l, Forall tbi_stmt l -> forall g pk follow,
  flat_map to_bindings (init_details_list g pk follow l) = init_bindings_list g pk l.
Proof.
  induction 1 as [|x r Hx Hr IH]; intros; simpl; auto. rewrite flat_map_app, Hx, IH. reflexivity.
Qed.
Lemma tbi_all : forall s, tbi_stmt s.
Proof.
  induction s using stmt_ind2; intros g pk nd; try reflexivity.
  - simpl. destruct (names_init ts); [apply tb_attr_details|reflexivity].
  - simpl init_details. simpl init_bindings. destruct (names_init [t]); [apply tb_attr_details|reflexivity].
  - rewrite id_SIf, ib_SIf, flat_map_app, (tbi_list_of _ H), (tbi_list_of _ H0). reflexivity.
  - rewrite id_SBlock, ib_SBlock. apply (tbi_list_of _ H).
  - rewrite id_SSub, ib_SSub. apply (tbi_list_of _ H).
Qed.
Lemma tbi_list : forall l g pk follow, flat_map to_bindings (init_details_list g pk follow l) = init_bindings_list g pk l.
Proof. intros. apply tbi_list_of. apply Forall_forall. intros. apply tbi_all. Qed.

Definition tb_stmt (k : skind) (s : stmt) : Prop := forall path g pk nd,
  flat_map to_bindings (level_details k path g pk nd s) = level_bindings k path g pk s.
Lemma tb_list_of : forall k l, Forall (tb_stmt k) l -> forall path g pk follow,
  flat_map to_bindings (level_details_list k path g pk follow l) = level_bindings_list k path g pk l.
Proof.
  induction 1 as [|x r Hx Hr IH]; intros; simpl; auto. rewrite flat_map_app, Hx, IH. reflexivity.
Qed.
Lemma tb_all : forall k s, k <> InInit -> tb_stmt k s.
Proof.
  intros k s Hk. induction s using stmt_ind2; intros path g pk nd; try reflexivity.
  - (* SDef *)
    rewrite ld_SDef, lb_SDef. simpl flat_map.
    destruct (def_is_property a ds) eqn:Pr.
    + destruct k; try reflexivity. rewrite andb_false_r. reflexivity.
    + destruct (def_is_overload ds); destruct k; simpl; rewrite ?app_nil_r; try reflexivity;
        rewrite andb_true_r; destruct (String.eqb name "__init__"); try reflexivity; rewrite ?tbi_list; reflexivity.
  - (* SAssign *)
    simpl level_details. simpl level_bindings. destruct k; try congruence;
      (destruct (names_scope ts); [apply tb_attr_details|reflexivity]).
  - simpl level_details. simpl level_bindings. destruct k; try congruence;
      (destruct (names_scope [t]); [apply tb_attr_details|reflexivity]).
  - apply tb_import.
  - apply tb_importfrom.
  - rewrite ld_SIf, lb_SIf, flat_map_app, (tb_list_of k _ H), (tb_list_of k _ H0). reflexivity.
  - rewrite ld_SBlock, lb_SBlock. apply (tb_list_of k _ H).
  - rewrite ld_SSub, lb_SSub. apply (tb_list_of k _ H).
Qed.
Theorem details_refine_bindings : forall k path g pk follow l, k <> InInit ->
  flat_map to_bindings (level_details_list k path g pk follow l) = level_bindings_list k path g pk l.
Proof. intros. apply tb_list_of. apply Forall_forall. intros. apply tb_all. exact H. Qed.

(* ================= decorator-derived labels = the documented table, for every decorator list ================= *)
(* the tables regenerated from visitor.py ARE the documented table: for every callable path (not only the listed ones) *)
Lemma deco_labels_documented : forall d, deco_labels d = doc_deco_labels d.
Proof.
  destruct d; [|reflexivity|reflexivity].
  unfold deco_labels, doc_deco_labels, doc_labels, builtin_decorators, stdlib_decorators. simpl assoc_labels.
  repeat (match goal with |- context [String.eqb p ?s] => destruct (String.eqb p s) end; try reflexivity).
Qed.

Lemma str_mem_In : forall s l, str_mem s l = true <-> In s l.
Proof.
  unfold str_mem. intros. rewrite existsb_exists. split.
  - intros [x [H E]]. apply String.eqb_eq in E. subst. exact H.
  - intros H. exists s. split; [exact H|apply String.eqb_refl].
Qed.
Lemma In_ladd : forall x l ls, In x (ladd l ls) <-> x = l \/ In x ls.
Proof.
  intros. unfold ladd. destruct (str_mem l ls) eqn:E.
  - apply str_mem_In in E. split; [auto|]. intros [H|H]; subst; auto.
  - rewrite in_app_iff. simpl. split; intros [H|H]; auto. destruct H; auto. contradiction.
Qed.
Lemma NoDup_ladd : forall l ls, NoDup ls -> NoDup (ladd l ls).
Proof.
  intros. unfold ladd. destruct (str_mem l ls) eqn:E; auto.
  assert (N : ~ In l ls) by (intros C; apply str_mem_In in C; congruence).
  clear E. induction H; simpl.
  - constructor; [intros []|constructor].
  - constructor.
    + rewrite in_app_iff. simpl. intros [C|[C|[]]]; [contradiction|]. subst. apply N. left. reflexivity.
    + apply IHNoDup. intros C. apply N. right. exact C.
Qed.
Lemma In_lunion : forall x b a, In x (lunion a b) <-> In x a \/ In x b.
Proof.
  unfold lunion. induction b as [|y b IH]; intros; simpl.
  - tauto.
  - rewrite IH, In_ladd. split; intros H; intuition.
Qed.
Lemma NoDup_lunion : forall b a, NoDup a -> NoDup (lunion a b).
Proof. unfold lunion. induction b as [|y b IH]; intros; simpl; auto. apply IH. apply NoDup_ladd. exact H. Qed.

Lemma In_labels_fold : forall l ds acc,
  In l (fold_left (fun acc d => lunion acc (deco_labels d)) ds acc) <->
  In l acc \/ exists d, In d ds /\ In l (doc_deco_labels d).
Proof.
  induction ds as [|d r IH]; intros; simpl.
  - split; [auto|]. intros [H|[d [[] _]]]. exact H.
  - rewrite IH, In_lunion, deco_labels_documented. split.
    + intros [[H|H]|[e [H1 H2]]]; auto.
      * right. exists d. auto.
      * right. exists e. auto.
    + intros [H|[e [[H1|H1] H2]]]; auto.
      * subst. auto.
      * right. exists e. auto.
Qed.

(* a label is derived from a decorator list exactly when the documented table gives it for one of the decorators;
   the result is a set *)
Theorem decorator_labels_documented : forall ds,
  (forall l, In l (decorators_to_labels ds) <-> exists d, In d ds /\ In l (doc_deco_labels d)) /\
  NoDup (decorators_to_labels ds).
Proof.
  intros. split.
  - intros l. unfold decorators_to_labels. rewrite In_labels_fold. split; [intros [[]|H]; exact H|auto].
  - unfold decorators_to_labels. generalize (@nil string) (NoDup_nil string). induction ds as [|d r IH]; intros acc N; simpl; auto.
    apply IH. apply NoDup_lunion. exact N.
Qed.

(* labels of a function / property-attribute definition: "async" for a coroutine plus the decorator-derived labels *)
Theorem definition_labels_documented : forall a ds,
  (forall l, In l (def_labels a ds) <-> (a = true /\ l = "async") \/ exists d, In d ds /\ In l (doc_deco_labels d)) /\
  NoDup (def_labels a ds).
Proof.
  intros. destruct (decorator_labels_documented ds) as [H N]. split.
  - intros l. unfold def_labels. rewrite In_lunion, H. destruct a; simpl; split.
    + intros [[E|[]]|E]; auto.
    + intros [[_ E]|E]; auto.
    + intros [[]|E]; auto.
    + intros [[C _]|E]; [discriminate|auto].
  - unfold def_labels. apply NoDup_lunion. destruct a; [constructor; [intros []|constructor]|constructor].
Qed.

(* what a definition installs when it is neither an overload nor attached as an accessor: kind, reported span
   (decorators included for functions and classes, not for property-attributes), labels, docstring *)
Lemma step_def_installs : forall cur g ln dln eln name a ds doc,
  def_is_overload ds = false \/ def_is_property a ds = true ->
  base_property_i cur name ds = None \/ def_is_property a ds = true ->
  step cur (DBDef g ln dln eln name a ds doc) =
  Some (mkInfo (if def_is_property a ds then KAttr else KFun)
               (if def_is_property a ds then ln else def_first_line ln dln ds) eln (negb g) (def_labels a ds) doc "").
Proof.
  intros. simpl. destruct (def_is_property a ds); [reflexivity|].
  destruct H as [H|H]; [|discriminate]. destruct H0 as [H0|H0]; [|discriminate]. rewrite H, H0. reflexivity.
Qed.

(* ================= attribute docstring = the string statement that immediately follows ================= *)
Lemma with_next_nth : forall l i,
  nth_error (with_next l) i = match nth_error l i with Some s => Some (s, doc_after l i) | None => None end.
Proof.
  induction l as [|x r IH]; intros; destruct i; simpl; auto.
  - unfold doc_after, next_doc. simpl. destruct r as [|[] ?]; reflexivity.
  - rewrite IH. unfold doc_after. simpl. reflexivity.
Qed.
Lemma level_details_with_next : forall k path g pk l,
  level_details_list k path g pk None l = flat_map (fun p => level_details k path g pk (snd p) (fst p)) (with_next l).
Proof. induction l; simpl; congruence. Qed.
Lemma init_details_with_next : forall g pk l,
  init_details_list g pk None l = flat_map (fun p => init_details g pk (snd p) (fst p)) (with_next l).
Proof. induction l; simpl; congruence. Qed.

(* every statement list hands each of its statements, as attribute-docstring candidate, the string statement at the
   next index of the same list and nothing else; the bindings of the list are those of its statements with that candidate *)
Theorem attribute_docstring_follows : forall k path g pk l,
  level_details_list k path g pk None l = flat_map (fun p => level_details k path g pk (snd p) (fst p)) (with_next l) /\
  init_details_list g pk None l = flat_map (fun p => init_details g pk (snd p) (fst p)) (with_next l) /\
  forall i, nth_error (with_next l) i = match nth_error l i with Some s => Some (s, doc_after l i) | None => None end.
Proof. intros. split; [apply level_details_with_next|]. split; [apply init_details_with_next|]. apply with_next_nth. Qed.

(* ================= non-vacuity ================= *)
(*  1 import functools
    2 class C:
    3     x: int = 1
    4     """doc of x"""
    5     @property
    6     def p(self): ...
    7     @p.setter
    8     def p(self, v): ...
    9     def __init__(self):
   10         self.y = 2
   11         ("doc of y" spans 11-13, the string constant is on line 12)
   14         import os
   15         if c:
   16             self.x = 3
   17 @functools.cache
   18 async def f(): ...
   19 f = 1                                                                                     *)
Definition content_sample : list stmt :=
  [SImport 1 1 [("functools", "functools")];
   SCls 2 2 16 "C" []
     [SAnn 3 3 (TName "x") true false []; SDoc 4 4;
      SDef 6 5 6 "p" false [DPath "property"] [SOther];
      SDef 8 7 8 "p" false [DAccessor "p" "setter"] [SOther];
      SDef 9 9 16 "__init__" false []
        [SAssign 10 10 [TSelf "y"] []; SDoc 12 12; SImport 14 14 [("os", "os")];
         SIf TCNone [SAssign 16 16 [TSelf "x"] []] []]];
   SDef 18 17 18 "f" true [DPath "functools.cache"] [SOther];
   SAssign 19 19 [TName "f"] []].
Example content_sample_ok :
  run_table (level_details_list InModule "m" false PScope None content_sample) [] =
    [("functools", mkInfo KAlias 1 1 true [] None "functools");
     ("C", mkInfo KCls 2 16 true [] None "");
     ("f", mkInfo KAttr 19 19 true ["module-attribute"; "async"; "cached"] None "")] /\
  (exists r, run_visit "m" content_sample = Ok r /\
     exists c, lookup "C" (r_members r) = Some c /\
       minfo (omembers c) =
         [("x", mkInfo KAttr 3 3 true ["class-attribute"; "instance-attribute"] (Some (4, 4)) "");
          ("p", mkInfo KAttr 6 6 true ["property"; "writable"] None "");
          ("__init__", mkInfo KFun 9 16 true [] None "");
          ("y", mkInfo KAttr 10 10 true ["instance-attribute"] (Some (12, 12)) "")] /\
       exists i, lookup "__init__" (omembers c) = Some i /\
         minfo (omembers i) = [("os", mkInfo KAlias 14 14 true [] None "os")]).
Proof.
  split; [vm_compute; reflexivity|]. eexists. split; [vm_compute; reflexivity|].
  eexists. split; [vm_compute; reflexivity|]. split; [vm_compute; reflexivity|].
  eexists. split; vm_compute; reflexivity.
Qed.
