(* C18 proofs, part 4: the extension as a state machine over any history of on_package_loaded events, for the three shapes
   of the merging code. *)
From Coq Require Import List Arith Bool Lia.
From Verif Require Import Lib.Sexp Model.C18_dataclass Model.C18_modes Model.C18_machine Proofs.C18_dataclass Proofs.C18_modes.
Import ListNotations.
Open Scope list_scope. Open Scope nat_scope.

Lemma lookup_cons : forall {A} k j (v : A) l, lookup k ((j, v) :: l) = if Nat.eqb k j then Some v else lookup k l.
Proof. reflexivity. Qed.
Lemma memb_cons : forall k j l, memb k (j :: l) = Nat.eqb k j || memb k l.
Proof. reflexivity. Qed.

Ltac proj := cbn [s_cache s_pruned s_init s_label s_processed].

(* ------------------------------------------------------------------ the result only depends on what [own] answers *)
Lemma accum_ext : forall t own own', (forall k, own k = own' k) -> forall fuel j, accum t own fuel j = accum t own' fuel j.
Proof.
  intros t own own' H. induction fuel as [|f IH]; intros j; simpl; auto.
  destruct (nth_error t j) as [b|]; auto. unfold accum_body. rewrite H.
  destruct (decorated b).
  - f_equal. apply fold_left_ext_in. intros a x _. rewrite IH. reflexivity.
  - destruct (find (decorated_at t) (c_mro b)); auto.
Qed.

Lemma gm_params_ext : forall m t own own' i c, (forall k, own k = own' k) -> gm_params m t own i c = gm_params m t own' i c.
Proof.
  intros m t own own' i c H. destruct m; unfold gm_params.
  - f_equal. apply flat_map_ext. intros k. unfold dec_own. rewrite H. reflexivity.
  - do 4 f_equal. apply flat_map_ext. intros k. unfold dec_own. rewrite H. reflexivity.
  - do 4 f_equal. apply accum_ext. auto.
Qed.

(* ------------------------------------------------------------------ the invariant *)
Record Inv (md : mode) (t : table) (st : sstate) : Prop := mkInv {
  inv_cache : forall j l, lookup j (s_cache st) = Some l -> exists b, nth_error t j = Some b /\ l = g_own_all b;
  inv_pruned : forall j b, memb j (s_pruned st) = true -> nth_error t j = Some b -> decorated b = true -> lookup j (s_cache st) <> None;
  inv_init : forall j m, lookup j (s_init st) = Some m -> exists c, nth_error t j = Some c /\ c_hw c = None /\ m = gm_init_member md t j c;
  inv_label : forall j, memb j (s_label st) = true -> exists c, nth_error t j = Some c /\ existsb decorated (mro_classes t c) = true
}.

Definition same_rest (a b : sstate) : Prop :=
  s_pruned b = s_pruned a /\ s_init b = s_init a /\ s_label b = s_label a /\ s_processed b = s_processed a.
Definition cache_mono (a b : sstate) : Prop := forall k, lookup k (s_cache a) <> None -> lookup k (s_cache b) <> None.

Lemma same_rest_trans : forall a b c, same_rest a b -> same_rest b c -> same_rest a c.
Proof. unfold same_rest. intros a b c [A1 [A2 [A3 A4]]] [B1 [B2 [B3 B4]]]. repeat split; congruence. Qed.
Lemma same_rest_refl : forall a, same_rest a a.
Proof. unfold same_rest. intros; repeat split; reflexivity. Qed.

Lemma Inv_st0 : forall md t, Inv md t st0.
Proof. intros md t. constructor; simpl; intros; discriminate. Qed.

Lemma scan_now_unpruned : forall st j b, memb j (s_pruned st) = false -> scan_now st j b = g_own_all b.
Proof. intros st j b H. unfold scan_now, live_body, g_own_all. rewrite H. reflexivity. Qed.

(* what _dataclass_parameters answers never depends on the state *)
Lemma cached_fst : forall md t st j b, Inv md t st -> nth_error t j = Some b -> fst (cached st j b) = g_own_all b.
Proof.
  intros md t st j b HI Hj. unfold cached. destruct (lookup j (s_cache st)) as [l|] eqn:El; simpl.
  - destruct (inv_cache md t st HI j l El) as [b' [Hb' Hl]]. rewrite Hj in Hb'. inversion Hb'; subst b'. auto.
  - destruct (memb j (s_pruned st)) eqn:Em; [|apply scan_now_unpruned; auto].
    destruct (decorated b) eqn:Hd.
    + exfalso. apply (inv_pruned md t st HI j b Em Hj Hd). auto.
    + rewrite (g_own_all_undec b Hd). unfold scan_now, decorated in *. destruct (c_dec b); [discriminate|reflexivity].
Qed.

Lemma own_of_static : forall md t st, Inv md t st -> forall k, own_of t st k = own_static t k.
Proof.
  intros md t st HI k. unfold own_of, own_static. destruct (nth_error t k) as [b|] eqn:Hk; auto.
  apply (cached_fst md t st k b HI Hk).
Qed.

Lemma cached_ok : forall md t st j b, Inv md t st -> nth_error t j = Some b ->
  Inv md t (snd (cached st j b)) /\ same_rest st (snd (cached st j b)) /\
  cache_mono st (snd (cached st j b)) /\ lookup j (s_cache (snd (cached st j b))) <> None.
Proof.
  intros md t st j b HI Hj. pose proof (cached_fst md t st j b HI Hj) as Hf. unfold cached in *.
  destruct (lookup j (s_cache st)) as [l|] eqn:El; cbn [fst snd] in *.
  - split; [auto|]. split; [apply same_rest_refl|]. split; [intros k Hk; exact Hk|]. rewrite El. discriminate.
  - rewrite Hf. split; [|split; [repeat split; auto|split]].
    + constructor; proj.
      * intros k l. rewrite lookup_cons. destruct (Nat.eqb k j) eqn:E.
        -- apply Nat.eqb_eq in E. subst k. intros H. inversion H. eauto.
        -- apply (inv_cache md t st HI).
      * intros k b' Hm Hk Hdk. rewrite lookup_cons. destruct (Nat.eqb k j); [discriminate|]. apply (inv_pruned md t st HI k b'); auto.
      * apply (inv_init md t st HI).
      * apply (inv_label md t st HI).
    + intros k Hk. proj. rewrite lookup_cons. destruct (Nat.eqb k j); [discriminate|auto].
    + proj. rewrite lookup_cons, Nat.eqb_refl. discriminate.
Qed.

Lemma warm_ok : forall md t l st, Inv md t st ->
  Inv md t (warm t st l) /\ same_rest st (warm t st l) /\ cache_mono st (warm t st l) /\
  (forall j b, In j l -> nth_error t j = Some b -> decorated b = true -> lookup j (s_cache (warm t st l)) <> None).
Proof.
  intros md t. induction l as [|j r IH]; intros st HI; simpl.
  - split; [auto|]. split; [apply same_rest_refl|]. split; [intros k H; exact H|]. intros j b [].
  - destruct (nth_error t j) as [b|] eqn:Hj.
    + destruct (decorated b) eqn:Hd.
      * destruct (cached_ok md t st j b HI Hj) as [HI1 [Hs1 [Hm1 Hl1]]].
        destruct (IH (snd (cached st j b)) HI1) as [HI2 [Hs2 [Hm2 Hl2]]].
        split; [auto|]. split; [eapply same_rest_trans; eauto|]. split; [intros k Hk; auto|].
        intros k b' [Hk|Hk] Hb' Hd'; [subst k; auto | eapply Hl2; eauto].
      * destruct (IH st HI) as [HI2 [Hs2 [Hm2 Hl2]]].
        split; [auto|]. split; [auto|]. split; [auto|].
        intros k b' [Hk|Hk] Hb' Hd'; [subst k; congruence | eapply Hl2; eauto].
    + destruct (IH st HI) as [HI2 [Hs2 [Hm2 Hl2]]].
      split; [auto|]. split; [auto|]. split; [auto|].
      intros k b' [Hk|Hk] Hb' Hd'; [subst k; congruence | eapply Hl2; eauto].
Qed.

Definition Done (md : mode) (t : table) (st : sstate) (j : nat) : Prop :=
  forall c, nth_error t j = Some c -> s_member st j c = gm_init_member md t j c /\ s_labelled st j c = g_label t c.

Lemma gm_init_member_nohw : forall md t j c, c_hw c = None ->
  gm_init_member md t j c = if decorated c && negb (init_false c) then Synth (gm_params md t (own_static t) j c) else Absent.
Proof.
  intros md t j c H. unfold gm_init_member. rewrite H. destruct (decorated c); simpl; auto. destruct (init_false c); auto.
Qed.

(* the class branch of _apply_recursively keeps the invariant and leaves the stateless result on the class *)
Lemma process_spec : forall md t st j, Inv md t st ->
  Inv md t (process md t st j) /\ Done md t (process md t st j) j /\ (forall k, Done md t st k -> Done md t (process md t st j) k) /\
  s_processed (process md t st j) = s_processed st.
Proof.
  intros md t st j HI. unfold process. destruct (nth_error t j) as [c|] eqn:Hj.
  2:{ split; [auto|]. split; [intros c Hc; congruence|]. split; auto. }
  set (lab := existsb decorated (mro_classes t c)).
  set (sa := if lab then mkst (s_cache st) (s_pruned st) (s_init st) (j :: s_label st) (s_processed st) else st).
  assert (HIa : Inv md t sa).
  { unfold sa. destruct lab eqn:El; auto. constructor; proj.
    - apply (inv_cache md t st HI). - apply (inv_pruned md t st HI). - apply (inv_init md t st HI).
    - intros k. rewrite memb_cons. destruct (Nat.eqb k j) eqn:E.
      + apply Nat.eqb_eq in E. subst k. intros _. eauto.
      + simpl. apply (inv_label md t st HI). }
  assert (Hsa : s_cache sa = s_cache st /\ s_pruned sa = s_pruned st /\ s_init sa = s_init st /\ s_processed sa = s_processed st).
  { unfold sa. destruct lab; simpl; auto. }
  destruct Hsa as [Hc0 [Hp0 [Hi0 Hpr0]]].
  assert (Hlab_j : memb j (s_label sa) = lab).
  { unfold sa. destruct lab eqn:El; simpl.
    - rewrite Nat.eqb_refl. reflexivity.
    - destruct (memb j (s_label st)) eqn:Em; auto.
      destruct (inv_label md t st HI j Em) as [c' [Hc' Hx]]. rewrite Hj in Hc'. inversion Hc'; subst c'. fold lab in Hx. congruence. }
  assert (Hlab_k : forall k, k <> j -> memb k (s_label sa) = memb k (s_label st)).
  { intros k Hk. unfold sa. destruct lab; simpl; auto. apply Nat.eqb_neq in Hk. rewrite Hk. reflexivity. }
  destruct (has_init sa j c) eqn:Hh.
  - (* an __init__ is already there: only the label *)
    assert (HDj : Done md t sa j).
    { intros c' Hc'. rewrite Hj in Hc'. inversion Hc'; subst c'. split.
      - unfold s_member, has_init in *. destruct (c_hw c) eqn:Ehw.
        + unfold gm_init_member. rewrite Ehw. reflexivity.
        + destruct (lookup j (s_init sa)) as [m|] eqn:El; [|discriminate].
          destruct (inv_init md t sa HIa j m El) as [c' [Hc'' [_ Hm]]]. rewrite Hj in Hc''. inversion Hc''; subst c'. auto.
      - unfold s_labelled, g_label. rewrite Hlab_j. reflexivity. }
    split; [exact HIa|]. split; [exact HDj|]. split; [|exact Hpr0].
    intros k HD. destruct (Nat.eq_dec k j) as [->|Hk]; auto.
    intros c' Hc'. destruct (HD c' Hc') as [H1 H2]. unfold s_member, s_labelled in *. rewrite Hi0, (Hlab_k k Hk). auto.
  - (* synthesise *)
    assert (Hhw : c_hw c = None /\ lookup j (s_init sa) = None).
    { unfold has_init in Hh. destruct (c_hw c); [discriminate|]. destruct (lookup j (s_init sa)); [discriminate|auto]. }
    destruct Hhw as [Hhw Hnone].
    destruct (warm_ok md t (rev (c_mro c) ++ [j]) sa HIa) as [HI1 [Hs1 [Hm1 Hl1]]].
    set (s1 := warm t sa (rev (c_mro c) ++ [j])) in *.
    destruct Hs1 as [Sp [Si [Sl Spr]]].
    assert (Hps : gm_params md t (own_of t s1) j c = gm_params md t (own_static t) j c).
    { apply gm_params_ext. apply (own_of_static md t s1 HI1). }
    rewrite Hps.
    set (syn := decorated c && negb (init_false c)).
    set (s2 := if syn then mkst (s_cache s1) (s_pruned s1) ((j, Synth (gm_params md t (own_static t) j c)) :: s_init s1) (s_label s1) (s_processed s1) else s1).
    assert (H2c : s_cache s2 = s_cache s1 /\ s_pruned s2 = s_pruned s1 /\ s_label s2 = s_label s1 /\ s_processed s2 = s_processed s1).
    { unfold s2. destruct syn; simpl; auto. }
    destruct H2c as [C2 [P2 [L2 PR2]]].
    assert (Hinit2 : forall k, lookup k (s_init s2) = if Nat.eqb k j then (if syn then Some (Synth (gm_params md t (own_static t) j c)) else None) else lookup k (s_init st)).
    { intros k. unfold s2. destruct syn; proj.
      - rewrite lookup_cons. destruct (Nat.eqb k j); auto. rewrite Si, Hi0. reflexivity.
      - rewrite Si. destruct (Nat.eqb k j) eqn:E; [|rewrite Hi0; reflexivity]. apply Nat.eqb_eq in E. subst k. exact Hnone. }
    assert (HDj : forall c', nth_error t j = Some c' ->
              s_member (mkst (s_cache s2) (j :: s_pruned s2) (s_init s2) (s_label s2) (s_processed s2)) j c' = gm_init_member md t j c' /\
              s_labelled (mkst (s_cache s2) (j :: s_pruned s2) (s_init s2) (s_label s2) (s_processed s2)) j c' = g_label t c').
    { intros c' Hc'. rewrite Hj in Hc'. inversion Hc'; subst c'. split.
      - unfold s_member; proj. rewrite Hhw, Hinit2, Nat.eqb_refl, (gm_init_member_nohw md t j c Hhw). fold syn. destruct syn; reflexivity.
      - unfold s_labelled, g_label; proj. rewrite L2, Sl, Hlab_j. reflexivity. }
    split; [|split; [|split]].
    + (* invariant *)
      constructor; proj.
      * rewrite C2. apply (inv_cache md t s1 HI1).
      * intros k b. rewrite C2, P2, memb_cons. destruct (Nat.eqb k j) eqn:E; simpl.
        -- apply Nat.eqb_eq in E. subst k. intros _ Hb Hd. apply (Hl1 j b); auto. apply in_or_app. right. left. auto.
        -- apply (inv_pruned md t s1 HI1).
      * intros k m. rewrite Hinit2. destruct (Nat.eqb k j) eqn:E.
        -- apply Nat.eqb_eq in E. subst k. destruct syn eqn:Es; [|discriminate]. intros H. inversion H.
           exists c. repeat split; auto. rewrite (gm_init_member_nohw md t j c Hhw). fold syn. rewrite Es. reflexivity.
        -- apply (inv_init md t st HI).
      * rewrite L2, Sl. apply (inv_label md t sa HIa).
    + exact HDj.
    + intros k HD. destruct (Nat.eq_dec k j) as [->|Hk]; [exact HDj|].
      intros c' Hc'. destruct (HD c' Hc') as [H1 H2]. apply Nat.eqb_neq in Hk. split.
      * unfold s_member in *; proj. rewrite Hinit2, Hk. auto.
      * unfold s_labelled in *; proj. rewrite L2, Sl, Hlab_k; auto. apply Nat.eqb_neq. auto.
    + proj. rewrite PR2, Spr. auto.
Qed.

(* ... so does a whole walk; with pairwise distinct unseen canonical paths nothing is skipped *)
Lemma Inv_processed : forall md t st p, Inv md t st -> Inv md t (mkst (s_cache st) (s_pruned st) (s_init st) (s_label st) p).
Proof. intros md t st p [A B C D]. constructor; simpl; auto. Qed.
Lemma Done_processed : forall md t st p k, Done md t st k -> Done md t (mkst (s_cache st) (s_pruned st) (s_init st) (s_label st) p) k.
Proof. intros md t st p k H c Hc. destruct (H c Hc). split; auto. Qed.

Lemma memb_false_notin : forall k l, memb k l = false <-> ~ In k l.
Proof.
  intros k l. unfold memb. split.
  - intros H Hin. assert (existsb (Nat.eqb k) l = true) by (apply existsb_exists; exists k; split; auto; apply Nat.eqb_refl). congruence.
  - intros H. destruct (existsb (Nat.eqb k) l) eqn:E; auto. apply existsb_exists in E. destruct E as [x [Hx Hk]].
    apply Nat.eqb_eq in Hk. subst x. contradiction.
Qed.

Lemma walk_spec : forall md t paths ev st, Inv md t st ->
  NoDup (map (fun j => nth j paths 0) ev) -> (forall j, In j ev -> ~ In (nth j paths 0) (s_processed st)) ->
  Inv md t (walk md t paths st ev) /\ (forall k, Done md t st k -> Done md t (walk md t paths st ev) k) /\
  (forall j, In j ev -> Done md t (walk md t paths st ev) j).
Proof.
  intros md t paths. induction ev as [|j r IH]; intros st HI Hnd Hfresh; simpl.
  - split; [auto|]. split; [auto|]. intros j [].
  - assert (Hm : memb (nth j paths 0) (s_processed st) = false) by (apply memb_false_notin; apply Hfresh; left; auto).
    rewrite Hm. destruct (process_spec md t st j HI) as [HI1 [HDj [Hkeep Hpr]]].
    set (s1 := process md t st j) in *.
    set (s1' := mkst (s_cache s1) (s_pruned s1) (s_init s1) (s_label s1) (nth j paths 0 :: s_processed s1)).
    simpl in Hnd. apply NoDup_cons_iff in Hnd. destruct Hnd as [Hnotin Hnd].
    destruct (IH s1' (Inv_processed md t s1 _ HI1) Hnd) as [HI2 [Hkeep2 Hdone2]].
    { intros k Hk. unfold s1'. simpl. intros [H|H].
      - apply Hnotin. rewrite H. apply (in_map (fun j0 => nth j0 paths 0)). auto.
      - rewrite Hpr in H. apply (Hfresh k); auto. right. auto. }
    split; [exact HI2|]. split.
    + intros k HD. apply Hkeep2. apply Done_processed. auto.
    + intros k [Hk|Hk].
      * subst k. apply Hkeep2. apply Done_processed. auto.
      * apply Hdone2. auto.
Qed.

Lemma event_spec : forall md t paths ev st, Inv md t st -> NoDup (map (fun j => nth j paths 0) ev) ->
  Inv md t (event md false false t paths st ev) /\ (forall k, Done md t st k -> Done md t (event md false false t paths st ev) k) /\
  (forall j, In j ev -> Done md t (event md false false t paths st ev) j).
Proof.
  intros md t paths ev st HI Hnd. unfold event.
  destruct (walk_spec md t paths ev (mkst (s_cache st) (s_pruned st) (s_init st) (s_label st) []) (Inv_processed md t st [] HI) Hnd) as [H1 [H2 H3]].
  { intros j _ []. }
  split; [exact H1|]. split; [|exact H3]. intros k HD. apply H2. apply Done_processed. auto.
Qed.

Lemma session_from : forall md t paths evs st, Inv md t st ->
  (forall ev, In ev evs -> NoDup (map (fun j => nth j paths 0) ev)) ->
  let fin := fold_left (event md false false t paths) evs st in
  Inv md t fin /\ (forall k, Done md t st k -> Done md t fin k) /\ (forall ev j, In ev evs -> In j ev -> Done md t fin j).
Proof.
  intros md t paths. induction evs as [|ev r IH]; intros st HI Hnd; simpl.
  - split; [auto|]. split; [auto|]. intros ev j [].
  - destruct (event_spec md t paths ev st HI (Hnd ev (or_introl eq_refl))) as [HI1 [Hk1 Hd1]].
    destruct (IH _ HI1 (fun ev' H => Hnd ev' (or_intror H))) as [HI2 [Hk2 Hd2]].
    split; [exact HI2|]. split; [intros k HD; apply Hk2; apply Hk1; exact HD|].
    intros ev' j [He|He] Hj; [subst ev'; apply Hk2; apply Hd1; auto | eapply Hd2; eauto].
Qed.

(* THE THEOREM: whatever was loaded before through the same extension object, in whatever walk order, every class an event
   has walked over carries exactly the stateless result (gm_init_member / g_label). *)
Theorem session_transparent : forall md t paths evs,
  (forall ev, In ev evs -> NoDup (map (fun j => nth j paths 0) ev)) ->
  forall ev j c, In ev evs -> In j ev -> nth_error t j = Some c ->
  s_member (session md t paths evs) j c = gm_init_member md t j c /\ s_labelled (session md t paths evs) j c = g_label t c.
Proof.
  intros md t paths evs Hnd ev j c Hev Hj Hc.
  destruct (session_from md t paths evs st0 (Inv_st0 md t) Hnd) as [_ [_ H]]. apply (H ev j Hev Hj c Hc).
Qed.

(* and hence equals CPython's, modulo the known gaps of the shape *)
Theorem session_eq_cpython_modulo_known : forall md t e paths evs,
  py_eval_table t = Some e -> mode_ok md t = true ->
  (forall ev, In ev evs -> NoDup (map (fun j => nth j paths 0) ev)) ->
  forall ev j c, In ev evs -> In j ev -> nth_error t j = Some c ->
  decorated c = true -> c_hw c = None -> known_gap_m md t e j c = false ->
  s_member (session md t paths evs) j c = py_init_member e j c.
Proof.
  intros md t e paths evs Hpy Hok Hnd ev j c Hev Hj Hc Hd Hh Hg.
  destruct (session_transparent md t paths evs Hnd ev j c Hev Hj Hc) as [-> _].
  apply init_eq_cpython_by_mode; auto.
Qed.

(* ---- sensitivity: the two plausible variants of the machine break the statement (so the flags matter) ---- *)
(* a package with a dataclass that has an InitVar pseudo-field, then a package deriving from it *)
Definition two_pkgs : table := [ mkcls D0 [P0 0; SAttr 1 AInitVar VPlain] None []; mkcls D0 [P1 2] None [0] ].
Example session_two_pkgs : forall md,
  s_member (session md two_pkgs [0; 1] [[0]; [1]]) 1 (cls_at two_pkgs 1) = Synth [mkp 0 PK false; mkp 1 PK true; mkp 2 PK true].
Proof. intros md; destruct md; vm_compute; reflexivity. Qed.
Example cache_is_load_bearing : forall md,
  s_member (session_gen md true false two_pkgs [0; 1] [[0]; [1]]) 1 (cls_at two_pkgs 1) = Synth [mkp 0 PK false; mkp 2 PK true].
Proof. intros md; destruct md; vm_compute; reflexivity. Qed.
(* the subclass walked BEFORE its base (another module of the same package): still right, the base is computed from unpruned members *)
Example child_first : forall md,
  s_member (session md two_pkgs [0; 1] [[1; 0]]) 1 (cls_at two_pkgs 1) = Synth [mkp 0 PK false; mkp 1 PK true; mkp 2 PK true] /\
  s_member (session md two_pkgs [0; 1] [[1; 0]]) 0 (cls_at two_pkgs 0) = Synth [mkp 0 PK false; mkp 1 PK true].
Proof. intros md; destruct md; vm_compute; split; reflexivity. Qed.
(* two versions of one package: distinct class objects 0 and 1, same canonical path 7 *)
Definition two_versions : table := [ mkcls D0 [P0 0] None []; mkcls D0 [P0 0; P1 1] None [] ].
Example processed_must_be_per_event : forall md,
  s_member (session md two_versions [7; 7] [[0]; [1]]) 1 (cls_at two_versions 1) = Synth [mkp 0 PK false; mkp 1 PK true] /\
  s_member (session_gen md false true two_versions [7; 7] [[0]; [1]]) 1 (cls_at two_versions 1) = Absent.
Proof. intros md; destruct md; vm_compute; split; reflexivity. Qed.
