(* C19 proofs: lemmas about Model/C19_merge.v.  Property statements are collected in Properties/C19.v. *)
From Coq Require Import List ZArith String Bool Arith Lia.
From Verif Require Import Lib.Sexp Model.C19_merge.
Import ListNotations.
Open Scope string_scope. Open Scope list_scope. Open Scope nat_scope.

(* ------------------------------------------------------------------ association lists *)
Lemma eqb_neq' : forall a b : string, a <> b -> String.eqb a b = false.
Proof. intros; apply String.eqb_neq; assumption. Qed.

Lemma lookup_assign_same : forall A n (v : A) l, lookup n (assign n v l) = Some v.
Proof.
  induction l as [|[k w] r IH]; simpl.
  - now rewrite String.eqb_refl.
  - destruct (String.eqb k n) eqn:E; simpl; rewrite E; auto.
Qed.

Lemma lookup_assign_other : forall A n m (v : A) l, n <> m -> lookup m (assign n v l) = lookup m l.
Proof.
  induction l as [|[k w] r IH]; simpl; intros H.
  - now rewrite eqb_neq'.
  - destruct (String.eqb k n) eqn:E; simpl.
    + apply String.eqb_eq in E; subst. now rewrite eqb_neq'.
    + destruct (String.eqb k m); auto.
Qed.

Lemma names_assign_present : forall A n (v w : A) l, lookup n l = Some w -> names (assign n v l) = names l.
Proof.
  induction l as [|[k x] r IH]; simpl; intros H; [discriminate|].
  destruct (String.eqb k n) eqn:E; simpl; auto.
  unfold names in *; simpl; f_equal; auto.
Qed.

Lemma lookup_app_l : forall A n (x : A) l l', lookup n l = Some x -> lookup n (l ++ l') = Some x.
Proof.
  induction l as [|[k w] r IH]; simpl; intros; [discriminate|].
  destruct (String.eqb k n); auto.
Qed.

Lemma lookup_app_r : forall A n (l l' : list (string * A)), lookup n l = None -> lookup n (l ++ l') = lookup n l'.
Proof.
  induction l as [|[k w] r IH]; simpl; intros; auto.
  destruct (String.eqb k n); [discriminate|auto].
Qed.

Lemma lookup_none_notin : forall A n (l : list (string * A)), lookup n l = None <-> ~ In n (names l).
Proof.
  induction l as [|[k w] r IH]; simpl; [tauto|].
  destruct (String.eqb k n) eqn:E.
  - apply String.eqb_eq in E; subst. split; [discriminate|]. intros H; exfalso; apply H; now left.
  - apply String.eqb_neq in E. rewrite IH. split; [intros H [H1|H1]; auto | intros H H1; apply H; now right].
Qed.

Lemma lookup_in : forall A n (v : A) l, lookup n l = Some v -> In (n, v) l.
Proof.
  induction l as [|[k w] r IH]; simpl; intros; [discriminate|].
  destruct (String.eqb k n) eqn:E.
  - apply String.eqb_eq in E; inversion H; subst; now left.
  - right; auto.
Qed.

Lemma in_lookup_nodup : forall A n (v : A) l, NoDup (names l) -> In (n, v) l -> lookup n l = Some v.
Proof.
  induction l as [|[k w] r IH]; simpl; intros ND H; [contradiction|].
  inversion ND; subst.
  destruct H as [H|H].
  - inversion H; subst. now rewrite String.eqb_refl.
  - destruct (String.eqb k n) eqn:E.
    + apply String.eqb_eq in E; subst. exfalso. apply H2. change (In (fst (n, v)) (map fst r)). now apply in_map.
    + auto.
Qed.

(* ------------------------------------------------------------------ induction on trees *)
Fixpoint tree_ind' (P : tree -> Prop)
  (HA : forall tg rt, P (Al tg rt))
  (HT : forall tg rt x, P x -> P (AlTo tg rt x))
  (HO : forall d ms, Forall (fun p => P (snd p)) ms -> P (Obj d ms)) (t : tree) : P t :=
  match t with
  | Al tg rt => HA tg rt
  | AlTo tg rt x => HT tg rt x (tree_ind' P HA HT HO x)
  | Obj d ms => HO d ms ((fix go (l : list (string * tree)) : Forall (fun p => P (snd p)) l :=
                           match l with
                           | [] => Forall_nil _
                           | p :: r => Forall_cons p (tree_ind' P HA HT HO (snd p)) (go r)
                           end) ms)
  end.

Definition out_tree (r : outcome) : tree := match r with Done t => t | Raised _ p => p end.
Lemma merge_obj_eq : forall sd sms od oms,
  merge_obj (Obj sd sms) (Obj od oms) =
  let od1 := with_doc od (merge_doc (ndoc od) (ndoc sd)) in
  match buffer_items (nov sd) with
  | Err e => Raised e (Obj od1 oms)
  | Ok buf =>
      let oms1 := apply_buffer buf oms in
      let od2 := with_imp od1 (update_imports (nimp od) (nimp sd)) in
      match merge_members merge_obj sms oms1 with
      | (oms2, Some e) => Raised e (Obj od2 oms2)
      | (oms2, None) => Done (Obj od2 oms2)
      end
  end.
Proof. reflexivity. Qed.

Lemma final_retarget_obj : forall m d ms, final (retarget m (Obj d ms)) = Obj d ms.
Proof. induction m; simpl; auto. Qed.

Lemma final_not_alto : forall t, is_alto (final t) = false.
Proof. induction t; simpl; auto. Qed.

Lemma retarget_final : forall t, retarget t (final t) = t.
Proof. induction t; simpl; auto. now rewrite IHt. Qed.

(* ------------------------------------------------------------------ paths, shapes, preservation *)
Inductive shape := SAlias | SKind (k : kind) | SAliasTo (s : shape).
Fixpoint shape_of (t : tree) : shape :=
  match t with Al _ _ => SAlias | Obj d _ => SKind (nkind d) | AlTo _ _ x => SAliasTo (shape_of x) end.
(* Alias.members are the final target's members *)
Fixpoint members (t : tree) : list (string * tree) :=
  match t with Obj _ ms => ms | Al _ _ => [] | AlTo _ _ x => members x end.
(* what an alias is as an alias: target path and runtime flag *)
Definition alias_id (t : tree) : option (string * bool) :=
  match t with Al tg rt => Some (tg, rt) | AlTo tg rt _ => Some (tg, rt) | Obj _ _ => None end.

Fixpoint at_path (p : list string) (t : tree) : option tree :=
  match p with
  | [] => Some t
  | n :: r => match lookup n (members t) with Some m => at_path r m | None => None end
  end.

(* b keeps everything a has: every path of a leads in b to an object of the same kind, or to an alias with the
   same target path and runtime flag (pointing to an object of the same kind when the target is loaded) *)
Definition pres (a b : tree) : Prop :=
  forall p x, at_path p a = Some x ->
  exists y, at_path p b = Some y /\ shape_of y = shape_of x /\ alias_id y = alias_id x.

Definition mpres (ms ms' : list (string * tree)) : Prop :=
  forall n m, lookup n ms = Some m -> exists m', lookup n ms' = Some m' /\ pres m m'.

Lemma pres_refl : forall a, pres a a.
Proof. intros a p x H; exists x; auto. Qed.

Lemma pres_trans : forall a b c, pres a b -> pres b c -> pres a c.
Proof.
  intros a b c H1 H2 p x H.
  destruct (H1 p x H) as (y & Hy & Sy & Ay).
  destruct (H2 p y Hy) as (z & Hz & Sz & Az).
  exists z; split; auto; split; congruence.
Qed.

Lemma mpres_refl : forall ms, mpres ms ms.
Proof. intros ms n m H; exists m; split; auto using pres_refl. Qed.

Lemma mpres_trans : forall a b c, mpres a b -> mpres b c -> mpres a c.
Proof.
  intros a b c H1 H2 n m H.
  destruct (H1 n m H) as (m' & L' & P').
  destruct (H2 n m' L') as (m'' & L'' & P'').
  exists m''; split; eauto using pres_trans.
Qed.

Lemma pres_obj : forall d d' ms ms', nkind d = nkind d' -> mpres ms ms' -> pres (Obj d ms) (Obj d' ms').
Proof.
  intros d d' ms ms' K M p x H.
  destruct p as [|n r]; simpl in *.
  - inversion H; subst. eexists; split; [reflexivity|]. simpl. split; [now rewrite K|reflexivity].
  - destruct (lookup n ms) as [m|] eqn:L; [|discriminate].
    destruct (M n m L) as (m' & L' & P'). rewrite L'. apply P'; auto.
Qed.

Lemma pres_alto : forall tg rt x x', pres x x' -> pres (AlTo tg rt x) (AlTo tg rt x').
Proof.
  intros tg rt x x' P p y H. destruct p as [|n r].
  - simpl in H. inversion H; subst. eexists; split; [reflexivity|]. simpl. split; auto.
    destruct (P [] x eq_refl) as (y & Hy & Sy & _). simpl in Hy. inversion Hy; subst. now rewrite Sy.
  - apply (P (n :: r) y). exact H.
Qed.

Lemma pres_retarget : forall om x', pres (final om) x' -> pres om (retarget om x').
Proof.
  induction om as [d ms|tg rt|tg rt x IH]; simpl; intros x' P; auto.
  apply pres_alto. auto.
Qed.

Lemma mpres_assign : forall n m m' ms, lookup n ms = Some m -> pres m m' -> mpres ms (assign n m' ms).
Proof.
  intros n m m' ms L P k x H.
  destruct (string_dec n k) as [->|NE].
  - rewrite lookup_assign_same. rewrite L in H; inversion H; subst. eauto.
  - rewrite lookup_assign_other by auto. exists x; split; auto using pres_refl.
Qed.

Lemma mpres_app : forall ms l, mpres ms (ms ++ l).
Proof. intros ms l n m H. exists m; split; auto using pres_refl, lookup_app_l. Qed.

Lemma pres_with_data : forall d d' ms, nkind d = nkind d' -> pres (Obj d ms) (Obj d' ms).
Proof. intros; apply pres_obj; auto using mpres_refl. Qed.
Lemma set_ov_pres : forall m ovs, pres m (set_ov m ovs).
Proof.
  intros m ovs. unfold set_ov. destruct (final m) as [d mm|tg rt|tg rt y] eqn:F; try apply pres_refl.
  destruct (kind_eqb (nkind d) KFun); [|apply pres_refl].
  apply pres_retarget. rewrite F. apply pres_with_data; reflexivity.
Qed.

Lemma apply_buffer_mpres : forall buf ms, mpres ms (apply_buffer buf ms).
Proof.
  induction buf as [|[fn ovs] r IH]; simpl; intros ms; [apply mpres_refl|].
  destruct ovs as [|x l]; auto.
  destruct (lookup fn ms) as [m|] eqn:L; auto.
  eapply mpres_trans; [|apply IH]. eapply mpres_assign; eauto. apply set_ov_pres.
Qed.

Lemma merge_fun_kind : forall o s, nkind (merge_fun o s) = nkind o.
Proof. intros; unfold merge_fun. destruct (truthy (nov s)); reflexivity. Qed.

Lemma merge_members_mpres : forall rec sl,
  Forall (fun p => forall om, pres om (out_tree (rec (snd p) om))) sl ->
  forall acc, mpres acc (fst (merge_members rec sl acc)).
Proof.
  intros rec sl F; induction F as [|[n sm] r H F IH]; simpl; intros acc; [apply mpres_refl|].
  destruct (lookup n acc) as [om|] eqn:L.
  - destruct sm as [smd smms|tg rt|tg rt x]; auto.
    destruct (final om) as [omd omms|tg rt|tg rt x] eqn:FO; auto.
    destruct (kind_eqb (nkind omd) (nkind smd)); auto.
    assert (STEP : forall t', pres (Obj omd omms) t' -> mpres acc (assign n (retarget om t') acc)).
    { intros t' P. eapply mpres_assign; eauto. apply pres_retarget. now rewrite FO. }
    destruct (nkind omd) eqn:K.
    + specialize (H (Obj omd omms)). simpl in H.
      destruct (rec (Obj smd smms) (Obj omd omms)) as [t|e p]; simpl in H.
      * eapply mpres_trans; [|apply IH]. auto.
      * destruct e; simpl; auto. eapply mpres_trans; [|apply IH]. auto.
    + specialize (H (Obj omd omms)). simpl in H.
      destruct (rec (Obj smd smms) (Obj omd omms)) as [t|e p]; simpl in H.
      * eapply mpres_trans; [|apply IH]. auto.
      * destruct e; simpl; auto. eapply mpres_trans; [|apply IH]. auto.
    + eapply mpres_trans; [|apply IH]. apply STEP. apply pres_with_data. now rewrite merge_fun_kind.
    + eapply mpres_trans; [|apply IH]. apply STEP. apply pres_with_data. reflexivity.
  - eapply mpres_trans; [apply mpres_app|apply IH].
Qed.

(* Whatever the stubs are, whether the merge completes or raises: nothing of the runtime tree is lost. *)
Lemma merge_obj_pres : forall s o, pres o (out_tree (merge_obj s o)).
Proof.
  induction s as [tg rt|tg rt x _|sd sms IH] using tree_ind'; intros o.
  - simpl. apply pres_refl.
  - simpl. apply pres_refl.
  - destruct o as [od oms|tg rt|tg rt x]; [|simpl; apply pres_refl|simpl; apply pres_refl].
    rewrite merge_obj_eq. cbv zeta.
    destruct (buffer_items (nov sd)) as [buf|e]; simpl.
    + pose proof (apply_buffer_mpres buf oms) as HB.
      pose proof (merge_members_mpres merge_obj sms IH (apply_buffer buf oms)) as HM.
      destruct (merge_members merge_obj sms (apply_buffer buf oms)) as [oms2 [e|]]; simpl in *;
        apply pres_obj; auto; eapply mpres_trans; eauto.
    + apply pres_obj; auto using mpres_refl.
Qed.

Lemma keeps_runtime_members : forall s o r p x,
  merge_obj s o = Done r -> at_path p o = Some x ->
  exists y, at_path p r = Some y /\ shape_of y = shape_of x /\ alias_id y = alias_id x.
Proof.
  intros s o r p x H HP. pose proof (merge_obj_pres s o) as P. rewrite H in P. simpl in P.
  apply (P p x HP).
Qed.

Lemma keeps_runtime_members_even_when_raising : forall s o e part p x,
  merge_obj s o = Raised e part -> at_path p o = Some x ->
  exists y, at_path p part = Some y /\ shape_of y = shape_of x /\ alias_id y = alias_id x.
Proof.
  intros s o e part p x H HP. pose proof (merge_obj_pres s o) as P. rewrite H in P. simpl in P.
  apply (P p x HP).
Qed.

Lemma never_touches_aliases : forall s o r p tg rt,
  out_tree (merge_obj s o) = r -> at_path p o = Some (Al tg rt) -> at_path p r = Some (Al tg rt).
Proof.
  intros s o r p tg rt H HP. pose proof (merge_obj_pres s o) as P. rewrite H in P.
  destruct (P p _ HP) as (y & Hy & S & A). rewrite Hy. f_equal.
  destruct y; simpl in *; try discriminate. now inversion A.
Qed.

(* ------------------------------------------------------------------ the buffer pass, by lookup *)
Definition hit1 (buf : list (string * list string)) (n : string) : option (list string) :=
  match lookup n buf with Some (x :: l) => Some (x :: l) | _ => None end.

(* what _merge_stubs_overloads makes of the member called n: only a function (possibly behind an alias) changes *)
Definition buffered (buf : list (string * list string)) (n : string) (m : tree) : tree :=
  match hit1 buf n with Some ovs => set_ov m ovs | None => m end.

Lemma hit1_cons_other : forall fn ovs r n, fn <> n -> hit1 ((fn, ovs) :: r) n = hit1 r n.
Proof. intros; unfold hit1; simpl. now rewrite eqb_neq'. Qed.

Lemma hit1_notin : forall r n, ~ In n (names r) -> hit1 r n = None.
Proof. intros r n H. unfold hit1. apply lookup_none_notin in H. now rewrite H. Qed.

Lemma buffered_none : forall buf n m, hit1 buf n = None -> buffered buf n m = m.
Proof. intros. unfold buffered. now rewrite H. Qed.

Lemma apply_buffer_lookup : forall buf ms,
  NoDup (names buf) ->
  forall n, lookup n (apply_buffer buf ms) = option_map (buffered buf n) (lookup n ms).
Proof.
  induction buf as [|[fn ovs] r IH]; simpl; intros ms ND n.
  - destruct (lookup n ms); reflexivity.
  - inversion ND as [|? ? NI ND']; subst.
    assert (HR : hit1 r fn = None) by (apply hit1_notin; exact NI).
    destruct ovs as [|x l].
    + rewrite (IH _ ND' n). destruct (lookup n ms) as [m|]; simpl; auto. f_equal.
      unfold buffered. destruct (string_dec fn n) as [->|NE].
      * rewrite HR. unfold hit1; simpl. now rewrite String.eqb_refl.
      * now rewrite hit1_cons_other.
    + destruct (lookup fn ms) as [m|] eqn:L.
      * rewrite (IH _ ND' n).
        destruct (string_dec fn n) as [->|NE].
        -- rewrite lookup_assign_same, L. simpl. f_equal. rewrite (buffered_none r n _ HR).
           unfold buffered, hit1; simpl. now rewrite String.eqb_refl.
        -- rewrite lookup_assign_other by auto. destruct (lookup n ms); simpl; auto. f_equal.
           unfold buffered. now rewrite hit1_cons_other.
      * rewrite (IH _ ND' n).
        destruct (string_dec fn n) as [->|NE].
        -- now rewrite L.
        -- destruct (lookup n ms); simpl; auto. f_equal. unfold buffered. now rewrite hit1_cons_other.
Qed.

Lemma apply_buffer_names : forall buf ms, names (apply_buffer buf ms) = names ms.
Proof.
  induction buf as [|[fn ovs] r IH]; simpl; intros ms; auto.
  destruct ovs; auto. destruct (lookup fn ms) as [m|] eqn:L; auto.
  rewrite IH. eapply names_assign_present; eauto.
Qed.

(* a member that is not a function (nor an alias to one) is not changed by the buffer pass *)
Lemma set_ov_nonfun : forall d ms ovs, nkind d <> KFun -> set_ov (Obj d ms) ovs = Obj d ms.
Proof. intros d ms ovs N. unfold set_ov. simpl. destruct (nkind d); auto; congruence. Qed.

Lemma set_ov_dead_alias : forall tg rt ovs, set_ov (Al tg rt) ovs = Al tg rt.
Proof. reflexivity. Qed.

Lemma buffered_nonfun : forall buf n d ms, nkind d <> KFun -> buffered buf n (Obj d ms) = Obj d ms.
Proof. intros. unfold buffered. destruct (hit1 buf n); auto using set_ov_nonfun. Qed.

(* ------------------------------------------------------------------ the members pass, by lookup *)
Definition member_result (rec : tree -> tree -> outcome) (sm om : tree) : tree :=
  match sm with
  | Obj smd _ =>
      match final om with
      | Obj omd omms =>
          if kind_eqb (nkind omd) (nkind smd) then
            match nkind omd with
            | KFun => retarget om (Obj (merge_fun omd smd) omms)
            | KAttr => retarget om (Obj (merge_attr omd smd) omms)
            | _ => retarget om (out_tree (rec sm (Obj omd omms)))
            end
          else om
      | _ => om
      end
  | _ => om
  end.

Definition one (rec : tree -> tree -> outcome) (sm : tree) (before : option tree) : option tree :=
  match before with
  | None => Some (set_rt false sm)
  | Some om => Some (member_result rec sm om)
  end.

(* the field table of one scope: what is under the name n afterwards, given what was there before *)
Definition table (rec : tree -> tree -> outcome) (sl : list (string * tree)) (n : string)
                 (before : option tree) : option tree :=
  match lookup n sl with None => before | Some sm => one rec sm before end.

Lemma lookup_snoc_other : forall A n k (v : A) l, k <> n -> lookup n (l ++ [(k, v)]) = lookup n l.
Proof.
  intros. destruct (lookup n l) eqn:L.
  - eapply lookup_app_l; eauto.
  - rewrite lookup_app_r by auto. simpl. now rewrite eqb_neq'.
Qed.

Lemma merge_members_cons : forall rec k sm r acc acc',
  merge_members rec ((k, sm) :: r) acc = (acc', None) ->
  exists acc1, merge_members rec r acc1 = (acc', None) /\
    lookup k acc1 = one rec sm (lookup k acc) /\
    (forall n, k <> n -> lookup n acc1 = lookup n acc) /\
    names acc1 = match lookup k acc with Some _ => names acc | None => names acc ++ [k] end.
Proof.
  intros rec k sm r acc acc' H. simpl in H. unfold one.
  destruct (lookup k acc) as [om|] eqn:L.
  - assert (ASG : forall v, merge_members rec r (assign k v acc) = (acc', None) ->
              member_result rec sm om = v ->
              exists acc1, merge_members rec r acc1 = (acc', None) /\ lookup k acc1 = Some (member_result rec sm om) /\
                (forall n, k <> n -> lookup n acc1 = lookup n acc) /\ names acc1 = names acc).
    { intros v Hv E. exists (assign k v acc). split; auto. split; [rewrite lookup_assign_same; now f_equal|].
      split; [intros; now apply lookup_assign_other|]. eapply names_assign_present; eauto. }
    assert (SAME : merge_members rec r acc = (acc', None) -> member_result rec sm om = om ->
              exists acc1, merge_members rec r acc1 = (acc', None) /\ lookup k acc1 = Some (member_result rec sm om) /\
                (forall n, k <> n -> lookup n acc1 = lookup n acc) /\ names acc1 = names acc).
    { intros Hv E. exists acc. rewrite E. auto. }
    destruct sm as [smd smms|tg rt|tg rt y]; [|apply SAME; auto|apply SAME; auto].
    simpl. simpl in ASG, SAME.
    destruct (final om) as [omd omms|tg rt|tg rt y]; [|apply SAME; auto|apply SAME; auto].
    destruct (kind_eqb (nkind omd) (nkind smd)); [|apply SAME; auto].
    destruct (nkind omd).
    + destruct (rec (Obj smd smms) (Obj omd omms)) as [t|e p].
      * apply (ASG _ H); auto.
      * destruct e; try discriminate. apply (ASG _ H); auto.
    + destruct (rec (Obj smd smms) (Obj omd omms)) as [t|e p].
      * apply (ASG _ H); auto.
      * destruct e; try discriminate. apply (ASG _ H); auto.
    + apply (ASG _ H); auto.
    + apply (ASG _ H); auto.
  - exists (acc ++ [(k, set_rt false sm)]). split; auto. split.
    + rewrite lookup_app_r by auto. simpl. now rewrite String.eqb_refl.
    + split; [intros; now apply lookup_snoc_other|]. unfold names. now rewrite map_app.
Qed.

Lemma merge_members_lookup : forall rec sl acc acc',
  NoDup (names sl) -> merge_members rec sl acc = (acc', None) ->
  forall n, lookup n acc' = table rec sl n (lookup n acc).
Proof.
  induction sl as [|[k sm] r IH]; intros acc acc' ND H n.
  - simpl in H. inversion H; subst. reflexivity.
  - inversion ND as [|? ? NI ND']; subst.
    destruct (merge_members_cons _ _ _ _ _ _ H) as (acc1 & H1 & Lk & Lo & _).
    rewrite (IH _ _ ND' H1 n). unfold table; simpl.
    destruct (string_dec k n) as [->|NE].
    + rewrite String.eqb_refl. apply lookup_none_notin in NI. rewrite NI. exact Lk.
    + rewrite (eqb_neq' _ _ NE). now rewrite (Lo n NE).
Qed.

Definition fresh (acc : list string) (n : string) : bool := negb (existsb (String.eqb n) acc).

Lemma existsb_eqb_in : forall n l, existsb (String.eqb n) l = true <-> In n l.
Proof.
  intros; rewrite existsb_exists; split.
  - intros (x & I & E). apply String.eqb_eq in E; now subst.
  - intros I; exists n; split; auto. apply String.eqb_refl.
Qed.

Lemma filter_fresh_snoc : forall acc k l, ~ In k l -> filter (fresh (acc ++ [k])) l = filter (fresh acc) l.
Proof.
  intros acc k l NI. apply filter_ext_in. intros a Ia. unfold fresh. f_equal.
  rewrite existsb_app. simpl. rewrite orb_false_r.
  destruct (String.eqb a k) eqn:E; [|now rewrite orb_false_r].
  apply String.eqb_eq in E; subst. contradiction.
Qed.

(* runtime members keep their position; stub-only members are appended in stub order *)
Lemma merge_members_names : forall rec sl acc acc',
  NoDup (names sl) -> merge_members rec sl acc = (acc', None) ->
  names acc' = names acc ++ filter (fresh (names acc)) (names sl).
Proof.
  induction sl as [|[k sm] r IH]; intros acc acc' ND H.
  - simpl in H. inversion H; subst. simpl. now rewrite app_nil_r.
  - inversion ND as [|? ? NI ND']; subst.
    destruct (merge_members_cons _ _ _ _ _ _ H) as (acc1 & H1 & _ & _ & N1).
    rewrite (IH _ _ ND' H1). simpl.
    destruct (lookup k acc) as [om|] eqn:L; rewrite N1.
    + assert (F : fresh (names acc) k = false).
      { unfold fresh. apply negb_false_iff. apply existsb_eqb_in.
        destruct (in_dec string_dec k (names acc)) as [I|NI']; auto.
        apply lookup_none_notin in NI'. congruence. }
      now rewrite F.
    + assert (F : fresh (names acc) k = true).
      { unfold fresh. apply negb_true_iff. destruct (existsb (String.eqb k) (names acc)) eqn:E; auto.
        apply existsb_eqb_in in E. apply lookup_none_notin in L. contradiction. }
      rewrite F. rewrite <- app_assoc. simpl. f_equal. f_equal. now apply filter_fresh_snoc.
Qed.

(* ------------------------------------------------------------------ one merged scope *)
Lemma buffer_items_buf_of : forall d b, buffer_items (nov d) = Ok b -> buf_of d = b.
Proof. intros d b; unfold buffer_items, buf_of. destruct (nov d); intros H; inversion H; auto. Qed.

Theorem field_table : forall sd sms od oms r,
  merge_obj (Obj sd sms) (Obj od oms) = Done r ->
  NoDup (names sms) -> NoDup (names (buf_of sd)) ->
  exists rms,
    r = Obj (with_imp (with_doc od (merge_doc (ndoc od) (ndoc sd))) (update_imports (nimp od) (nimp sd))) rms /\
    names rms = names oms ++ filter (fresh (names oms)) (names sms) /\
    forall n, lookup n rms = table merge_obj sms n (option_map (buffered (buf_of sd) n) (lookup n oms)).
Proof.
  intros sd sms od oms r H ND NB. rewrite merge_obj_eq in H. cbv zeta in H.
  destruct (buffer_items (nov sd)) as [buf|e] eqn:BI; [|discriminate].
  apply buffer_items_buf_of in BI. subst buf.
  destruct (merge_members merge_obj sms (apply_buffer (buf_of sd) oms)) as [oms2 [e|]] eqn:MM; [discriminate|].
  inversion H; subst. exists oms2. split; auto. split.
  - rewrite (merge_members_names _ _ _ _ ND MM). now rewrite apply_buffer_names.
  - intros n. rewrite (merge_members_lookup _ _ _ _ ND MM n). now rewrite (apply_buffer_lookup _ _ NB n).
Qed.

(* ------------------------------------------------------------------ rows of the table *)
Section Rows.
  Variables (sd : node) (sms : list (string * tree)) (od : node) (oms : list (string * tree)) (r : tree).
  Hypothesis H : merge_obj (Obj sd sms) (Obj od oms) = Done r.
  Hypothesis ND : NoDup (names sms).
  Hypothesis NB : NoDup (names (buf_of sd)).

  Lemma row_lookup : forall n,
    lookup n (members r) = table merge_obj sms n (option_map (buffered (buf_of sd) n) (lookup n oms)).
  Proof.
    intros n. destruct (field_table _ _ _ _ _ H ND NB) as (rms & -> & _ & T). simpl. apply T.
  Qed.

  Lemma scope_fields :
    exists rd rms, r = Obj rd rms /\ nkind rd = nkind od /\ ndoc rd = merge_doc (ndoc od) (ndoc sd) /\
      nimp rd = update_imports (nimp od) (nimp sd) /\ nrt rd = nrt od /\ nov rd = nov od /\
      names rms = names oms ++ filter (fresh (names oms)) (names sms).
  Proof.
    destruct (field_table _ _ _ _ _ H ND NB) as (rms & -> & N & _).
    eexists; eexists; split; [reflexivity|]. simpl. repeat split; auto.
  Qed.

  Lemma stub_only_row : forall n sm,
    lookup n oms = None -> lookup n sms = Some sm -> lookup n (members r) = Some (set_rt false sm).
  Proof. intros n sm LO LS. rewrite row_lookup. unfold table. rewrite LS, LO. reflexivity. Qed.

  Lemma runtime_only_row : forall n,
    lookup n sms = None -> lookup n (members r) = option_map (buffered (buf_of sd) n) (lookup n oms).
  Proof. intros n LS. rewrite row_lookup. unfold table. now rewrite LS. Qed.

  Lemma both_row : forall n om sm,
    lookup n oms = Some om -> lookup n sms = Some sm ->
    lookup n (members r) = Some (member_result merge_obj sm (buffered (buf_of sd) n om)).
  Proof. intros n om sm LO LS. rewrite row_lookup. unfold table. rewrite LS, LO. reflexivity. Qed.

  Lemma stub_alias_row : forall n om tg rt,
    lookup n oms = Some om -> lookup n sms = Some (Al tg rt) ->
    lookup n (members r) = Some (buffered (buf_of sd) n om).
  Proof. intros. erewrite both_row by eauto. reflexivity. Qed.

  Lemma runtime_alias_row : forall n tg rt sm,
    lookup n oms = Some (Al tg rt) -> lookup n sms = Some sm ->
    lookup n (members r) = Some (Al tg rt).
  Proof.
    intros. erewrite both_row by eauto. unfold buffered. destruct (hit1 (buf_of sd) n); destruct sm; reflexivity.
  Qed.

  Lemma buffered_fun : forall n omd omms, nkind omd = KFun ->
    buffered (buf_of sd) n (Obj omd omms) =
    Obj (match hit1 (buf_of sd) n with Some ovs => with_ov omd (OvList ovs) | None => omd end) omms.
  Proof. intros n omd omms K. unfold buffered, set_ov. simpl. rewrite K. destruct (hit1 (buf_of sd) n); reflexivity. Qed.

  (* kind mismatch between two objects: the runtime object stays as it is; a function only takes the pending overloads *)
  Lemma mismatch_row : forall n omd omms smd smms,
    lookup n oms = Some (Obj omd omms) -> lookup n sms = Some (Obj smd smms) ->
    nkind omd <> nkind smd ->
    lookup n (members r) = Some (buffered (buf_of sd) n (Obj omd omms)).
  Proof.
    intros n omd omms smd smms LO LS NE. erewrite both_row by eauto.
    assert (K : kind_eqb (nkind omd) (nkind smd) = false) by (destruct (nkind omd), (nkind smd); auto; congruence).
    unfold buffered, set_ov. simpl.
    destruct (hit1 (buf_of sd) n); simpl; [destruct (kind_eqb (nkind omd) KFun); simpl|]; now rewrite K.
  Qed.

  Lemma attribute_row : forall n omd omms smd smms,
    lookup n oms = Some (Obj omd omms) -> lookup n sms = Some (Obj smd smms) ->
    nkind omd = KAttr -> nkind smd = KAttr ->
    lookup n (members r) = Some (Obj (merge_attr omd smd) omms).
  Proof.
    intros n omd omms smd smms LO LS K1 K2. erewrite both_row by eauto.
    rewrite buffered_nonfun by (rewrite K1; discriminate). simpl. now rewrite K1, K2.
  Qed.

  Lemma container_row : forall n omd omms smd smms,
    lookup n oms = Some (Obj omd omms) -> lookup n sms = Some (Obj smd smms) ->
    nkind omd = nkind smd -> is_container (nkind omd) = true ->
    lookup n (members r) = Some (out_tree (merge_obj (Obj smd smms) (Obj omd omms))).
  Proof.
    intros n omd omms smd smms LO LS K C. erewrite both_row by eauto.
    rewrite buffered_nonfun by (destruct (nkind omd); simpl in C; discriminate). simpl. rewrite <- K.
    destruct (nkind omd); simpl in *; try discriminate; reflexivity.
  Qed.

  Lemma function_row_raw : forall n omd omms smd smms,
    lookup n oms = Some (Obj omd omms) -> lookup n sms = Some (Obj smd smms) ->
    nkind omd = KFun -> nkind smd = KFun ->
    lookup n (members r) =
      Some (Obj (merge_fun (match hit1 (buf_of sd) n with Some ovs => with_ov omd (OvList ovs) | None => omd end) smd) omms).
  Proof.
    intros n omd omms smd smms LO LS K1 K2. erewrite both_row by eauto.
    rewrite buffered_fun by auto. destruct (hit1 (buf_of sd) n); simpl; now rewrite K1, K2.
  Qed.

  (* the runtime member is an alias to a loaded class / module: the stub class is merged into the target - the same merge *)
  Lemma alias_target_container_row : forall n tg rt omd omms smd smms,
    lookup n oms = Some (AlTo tg rt (Obj omd omms)) -> lookup n sms = Some (Obj smd smms) ->
    nkind omd = nkind smd -> is_container (nkind omd) = true ->
    lookup n (members r) = Some (AlTo tg rt (out_tree (merge_obj (Obj smd smms) (Obj omd omms)))).
  Proof.
    intros n tg rt omd omms smd smms LO LS K C. erewrite both_row by eauto.
    assert (B : buffered (buf_of sd) n (AlTo tg rt (Obj omd omms)) = AlTo tg rt (Obj omd omms)).
    { unfold buffered, set_ov. simpl. destruct (hit1 (buf_of sd) n); auto.
      destruct (nkind omd); simpl in C; try discriminate; reflexivity. }
    rewrite B. simpl. rewrite <- K.
    destruct (nkind omd); simpl in *; try discriminate; reflexivity.
  Qed.

  Lemma alias_target_function_row : forall n tg rt omd omms smd smms,
    lookup n oms = Some (AlTo tg rt (Obj omd omms)) -> lookup n sms = Some (Obj smd smms) ->
    nkind omd = KFun -> nkind smd = KFun -> hit1 (buf_of sd) n = None ->
    lookup n (members r) = Some (AlTo tg rt (Obj (merge_fun omd smd) omms)).
  Proof.
    intros n tg rt omd omms smd smms LO LS K1 K2 NH. erewrite both_row by eauto.
    rewrite buffered_none by auto. simpl. now rewrite K1, K2.
  Qed.
End Rows.

(* ---- parameters: annotations by name from the stubs, names and order from the runtime function *)
Lemma set_ann_names : forall n a ps, names (set_ann n a ps) = names ps.
Proof.
  induction ps as [|[k b] r IH]; simpl; auto.
  destruct (String.eqb k n); simpl; auto. unfold names in *; simpl; now rewrite IH.
Qed.

Lemma set_ann_lookup_same : forall n a ps, lookup n (set_ann n a ps) = option_map (fun _ => a) (lookup n ps).
Proof.
  induction ps as [|[k b] r IH]; simpl; auto.
  destruct (String.eqb k n) eqn:E; simpl; rewrite E; auto.
Qed.

Lemma set_ann_lookup_other : forall n m a ps, n <> m -> lookup m (set_ann n a ps) = lookup m ps.
Proof.
  induction ps as [|[k b] r IH]; simpl; intros NE; auto.
  destruct (String.eqb k n) eqn:E; simpl.
  - apply String.eqb_eq in E; subst. now rewrite eqb_neq'.
  - destruct (String.eqb k m); auto.
Qed.

Lemma merge_params_names : forall sps ops, names (merge_params ops sps) = names ops.
Proof.
  unfold merge_params. induction sps as [|[n a] r IH]; simpl; intros; auto.
  rewrite IH. apply set_ann_names.
Qed.

Lemma merge_params_lookup : forall sps ops p, NoDup (names sps) ->
  lookup p (merge_params ops sps) =
  match lookup p ops with
  | None => None
  | Some a => Some (match lookup p sps with Some a' => a' | None => a end)
  end.
Proof.
  unfold merge_params. induction sps as [|[n a] r IH]; simpl; intros ops p ND.
  - destruct (lookup p ops); reflexivity.
  - inversion ND as [|? ? NI ND']; subst. rewrite (IH _ _ ND').
    destruct (string_dec n p) as [->|NE].
    + rewrite String.eqb_refl. rewrite set_ann_lookup_same.
      apply lookup_none_notin in NI. rewrite NI. destruct (lookup p ops); reflexivity.
    + rewrite (eqb_neq' _ _ NE). now rewrite set_ann_lookup_other.
Qed.

Lemma merge_fun_fields : forall o s,
  nkind (merge_fun o s) = nkind o /\ nrt (merge_fun o s) = nrt o /\ nann (merge_fun o s) = nann o /\
  nimp (merge_fun o s) = nimp o /\
  nret (merge_fun o s) = nret s /\
  nparams (merge_fun o s) = merge_params (nparams o) (nparams s) /\
  ndoc (merge_fun o s) = merge_doc (ndoc o) (ndoc s) /\
  nov (merge_fun o s) = if truthy (nov s) then nov s else nov o.
Proof. intros; unfold merge_fun. destruct (truthy (nov s)); simpl; repeat split; reflexivity. Qed.

Theorem function_row : forall sd sms od oms r n omd omms smd smms,
  merge_obj (Obj sd sms) (Obj od oms) = Done r -> NoDup (names sms) -> NoDup (names (buf_of sd)) ->
  lookup n oms = Some (Obj omd omms) -> lookup n sms = Some (Obj smd smms) ->
  nkind omd = KFun -> nkind smd = KFun -> NoDup (names (nparams smd)) ->
  exists rd, lookup n (members r) = Some (Obj rd omms) /\
    nkind rd = KFun /\ nrt rd = nrt omd /\
    nret rd = nret smd /\
    names (nparams rd) = names (nparams omd) /\
    (forall p, lookup p (nparams rd) =
       match lookup p (nparams omd) with
       | None => None
       | Some a => Some (match lookup p (nparams smd) with Some a' => a' | None => a end)
       end) /\
    ndoc rd = merge_doc (ndoc omd) (ndoc smd) /\
    nov rd = if truthy (nov smd) then nov smd
             else match hit1 (buf_of sd) n with Some ovs => OvList ovs | None => nov omd end.
Proof.
  intros sd sms od oms r n omd omms smd smms H ND NB LO LS K1 K2 NP.
  eexists; split; [eapply function_row_raw; eauto|].
  set (omd' := match hit1 (buf_of sd) n with Some ovs => with_ov omd (OvList ovs) | None => omd end).
  destruct (merge_fun_fields omd' smd) as (F1 & F2 & _ & _ & F5 & F6 & F7 & F8).
  assert (E : nkind omd' = nkind omd /\ nrt omd' = nrt omd /\ nparams omd' = nparams omd /\ ndoc omd' = ndoc omd /\
              nov omd' = match hit1 (buf_of sd) n with Some ovs => OvList ovs | None => nov omd end).
  { unfold omd'; destruct (hit1 (buf_of sd) n); simpl; repeat split; reflexivity. }
  destruct E as (E1 & E2 & E3 & E4 & E5).
  repeat split.
  - congruence.
  - congruence.
  - exact F5.
  - rewrite F6, E3. apply merge_params_names.
  - intros p. rewrite F6, E3. now apply merge_params_lookup.
  - rewrite F7, E4. reflexivity.
  - rewrite F8, E5. reflexivity.
Qed.

Lemma merge_attr_fields : forall o s,
  nkind (merge_attr o s) = nkind o /\ nrt (merge_attr o s) = nrt o /\ nov (merge_attr o s) = nov o /\
  nann (merge_attr o s) = nann s /\ ndoc (merge_attr o s) = merge_doc (ndoc o) (ndoc s).
Proof. intros; unfold merge_attr; simpl; repeat split; reflexivity. Qed.

Lemma merge_doc_rule : forall o s,
  merge_doc o s = match o with Some d => Some d | None => s end.
Proof. intros [d|] s; reflexivity. Qed.

(* ------------------------------------------------------------------ a merge never raises *)
(* stubs as the visitor builds them: every module / class carries its buffer dict *)
Fixpoint dict_ok (t : tree) : bool :=
  match t with
  | Al _ _ => true
  | AlTo _ _ x => dict_ok x
  | Obj d ms =>
      (if is_container (nkind d) then match nov d with OvDict _ => true | _ => false end else true)
      && forallb (fun p => dict_ok (snd p)) ms
  end.

Definition root_container (t : tree) : bool :=
  match t with Obj d _ => is_container (nkind d) | _ => false end.
Definition root_buf (t : tree) : list (string * list string) :=
  match t with Obj d _ => buf_of d | _ => [] end.

Definition completes (rec : tree -> tree -> outcome) (sm : tree) : Prop :=
  root_container sm = true -> forall omd omms, exists t, rec sm (Obj omd omms) = Done t.

Lemma merge_members_snd : forall rec sl,
  Forall (fun p => completes rec (snd p)) sl -> forall acc, snd (merge_members rec sl acc) = None.
Proof.
  intros rec sl F; induction F as [|[n sm] r H F IH]; simpl; intros acc; auto.
  destruct (lookup n acc) as [om|]; auto.
  destruct sm as [smd smms|tg rt|tg rt y]; auto.
  destruct (final om) as [omd omms|tg rt|tg rt y]; auto.
  destruct (kind_eqb (nkind omd) (nkind smd)) eqn:K; auto.
  assert (KE : nkind omd = nkind smd) by (destruct (nkind omd), (nkind smd); auto; discriminate).
  unfold completes in H; simpl in H.
  destruct (nkind omd) eqn:KO; auto.
  - rewrite <- KE in H. destruct (H eq_refl omd omms) as (t & R). rewrite R. auto.
  - rewrite <- KE in H. destruct (H eq_refl omd omms) as (t & R). rewrite R. auto.
Qed.

(* Merging stubs (as the visitor builds them) into a module or class always completes. *)
Theorem never_raises : forall s, dict_ok s = true -> root_container s = true -> forall od oms,
  exists r, merge_obj s (Obj od oms) = Done r.
Proof.
  induction s as [tg rt|tg rt x _|sd sms IH] using tree_ind'; intros DK RC od oms; [discriminate|discriminate|].
  simpl in DK, RC. rewrite RC in DK. apply andb_true_iff in DK. destruct DK as [DV DM].
  rewrite merge_obj_eq. cbv zeta.
  destruct (nov sd) as [| |b] eqn:NV; try discriminate. simpl.
  assert (F : Forall (fun p => completes merge_obj (snd p)) sms).
  { apply Forall_forall. intros p Ip. rewrite Forall_forall in IH. specialize (IH p Ip).
    rewrite forallb_forall in DM. specialize (DM p Ip).
    intros RCp omd omms. apply IH; auto. }
  pose proof (merge_members_snd merge_obj sms F (apply_buffer b oms)) as HM.
  destruct (merge_members merge_obj sms (apply_buffer b oms)) as [oms2 oe]. simpl in HM. subst oe. eauto.
Qed.

Definition stub_side_irrelevant (sm : option tree) (om : tree) : Prop :=
  match sm with
  | Some (Obj smd _) => shape_of om <> SKind (nkind smd)
  | _ => True
  end.

(* a runtime object that is not a function, whose stub counterpart is missing, an alias or of another kind, is untouched *)
Theorem untouched : forall sd sms od oms r n omd omms,
  merge_obj (Obj sd sms) (Obj od oms) = Done r -> NoDup (names sms) -> NoDup (names (buf_of sd)) ->
  lookup n oms = Some (Obj omd omms) -> nkind omd <> KFun -> stub_side_irrelevant (lookup n sms) (Obj omd omms) ->
  lookup n (members r) = Some (Obj omd omms).
Proof.
  intros sd sms od oms r n omd omms H ND NB LO NF IR.
  destruct (lookup n sms) as [sm|] eqn:LS.
  - erewrite both_row by eauto. rewrite buffered_nonfun by auto. f_equal.
    destruct sm as [smd smms|tg rt|tg rt y]; try reflexivity.
    simpl in IR. simpl.
    assert (K : kind_eqb (nkind omd) (nkind smd) = false).
    { destruct (nkind omd), (nkind smd); auto; exfalso; apply IR; reflexivity. }
    now rewrite K.
  - erewrite runtime_only_row by eauto. rewrite LO. simpl. now rewrite buffered_nonfun.
Qed.

(* the sub-merge of a class / module present on both sides completes, and is the member afterwards *)
Theorem container_row_done : forall sd sms od oms r n omd omms smd smms,
  merge_obj (Obj sd sms) (Obj od oms) = Done r -> NoDup (names sms) -> NoDup (names (buf_of sd)) ->
  lookup n oms = Some (Obj omd omms) -> lookup n sms = Some (Obj smd smms) ->
  nkind omd = nkind smd -> is_container (nkind omd) = true -> dict_ok (Obj smd smms) = true ->
  exists r', merge_obj (Obj smd smms) (Obj omd omms) = Done r' /\ lookup n (members r) = Some r'.
Proof.
  intros sd sms od oms r n omd omms smd smms H ND NB LO LS K C DK.
  assert (RC : root_container (Obj smd smms) = true) by (simpl; now rewrite <- K).
  destruct (never_raises (Obj smd smms) DK RC omd omms) as (t & M).
  pose proof (container_row _ _ _ _ _ H ND NB n omd omms smd smms LO LS K C) as CR.
  rewrite M in CR. eauto.
Qed.

(* ------------------------------------------------------------------ order *)
Lemma merge_stubs_comm : forall a b, xorb (is_pyi a) (is_pyi b) = true -> merge_stubs a b = merge_stubs b a.
Proof.
  intros [pa ta] [pb tb]; simpl. unfold merge_stubs, roles; simpl.
  destruct pa, pb; simpl; intros X; try discriminate; reflexivity.
Qed.

Lemma merge_stubs_two_regular : forall a b, is_pyi a = false -> is_pyi b = false -> merge_stubs a b = Err EValue.
Proof. intros [pa ta] [pb tb]; simpl; intros -> ->. reflexivity. Qed.

Theorem set_member_order : forall s od oms,
  dict_ok s = true -> root_container s = true ->
  set_member_module (mkF true s) (mkF false (Obj od oms)) = set_member_module (mkF false (Obj od oms)) (mkF true s) /\
  exists r, set_member_module (mkF true s) (mkF false (Obj od oms)) = Ok (mkF false r) /\ merge_obj s (Obj od oms) = Done r.
Proof.
  intros s od oms DK RC. destruct (never_raises s DK RC od oms) as (r & M).
  unfold set_member_module, roles; simpl. rewrite M. split; eauto.
Qed.

(* ------------------------------------------------------------------ examples *)
Definition nd (k : kind) : node := mkNode k None [] None OvNone None true [].
Definition scope (k : kind) (buf : list (string * list string)) : node := with_ov (nd k) (OvDict buf).

(* runtime:  def f(x, y: bytes): ...   class K: ...   from ext import g   from pkg.impl import C  (C loaded: class C: def m(self): ...) *)
Definition ex_C : tree := Obj (scope KCls []) [("m", Obj (with_params (nd KFun) [("self", None)]) [])].
Definition ex_o : tree :=
  Obj (scope KMod [])
      [("f", Obj (with_params (nd KFun) [("x", None); ("y", Some "bytes")]) []);
       ("K", Obj (scope KCls []) []);
       ("g", Al "ext.g" true);
       ("C", AlTo "pkg.impl.C" true ex_C)].
(* stubs:  def f(x: int) -> int: ...   K: int   def only() -> str: ... *)
Definition ex_s : tree :=
  Obj (with_doc (scope KMod []) (Some "S"))
      [("f", Obj (with_ret (with_params (nd KFun) [("x", Some "int")]) (Some "int")) []);
       ("K", Obj (with_ann (nd KAttr) (Some "int")) []);
       ("only", Obj (with_ret (nd KFun) (Some "str")) [])].
(* the inputs of the three repaired defects:
   only @overload signatures for the alias g (F1) / for the class K (F2);
   class C:  def m(self) -> int: ...   def only(self) -> int: ...   for the re-exported class C (F3) *)
Definition ex_s_F1 : tree := Obj (scope KMod [("g", ["g(x: int) -> int"])]) [].
Definition ex_s_F2 : tree := Obj (scope KMod [("K", ["K(x: int) -> int"])]) [].
Definition ex_s_F3 : tree :=
  Obj (scope KMod [])
      [("C", Obj (scope KCls [])
                 [("m", Obj (with_ret (with_params (nd KFun) [("self", None)]) (Some "int")) []);
                  ("only", Obj (with_ret (with_params (nd KFun) [("self", None)]) (Some "int")) [])])].

Example hypotheses_satisfiable :
  exists r, merge_obj ex_s ex_o = Done r /\ NoDup (names (members ex_s)) /\ NoDup (names (root_buf ex_s)) /\
    dict_ok ex_s = true /\
    at_path ["f"] r = Some (Obj (with_ret (with_params (nd KFun) [("x", Some "int"); ("y", Some "bytes")]) (Some "int")) []) /\
    at_path ["K"] r = Some (Obj (scope KCls []) []) /\
    at_path ["g"] r = Some (Al "ext.g" true) /\
    at_path ["C"] r = Some (AlTo "pkg.impl.C" true ex_C) /\
    at_path ["only"] r = Some (Obj (with_rt (with_ret (nd KFun) (Some "str")) false) []) /\
    names (members r) = ["f"; "K"; "g"; "C"; "only"].
Proof.
  eexists. split; [vm_compute; reflexivity|].
  split. { simpl. repeat constructor; simpl; intuition discriminate. }
  split. { simpl. constructor. }
  repeat split; vm_compute; reflexivity.
Qed.

(* the inputs that used to refute the property (findings F1, F2, F3) now satisfy it *)
Example repaired_witnesses :
  merge_obj ex_s_F1 ex_o = Done ex_o /\
  set_member_module (mkF true ex_s_F1) (mkF false ex_o) = set_member_module (mkF false ex_o) (mkF true ex_s_F1) /\
  merge_obj ex_s_F2 ex_o = Done ex_o /\
  (exists r, merge_obj ex_s_F3 ex_o = Done r /\
     at_path ["C"; "m"] r = Some (Obj (with_ret (with_params (nd KFun) [("self", None)]) (Some "int")) []) /\
     at_path ["C"; "only"] r = Some (Obj (with_rt (with_ret (with_params (nd KFun) [("self", None)]) (Some "int")) false) [])).
Proof.
  split; [vm_compute; reflexivity|]. split; [vm_compute; reflexivity|]. split; [vm_compute; reflexivity|].
  eexists. split; [vm_compute; reflexivity|]. split; vm_compute; reflexivity.
Qed.

(* ------------------------------------------------------------------ statements as they appear in Properties/C19.v *)
Definition runtime_of (t : tree) : bool := match t with Obj d _ => nrt d | Al _ rt => rt | AlTo _ rt _ => rt end.

Theorem stub_only_marked_not_runtime : forall sd sms od oms r n sm,
  merge_obj (Obj sd sms) (Obj od oms) = Done r -> NoDup (names sms) -> NoDup (names (buf_of sd)) ->
  lookup n oms = None -> lookup n sms = Some sm ->
  lookup n (members r) = Some (set_rt false sm) /\ runtime_of (set_rt false sm) = false /\
  shape_of (set_rt false sm) = shape_of sm /\ members (set_rt false sm) = members sm.
Proof.
  intros sd sms od oms r n sm H ND NB LO LS. split; [exact (stub_only_row _ _ _ _ _ H ND NB n sm LO LS)|].
  destruct sm; simpl; auto.
Qed.

Theorem attribute_row_fields : forall sd sms od oms r n omd omms smd smms,
  merge_obj (Obj sd sms) (Obj od oms) = Done r -> NoDup (names sms) -> NoDup (names (buf_of sd)) ->
  lookup n oms = Some (Obj omd omms) -> lookup n sms = Some (Obj smd smms) ->
  nkind omd = KAttr -> nkind smd = KAttr ->
  exists rd, lookup n (members r) = Some (Obj rd omms) /\
    nkind rd = KAttr /\ nrt rd = nrt omd /\ nov rd = nov omd /\
    nann rd = nann smd /\ ndoc rd = merge_doc (ndoc omd) (ndoc smd).
Proof.
  intros sd sms od oms r n omd omms smd smms H ND NB LO LS K1 K2.
  exists (merge_attr omd smd). split; [eapply attribute_row; eauto|].
  destruct (merge_attr_fields omd smd) as (A1 & A2 & A3 & A4 & A5). repeat split; auto; try congruence.
Qed.

Theorem scope_level : forall sd sms od oms r,
  merge_obj (Obj sd sms) (Obj od oms) = Done r -> NoDup (names sms) -> NoDup (names (buf_of sd)) ->
  exists rd rms, r = Obj rd rms /\ nkind rd = nkind od /\ ndoc rd = merge_doc (ndoc od) (ndoc sd) /\
    nimp rd = update_imports (nimp od) (nimp sd) /\ nrt rd = nrt od /\ nov rd = nov od /\
    names rms = names oms ++ filter (fresh (names oms)) (names sms).
Proof. intros sd sms od oms r H ND NB. exact (scope_fields _ _ _ _ _ H ND NB). Qed.
