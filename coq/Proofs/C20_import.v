(* C20 — proofs about the import model (Model/C20_import.v): load_git never imports from outside the checkout. *)
From Coq Require Import List ZArith String Ascii Bool Arith Lia.
From Verif Require Import Lib.Sexp Gen.C20_syspath Model.C20_import.
Import ListNotations.
Open Scope string_scope. Open Scope list_scope. Open Scope nat_scope.

(* what is proved about the REGENERATED law: importer.sys_path replaces sys.path by the given paths *)
Lemma law_is_replace : forall paths old, sys_path_law paths old = paths.
Proof. intros. reflexivity. Qed.

(* a law is confining when it puts nothing but the given paths on sys.path *)
Definition confining (law : pathlaw) : Prop := forall paths old, incl (law paths old) paths.

Lemma generated_law_confining : confining sys_path_law.
Proof. intros paths old. rewrite law_is_replace. apply incl_refl. Qed.

(* whatever of these modules is already in sys.modules came from one of the given paths *)
Definition cache_inside (ms : list string) (paths : list dir) (st : pyproc) : Prop :=
  forall m d, In m ms -> mod_lookup m (sys_modules st) = Some d -> In d paths.

(* the __pycache__ entries of st' are those of st plus entries inside the given paths *)
Definition pycache_confined (paths : list dir) (st st' : pyproc) : Prop :=
  forall x, In x (pycache st') -> In x (pycache st) \/ In (fst x) paths.

Lemma find_in : forall {A} (f : A -> bool) l x, find f l = Some x -> In x l.
Proof. intros A f l x H. apply find_some in H. exact (proj1 H). Qed.

Lemma find_none_all : forall {A} (f : A -> bool) l, (forall x, In x l -> f x = false) -> find f l = None.
Proof.
  induction l as [|a l IH]; simpl; intros H; [reflexivity|]. rewrite (H a (or_introl eq_refl)). apply IH. intros x Hx. apply H. right. exact Hx.
Qed.

(* one import with sys.path set to q *)
Lemma import_module_spec : forall m st o st',
  import_module m st = (o, st') ->
  sys_path st' = sys_path st /\ provides st' = provides st /\ bytecode st' = bytecode st /\
  (forall d, o = Some d -> mod_lookup m (sys_modules st) = Some d \/ In d (sys_path st)) /\
  (forall x, In x (pycache st') -> In x (pycache st) \/ In (fst x) (sys_path st)) /\
  (forall m' d', mod_lookup m' (sys_modules st') = Some d' -> mod_lookup m' (sys_modules st) = Some d' \/ In d' (sys_path st)).
Proof.
  intros m st o st' H. unfold import_module in H.
  destruct (mod_lookup m (sys_modules st)) as [d|] eqn:E.
  - inversion H; subst. repeat split; auto; intros d0 Hd; inversion Hd; subst; left; exact E.
  - destruct (find (fun d => has_module st d m) (sys_path st)) as [d|] eqn:F.
    + pose proof (find_in _ _ _ F) as Hin. inversion H; subst; clear H. simpl. repeat split; auto.
      * intros d0 Hd. inversion Hd; subst. right. exact Hin.
      * intros x Hx. destruct (bytecode st); [|left; exact Hx]. destruct Hx as [<-|Hx]; [right; exact Hin|left; exact Hx].
      * intros m' d' Hm. simpl in Hm. destruct (String.eqb m m'); [inversion Hm; subst; right; exact Hin|left; exact Hm].
    + inversion H; subst. repeat split; auto; intros d0 Hd; discriminate.
Qed.

Section Confined.
  Variable law : pathlaw.
  Hypothesis Hlaw : confining law.

  Lemma dynamic_import_confined : forall m paths st o st',
    paths <> [] ->
    dynamic_import_l law m paths st = (o, st') ->
    sys_path st' = sys_path st /\ provides st' = provides st /\ bytecode st' = bytecode st /\
    (forall d, o = Some d -> mod_lookup m (sys_modules st) = Some d \/ In d paths) /\
    pycache_confined paths st st' /\
    (forall m' d', mod_lookup m' (sys_modules st') = Some d' -> mod_lookup m' (sys_modules st) = Some d' \/ In d' paths).
  Proof.
    intros m paths st o st' Hne H. unfold dynamic_import_l, with_sys_path_l in H.
    destruct paths as [|p0 paths']; [contradiction|].
    destruct (import_module m (set_path st (law (p0 :: paths') (sys_path st)))) as [r st1] eqn:E.
    inversion H; subst; clear H.
    destruct (import_module_spec _ _ _ _ E) as [_ [Hp [Hb [Ho [Hc Hm]]]]]. simpl in *.
    repeat split; auto.
    - intros d Hd. destruct (Ho d Hd) as [K|K]; [left; exact K|right; exact (Hlaw _ _ _ K)].
    - intros x Hx. destruct (Hc x Hx) as [K|K]; [left; exact K|right; exact (Hlaw _ _ _ K)].
    - intros m' d' K0. destruct (Hm m' d' K0) as [K|K]; [left; exact K|right; exact (Hlaw _ _ _ K)].
  Qed.

  (* every import of one load, for every list of requested modules, every process state and every file system *)
  Theorem import_all_confined : forall ms paths st os st',
    paths <> [] -> cache_inside ms paths st ->
    import_all_l law ms paths st = (os, st') ->
    sys_path st' = sys_path st /\
    (forall d, In (Some d) os -> In d paths) /\
    pycache_confined paths st st'.
  Proof.
    induction ms as [|m ms IH]; intros paths st os st' Hne Hc H; simpl in H.
    - inversion H; subst. repeat split; [intros d []|intros x Hx; left; exact Hx].
    - destruct (dynamic_import_l law m paths st) as [o st1] eqn:E1.
      destruct (import_all_l law ms paths st1) as [os2 st2] eqn:E2. inversion H; subst; clear H.
      destruct (dynamic_import_confined _ _ _ _ _ Hne E1) as [Hp1 [_ [_ [Ho1 [Hc1 Hm1]]]]].
      assert (Hc' : cache_inside ms paths st1).
      { intros m' d' Hin Hl. destruct (Hm1 m' d' Hl) as [K|K]; [|exact K]. apply (Hc m' d'); [right; exact Hin|exact K]. }
      destruct (IH paths st1 os2 st' Hne Hc' E2) as [Hp2 [Ho2 Hc2]].
      repeat split.
      + rewrite Hp2. exact Hp1.
      + intros d [Hd|Hd]; [|apply Ho2; exact Hd]. subst o.
        destruct (Ho1 d eq_refl) as [K|K]; [|exact K]. apply (Hc m d); [left; reflexivity|exact K].
      + intros x Hx. destruct (Hc2 x Hx) as [K|K]; [|right; exact K]. apply Hc1. exact K.
  Qed.
End Confined.

Lemma git_search_paths_nonempty : forall root sub, git_search_paths root sub <> [].
Proof. intros root [|s sub]; simpl; discriminate. Qed.

(* The fallback of GriffeLoader.load as load_git calls it, code as it is (the regenerated law): whatever the process
   state (sys.path with the user's working tree first, byte code on ...) and the file system, whether inspection is allowed
   or not: a package is only ever found in / imported from one of the search paths inside the checkout, a __pycache__ entry
   is only ever written there, and sys.path is what it was -- provided the package is not already in sys.modules from
   elsewhere. *)
Theorem load_git_imports_only_from_checkout :
  forall pkg root sub inspection st o st',
  (forall d, mod_lookup pkg (sys_modules st) = Some d -> In d (git_search_paths root sub)) ->
  load_top pkg (git_search_paths root sub) inspection st = (o, st') ->
  sys_path st' = sys_path st /\
  pycache_confined (git_search_paths root sub) st st' /\
  match o with FoundOnDisk d | Imported d => In d (git_search_paths root sub) | NotFound => True end.
Proof.
  intros pkg root sub inspection st o st' Hc H. unfold load_top, load_top_l in H.
  set (paths := git_search_paths root sub) in *.
  destruct (find (fun d => has_module st d pkg) paths) as [d|] eqn:F.
  - inversion H; subst. repeat split; [intros x Hx; left; exact Hx|exact (find_in _ _ _ F)].
  - destruct inspection.
    + destruct (dynamic_import_l sys_path_law pkg paths st) as [r st1] eqn:E.
      destruct (dynamic_import_confined sys_path_law generated_law_confining _ _ _ _ _ (git_search_paths_nonempty root sub) E)
        as [Hp [_ [_ [Ho [Hpc _]]]]].
      destruct r as [d|]; inversion H; subst; repeat split; auto.
      destruct (Ho d eq_refl) as [K|K]; [apply Hc; exact K|exact K].
    + inversion H; subst. repeat split. intros x Hx; left; exact Hx.
Qed.

(* the absent-package path proper: nothing in the checkout holds the package, nothing of it is cached: ImportError,
   and the process state is exactly what it was -- for every sys.path and every file system outside the checkout *)
Theorem absent_package_not_found :
  forall pkg root sub inspection st,
  mod_lookup pkg (sys_modules st) = None ->
  (forall d, In d (git_search_paths root sub) -> has_module st d pkg = false) ->
  load_top pkg (git_search_paths root sub) inspection st = (NotFound, st).
Proof.
  intros pkg root sub inspection st Hc Habs. unfold load_top, load_top_l.
  set (paths := git_search_paths root sub) in *.
  assert (F : find (fun d => has_module st d pkg) paths = None).
  { apply find_none_all. intros d Hd. apply Habs. exact Hd. }
  rewrite F. destruct inspection; [|reflexivity].
  unfold dynamic_import_l, with_sys_path_l. pose proof (git_search_paths_nonempty root sub) as Hne. fold paths in Hne.
  destruct paths as [|p0 ps] eqn:Ep; [contradiction|].
  rewrite law_is_replace. unfold import_module. cbn [set_path sys_modules sys_path]. rewrite Hc.
  assert (F' : find (fun d => has_module (set_path st (p0 :: ps)) d pkg) (p0 :: ps) = None).
  { apply find_none_all. intros d Hd. exact (Habs d Hd). }
  rewrite F'. destruct st; reflexivity.
Qed.

(* ------------------------------------------------------------------ witnesses: the hypotheses are needed, the theorem is not vacuous *)

(* directory 0: the checkout; directory 1: the user's working tree, first on sys.path; byte code on *)
Definition st_wit : pyproc := mkProc [1; 9] [] [(1, "pkg"); (0, "other")] true [].

Example absent_nonvacuous :
  load_top "pkg" (git_search_paths 0 []) true st_wit = (NotFound, st_wit) /\
  load_top "other" (git_search_paths 0 []) true st_wit = (FoundOnDisk 0, st_wit).
Proof. split; reflexivity. Qed.

(* a sys_path that keeps the interpreter's entries (prepend_law) is not confining, and with it the absent package is
   imported from the user's working tree and byte-compiled there *)
Theorem prepend_law_imports_working_tree :
  ~ confining prepend_law /\
  exists st pkg root,
    mod_lookup pkg (sys_modules st) = None /\
    (forall d, In d (git_search_paths root []) -> has_module st d pkg = false) /\
    fst (load_top_l prepend_law pkg (git_search_paths root []) true st) = Imported 1 /\
    pycache (snd (load_top_l prepend_law pkg (git_search_paths root []) true st)) = [(1, pkg)] /\
    ~ In 1 (git_search_paths root []).
Proof.
  split.
  - intro H. assert (K : In 1 [0]) by (apply (H [0] [1]); simpl; right; left; reflexivity). destruct K as [K|[]]; discriminate.
  - exists st_wit, "pkg", 0. repeat split; try reflexivity.
    + intros d [<-|[]]. reflexivity.
    + simpl. intros [H|H]; [discriminate|contradiction].
Qed.

(* the hypothesis on sys.modules is needed: a package the calling process has already imported from its working tree is
   handed back by import_module whatever sys.path says (replayed on the implementation by the harness) *)
Theorem cached_package_escapes :
  exists st pkg root,
    (forall d, In d (git_search_paths root []) -> has_module st d pkg = false) /\
    load_top pkg (git_search_paths root []) true st = (Imported 1, st) /\ ~ In 1 (git_search_paths root []).
Proof.
  exists (mkProc [1; 9] [("pkg", 1)] [(1, "pkg")] true []), "pkg", 0. repeat split.
  - intros d [<-|[]]. reflexivity.
  - simpl. intros [H|H]; [discriminate|contradiction].
Qed.
