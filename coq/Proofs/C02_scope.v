(* C02 proofs about handle_function's bookkeeping (Model/C02_scope.v), for every stream of definitions and binders:
   names do not interfere; each implementation gets exactly the overloads of its name declared since the previous
   implementation; setters/deleters attach to the current property; a re-binding definition resets the name. *)
From Coq Require Import List ZArith String Ascii Bool Arith Lia.
From Verif Require Import Lib.Sexp Model.C02_kinds Gen.C02_tables Model.C02_scope.
Import ListNotations.
Open Scope string_scope.
Open Scope list_scope.
Open Scope nat_scope.

(* ---------- dictionaries ---------- *)
Lemma lookup_assign_same {A} n (v : A) l : lookup n (assign n v l) = Some v.
Proof.
  induction l as [|[k w] l IH]; simpl.
  - rewrite String.eqb_refl. reflexivity.
  - destruct (String.eqb k n) eqn:E; simpl; rewrite E; auto.
Qed.

Lemma lookup_assign_other {A} n m (v : A) l : n <> m -> lookup m (assign n v l) = lookup m l.
Proof.
  intros Hne. induction l as [|[k w] l IH]; simpl.
  - destruct (String.eqb n m) eqn:E; [apply String.eqb_eq in E; contradiction|reflexivity].
  - destruct (String.eqb k n) eqn:E; simpl.
    + apply String.eqb_eq in E. subst k.
      destruct (String.eqb n m) eqn:E2; [apply String.eqb_eq in E2; contradiction|reflexivity].
    + destruct (String.eqb k m); auto.
Qed.

Lemma lookup_remove_same {A} n (l : list (string * A)) : lookup n (remove_key n l) = None.
Proof.
  induction l as [|[k w] l IH]; simpl; [reflexivity|].
  destruct (String.eqb k n) eqn:E; simpl; [exact IH|rewrite E; exact IH].
Qed.

Lemma lookup_remove_other {A} n m (l : list (string * A)) : n <> m -> lookup m (remove_key n l) = lookup m l.
Proof.
  intros Hne. induction l as [|[k w] l IH]; simpl; [reflexivity|].
  destruct (String.eqb k n) eqn:E; simpl.
  - apply String.eqb_eq in E. subst k.
    destruct (String.eqb n m) eqn:E2; [apply String.eqb_eq in E2; contradiction|exact IH].
  - destruct (String.eqb k m); auto.
Qed.

(* ---------- what one step can do ---------- *)
Definition mem (n : string) (s : scope) : option member := lookup n (members s).

Definition plain_overload (f : fdef) : Prop :=
  existsb is_property (fdecos f) = false /\ existsb is_overload (fdecos f) = true.

Lemma tracks_step s it : tracks (step s it) = tracks s.
Proof.
  unfold step. destruct it as [f|i n]; simpl; [|reflexivity]. unfold handle_function.
  destruct (existsb is_property (fdecos f)); [reflexivity|].
  destruct (existsb is_overload (fdecos f)); [destruct (tracks s) eqn:T; simpl; rewrite ?T; reflexivity|].
  destruct (base_property s (fname f) (fdecos f)) as [[|]|];
    destruct (lookup (fname f) (members s)) as [[| |]|];
    destruct (tracks s) eqn:T; simpl; rewrite ?T; try reflexivity;
    destruct (lookup (fname f) (buffer s)) as [[|x l]|]; simpl; rewrite ?T; reflexivity.
Qed.

Lemma tracks_visit its s : tracks (visit_items its s) = tracks s.
Proof.
  revert s; induction its as [|it r IH]; intros s; simpl; [reflexivity|]. rewrite IH. apply tracks_step.
Qed.

(* a step for another name leaves this name's member and pending overloads alone *)
Lemma step_other_name s it n : iname it <> n -> mem n (step s it) = mem n s /\ buf n (step s it) = buf n s.
Proof.
  intros Hne. unfold step, mem, buf. destruct it as [f|i m]; simpl in *.
  2:{ rewrite lookup_assign_other by exact Hne. auto. }
  unfold handle_function.
  destruct (existsb is_property (fdecos f)); simpl.
  { rewrite lookup_assign_other by exact Hne. auto. }
  destruct (existsb is_overload (fdecos f)).
  { destruct (tracks s); simpl; [rewrite lookup_assign_other by exact Hne|]; auto. }
  destruct (base_property s (fname f) (fdecos f)) as [[|]|];
    destruct (lookup (fname f) (members s)) as [[| |]|];
    destruct (tracks s); simpl; try (rewrite lookup_assign_other by exact Hne; auto);
    destruct (lookup (fname f) (buffer s)) as [[|x l]|]; simpl;
    rewrite ?lookup_assign_other by exact Hne; rewrite ?lookup_remove_other by exact Hne; auto.
Qed.

Definition m_is_prop (m : option member) : bool := match m with Some (MProp _ _ _) => true | _ => false end.

Fixpoint bp (isp : bool) (n : string) (ds : list deco) : option bool :=
  match ds with
  | [] => None
  | DSetter b :: r => if String.eqb b n && isp then Some true else bp isp n r
  | DDeleter b :: r => if String.eqb b n && isp then Some false else bp isp n r
  | _ :: r => bp isp n r
  end.

Lemma base_property_bp s n ds : base_property s n ds = bp (m_is_prop (mem n s)) n ds.
Proof.
  induction ds as [|d r IH]; simpl; [reflexivity|].
  unfold member_is_property, m_is_prop, mem in *. destruct d; rewrite ?IH; reflexivity.
Qed.

(* handle_function seen from one name: an automaton over (member, pending overloads) *)
Definition local_fn (t : bool) (m : option member) (b : list Z) (f : fdef) : option member * list Z * outcome :=
  if existsb is_property (fdecos f) then (Some (MProp (fid f) None None), b, OProp)
  else if existsb is_overload (fdecos f) then (if t then (m, b ++ [fid f], OOverload) else (m, b, ODropped))
  else match bp (m_is_prop m) (fname f) (fdecos f), m with
       | Some true, Some (MProp id _ d) => (Some (MProp id (Some (fid f)) d), b, OSetter id)
       | Some false, Some (MProp id st _) => (Some (MProp id st (Some (fid f))), b, ODeleter id)
       | _, _ => if t then (Some (MFunc (fid f) b), [], OImpl b) else (Some (MFunc (fid f) []), b, OImpl [])
       end.

Lemma handle_function_local s f :
  (mem (fname f) (fst (handle_function s f)), buf (fname f) (fst (handle_function s f)), snd (handle_function s f)) =
  local_fn (tracks s) (mem (fname f) s) (buf (fname f) s) f.
Proof.
  unfold handle_function, local_fn. rewrite base_property_bp.
  destruct (existsb is_property (fdecos f)).
  { unfold mem, buf. simpl. rewrite lookup_assign_same. reflexivity. }
  destruct (existsb is_overload (fdecos f)).
  { destruct (tracks s); [|reflexivity]. unfold mem, buf. simpl. rewrite lookup_assign_same. reflexivity. }
  unfold mem, buf.
  destruct (lookup (fname f) (members s)) as [[i o|i st dl|i]|] eqn:Em; simpl m_is_prop;
    destruct (bp _ (fname f) (fdecos f)) as [[|]|];
    try (simpl; rewrite lookup_assign_same; reflexivity);
    (destruct (tracks s); [|simpl; rewrite lookup_assign_same; reflexivity]);
    destruct (lookup (fname f) (buffer s)) as [[|x l]|] eqn:Eb; simpl;
    rewrite ?lookup_assign_same, ?lookup_remove_same, ?Eb; reflexivity.
Qed.

Definition local_item (t : bool) (m : option member) (b : list Z) (it : item) : option member * list Z * outcome :=
  match it with IDef f => local_fn t m b f | IBind i _ => (Some (MOther i), b, OBind) end.

Lemma handle_item_local s it :
  (mem (iname it) (step s it), buf (iname it) (step s it), snd (handle_item s it)) =
  local_item (tracks s) (mem (iname it) s) (buf (iname it) s) it.
Proof.
  destruct it as [f|i m]; simpl; [apply handle_function_local|].
  unfold step, mem, buf. simpl. rewrite lookup_assign_same. reflexivity.
Qed.

(* a step for this name depends on the scope only through this name's member, its pending overloads, and the
   kind of scope -- and its outcome likewise *)
Lemma step_same_name s1 s2 it n : iname it = n ->
  tracks s1 = tracks s2 -> mem n s1 = mem n s2 -> buf n s1 = buf n s2 ->
  mem n (step s1 it) = mem n (step s2 it) /\ buf n (step s1 it) = buf n (step s2 it) /\
  snd (handle_item s1 it) = snd (handle_item s2 it).
Proof.
  intros Hn Ht Hm Hb. subst n.
  pose proof (handle_item_local s1 it) as H1. pose proof (handle_item_local s2 it) as H2.
  rewrite Ht, Hm, Hb in H1. rewrite <- H2 in H1. inversion H1. auto.
Qed.

(* ---------- names do not interfere, in any interleaving ---------- *)
Definition named (n : string) (it : item) : bool := String.eqb (iname it) n.

Fixpoint log_of (n : string) (its : list item) (log : list outcome) : list outcome :=
  match its, log with
  | it :: r, o :: lr => if named n it then o :: log_of n r lr else log_of n r lr
  | _, _ => []
  end.

Theorem scope_independence n : forall its s1 s2,
  tracks s1 = tracks s2 -> mem n s1 = mem n s2 -> buf n s1 = buf n s2 ->
  mem n (visit_items its s1) = mem n (visit_items (filter (named n) its) s2) /\
  buf n (visit_items its s1) = buf n (visit_items (filter (named n) its) s2) /\
  log_of n its (visit_log its s1) = visit_log (filter (named n) its) s2.
Proof.
  induction its as [|it r IH]; intros s1 s2 Ht Hm Hb; simpl; [auto|].
  destruct (named n it) eqn:E; unfold named in E.
  - apply String.eqb_eq in E. destruct (step_same_name s1 s2 it n E Ht Hm Hb) as [H1 [H2 H3]].
    simpl. destruct (IH (step s1 it) (step s2 it)) as [I1 [I2 I3]]; auto.
    { rewrite !tracks_step. exact Ht. }
    rewrite I1, I2, I3, H3. auto.
  - apply String.eqb_neq in E. destruct (step_other_name s1 it n E) as [H1 H2].
    apply IH; [rewrite tracks_step; exact Ht|congruence|congruence].
Qed.

(* ---------- the log ---------- *)
Lemma visit_items_app a b s : visit_items (a ++ b) s = visit_items b (visit_items a s).
Proof. unfold visit_items. apply fold_left_app. Qed.

Lemma visit_log_app a b s : visit_log (a ++ b) s = visit_log a s ++ visit_log b (visit_items a s).
Proof. revert s; induction a as [|x a IH]; intros s; simpl; [reflexivity|]. rewrite IH. reflexivity. Qed.

Lemma visit_log_length its s : List.length (visit_log its s) = List.length its.
Proof. revert s; induction its as [|x r IH]; intros s; simpl; auto. Qed.

Lemma log_at pre it post s :
  nth_error (visit_log (pre ++ it :: post) s) (List.length pre) = Some (snd (handle_item (visit_items pre s) it)).
Proof.
  rewrite visit_log_app. rewrite nth_error_app2 by (rewrite visit_log_length; lia).
  rewrite visit_log_length, Nat.sub_diag. reflexivity.
Qed.

(* which outcome a definition has, as a function of its decorators and of the current member *)
Theorem outcome_cases s f :
  let o := snd (handle_function s f) in
  (existsb is_property (fdecos f) = true -> o = OProp) /\
  (existsb is_property (fdecos f) = false -> existsb is_overload (fdecos f) = true ->
     o = if tracks s then OOverload else ODropped) /\
  (existsb is_property (fdecos f) = false -> existsb is_overload (fdecos f) = false ->
     match base_property s (fname f) (fdecos f), mem (fname f) s with
     | Some true, Some (MProp id _ _) => o = OSetter id
     | Some false, Some (MProp id _ _) => o = ODeleter id
     | _, _ => o = OImpl (if tracks s then buf (fname f) s else [])
     end).
Proof.
  cbn zeta. unfold handle_function, mem, buf.
  destruct (existsb is_property (fdecos f)); [repeat split; try discriminate; auto|].
  destruct (existsb is_overload (fdecos f)).
  { repeat split; try discriminate. intros _ _. destruct (tracks s); reflexivity. }
  repeat split; try discriminate. intros _ _.
  destruct (base_property s (fname f) (fdecos f)) as [[|]|];
    destruct (lookup (fname f) (members s)) as [[| |]|]; try reflexivity;
    destruct (tracks s); try reflexivity;
    destruct (lookup (fname f) (buffer s)) as [[|x l]|]; reflexivity.
Qed.

(* an accessor decorator only counts while the name is bound to a property *)
Lemma bp_false n ds : bp false n ds = None.
Proof. induction ds as [|d r IH]; simpl; [reflexivity|]. destruct d; rewrite ?andb_false_r; exact IH. Qed.

Lemma base_property_some s n ds b : base_property s n ds = Some b -> exists id st dl, mem n s = Some (MProp id st dl).
Proof.
  rewrite base_property_bp. destruct (mem n s) as [[| |]|]; simpl; rewrite ?bp_false; try discriminate. eauto.
Qed.

Lemma base_property_not_prop s n ds : (forall id st dl, mem n s <> Some (MProp id st dl)) -> base_property s n ds = None.
Proof.
  intros H. destruct (base_property s n ds) eqn:E; [|reflexivity].
  destruct (base_property_some _ _ _ _ E) as [id [st [dl Hm]]]. exfalso. eapply H; eauto.
Qed.

(* ---------- pending overloads: exactly those declared since the last implementation of the name ---------- *)
Lemma after_last_snoc {A} (f : A -> bool) l x :
  after_last f (l ++ [x]) = if f x then Some [] else option_map (fun t => t ++ [x]) (after_last f l).
Proof.
  induction l as [|y r IH]; simpl.
  - destruct (f x); reflexivity.
  - rewrite IH. destruct (f x); [reflexivity|].
    destruct (after_last f r); simpl; [reflexivity|]. destruct (f y); reflexivity.
Qed.

Definition pending (n : string) (init : list Z) (l : list (item * outcome)) : list Z :=
  match after_last (impl_of n) l with
  | Some t => overload_ids n t
  | None => init ++ overload_ids n l
  end.

Lemma overload_ids_snoc n l x :
  overload_ids n (l ++ [x]) = overload_ids n l ++ (if ovl_of n x then [iid (fst x)] else []).
Proof.
  unfold overload_ids. rewrite filter_app, map_app. simpl. destruct (ovl_of n x); reflexivity.
Qed.

Lemma combine_snoc {A B} (l : list A) (m : list B) x y : List.length l = List.length m ->
  combine (l ++ [x]) (m ++ [y]) = combine l m ++ [(x, y)].
Proof.
  revert m; induction l as [|a l IH]; intros [|b m] H; simpl in *; try discriminate; [reflexivity|].
  f_equal. apply IH. lia.
Qed.

(* how one step moves this name's pending overloads *)
Lemma buf_step s it n : tracks s = true ->
  buf n (step s it) =
    if String.eqb (iname it) n then
      match snd (handle_item s it) with
      | OImpl _ => []
      | OOverload => buf n s ++ [iid it]
      | _ => buf n s
      end
    else buf n s.
Proof.
  intros Ht. destruct (String.eqb (iname it) n) eqn:E.
  2:{ apply String.eqb_neq in E. apply step_other_name. exact E. }
  apply String.eqb_eq in E. unfold step, buf. destruct it as [f|i m]; simpl in *; [|reflexivity].
  subst n. unfold handle_function. rewrite Ht.
  destruct (existsb is_property (fdecos f)); [reflexivity|].
  destruct (existsb is_overload (fdecos f)).
  { simpl. rewrite lookup_assign_same. reflexivity. }
  destruct (base_property s (fname f) (fdecos f)) as [[|]|];
    destruct (lookup (fname f) (members s)) as [[| |]|]; simpl; try reflexivity;
    destruct (lookup (fname f) (buffer s)) as [[|x l]|] eqn:Eb; simpl; rewrite ?Eb, ?lookup_remove_same; reflexivity.
Qed.

Theorem pending_invariant n its s : tracks s = true ->
  buf n (visit_items its s) = pending n (buf n s) (combine its (visit_log its s)).
Proof.
  intros Ht. induction its as [|it r IH] using rev_ind.
  - unfold pending. simpl. rewrite app_nil_r. reflexivity.
  - rewrite visit_items_app, visit_log_app. simpl.
    rewrite combine_snoc by (rewrite visit_log_length; reflexivity).
    rewrite buf_step by (rewrite tracks_visit; exact Ht). rewrite IH.
    unfold pending. rewrite after_last_snoc.
    set (o := snd (handle_item (visit_items r s) it)).
    replace (impl_of n (it, o)) with (String.eqb (iname it) n && is_impl o) by reflexivity.
    destruct (String.eqb (iname it) n) eqn:E; simpl andb.
    + destruct o eqn:Eo; simpl is_impl; cbv iota;
        destruct (after_last (impl_of n) (combine r (visit_log r s))) as [t|]; simpl option_map; cbv iota;
        rewrite ?overload_ids_snoc; unfold ovl_of; simpl fst; simpl snd; rewrite ?E; simpl;
        rewrite ?app_nil_r, ?app_assoc; reflexivity.
    + destruct (after_last (impl_of n) (combine r (visit_log r s))) as [t|]; simpl option_map; cbv iota;
        rewrite overload_ids_snoc; unfold ovl_of; simpl fst; rewrite E; simpl; rewrite ?app_nil_r; reflexivity.
Qed.

(* THE overload theorem: in a module or class body, whatever precedes and follows (other names, properties,
   accessors, other binders, any decorators), the object created for an implementation carries exactly the
   overloads of its name declared since the previous implementation of that name -- in source order *)
Theorem impl_overloads_since_last_impl pre f post s ovs :
  tracks s = true ->
  nth_error (visit_log (pre ++ IDef f :: post) s) (List.length pre) = Some (OImpl ovs) ->
  ovs = pending (fname f) (buf (fname f) s) (combine pre (visit_log pre s)).
Proof.
  intros Ht H. rewrite log_at in H. inversion H as [Ho]. clear H.
  rewrite <- pending_invariant by exact Ht.
  pose proof (outcome_cases (visit_items pre s) f) as [H1 [H2 H3]]. cbn zeta in *. simpl in Ho.
  destruct (existsb is_property (fdecos f)); [rewrite H1 in Ho by reflexivity; discriminate|].
  destruct (existsb is_overload (fdecos f)).
  { rewrite H2 in Ho by reflexivity. destruct (tracks (visit_items pre s)); discriminate. }
  specialize (H3 eq_refl eq_refl). rewrite tracks_visit, Ht in H3.
  destruct (base_property (visit_items pre s) (fname f) (fdecos f)) as [[|]|];
    destruct (mem (fname f) (visit_items pre s)) as [[| |]|]; rewrite H3 in Ho; inversion Ho; reflexivity.
Qed.

(* and the pending overloads that are left at the end of the body are those since the last implementation *)
Theorem leftover_overloads n its s : tracks s = true ->
  buf n (visit_items its s) = pending n (buf n s) (combine its (visit_log its s)).
Proof. apply pending_invariant. Qed.

(* in a function body (`__init__` of a class is the only one visited) nothing is kept and nothing attached *)
Theorem function_scope_keeps_no_overloads its s : tracks s = false ->
  buffer (visit_items its s) = buffer s /\
  (forall o, In o (visit_log its s) -> o <> OOverload /\ forall ovs, o = OImpl ovs -> ovs = []).
Proof.
  revert s; induction its as [|it r IH]; intros s Ht; simpl; [split; [reflexivity|intros o []]|].
  assert (Hs : buffer (step s it) = buffer s /\ snd (handle_item s it) <> OOverload /\
               forall ovs, snd (handle_item s it) = OImpl ovs -> ovs = []).
  { unfold step. destruct it as [f|i m]; simpl; [|repeat split; try discriminate].
    unfold handle_function. rewrite Ht.
    destruct (existsb is_property (fdecos f)); [repeat split; discriminate|].
    destruct (existsb is_overload (fdecos f)); [repeat split; discriminate|].
    destruct (base_property s (fname f) (fdecos f)) as [[|]|];
      destruct (lookup (fname f) (members s)) as [[| |]|]; simpl; repeat split; try discriminate;
      intros ovs H; inversion H; reflexivity. }
  destruct Hs as [H1 [H2 H3]]. destruct (IH (step s it)) as [I1 I2]; [rewrite tracks_step; exact Ht|].
  split; [congruence|]. intros o [Ho|Ho]; [subst o; split; assumption|apply I2; exact Ho].
Qed.

(* ---------- the two classic statements, kept (now over items) ---------- *)
Lemma overloads_accumulate n its : forall s, tracks s = true ->
  (forall f, In (IDef f) its -> fname f = n -> plain_overload f) ->
  (forall i m, In (IBind i m) its -> m <> n) ->
  buf n (visit_items its s) =
  buf n s ++ map iid (filter (named n) its).
Proof.
  induction its as [|it r IH]; intros s Ht H Hb; simpl.
  - rewrite app_nil_r. reflexivity.
  - rewrite IH; [|rewrite tracks_step; exact Ht|intros g Hg; apply H; right; exact Hg|intros i m Hi; eapply Hb; right; exact Hi].
    rewrite buf_step by exact Ht. unfold named at 2. destruct (String.eqb (iname it) n) eqn:E; [|reflexivity].
    apply String.eqb_eq in E. destruct it as [f|i m]; simpl in *.
    + destruct (H f (or_introl eq_refl) E) as [Hp Ho].
      destruct (outcome_cases s f) as [_ [H2 _]]. cbn zeta in H2. rewrite (H2 Hp Ho), Ht.
      rewrite <- app_assoc. reflexivity.
    + exfalso. exact (Hb i m (or_introl eq_refl) E).
Qed.

Definition plain_impl (s : scope) (f : fdef) : Prop :=
  existsb is_property (fdecos f) = false /\ existsb is_overload (fdecos f) = false /\
  base_property s (fname f) (fdecos f) = None.

Lemma handle_impl s f : tracks s = true -> plain_impl s f ->
  mem (fname f) (step s (IDef f)) = Some (MFunc (fid f) (buf (fname f) s)) /\
  buf (fname f) (step s (IDef f)) = [].
Proof.
  intros Ht [Hp [Ho Hb]]. unfold step, mem, buf. simpl. unfold handle_function. rewrite Hp, Ho, Hb, Ht.
  destruct (lookup (fname f) (members s)) as [[| |]|];
    destruct (lookup (fname f) (buffer s)) as [[|x l]|] eqn:E; simpl;
    rewrite ?lookup_assign_same, ?lookup_remove_same, ?E; auto.
Qed.

(* Overloads written (anywhere, interleaved with other names) before the implementation attach to it in
   source order, and the pending list is emptied. *)
Theorem overloads_attach_in_order n its impl s :
  tracks s = true -> buf n s = [] ->
  (forall f, In (IDef f) its -> fname f = n -> plain_overload f) ->
  (forall i m, In (IBind i m) its -> m <> n) ->
  fname impl = n ->
  plain_impl (visit_items its s) impl ->
  let s' := visit_items (its ++ [IDef impl]) s in
  mem n s' = Some (MFunc (fid impl) (map iid (filter (named n) its))) /\ buf n s' = [].
Proof.
  intros Ht Hb Hfs Hbs Hn Himpl. cbn zeta. rewrite visit_items_app. simpl.
  pose proof (overloads_accumulate n its s Ht Hfs Hbs) as Hacc. rewrite Hb in Hacc. simpl in Hacc.
  destruct (handle_impl (visit_items its s) impl) as [H1 H2]; [rewrite tracks_visit; exact Ht|exact Himpl|].
  rewrite Hn in *. rewrite <- Hacc. auto.
Qed.

(* A setter / deleter for the property currently bound to its name attaches to it: the member stays that very
   property, every other member and all pending overloads are untouched. *)
Theorem setter_deleter_keep_property s f id st dl b :
  mem (fname f) s = Some (MProp id st dl) ->
  existsb is_property (fdecos f) = false -> existsb is_overload (fdecos f) = false ->
  base_property s (fname f) (fdecos f) = Some b ->
  let s' := step s (IDef f) in
  mem (fname f) s' = Some (if b then MProp id (Some (fid f)) dl else MProp id st (Some (fid f))) /\
  snd (handle_item s (IDef f)) = (if b then OSetter id else ODeleter id) /\
  (forall m, m <> fname f -> mem m s' = mem m s) /\
  buffer s' = buffer s.
Proof.
  intros Hm Hp Ho Hb. cbn zeta. unfold step, mem in *. simpl. unfold handle_function. rewrite Hp, Ho, Hb, Hm.
  destruct b; simpl; rewrite lookup_assign_same; repeat split; auto;
    intros m Hne; apply lookup_assign_other; auto.
Qed.
