(* C02 proofs about handle_function's bookkeeping (Model/C02_scope.v), for every stream of definitions and binders:
   names do not interfere; each implementation gets exactly the overloads of its name declared since the previous
   implementation; setters/deleters attach to the current property; a re-binding definition resets the name. *)
From Coq Require Import List ZArith String Ascii Bool Arith Lia.
From Verif Require Import Lib.Sexp Model.C02_kinds Gen.C02_tables Model.C02_scope.
Import ListNotations.
Open Scope string_scope.
Open Scope list_scope.
Open Scope nat_scope.

(* ---------- dictionaries ---------- *)
Lemma lookup_assign_same {A} n (v : A) l : lookup n (assign n v l) = Some v.
Proof.
  induction l as [|[k w] l IH]; simpl.
  - rewrite String.eqb_refl. reflexivity.
  - destruct (String.eqb k n) eqn:E; simpl; rewrite E; auto.
Qed.

Lemma lookup_assign_other {A} n m (v : A) l : n <> m -> lookup m (assign n v l) = lookup m l.
Proof.
  intros Hne. induction l as [|[k w] l IH]; simpl.
  - destruct (String.eqb n m) eqn:E; [apply String.eqb_eq in E; contradiction|reflexivity].
  - destruct (String.eqb k n) eqn:E; simpl.
    + apply String.eqb_eq in E. subst k.
      destruct (String.eqb n m) eqn:E2; [apply String.eqb_eq in E2; contradiction|reflexivity].
    + destruct (String.eqb k m); auto.
Qed.

Lemma lookup_remove_same {A} n (l : list (string * A)) : lookup n (remove_key n l) = None.
Proof.
  induction l as [|[k w] l IH]; simpl; [reflexivity|].
  destruct (String.eqb k n) eqn:E; simpl; [exact IH|rewrite E; exact IH].
Qed.

Lemma lookup_remove_other {A} n m (l : list (string * A)) : n <> m -> lookup m (remove_key n l) = lookup m l.
Proof.
  intros Hne. induction l as [|[k w] l IH]; simpl; [reflexivity|].
  destruct (String.eqb k n) eqn:E; simpl.
  - apply String.eqb_eq in E. subst k.
    destruct (String.eqb n m) eqn:E2; [apply String.eqb_eq in E2; contradiction|exact IH].
  - destruct (String.eqb k m); auto.
Qed.

(* ---------- what one step can do ---------- *)
Definition mem (n : string) (s : scope) : option member := lookup n (members s).

Definition plain_overload (f : fdef) : Prop :=
  existsb is_property (fdecos f) = false /\ existsb is_overload (fdecos f) = true.

(* the regenerated ladder is property, overload, accessor, implementation: handle_function unfolds to this *)
Lemma handle_function_eq s f : handle_function s f =
  if existsb is_property (fdecos f) then (set_member s (fname f) (MProp (fid f) None None), OProp)
  else if existsb is_overload (fdecos f) then
    if tracks s then
      let old := match lookup (fname f) (buffer s) with Some l => l | None => [] end in
      (mkScope (tracks s) (members s) (assign (fname f) (old ++ [fid f]) (buffer s)), OOverload)
    else (s, ODropped)
  else match base_property s (fname f) (fdecos f), lookup (fname f) (members s) with
  | Some true, Some (MProp id _ d) => (set_member s (fname f) (MProp id (Some (fid f)) d), OSetter id)
  | Some false, Some (MProp id st _) => (set_member s (fname f) (MProp id st (Some (fid f))), ODeleter id)
  | _, _ =>
      if tracks s then
        match lookup (fname f) (buffer s) with
        | Some (x :: l) =>
            (mkScope (tracks s) (assign (fname f) (MFunc (fid f) (x :: l)) (members s)) (remove_key (fname f) (buffer s)),
             OImpl (x :: l))
        | _ => (set_member s (fname f) (MFunc (fid f) []), OImpl [])
        end
      else (set_member s (fname f) (MFunc (fid f) []), OImpl [])
  end.
Proof. reflexivity. Qed.

Lemma tracks_step s it : tracks (step s it) = tracks s.
Proof.
  unfold step. destruct it as [f|i n]; simpl; [|reflexivity]. rewrite handle_function_eq.
  destruct (existsb is_property (fdecos f)); [reflexivity|].
  destruct (existsb is_overload (fdecos f)); [destruct (tracks s) eqn:T; simpl; rewrite ?T; reflexivity|].
  destruct (base_property s (fname f) (fdecos f)) as [[|]|];
    destruct (lookup (fname f) (members s)) as [[| |]|];
    destruct (tracks s) eqn:T; simpl; rewrite ?T; try reflexivity;
    destruct (lookup (fname f) (buffer s)) as [[|x l]|]; simpl; rewrite ?T; reflexivity.
Qed.

Lemma tracks_visit its s : tracks (visit_items its s) = tracks s.
Proof.
  revert s; induction its as [|it r IH]; intros s; simpl; [reflexivity|]. rewrite IH. apply tracks_step.
Qed.

(* a step for another name leaves this name's member and pending overloads alone *)
Lemma step_other_name s it n : iname it <> n -> mem n (step s it) = mem n s /\ buf n (step s it) = buf n s.
Proof.
  intros Hne. unfold step, mem, buf. destruct it as [f|i m]; simpl in *.
  2:{ rewrite lookup_assign_other by exact Hne. auto. }
  rewrite handle_function_eq.
  destruct (existsb is_property (fdecos f)); simpl.
  { rewrite lookup_assign_other by exact Hne. auto. }
  destruct (existsb is_overload (fdecos f)).
  { destruct (tracks s); simpl; [rewrite lookup_assign_other by exact Hne|]; auto. }
  destruct (base_property s (fname f) (fdecos f)) as [[|]|];
    destruct (lookup (fname f) (members s)) as [[| |]|];
    destruct (tracks s); simpl; try (rewrite lookup_assign_other by exact Hne; auto);
    destruct (lookup (fname f) (buffer s)) as [[|x l]|]; simpl;
    rewrite ?lookup_assign_other by exact Hne; rewrite ?lookup_remove_other by exact Hne; auto.
Qed.

Definition m_is_prop (m : option member) : bool := match m with Some (MProp _ _ _) => true | _ => false end.

Fixpoint bp (isp : bool) (n : string) (ds : list deco) : option bool :=
  match ds with
  | [] => None
  | DSetter b :: r => if String.eqb b n && isp then Some true else bp isp n r
  | DDeleter b :: r => if String.eqb b n && isp then Some false else bp isp n r
  | _ :: r => bp isp n r
  end.

Lemma base_property_bp s n ds : base_property s n ds = bp (m_is_prop (mem n s)) n ds.
Proof.
  induction ds as [|d r IH]; simpl; [reflexivity|].
  unfold member_is_property, m_is_prop, mem in *. destruct d; rewrite ?IH; reflexivity.
Qed.

(* handle_function seen from one name: an automaton over (member, pending overloads) *)
Definition local_fn (t : bool) (m : option member) (b : list Z) (f : fdef) : option member * list Z * outcome :=
  if existsb is_property (fdecos f) then (Some (MProp (fid f) None None), b, OProp)
  else if existsb is_overload (fdecos f) then (if t then (m, b ++ [fid f], OOverload) else (m, b, ODropped))
  else match bp (m_is_prop m) (fname f) (fdecos f), m with
       | Some true, Some (MProp id _ d) => (Some (MProp id (Some (fid f)) d), b, OSetter id)
       | Some false, Some (MProp id st _) => (Some (MProp id st (Some (fid f))), b, ODeleter id)
       | _, _ => if t then (Some (MFunc (fid f) b), [], OImpl b) else (Some (MFunc (fid f) []), b, OImpl [])
       end.

Lemma handle_function_local s f :
  (mem (fname f) (fst (handle_function s f)), buf (fname f) (fst (handle_function s f)), snd (handle_function s f)) =
  local_fn (tracks s) (mem (fname f) s) (buf (fname f) s) f.
Proof.
  rewrite !handle_function_eq. unfold local_fn. rewrite base_property_bp.
  destruct (existsb is_property (fdecos f)).
  { unfold mem, buf. simpl. rewrite lookup_assign_same. reflexivity. }
  destruct (existsb is_overload (fdecos f)).
  { destruct (tracks s); [|reflexivity]. unfold mem, buf. simpl. rewrite lookup_assign_same. reflexivity. }
  unfold mem, buf.
  destruct (lookup (fname f) (members s)) as [[i o|i st dl|i]|] eqn:Em; simpl m_is_prop;
    destruct (bp _ (fname f) (fdecos f)) as [[|]|];
    try (simpl; rewrite lookup_assign_same; reflexivity);
    (destruct (tracks s); [|simpl; rewrite lookup_assign_same; reflexivity]);
    destruct (lookup (fname f) (buffer s)) as [[|x l]|] eqn:Eb; simpl;
    rewrite ?lookup_assign_same, ?lookup_remove_same, ?Eb; reflexivity.
Qed.

Definition local_item (t : bool) (m : option member) (b : list Z) (it : item) : option member * list Z * outcome :=
  match it with IDef f => local_fn t m b f | IBind i _ => (Some (MOther i), b, OBind) end.

Lemma handle_item_local s it :
  (mem (iname it) (step s it), buf (iname it) (step s it), snd (handle_item s it)) =
  local_item (tracks s) (mem (iname it) s) (buf (iname it) s) it.
Proof.
  destruct it as [f|i m]; simpl; [apply handle_function_local|].
  unfold step, mem, buf. simpl. rewrite lookup_assign_same. reflexivity.
Qed.

(* a step for this name depends on the scope only through this name's member, its pending overloads, and the
   kind of scope -- and its outcome likewise *)
Lemma step_same_name s1 s2 it n : iname it = n ->
  tracks s1 = tracks s2 -> mem n s1 = mem n s2 -> buf n s1 = buf n s2 ->
  mem n (step s1 it) = mem n (step s2 it) /\ buf n (step s1 it) = buf n (step s2 it) /\
  snd (handle_item s1 it) = snd (handle_item s2 it).
Proof.
  intros Hn Ht Hm Hb. subst n.
  pose proof (handle_item_local s1 it) as H1. pose proof (handle_item_local s2 it) as H2.
  rewrite Ht, Hm, Hb in H1. rewrite <- H2 in H1. inversion H1. auto.
Qed.

(* ---------- names do not interfere, in any interleaving ---------- *)
Definition named (n : string) (it : item) : bool := String.eqb (iname it) n.

Fixpoint log_of (n : string) (its : list item) (log : list outcome) : list outcome :=
  match its, log with
  | it :: r, o :: lr => if named n it then o :: log_of n r lr else log_of n r lr
  | _, _ => []
  end.

Theorem scope_independence n : forall its s1 s2,
  tracks s1 = tracks s2 -> mem n s1 = mem n s2 -> buf n s1 = buf n s2 ->
  mem n (visit_items its s1) = mem n (visit_items (filter (named n) its) s2) /\
  buf n (visit_items its s1) = buf n (visit_items (filter (named n) its) s2) /\
  log_of n its (visit_log its s1) = visit_log (filter (named n) its) s2.
Proof.
  induction its as [|it r IH]; intros s1 s2 Ht Hm Hb; simpl; [auto|].
  destruct (named n it) eqn:E; unfold named in E.
  - apply String.eqb_eq in E. destruct (step_same_name s1 s2 it n E Ht Hm Hb) as [H1 [H2 H3]].
    simpl. destruct (IH (step s1 it) (step s2 it)) as [I1 [I2 I3]]; auto.
    { rewrite !tracks_step. exact Ht. }
    rewrite I1, I2, I3, H3. auto.
  - apply String.eqb_neq in E. destruct (step_other_name s1 it n E) as [H1 H2].
    apply IH; [rewrite tracks_step; exact Ht|congruence|congruence].
Qed.

(* ---------- the log ---------- *)
Lemma visit_items_app a b s : visit_items (a ++ b) s = visit_items b (visit_items a s).
Proof. unfold visit_items. apply fold_left_app. Qed.

Lemma visit_log_app a b s : visit_log (a ++ b) s = visit_log a s ++ visit_log b (visit_items a s).
Proof. revert s; induction a as [|x a IH]; intros s; simpl; [reflexivity|]. rewrite IH. reflexivity. Qed.

Lemma visit_log_length its s : List.length (visit_log its s) = List.length its.
Proof. revert s; induction its as [|x r IH]; intros s; simpl; auto. Qed.

Lemma log_at pre it post s :
  nth_error (visit_log (pre ++ it :: post) s) (List.length pre) = Some (snd (handle_item (visit_items pre s) it)).
Proof.
  rewrite visit_log_app. rewrite nth_error_app2 by (rewrite visit_log_length; lia).
  rewrite visit_log_length, Nat.sub_diag. reflexivity.
Qed.

(* which outcome a definition has, as a function of its decorators and of the current member *)
Theorem outcome_cases s f :
  let o := snd (handle_function s f) in
  (existsb is_property (fdecos f) = true -> o = OProp) /\
  (existsb is_property (fdecos f) = false -> existsb is_overload (fdecos f) = true ->
     o = if tracks s then OOverload else ODropped) /\
  (existsb is_property (fdecos f) = false -> existsb is_overload (fdecos f) = false ->
     match base_property s (fname f) (fdecos f), mem (fname f) s with
     | Some true, Some (MProp id _ _) => o = OSetter id
     | Some false, Some (MProp id _ _) => o = ODeleter id
     | _, _ => o = OImpl (if tracks s then buf (fname f) s else [])
     end).
Proof.
  cbn zeta. rewrite handle_function_eq. unfold mem, buf.
  destruct (existsb is_property (fdecos f)); [repeat split; try discriminate; auto|].
  destruct (existsb is_overload (fdecos f)).
  { repeat split; try discriminate. intros _ _. destruct (tracks s); reflexivity. }
  repeat split; try discriminate. intros _ _.
  destruct (base_property s (fname f) (fdecos f)) as [[|]|];
    destruct (lookup (fname f) (members s)) as [[| |]|]; try reflexivity;
    destruct (tracks s); try reflexivity;
    destruct (lookup (fname f) (buffer s)) as [[|x l]|]; reflexivity.
Qed.

(* an accessor decorator only counts while the name is bound to a property *)
Lemma bp_false n ds : bp false n ds = None.
Proof. induction ds as [|d r IH]; simpl; [reflexivity|]. destruct d; rewrite ?andb_false_r; exact IH. Qed.

Lemma base_property_some s n ds b : base_property s n ds = Some b -> exists id st dl, mem n s = Some (MProp id st dl).
Proof.
  rewrite base_property_bp. destruct (mem n s) as [[| |]|]; simpl; rewrite ?bp_false; try discriminate. eauto.
Qed.

Lemma base_property_not_prop s n ds : (forall id st dl, mem n s <> Some (MProp id st dl)) -> base_property s n ds = None.
Proof.
  intros H. destruct (base_property s n ds) eqn:E; [|reflexivity].
  destruct (base_property_some _ _ _ _ E) as [id [st [dl Hm]]]. exfalso. eapply H; eauto.
Qed.

(* ---------- pending overloads: exactly those declared since the last implementation of the name ---------- *)
Lemma after_last_snoc {A} (f : A -> bool) l x :
  after_last f (l ++ [x]) = if f x then Some [] else option_map (fun t => t ++ [x]) (after_last f l).
Proof.
  induction l as [|y r IH]; simpl.
  - destruct (f x); reflexivity.
  - rewrite IH. destruct (f x); [reflexivity|].
    destruct (after_last f r); simpl; [reflexivity|]. destruct (f y); reflexivity.
Qed.

Definition pending (n : string) (init : list Z) (l : list (item * outcome)) : list Z :=
  match after_last (impl_of n) l with
  | Some t => overload_ids n t
  | None => init ++ overload_ids n l
  end.

Lemma overload_ids_snoc n l x :
  overload_ids n (l ++ [x]) = overload_ids n l ++ (if ovl_of n x then [iid (fst x)] else []).
Proof.
  unfold overload_ids. rewrite filter_app, map_app. simpl. destruct (ovl_of n x); reflexivity.
Qed.

Lemma combine_snoc {A B} (l : list A) (m : list B) x y : List.length l = List.length m ->
  combine (l ++ [x]) (m ++ [y]) = combine l m ++ [(x, y)].
Proof.
  revert m; induction l as [|a l IH]; intros [|b m] H; simpl in *; try discriminate; [reflexivity|].
  f_equal. apply IH. lia.
Qed.

(* how one step moves this name's pending overloads *)
Lemma buf_step s it n : tracks s = true ->
  buf n (step s it) =
    if String.eqb (iname it) n then
      match snd (handle_item s it) with
      | OImpl _ => []
      | OOverload => buf n s ++ [iid it]
      | _ => buf n s
      end
    else buf n s.
Proof.
  intros Ht. destruct (String.eqb (iname it) n) eqn:E.
  2:{ apply String.eqb_neq in E. apply step_other_name. exact E. }
  apply String.eqb_eq in E. unfold step, buf. destruct it as [f|i m]; simpl in *; [|reflexivity].
  subst n. rewrite handle_function_eq. rewrite Ht.
  destruct (existsb is_property (fdecos f)); [reflexivity|].
  destruct (existsb is_overload (fdecos f)).
  { simpl. rewrite lookup_assign_same. reflexivity. }
  destruct (base_property s (fname f) (fdecos f)) as [[|]|];
    destruct (lookup (fname f) (members s)) as [[| |]|]; simpl; try reflexivity;
    destruct (lookup (fname f) (buffer s)) as [[|x l]|] eqn:Eb; simpl; rewrite ?Eb, ?lookup_remove_same; reflexivity.
Qed.

Theorem pending_invariant n its s : tracks s = true ->
  buf n (visit_items its s) = pending n (buf n s) (combine its (visit_log its s)).
Proof.
  intros Ht. induction its as [|it r IH] using rev_ind.
  - unfold pending. simpl. rewrite app_nil_r. reflexivity.
  - rewrite visit_items_app, visit_log_app. simpl.
    rewrite combine_snoc by (rewrite visit_log_length; reflexivity).
    rewrite buf_step by (rewrite tracks_visit; exact Ht). rewrite IH.
    unfold pending. rewrite after_last_snoc.
    set (o := snd (handle_item (visit_items r s) it)).
    replace (impl_of n (it, o)) with (String.eqb (iname it) n && is_impl o) by reflexivity.
    destruct (String.eqb (iname it) n) eqn:E; simpl andb.
    + destruct o eqn:Eo; simpl is_impl; cbv iota;
        destruct (after_last (impl_of n) (combine r (visit_log r s))) as [t|]; simpl option_map; cbv iota;
        rewrite ?overload_ids_snoc; unfold ovl_of; simpl fst; simpl snd; rewrite ?E; simpl;
        rewrite ?app_nil_r, ?app_assoc; reflexivity.
    + destruct (after_last (impl_of n) (combine r (visit_log r s))) as [t|]; simpl option_map; cbv iota;
        rewrite overload_ids_snoc; unfold ovl_of; simpl fst; rewrite E; simpl; rewrite ?app_nil_r; reflexivity.
Qed.

(* THE overload theorem: in a module or class body, whatever precedes and follows (other names, properties,
   accessors, other binders, any decorators), the object created for an implementation carries exactly the
   overloads of its name declared since the previous implementation of that name -- in source order *)
Theorem impl_overloads_since_last_impl pre f post s ovs :
  tracks s = true ->
  nth_error (visit_log (pre ++ IDef f :: post) s) (List.length pre) = Some (OImpl ovs) ->
  ovs = pending (fname f) (buf (fname f) s) (combine pre (visit_log pre s)).
Proof.
  intros Ht H. rewrite log_at in H. inversion H as [Ho]. clear H.
  rewrite <- pending_invariant by exact Ht.
  pose proof (outcome_cases (visit_items pre s) f) as [H1 [H2 H3]]. cbn zeta in *. simpl in Ho.
  destruct (existsb is_property (fdecos f)); [rewrite H1 in Ho by reflexivity; discriminate|].
  destruct (existsb is_overload (fdecos f)).
  { rewrite H2 in Ho by reflexivity. destruct (tracks (visit_items pre s)); discriminate. }
  specialize (H3 eq_refl eq_refl). rewrite tracks_visit, Ht in H3.
  destruct (base_property (visit_items pre s) (fname f) (fdecos f)) as [[|]|];
    destruct (mem (fname f) (visit_items pre s)) as [[| |]|]; rewrite H3 in Ho; inversion Ho; reflexivity.
Qed.

(* and the pending overloads that are left at the end of the body are those since the last implementation *)
Theorem leftover_overloads n its s : tracks s = true ->
  buf n (visit_items its s) = pending n (buf n s) (combine its (visit_log its s)).
Proof. apply pending_invariant. Qed.

(* in a function body (`__init__` of a class is the only one visited) nothing is kept and nothing attached *)
Theorem function_scope_keeps_no_overloads its s : tracks s = false ->
  buffer (visit_items its s) = buffer s /\
  (forall o, In o (visit_log its s) -> o <> OOverload /\ forall ovs, o = OImpl ovs -> ovs = []).
Proof.
  revert s; induction its as [|it r IH]; intros s Ht; simpl; [split; [reflexivity|intros o []]|].
  assert (Hs : buffer (step s it) = buffer s /\ snd (handle_item s it) <> OOverload /\
               forall ovs, snd (handle_item s it) = OImpl ovs -> ovs = []).
  { unfold step. destruct it as [f|i m]; simpl; [|repeat split; try discriminate].
    rewrite handle_function_eq. rewrite Ht.
    destruct (existsb is_property (fdecos f)); [repeat split; discriminate|].
    destruct (existsb is_overload (fdecos f)); [repeat split; discriminate|].
    destruct (base_property s (fname f) (fdecos f)) as [[|]|];
      destruct (lookup (fname f) (members s)) as [[| |]|]; simpl; repeat split; try discriminate;
      intros ovs H; inversion H; reflexivity. }
  destruct Hs as [H1 [H2 H3]]. destruct (IH (step s it)) as [I1 I2]; [rewrite tracks_step; exact Ht|].
  split; [congruence|]. intros o [Ho|Ho]; [subst o; split; assumption|apply I2; exact Ho].
Qed.

(* ---------- the two classic statements, kept (now over items) ---------- *)
Lemma overloads_accumulate n its : forall s, tracks s = true ->
  (forall f, In (IDef f) its -> fname f = n -> plain_overload f) ->
  (forall i m, In (IBind i m) its -> m <> n) ->
  buf n (visit_items its s) =
  buf n s ++ map iid (filter (named n) its).
Proof.
  induction its as [|it r IH]; intros s Ht H Hb; simpl.
  - rewrite app_nil_r. reflexivity.
  - rewrite IH; [|rewrite tracks_step; exact Ht|intros g Hg; apply H; right; exact Hg|intros i m Hi; eapply Hb; right; exact Hi].
    rewrite buf_step by exact Ht. unfold named at 2. destruct (String.eqb (iname it) n) eqn:E; [|reflexivity].
    apply String.eqb_eq in E. destruct it as [f|i m]; simpl in *.
    + destruct (H f (or_introl eq_refl) E) as [Hp Ho].
      destruct (outcome_cases s f) as [_ [H2 _]]. cbn zeta in H2. rewrite (H2 Hp Ho), Ht.
      rewrite <- app_assoc. reflexivity.
    + exfalso. exact (Hb i m (or_introl eq_refl) E).
Qed.

Definition plain_impl (s : scope) (f : fdef) : Prop :=
  existsb is_property (fdecos f) = false /\ existsb is_overload (fdecos f) = false /\
  base_property s (fname f) (fdecos f) = None.

Lemma handle_impl s f : tracks s = true -> plain_impl s f ->
  mem (fname f) (step s (IDef f)) = Some (MFunc (fid f) (buf (fname f) s)) /\
  buf (fname f) (step s (IDef f)) = [].
Proof.
  intros Ht [Hp [Ho Hb]]. unfold step, mem, buf. simpl. rewrite handle_function_eq. rewrite Hp, Ho, Hb, Ht.
  destruct (lookup (fname f) (members s)) as [[| |]|];
    destruct (lookup (fname f) (buffer s)) as [[|x l]|] eqn:E; simpl;
    rewrite ?lookup_assign_same, ?lookup_remove_same, ?E; auto.
Qed.

(* Overloads written (anywhere, interleaved with other names) before the implementation attach to it in
   source order, and the pending list is emptied. *)
Theorem overloads_attach_in_order n its impl s :
  tracks s = true -> buf n s = [] ->
  (forall f, In (IDef f) its -> fname f = n -> plain_overload f) ->
  (forall i m, In (IBind i m) its -> m <> n) ->
  fname impl = n ->
  plain_impl (visit_items its s) impl ->
  let s' := visit_items (its ++ [IDef impl]) s in
  mem n s' = Some (MFunc (fid impl) (map iid (filter (named n) its))) /\ buf n s' = [].
Proof.
  intros Ht Hb Hfs Hbs Hn Himpl. cbn zeta. rewrite visit_items_app. simpl.
  pose proof (overloads_accumulate n its s Ht Hfs Hbs) as Hacc. rewrite Hb in Hacc. simpl in Hacc.
  destruct (handle_impl (visit_items its s) impl) as [H1 H2]; [rewrite tracks_visit; exact Ht|exact Himpl|].
  rewrite Hn in *. rewrite <- Hacc. auto.
Qed.

(* A setter / deleter for the property currently bound to its name attaches to it: the member stays that very
   property, every other member and all pending overloads are untouched. *)
Theorem setter_deleter_keep_property s f id st dl b :
  mem (fname f) s = Some (MProp id st dl) ->
  existsb is_property (fdecos f) = false -> existsb is_overload (fdecos f) = false ->
  base_property s (fname f) (fdecos f) = Some b ->
  let s' := step s (IDef f) in
  mem (fname f) s' = Some (if b then MProp id (Some (fid f)) dl else MProp id st (Some (fid f))) /\
  snd (handle_item s (IDef f)) = (if b then OSetter id else ODeleter id) /\
  (forall m, m <> fname f -> mem m s' = mem m s) /\
  buffer s' = buffer s.
Proof.
  intros Hm Hp Ho Hb. cbn zeta. unfold step, mem in *. simpl. rewrite handle_function_eq. rewrite Hp, Ho, Hb, Hm.
  destruct b; simpl; rewrite lookup_assign_same; repeat split; auto;
    intros m Hne; apply lookup_assign_other; auto.
Qed.

(* ---------- a re-binding definition resets the name (what makes if/else redefinitions work) ---------- *)
Lemma bp_no_accessor isp n ds : own_accessor n ds = false -> bp isp n ds = None.
Proof.
  induction ds as [|d r IH]; simpl; [reflexivity|].
  destruct d; auto; intros H; apply orb_false_iff in H; destruct H as [H1 H2]; rewrite H1; simpl; auto.
Qed.

Lemma local_unconditional t m1 m2 b it :
  unconditional_binder it = true -> local_item t m1 b it = local_item t m2 b it.
Proof.
  destruct it as [f|i n]; simpl; [|reflexivity]. unfold local_fn. intros H.
  destruct (existsb is_property (fdecos f)); [reflexivity|]. simpl in H.
  apply andb_prop in H. destruct H as [H1 H2]. apply negb_true_iff in H1, H2. rewrite H1.
  rewrite !(bp_no_accessor _ _ _ H2). reflexivity.
Qed.

Lemma local_overload t m b f : plain_overload_b f = true ->
  local_fn t m b f = (if t then (m, b ++ [fid f], OOverload) else (m, b, ODropped)).
Proof.
  unfold plain_overload_b, local_fn. intros H. apply andb_prop in H. destruct H as [H1 H2].
  apply negb_true_iff in H1. rewrite H1, H2. reflexivity.
Qed.

Theorem redefinition_resets n : forall its s1 s2,
  tracks s1 = tracks s2 -> buf n s1 = buf n s2 -> rebinds_first n its = true ->
  mem n (visit_items its s1) = mem n (visit_items its s2) /\
  buf n (visit_items its s1) = buf n (visit_items its s2) /\
  log_of n its (visit_log its s1) = log_of n its (visit_log its s2).
Proof.
  induction its as [|it r IH]; intros s1 s2 Ht Hb Hr; simpl in *; [discriminate|].
  unfold named. destruct (String.eqb (iname it) n) eqn:E.
  - apply String.eqb_eq in E.
    pose proof (handle_item_local s1 it) as L1. pose proof (handle_item_local s2 it) as L2.
    rewrite E, Ht, Hb in L1. rewrite E in L2.
    assert (Hcase : (exists f, it = IDef f /\ plain_overload_b f = true /\ rebinds_first n r = true) \/
                    unconditional_binder it = true).
    { destruct it as [f|i m]; [|right; reflexivity].
      destruct (plain_overload_b f) eqn:Ep; [left; eauto|right; exact Hr]. }
    destruct Hcase as [[f [Hf [Hp Hr']]]|Hu].
    + subst it. simpl in L1, L2. rewrite (local_overload _ _ _ _ Hp) in L1. rewrite (local_overload _ _ _ _ Hp) in L2.
      assert (Hs : buf n (step s1 (IDef f)) = buf n (step s2 (IDef f)) /\
                   snd (handle_item s1 (IDef f)) = snd (handle_item s2 (IDef f))).
      { simpl. destruct (tracks s2); inversion L1; inversion L2; split; congruence. }
      destruct Hs as [Hs1 Hs2].
      destruct (IH (step s1 (IDef f)) (step s2 (IDef f))) as [I1 [I2 I3]]; auto.
      { rewrite !tracks_step. exact Ht. }
      rewrite I1, I2, I3, Hs2. auto.
    + rewrite (local_unconditional _ (mem n s1) (mem n s2) _ _ Hu) in L1. rewrite <- L2 in L1. inversion L1 as [[M B O]].
      destruct (scope_independence n r (step s1 it) (step s2 it)) as [I1 [I2 I3]]; auto.
      { rewrite !tracks_step. exact Ht. }
      destruct (scope_independence n r (step s2 it) (step s2 it)) as [J1 [J2 J3]]; auto.
      rewrite I1, I2, I3, J1, J2, J3, O. auto.
  - apply String.eqb_neq in E.
    destruct (step_other_name s1 it n E) as [H1 H2]. destruct (step_other_name s2 it n E) as [H3 H4].
    apply IH; [rewrite !tracks_step; exact Ht|congruence|exact Hr].
Qed.

(* the if/else form: after any prefix that leaves no pending overloads of the name, a suffix that re-binds the name
   first gives the name exactly what the suffix alone gives it *)
Corollary branch_redefinition n pre post s :
  buf n (visit_items pre s) = buf n s -> rebinds_first n post = true ->
  mem n (visit_items (pre ++ post) s) = mem n (visit_items post s) /\
  buf n (visit_items (pre ++ post) s) = buf n (visit_items post s) /\
  log_of n post (visit_log post (visit_items pre s)) = log_of n post (visit_log post s).
Proof.
  intros Hb Hr. rewrite visit_items_app. apply redefinition_resets; auto. apply tracks_visit.
Qed.

(* ---------- agreement with CPython's execution of the same body ---------- *)
Definition is_other (d : deco) : bool := match d with DOther => true | _ => false end.
Definition roles (ds : list deco) : list deco := filter (fun d => negb (is_other d)) ds.

Lemma roles_rev ds : roles (rev ds) = rev (roles ds).
Proof.
  unfold roles. induction ds as [|d r IH]; simpl; [reflexivity|].
  rewrite filter_app, IH. simpl. destruct (negb (is_other d)); simpl; [reflexivity|apply app_nil_r].
Qed.

Lemma existsb_roles (p : deco -> bool) ds : p DOther = false -> existsb p (roles ds) = existsb p ds.
Proof.
  intros Hp. induction ds as [|d r IH]; simpl; [reflexivity|].
  destruct d; simpl; rewrite ?IH; try reflexivity. rewrite Hp. reflexivity.
Qed.

Lemma bp_roles isp n ds : bp isp n (roles ds) = bp isp n ds.
Proof. induction ds as [|d r IH]; simpl; [reflexivity|]. destruct d; simpl; rewrite ?IH; reflexivity. Qed.

Lemma local_fn_roles t m b i n ds : local_fn t m b (mkF i n (roles ds)) = local_fn t m b (mkF i n ds).
Proof.
  unfold local_fn. simpl. rewrite !existsb_roles by reflexivity. rewrite bp_roles. reflexivity.
Qed.

Definition not_cfunc (o : cobj) : Prop := match o with CFunc _ => False | _ => True end.

Lemma apply_decos_noncfunc ds : forall c n o o' c', not_cfunc o ->
  apply_decos c n ds o = Ok (o', c') -> roles ds = [] /\ o' = o /\ c' = c.
Proof.
  induction ds as [|d r IH]; intros c n o o' c' Hn H; simpl in H.
  - inversion H; auto.
  - destruct d; destruct o; simpl in Hn; try contradiction; simpl in H; try discriminate;
      apply IH in H; simpl; auto.
Qed.

Lemma apply_deco_role_noncfunc c n d i o c' : is_other d = false ->
  apply_deco c n d (CFunc i) = Ok (o, c') -> not_cfunc o.
Proof.
  destruct d; simpl; try discriminate; intros _ H.
  - inversion H; exact I.
  - inversion H; exact I.
  - destruct (String.eqb base n); [|discriminate]. destruct (lookup base (ns c)) as [[| | |]|]; inversion H; exact I.
  - destruct (String.eqb base n); [|discriminate]. destruct (lookup base (ns c)) as [[| | |]|]; inversion H; exact I.
Qed.

Lemma apply_decos_cfunc ds : forall c n i o c',
  apply_decos c n ds (CFunc i) = Ok (o, c') ->
  (roles ds = [] /\ o = CFunc i /\ c' = c) \/
  (exists d, roles ds = [d] /\ apply_deco c n d (CFunc i) = Ok (o, c')).
Proof.
  induction ds as [|d r IH]; intros c n i o c' H; simpl in H.
  - inversion H; auto.
  - destruct (is_other d) eqn:Ed.
    + destruct d; try discriminate. simpl in H. apply IH in H. simpl. exact H.
    + destruct (apply_deco c n d (CFunc i)) as [[o1 c1]|e] eqn:Ea; [|discriminate].
      pose proof (apply_deco_role_noncfunc _ _ _ _ _ _ Ed Ea) as Hn.
      destruct (apply_decos_noncfunc _ _ _ _ _ _ Hn H) as [Hr [Ho Hc]]. subst o c'.
      right. exists d. unfold roles in *. simpl. rewrite Ed. simpl. rewrite Hr. auto.
Qed.

Definition agrees (n : string) (s : scope) (c : cstate) (att : list Z) : Prop :=
  reg n c = att ++ buf n s /\
  match lookup n (ns c) with
  | Some (CProp g st dl) => mem n s = Some (MProp g st dl)
  | Some (CFunc i) => exists ovs, mem n s = Some (MFunc i ovs)
  | Some (COtherObj i) => mem n s = Some (MOther i)
  | Some CDummy => True
  | None => mem n s = None
  end.

Definition attached_by (n : string) (it : item) (o : outcome) : list Z :=
  if String.eqb (iname it) n then match o with OImpl ovs => ovs | _ => [] end else [].

Lemma reg_assign_same n v nsx r : reg n (mkC nsx (assign n v r)) = v.
Proof. unfold reg. simpl. rewrite lookup_assign_same. reflexivity. Qed.
Lemma reg_assign_other n m v nsx r : n <> m -> reg m (mkC nsx (assign n v r)) = reg m (mkC nsx r).
Proof. intros H. unfold reg. simpl. rewrite lookup_assign_other by exact H. reflexivity. Qed.

Ltac split3 L M B HO :=
  pose proof (f_equal (fun x => fst (fst x)) L) as M; pose proof (f_equal (fun x => snd (fst x)) L) as B;
  pose proof (f_equal snd L) as HO; cbn [fst snd] in M, B, HO.

(* one definition or binder, executed by CPython without error, keeps the two views in agreement *)
Lemma step_agrees s c it c' (A : string -> list Z) :
  tracks s = true -> (forall n, agrees n s c (A n)) -> cpy_item c it = Ok c' ->
  forall n, agrees n (step s it) c' (A n ++ attached_by n it (snd (handle_item s it))).
Proof.
  intros Ht Hag Hc n.
  destruct (String.eqb (iname it) n) eqn:E.
  2:{ (* another name: nothing moves on either side *)
    apply String.eqb_neq in E. destruct (step_other_name s it n E) as [H1 H2].
    unfold attached_by. assert (E' : String.eqb (iname it) n = false) by (apply String.eqb_neq; exact E).
    rewrite E', app_nil_r. destruct (Hag n) as [G1 G2]. unfold agrees. rewrite H1, H2.
    assert (Hns : lookup n (ns c') = lookup n (ns c) /\ reg n c' = reg n c).
    { destruct it as [f|i m]; simpl in *.
      - destruct (existsb is_foreign (fdecos f)); [discriminate|].
        destruct (eval_decos c (fdecos f)); [discriminate|].
        destruct (apply_decos c (fname f) (rev (fdecos f)) (CFunc (fid f))) as [[o c1]|e] eqn:Ea; [|discriminate].
        inversion Hc; subst c'. simpl. rewrite lookup_assign_other by exact E.
        destruct (apply_decos_cfunc _ _ _ _ _ _ Ea) as [[_ [_ Hc1]]|[d [_ Hd]]].
        + subst c1. auto.
        + destruct d; simpl in Hd; try discriminate.
          * inversion Hd; subst. simpl. split; [reflexivity|]. unfold reg. simpl. rewrite lookup_assign_other by exact E. reflexivity.
          * inversion Hd; subst. auto.
          * destruct (String.eqb base (fname f)); [|discriminate].
            destruct (lookup base (ns c)) as [[| | |]|]; inversion Hd; subst; auto.
          * destruct (String.eqb base (fname f)); [|discriminate].
            destruct (lookup base (ns c)) as [[| | |]|]; inversion Hd; subst; auto.
          * inversion Hd; subst. auto.
      - inversion Hc; subst c'. simpl. rewrite lookup_assign_other by exact E. auto. }
    destruct Hns as [N1 N2]. rewrite N1, N2. auto. }
  apply String.eqb_eq in E. unfold attached_by. rewrite (proj2 (String.eqb_eq _ _) E).
  pose proof (handle_item_local s it) as L. rewrite E, Ht in L.
  destruct (Hag n) as [G1 G2].
  destruct it as [f|i m]; simpl in *.
  2:{ (* another binder *)
    subst m. inversion Hc; subst c'. split3 L M B HO. unfold agrees. simpl.
    rewrite lookup_assign_same, M, B, app_nil_r. auto. }
  destruct (existsb is_foreign (fdecos f)); [discriminate|].
  destruct (eval_decos c (fdecos f)); [discriminate|].
  destruct (apply_decos c (fname f) (rev (fdecos f)) (CFunc (fid f))) as [[o c1]|e] eqn:Ea; [|discriminate].
  inversion Hc; subst c'. clear Hc. unfold agrees. simpl. rewrite E, lookup_assign_same.
  destruct f as [i fn ds]. simpl in *. subst fn.
  rewrite <- local_fn_roles in L.
  destruct (apply_decos_cfunc _ _ _ _ _ _ Ea) as [[Hr [Ho Hc1]]|[d [Hr Hd]]];
    rewrite roles_rev in Hr.
  - (* a plain implementation *)
    apply (f_equal (@rev deco)) in Hr. rewrite rev_involutive in Hr. simpl in Hr. rewrite Hr in L.
    subst o c1. unfold local_fn in L. simpl in L. split3 L M B HO.
    rewrite M, B, HO, app_nil_r. split; [exact G1|eauto].
  - apply (f_equal (@rev deco)) in Hr. rewrite rev_involutive in Hr. simpl in Hr. rewrite Hr in L.
    destruct d; simpl in Hd; try discriminate.
    + (* an overload *)
      inversion Hd; subst o c1. unfold local_fn in L. simpl in L. split3 L M B HO.
      rewrite B, HO, app_nil_r. simpl. rewrite reg_assign_same, G1, app_assoc. auto.
    + (* a property *)
      inversion Hd; subst o c1. unfold local_fn in L. simpl in L. split3 L M B HO.
      rewrite M, B, HO, app_nil_r. auto.
    + (* a setter: CPython needs the name bound to a property, and then so does Griffe *)
      destruct (String.eqb base n) eqn:Eb; [|discriminate]. apply String.eqb_eq in Eb. subst base.
      destruct (lookup n (ns c)) as [[| |g st dl|]|] eqn:En; try discriminate.
      inversion Hd; subst o c1. rewrite G2 in L. unfold local_fn in L. simpl in L.
      rewrite String.eqb_refl in L. simpl in L. split3 L M B HO.
      rewrite M, B, HO, app_nil_r. auto.
    + destruct (String.eqb base n) eqn:Eb; [|discriminate]. apply String.eqb_eq in Eb. subst base.
      destruct (lookup n (ns c)) as [[| |g st dl|]|] eqn:En; try discriminate.
      inversion Hd; subst o c1. rewrite G2 in L. unfold local_fn in L. simpl in L.
      rewrite String.eqb_refl in L. simpl in L. split3 L M B HO.
      rewrite M, B, HO, app_nil_r. auto.
    + (* (a pass-through decorator is never a role) *)
      inversion Hd; subst o c1. unfold local_fn in L. simpl in L. split3 L M B HO.
      rewrite M, B, HO, app_nil_r. split; [exact G1|eauto].
Qed.

Lemma attached_cons n it o l :
  attached n ((it, o) :: l) = attached_by n it o ++ attached n l.
Proof. reflexivity. Qed.

Lemma bodies_agree_gen : forall its s c c' (A : string -> list Z),
  tracks s = true -> (forall n, agrees n s c (A n)) -> cpy_exec its c = Ok c' ->
  forall n, agrees n (visit_items its s) c' (A n ++ attached n (combine its (visit_log its s))).
Proof.
  induction its as [|it r IH]; intros s c c' A Ht Hag Hc n.
  - simpl in *. inversion Hc; subst c'. unfold attached. simpl. rewrite app_nil_r. apply Hag.
  - simpl in Hc. destruct (cpy_item c it) as [c1|e] eqn:Ei; [|discriminate].
    change (visit_items (it :: r) s) with (visit_items r (step s it)).
    change (visit_log (it :: r) s) with (snd (handle_item s it) :: visit_log r (step s it)).
    change (combine (it :: r) (snd (handle_item s it) :: visit_log r (step s it)))
      with ((it, snd (handle_item s it)) :: combine r (visit_log r (step s it))).
    rewrite attached_cons, app_assoc.
    apply (IH (step s it) c1 c' (fun m => A m ++ attached_by m it (snd (handle_item s it)))); auto.
    + rewrite tracks_step. exact Ht.
    + intros m. apply (step_agrees s c it c1 A); auto.
Qed.

(* THE agreement theorem.  For every module/class body that CPython executes without error (each definition
   carrying at most one role decorator, accessors only for a name currently bound to a property):
   - typing's registry for a name = the overload lists Griffe attached to the successive implementations of that
     name, concatenated in order, followed by Griffe's pending overloads of the name;
   - a name bound to a property (fget, fset, fdel) / a function / another object in CPython's namespace is the
     same property (getter, setter, deleter) / that function / that object among Griffe's members. *)
Theorem bodies_agree_with_cpython its c :
  cpy_exec its (mkC [] []) = Ok c ->
  let s0 := mkScope true [] [] in
  forall n, agrees n (visit_items its s0) c (attached n (combine its (visit_log its s0))).
Proof.
  intros Hc s0 n.
  apply (bodies_agree_gen its s0 (mkC [] []) c (fun _ => [])); auto.
  intros m. unfold agrees, reg, buf, mem. simpl. auto.
Qed.

(* the everyday case: when no earlier implementation of the name took overloads (a single overload group, the only
   shape type checkers accept), typing.get_overloads of the final function is exactly Function.overloads *)
Corollary overloads_eq_get_overloads its c n i ovs :
  cpy_exec its (mkC [] []) = Ok c ->
  let s0 := mkScope true [] [] in
  lookup n (ns c) = Some (CFunc i) ->
  mem n (visit_items its s0) = Some (MFunc i ovs) ->
  attached n (combine its (visit_log its s0)) = ovs -> buf n (visit_items its s0) = [] ->
  reg n c = ovs.
Proof.
  intros Hc s0 Hn Hm Ha Hb. destruct (bodies_agree_with_cpython its c Hc n) as [G1 _].
  fold s0 in G1. rewrite G1, Ha, Hb, app_nil_r. reflexivity.
Qed.

(* ---------- non-vacuity ---------- *)
Example overloads_example :
  let o1 := IDef (mkF 1 "g" [DOverload]) in let o2 := IDef (mkF 2 "g" [DOther; DOverload]) in
  let h := IDef (mkF 3 "h" []) in let impl := IDef (mkF 4 "g" [DOther]) in
  mem "g" (visit_items [o1; h; o2; impl] (mkScope true [] [])) = Some (MFunc 4 [1%Z; 2%Z]).
Proof. reflexivity. Qed.

Example setter_example :
  let p := IDef (mkF 1 "x" [DProperty]) in let st := IDef (mkF 2 "x" [DSetter "x"]) in let dl := IDef (mkF 3 "x" [DDeleter "x"]) in
  mem "x" (visit_items [p; st; dl] (mkScope true [] [])) = Some (MProp 1 (Some 2%Z) (Some 3%Z)).
Proof. reflexivity. Qed.

(* the same name overloaded and implemented twice (the two branches of an if/else, flattened): each implementation
   has its own two overloads; the hypotheses of branch_redefinition hold for the split between the branches *)
Example redefinition_example :
  let br1 := [IDef (mkF 1 "f" [DOverload]); IDef (mkF 2 "f" [DOverload]); IDef (mkF 3 "f" [])] in
  let br2 := [IDef (mkF 4 "f" [DOverload]); IDef (mkF 5 "f" [DOverload]); IDef (mkF 6 "f" [])] in
  let s0 := mkScope true [] [] in
  visit_log (br1 ++ br2) s0 = [OOverload; OOverload; OImpl [1%Z; 2%Z]; OOverload; OOverload; OImpl [4%Z; 5%Z]] /\
  buf "f" (visit_items br1 s0) = buf "f" s0 /\ rebinds_first "f" br2 = true /\
  mem "f" (visit_items (br1 ++ br2) s0) = mem "f" (visit_items br2 s0).
Proof. repeat split; reflexivity. Qed.

Example agreement_example :
  let body := [IDef (mkF 1 "f" [DOverload]); IDef (mkF 2 "x" [DProperty]); IDef (mkF 3 "f" [DOther; DOverload]);
               IDef (mkF 4 "x" [DSetter "x"]); IDef (mkF 5 "f" [DOther]); IBind 6 "g"; IDef (mkF 7 "g" [DOverload])] in
  cpy_exec body (mkC [] []) =
    Ok (mkC [("f", CFunc 5); ("x", CProp 2 (Some 4%Z) None); ("g", CDummy)] [("f", [1%Z; 3%Z]); ("g", [7%Z])]) /\
  members (visit_items body (mkScope true [] [])) =
    [("x", MProp 2 (Some 4%Z) None); ("f", MFunc 5 [1%Z; 3%Z]); ("g", MOther 6)] /\
  buffer (visit_items body (mkScope true [] [])) = [("g", [7%Z])].
Proof. repeat split; reflexivity. Qed.

(* the tables: classification of callable paths (generated tables are what the source says today) *)
Example classify_example :
  classify "m.C.x" "typing.overload" = DOverload /\ classify "m.C.x" "functools.cached_property" = DProperty /\
  classify "m.C.x" "m.C.x.setter" = DSetter "m.C.x" /\ classify "m.C.x" "m.C.y.deleter" = DForeign /\
  classify "m.C.x" "functools.cache" = DOther /\ classify "m.C.x" "staticmethod" = DOther.
Proof. repeat split; reflexivity. Qed.

(* a path is in at most one role table, so the order of the tests in classify is immaterial *)
Theorem classify_tables_disjoint :
  forallb (fun p => negb (in_strings p property_paths)) overload_paths = true /\
  forallb (fun p => match rsplit_dot p with
                    | Some (_, last) => match lookup last accessor_names with Some _ => false | None => true end
                    | None => true end) (overload_paths ++ property_paths) = true.
Proof. split; reflexivity. Qed.
