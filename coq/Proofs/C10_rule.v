(* C10 proofs, part 3: the members of `incompatible_kind` that look at the OLD signature (Gen/C10_rules.v).
   - the regenerated expression is the documented collision rule, or absent (collision_spec, for the tree under test);
   - completeness of the code under test (fdiff_m) modulo the gaps that remain for it (known_gap_m);
   - with the collision rule, completeness holds modulo F2 alone, and every report of the rule is call-breaking;
   - the refutation witnesses, stated for the code under test. *)
From Coq Require Import List Arith Bool Lia.
From Verif Require Import Lib.Sexp Model.C10_kinds Gen.C10_tables Gen.C10_rules Model.C10_diff Model.C10_defaults Model.C10_ext
  Proofs.C10_diff Proofs.C10_complete Proofs.C10_sound.
Import ListNotations.
Open Scope list_scope. Open Scope nat_scope.

(* ---- the regenerated old-side members say what the documented rule says (or there is none) ---- *)
Lemma collision_spec ok nk hva hvk ohva ohvk reach : ok <> nk ->
  collision_kind ok nk hva hvk ohva ohvk reach = ck_rule COLLISION_RULE ok nk hva hvk ohva ohvk reach.
Proof. destruct ok, nk, hva, hvk, ohva, ohvk, reach; intros H; try reflexivity; exfalso; apply H; reflexivity. Qed.

Lemma collide_one_ext ck1 ck2 old new op :
  (forall ok nk a b c d e, ok <> nk -> ck1 ok nk a b c d e = ck2 ok nk a b c d e) ->
  collide_one ck1 old new op = collide_one ck2 old new op.
Proof.
  intros H. unfold collide_one. destruct (find (pname op) new) as [np|]; [|reflexivity].
  destruct (kind_eqb (pkind op) (pkind np)) eqn:E; [reflexivity|].
  apply kind_eqb_neq in E. rewrite (H _ _ _ _ _ _ _ E). reflexivity.
Qed.

Theorem fdiff_m_eq old new : fdiff_m old new = fdiff_g (ck_rule COLLISION_RULE) old new.
Proof.
  unfold fdiff_m, fdiff_g, collide. apply (f_equal (fun l => fdiff old new ++ l)). apply flat_map_ext. intros op.
  apply collide_one_ext. intros. apply collision_spec. assumption.
Qed.

Lemma collide_off_gen (whole : sig) new : forall s, flat_map (collide_one (ck_rule false) whole new) s = [].
Proof.
  induction s as [|op r IH]; [reflexivity|]. simpl. rewrite IH. unfold collide_one.
  destruct (find (pname op) new); [|reflexivity]. unfold ck_rule. simpl. rewrite andb_false_r. reflexivity.
Qed.
Lemma fdiff_g_off old new : fdiff_g (ck_rule false) old new = fdiff old new.
Proof. unfold fdiff_g, collide. rewrite collide_off_gen. apply app_nil_r. Qed.

(* the table rules are part of the code under test; a report of an old-side member names a parameter whose kind changed *)
Lemma fdiff_sub ck old new b : In b (fdiff old new) -> In b (fdiff_g ck old new).
Proof. intros H. unfold fdiff_g. apply in_or_app. left. exact H. Qed.
Theorem reports_sound_g ck old new b : In b (fdiff_g ck old new) -> changed old new b.
Proof.
  unfold fdiff_g. intros H. apply in_app_or in H. destruct H as [H|H]; [apply reports_sound; exact H|].
  unfold collide in H. apply in_flat_map in H. destruct H as [op [Hop H]]. unfold collide_one in H.
  destruct (find (pname op) new) as [np|] eqn:Hf; [|destruct H].
  match type of H with In _ (if ?c then _ else _) => destruct c eqn:C end; [|destruct H].
  destruct H as [<-|[]]. simpl. exists op, np. repeat split; auto.
  apply andb_prop in C. destruct C as [C _]. apply andb_prop in C. destruct C as [C _].
  apply negb_true_iff, kind_eqb_neq in C. exact C.
Qed.

(* identical signatures are silent, whatever the old-side members *)
Theorem identical_silent_g ck s : nodup_names s = true -> fdiff_g ck s s = [].
Proof.
  intros Hnd. unfold fdiff_g. rewrite (identical_silent s Hnd). simpl. unfold collide.
  assert (G : forall l, (forall p, In p l -> find (pname p) s = Some p) -> flat_map (collide_one ck s s) l = []).
  { induction l as [|p l IH]; intros Hl; [reflexivity|]. simpl. rewrite IH by (intros q Hq; apply Hl; right; exact Hq).
    unfold collide_one. rewrite (Hl p (or_introl eq_refl)), kind_eqb_refl. reflexivity. }
  apply G. intros p Hp. apply nodup_in_find; assumption.
Qed.

(* ---- under silence of the table rules, each of F4..F7 makes the collision rule fire ---- *)
Lemma in_collide ck old new op : In op old -> collide_one ck old new op <> [] -> collide ck old new <> [].
Proof.
  intros Hin Hne E. unfold collide in E.
  destruct (collide_one ck old new op) as [|b l] eqn:C; [apply Hne; reflexivity|].
  assert (In b (flat_map (collide_one ck old new) old)) by (apply in_flat_map; exists op; split; [exact Hin|rewrite C; left; reflexivity]).
  rewrite E in H. destruct H.
Qed.

Section Gaps.
Variables old new : sig.
Hypothesis Hwo : wf old = true.
Hypothesis Hwn : wf new = true.
Hypothesis Hsilent : fdiff old new = [].

Lemma fires op np : In op old -> find (pname op) new = Some np -> pkind np = PK -> pkind op <> PK ->
  (pkind op = KO \/ has_kind VK old = true) -> accepts_more_than old (index_of (pname op) new) = true ->
  collide (ck_rule true) old new <> [].
Proof.
  intros Hin Hf Hpk Hk Hkw Hacc. apply (in_collide _ _ _ op Hin). unfold collide_one. rewrite Hf.
  destruct (old_cases old new Hsilent op Hin) as [[Hx _]|[np' [oi [Hf' [_ [_ [_ [_ [_ Hc]]]]]]]]]; [congruence|].
  rewrite Hf in Hf'. inversion Hf'; subst np'.
  assert (Hne : pkind op <> pkind np) by (rewrite Hpk; exact Hk).
  assert (E : kind_eqb (pkind op) (pkind np) = false) by (apply kind_eqb_neq; exact Hne). rewrite E. simpl.
  destruct Hc as [Hc|Hc]; [contradiction|]. rewrite (incompatible_spec _ _ _ _ Hne), Hc. simpl.
  unfold ck_rule, collision_doc. rewrite Hpk. simpl.
  unfold accepts_more_than in Hacc. rewrite Hacc.
  destruct Hkw as [Hkw|Hkw]; [rewrite Hkw; simpl; discriminate|rewrite Hkw, orb_true_r; simpl; discriminate].
Qed.

Lemma gap_fires : gaps_4567 old new = true -> collide (ck_rule true) old new <> [].
Proof.
  unfold gaps_4567. intros H.
  apply orb_prop in H. destruct H as [H|H7]; [apply orb_prop in H; destruct H as [H|H6]; [apply orb_prop in H; destruct H as [H4|H5]|]|].
  - (* F4: positional-only -> positional-or-keyword, old has a var-keyword; not moved, so the position is an old positional one *)
    unfold F4 in H4. apply andb_prop in H4. destruct H4 as [Hvk H]. apply existsb_exists in H. destruct H as [op [Hin H]].
    apply andb_prop in H. destruct H as [Hk H]. apply kind_eqb_eq in Hk.
    destruct (find (pname op) new) as [np|] eqn:Hf; [|discriminate]. apply kind_eqb_eq in H.
    apply (fires op np Hin Hf H); [rewrite Hk; discriminate|right; exact Hvk|].
    destruct (old_cases old new Hsilent op Hin) as [[Hx _]|[np' [oi [Hf' [_ [_ [Hoi [_ [Hidx _]]]]]]]]]; [congruence|].
    rewrite Hf in Hf'. inversion Hf'; subst np'.
    rewrite Hk, H in Hidx. rewrite (Hidx eq_refl eq_refl).
    unfold accepts_more_than. apply orb_true_intro. left. apply Nat.ltb_lt.
    apply (pos_prefix_lt old (wf_sorted old (wf_wfp old Hwo)) oi op Hoi). rewrite Hk. reflexivity.
  - (* F5 *)
    unfold F5 in H5. apply existsb_exists in H5. destruct H5 as [op [Hin H]].
    apply andb_prop in H. destruct H as [Hk H]. apply kind_eqb_eq in Hk.
    destruct (find (pname op) new) as [np|] eqn:Hf; [|discriminate]. apply andb_prop in H. destruct H as [H Hacc]. apply kind_eqb_eq in H.
    apply (fires op np Hin Hf H); [rewrite Hk; discriminate|left; exact Hk|exact Hacc].
  - (* F6 *)
    unfold F6 in H6. apply andb_prop in H6. destruct H6 as [_ H]. apply existsb_exists in H. destruct H as [op [Hin H]].
    apply andb_prop in H. destruct H as [Hk H]. apply kind_eqb_eq in Hk.
    destruct (find (pname op) new) as [np|] eqn:Hf; [|discriminate]. apply andb_prop in H. destruct H as [H Hacc]. apply kind_eqb_eq in H.
    apply (fires op np Hin Hf H); [rewrite Hk; discriminate|right; apply has_kind_iff; exists op; auto|exact Hacc].
  - (* F7 *)
    unfold F7 in H7. apply andb_prop in H7. destruct H7 as [H7 H]. apply andb_prop in H7. destruct H7 as [_ Hvk].
    apply existsb_exists in H. destruct H as [op [Hin H]].
    apply andb_prop in H. destruct H as [Hk H]. apply kind_eqb_eq in Hk.
    destruct (find (pname op) new) as [np|] eqn:Hf; [|discriminate]. apply andb_prop in H. destruct H as [H Hacc]. apply kind_eqb_eq in H.
    apply (fires op np Hin Hf H); [rewrite Hk; discriminate|right; exact Hvk|exact Hacc].
Qed.
End Gaps.

(* ---- completeness, parametric in whether the collision rule is present ---- *)
Theorem complete_g rule old new n K :
  wf old = true -> wf new = true -> binds old n K = true -> binds new n K = false ->
  fdiff_g (ck_rule rule) old new <> [] \/ known_gap_g rule old new = true.
Proof.
  intros Ho Hn Hb Hnb.
  destruct (fdiff old new) as [|b l] eqn:Hd.
  2:{ left. unfold fdiff_g. rewrite Hd. discriminate. }
  destruct (complete_modulo_known old new n K Ho Hn Hb Hnb) as [H|H]; [congruence|].
  unfold known_gap in H. unfold known_gap_g, gaps_4567.
  destruct (F2 old new); [right; reflexivity|]. simpl in *.
  destruct rule; simpl.
  - left. unfold fdiff_g. rewrite Hd. simpl. apply (gap_fires old new Ho Hd). unfold gaps_4567.
    destruct (F4 old new), (F5 old new), (F6 old new), (F7 old new); simpl in *; try reflexivity; discriminate.
  - right. exact H.
Qed.

(* the code under test *)
Theorem complete_modulo_known_m old new n K :
  wf old = true -> wf new = true -> binds old n K = true -> binds new n K = false ->
  fdiff_m old new <> [] \/ known_gap_m old new = true.
Proof. intros. rewrite fdiff_m_eq. unfold known_gap_m. apply (complete_g COLLISION_RULE old new n K); assumption. Qed.

(* the repaired rule set: only F2 remains *)
Theorem complete_with_collision_rule old new n K :
  wf old = true -> wf new = true -> binds old n K = true -> binds new n K = false ->
  fdiff_g (ck_rule true) old new <> [] \/ F2 old new = true.
Proof.
  intros Ho Hn Hb Hnb. destruct (complete_g true old new n K Ho Hn Hb Hnb) as [H|H]; [left; exact H|right].
  unfold known_gap_g in H. simpl in H. rewrite orb_false_r in H. exact H.
Qed.

(* ---- every report of the collision rule is call-breaking ---- *)
Theorem collision_rule_sound old new b :
  wf old = true -> wf new = true -> In b (collide (ck_rule true) old new) ->
  exists n K, witness old new b = Some (n, K) /\ binds old n K = true /\ binds new n K = false.
Proof.
  intros Ho Hn Hin.
  apply (reports_justified old new Ho Hn (ck_rule true) b); [unfold fdiff_g; apply in_or_app; right; exact Hin|].
  unfold collide in Hin. apply in_flat_map in Hin. destruct Hin as [op [Hop H]]. unfold collide_one in H.
  destruct (find (pname op) new) as [np|] eqn:Hf; [|destruct H].
  match type of H with In _ (if ?c then _ else _) => destruct c eqn:C end; [|destruct H].
  destruct H as [<-|[]]. simpl. apply negb_false_iff. unfold collides.
  rewrite (nodup_in_find old op (wf_nodup old (wf_wfp old Ho)) Hop), Hf.
  apply andb_prop in C. destruct C as [C Hck]. apply andb_prop in C. destruct C as [Hk _].
  rewrite Hk. simpl. unfold ck_rule in Hck. simpl in Hck. unfold accepts_more_than. exact Hck.
Qed.

Example collision_rule_fires :
  let old := [mk 0 VP (Some 0); mk 1 KO (Some 1)] in let new := [mk 1 PK (Some 1); mk 0 VP (Some 0)] in
  wf old = true /\ wf new = true /\ fdiff old new = [] /\ fdiff_g (ck_rule true) old new = [ChKind 1] /\
  witness old new (ChKind 1) = Some (1, [1]) /\ binds old 1 [1] = true /\ binds new 1 [1] = false /\ F2 old new = false.
Proof. repeat split; reflexivity. Qed.

(* ---- the unqualified completeness statement is false of the code under test: one witness per remaining gap ---- *)
Definition complete_at_m (old new : sig) (n : nat) (K : list nat) : Prop :=
  binds old n K = true -> binds new n K = false -> fdiff_m old new <> [].

Ltac refute := split; [reflexivity|]; split; [reflexivity|]; intros H; apply H; [reflexivity|reflexivity|].

(* F2:  old [star a, starstar b]  ->  new [c=1, star a, starstar b];  call f(0, c=0) -- with or without the collision rule *)
Theorem complete_refuted_F2_m : exists old new n K, wf old = true /\ wf new = true /\ ~ complete_at_m old new n K.
Proof.
  exists [mk 0 VP (Some 0); mk 1 VK (Some 0)], [mk 2 PK (Some 1); mk 0 VP (Some 0); mk 1 VK (Some 0)], 1, [2].
  refute. rewrite fdiff_m_eq. destruct COLLISION_RULE; reflexivity.
Qed.
(* F4..F7: as long as the code has no collision rule *)
Theorem complete_refuted_F4_m : COLLISION_RULE = false -> exists old new n K, wf old = true /\ wf new = true /\ ~ complete_at_m old new n K.
Proof.
  intros R. exists [mk 0 PO None; mk 1 VK (Some 0)], [mk 0 PK None; mk 1 VK (Some 0)], 1, [0].
  refute. rewrite fdiff_m_eq, R. reflexivity.
Qed.
Theorem complete_refuted_F5_m : COLLISION_RULE = false -> exists old new n K, wf old = true /\ wf new = true /\ ~ complete_at_m old new n K.
Proof.
  intros R. exists [mk 0 PO None; mk 1 KO None], [mk 1 PK None; mk 0 VP (Some 0)], 1, [1].
  refute. rewrite fdiff_m_eq, R. reflexivity.
Qed.
Theorem complete_refuted_F6_m : COLLISION_RULE = false -> exists old new n K, wf old = true /\ wf new = true /\ ~ complete_at_m old new n K.
Proof.
  intros R. exists [mk 2 VP (Some 0); mk 3 VK (Some 0)], [mk 3 PK (Some 2); mk 2 VP (Some 0); mk 0 VK (Some 0)], 1, [3].
  refute. rewrite fdiff_m_eq, R. reflexivity.
Qed.
Theorem complete_refuted_F7_m : COLLISION_RULE = false -> exists old new n K, wf old = true /\ wf new = true /\ ~ complete_at_m old new n K.
Proof.
  intros R. exists [mk 2 VP (Some 0); mk 1 VK (Some 0)], [mk 2 PK (Some 1); mk 0 VP (Some 0); mk 1 VK (Some 0)], 1, [2].
  refute. rewrite fdiff_m_eq, R. reflexivity.
Qed.

(* non-vacuity of the completeness theorem for the code under test *)
Example complete_m_premises_satisfiable :
  let old := [mk 0 PK None; mk 1 PK (Some 1)] in let new := [mk 0 PK None; mk 1 KO (Some 1)] in
  wf old = true /\ wf new = true /\ binds old 2 [] = true /\ binds new 2 [] = false /\
  fdiff_m old new = [ChKind 1] /\ known_gap_m old new = false.
Proof.
  split; [reflexivity|]. split; [reflexivity|]. split; [reflexivity|]. split; [reflexivity|]. split.
  - rewrite fdiff_m_eq. destruct COLLISION_RULE; reflexivity.
  - unfold known_gap_m, known_gap_g. destruct COLLISION_RULE; reflexivity.
Qed.
