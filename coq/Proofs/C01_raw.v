(* C01 raw layer proofs: the theorems of the statement language hold for every module given as raw AST nodes and
   lowered by the regenerated dispatch tables; node kinds without a visit_ method are transparent; a target that
   get_name rejects makes the assignment bind nothing. *)
From Coq Require Import List ZArith String Ascii Bool Arith Lia.
From Verif Require Import Lib.Sexp Model.C01_base Gen.C01_tables Gen.C01_dispatch Model.C01_visitor Model.C01_content Model.C01_raw
  Proofs.C01_visitor Proofs.C01_content.
Import ListNotations.
Open Scope string_scope.
Open Scope list_scope.
Open Scope nat_scope.

(* the regenerated tables fit the structure of the statement language (fails to compile when they stop doing so) *)
Example tables_ok_now : tables_ok = true.
Proof. vm_compute. reflexivity. Qed.

Lemma ll_eq : forall l,
  (fix ll (l : list rnode) {struct l} : option (list stmt) :=
     match l with
     | [] => Some []
     | x :: r => match lower x with Some x' => match ll r with Some r' => Some (x' :: r') | None => None end | None => None end
     end) l = lower_list l.
Proof. induction l; simpl; [reflexivity|]. rewrite IHl. reflexivity. Qed.
Lemma lf_eq : forall fs,
  (fix lf (fs : list (list rnode)) {struct fs} : option (list (list stmt)) :=
     match fs with
     | [] => Some []
     | f :: r => match (fix ll (l : list rnode) {struct l} : option (list stmt) :=
                          match l with
                          | [] => Some []
                          | x :: r => match lower x with Some x' => match ll r with Some r' => Some (x' :: r') | None => None end | None => None end
                          end) f with Some f' => match lf r with Some r' => Some (f' :: r') | None => None end | None => None end
     end) fs = lower_fields fs.
Proof. induction fs; simpl; [reflexivity|]. rewrite ll_eq, IHfs. reflexivity. Qed.

(* ---------- the theorems of the statement language, for every raw module ---------- *)
Theorem raw_visit_total : forall mname raw body,
  lower_module raw = Some body -> exists r, run_visit mname body = Ok r.
Proof. intros. apply visit_total. Qed.

Theorem raw_member_table : forall mname raw body r,
  lower_module raw = Some body -> run_visit mname body = Ok r ->
  map fst (r_members r) = first_names [] (level_bindings_list InModule mname false PScope body) /\
  minfo (r_members r) = run_table (level_details_list InModule mname false PScope None body) [].
Proof. intros. split; [apply one_member_per_bound_name|apply module_table]; assumption. Qed.

(* ---------- a node kind without visit_ method is transparent ---------- *)
Lemma lower_generic : forall kind fields s,
  handler_of kind = None -> lower (RNode kind PNone fields) = Some s ->
  exists fs, lower_fields fields = Some fs /\ s = SBlock (map (sub_of kind) fs).
Proof.
  intros kind fields s H L. simpl in L. rewrite lf_eq in L.
  destruct (lower_fields fields) as [fs|]; [|discriminate]. rewrite H in L. injection L as L. eauto.
Qed.

Lemma details_subs : forall k path g kind fs,
  level_details_list k path g POther None (map (sub_of kind) fs) =
  flat_map (fun f => level_details_list k path g (if str_mem kind cond_parent_kinds then PHandler else POther) None f) fs.
Proof.
  induction fs as [|f r IH]; [reflexivity|].
  change (map (sub_of kind) (f :: r)) with (SSub (str_mem kind cond_parent_kinds) f :: map (sub_of kind) r).
  change (level_details_list k path g POther None (SSub (str_mem kind cond_parent_kinds) f :: map (sub_of kind) r))
    with (level_details k path g POther (next_doc (map (sub_of kind) r) None) (SSub (str_mem kind cond_parent_kinds) f)
          ++ level_details_list k path g POther None (map (sub_of kind) r)).
  rewrite IH, ld_SSub. reflexivity.
Qed.
Lemma bindings_subs : forall k path g kind fs,
  level_bindings_list k path g POther (map (sub_of kind) fs) =
  flat_map (fun f => level_bindings_list k path g (if str_mem kind cond_parent_kinds then PHandler else POther) f) fs.
Proof.
  induction fs as [|f r IH]; [reflexivity|].
  change (map (sub_of kind) (f :: r)) with (SSub (str_mem kind cond_parent_kinds) f :: map (sub_of kind) r).
  change (level_bindings_list k path g POther (SSub (str_mem kind cond_parent_kinds) f :: map (sub_of kind) r))
    with (level_bindings k path g POther (SSub (str_mem kind cond_parent_kinds) f)
          ++ level_bindings_list k path g POther (map (sub_of kind) r)).
  rewrite IH, lb_SSub. reflexivity.
Qed.

(* for, while, with, try, except handlers, match, case clauses, and whatever other node kind has no visit_ method:
   what such a node binds at its level is exactly what the statements of its fields bind, field after field; they
   count as conditional re-assignments exactly when the kind is one handle_attribute tests the parent for *)
Theorem generic_kind_transparent : forall kind fields s,
  handler_of kind = None -> lower (RNode kind PNone fields) = Some s ->
  exists fs, lower_fields fields = Some fs /\
    forall k path g pk nd,
      level_bindings k path g pk s =
        flat_map (fun f => level_bindings_list k path g (if str_mem kind cond_parent_kinds then PHandler else POther) f) fs /\
      level_details k path g pk nd s =
        flat_map (fun f => level_details_list k path g (if str_mem kind cond_parent_kinds then PHandler else POther) None f) fs.
Proof.
  intros kind fields s H L. destruct (lower_generic kind fields s H L) as [fs [F E]]. subst s.
  exists fs. split; [exact F|]. intros. rewrite lb_SBlock, ld_SBlock, bindings_subs, details_subs. auto.
Qed.

(* ---------- targets ---------- *)
Lemma target_bad_classify : forall s, target_bad (classify_name s) = false.
Proof. intros. unfold classify_name. destruct (has_dot s); [destruct (String.prefix _ _)|]; reflexivity. Qed.

(* an assignment creates members only when get_name accepts every target (Name, or Attribute chains ending in a
   Name, as the regenerated name_builders say); one rejected target (subscript, tuple, starred, call ...) and the whole
   statement binds nothing *)
Theorem targets_accepted : forall ts,
  names_scope (map lower_target ts) = None <-> exists t, In t ts /\ get_name t = None.
Proof.
  intros. unfold names_scope.
  destruct (existsb target_bad (map lower_target ts)) eqn:E.
  - split; [intros _|reflexivity]. apply existsb_exists in E. destruct E as [x [I B]].
    apply in_map_iff in I. destruct I as [t [Et It]]. exists t. split; [exact It|]. subst x.
    unfold lower_target in B. destruct (get_name t); [|reflexivity]. rewrite target_bad_classify in B. discriminate.
  - split; [discriminate|]. intros [t [It G]].
    assert (X : existsb target_bad (map lower_target ts) = true).
    { apply existsb_exists. exists (lower_target t). split; [apply in_map; exact It|]. unfold lower_target. rewrite G. reflexivity. }
    congruence.
Qed.

(* ---------- non-vacuity ---------- *)
(*  1 try:
    2     import os
    3 except ImportError:
    4     os = None
    5 for i in x:
    6     y = 1
    7     "doc of y"
    8 a.b = z[0] = 2
    9 if TYPE_CHECKING:
   10     async def f(): ...
   11 class C:
   12     def __init__(self):
   13         self.v, w = 1, 2
   14         self.u.t = self.s = 3                                                             *)
Definition raw_sample : list rnode :=
  [RNode "Try" PNone [[RNode "Import" (PImport 2 2 [("os", "os")]) []];
                      [RNode "ExceptHandler" PNone [[RNode "Assign" (PAssign 4 4 [RT "Name" "os" []] []) []]]]; []; []];
   RNode "For" PNone [[RNode "Assign" (PAssign 6 6 [RT "Name" "y" []] []) []; RNode "Expr" (PDoc 7 7) []]; []];
   RNode "Assign" (PAssign 8 8 [RT "Attribute" "b" [RT "Name" "a" []]; RT "Subscript" "" []] []) [];
   RNode "If" (PIf "TYPE_CHECKING") [[RNode "AsyncFunctionDef" (PDef 10 10 10 "f" []) [[RNode "Expr" PNone []]]]; []];
   RNode "ClassDef" (PCls 11 11 14 "C" [])
     [[RNode "FunctionDef" (PDef 12 12 14 "__init__" [])
         [[RNode "Assign" (PAssign 13 13 [RT "Tuple" "" []] []) [];
           RNode "Assign" (PAssign 14 14 [RT "Attribute" "t" [RT "Attribute" "u" [RT "Name" "self" []]];
                                          RT "Attribute" "s" [RT "Name" "self" []]] []) []]]]]].
Example raw_sample_ok :
  exists body, lower_module raw_sample = Some body /\
    run_table (level_details_list InModule "m" false PScope None body) [] =
      [("os", mkInfo KAlias 2 2 true [] None "os");
       ("y", mkInfo KAttr 6 6 true ["module-attribute"] (Some (7, 7)) "");
       ("f", mkInfo KFun 10 10 false ["async"] None "");
       ("C", mkInfo KCls 11 14 true [] None "")] /\
    exists r, run_visit "m" body = Ok r /\
      exists c, lookup "C" (r_members r) = Some c /\
        minfo (omembers c) = [("__init__", mkInfo KFun 12 14 true [] None ""); ("s", mkInfo KAttr 14 14 true ["instance-attribute"] None "")].
Proof.
  eexists. split; [vm_compute; reflexivity|]. split; [vm_compute; reflexivity|].
  eexists. split; [vm_compute; reflexivity|]. eexists. split; vm_compute; reflexivity.
Qed.

(* ---------- extending __all__: `__all__ += x`, `__all__.extend(x)`, `__all__.append(x)` ---------- *)
(* the three forms are one and the same statement (by the regenerated tables: visit_augassign, visit_expr with
   all_receiver / all_methods); a call of another method, on another receiver, or without argument is no statement *)
Theorem all_extension_forms : forall items,
  lower (RNode "AugAssign" (PAug true items) []) = Some (SAugAll items) /\
  lower (RNode "Expr" (PCall "__all__" "extend" true items) []) = Some (SAugAll items) /\
  lower (RNode "Expr" (PCall "__all__" "append" true items) []) = Some (SAugAll items) /\
  lower (RNode "Expr" (PCall "__all__" "extend" false items) []) = Some SOther /\
  lower (RNode "Expr" (PCall "__all__" "remove" true items) []) = Some SOther /\
  lower (RNode "Expr" (PCall "" "extend" true items) []) = Some SOther /\
  lower (RNode "Expr" (PCall "other" "extend" true items) []) = Some SOther.
Proof. intros. repeat split; vm_compute; reflexivity. Qed.

(* its effect, wherever it is evaluated: on a module whose exports are already a list, and when every item is a string
   or a name, the items are appended; in every other situation (class body, __init__ body, no `__all__ = ...` seen yet,
   an item that is another constant) nothing at all changes; members, imports and events are never touched *)
Theorem all_extension_effect : forall items g pk nd own up,
  let r := sem_stmt g pk nd (SAugAll items) own up in
  l_up r = up /\ l_events r = [] /\ l_err r = None /\
  fmembers (l_own r) = fmembers own /\ fimports (l_own r) = fimports own /\
  fexports (l_own r) =
    match fkind own, fexports own with
    | InModule, Some ex => if items_ok items then Some (ex ++ items) else Some ex
    | _, e => e
    end.
Proof.
  intros. unfold r. simpl. unfold op_augall.
  destruct (fkind own) eqn:K; destruct (fexports own) eqn:E; try destruct (items_ok items);
    cbn [l_up l_events l_err l_own fmembers fimports fexports set_exports]; rewrite ?E; repeat split; reflexivity.
Qed.

(*  1 __all__.extend(["lost"])        (no __all__ yet: lost)
    2 __all__ = ["a"]
    3 __all__.extend(["b", c])
    4 __all__.append("d")
    5 __all__ += ["e"]
    6 class K:
    7     __all__.append("no")        (not a module: nothing)
    8 if x:
    9     __all__.extend(os.__all__)  (still the module)
   10 __all__.append(1)               (not a name: nothing)                                        *)
Definition all_sample : list rnode :=
  [RNode "Expr" (PCall "__all__" "extend" true ["s:lost"]) [];
   RNode "Assign" (PAssign 2 2 [RT "Name" "__all__" []] ["s:a"]) [];
   RNode "Expr" (PCall "__all__" "extend" true ["s:b"; "n:c"]) [];
   RNode "Expr" (PCall "__all__" "append" true ["s:d"]) [];
   RNode "AugAssign" (PAug true ["s:e"]) [];
   RNode "ClassDef" (PCls 6 6 7 "K" []) [[RNode "Expr" (PCall "__all__" "append" true ["s:no"]) []]];
   RNode "If" (PIf "x") [[RNode "Expr" (PCall "__all__" "extend" true ["n:__all__"]) []]; []];
   RNode "Expr" (PCall "__all__" "append" true ["c:1"]) []].
Example all_sample_ok :
  exists body r, lower_module all_sample = Some body /\ run_visit "m" body = Ok r /\
    r_exports r = Some ["s:a"; "s:b"; "n:c"; "s:d"; "s:e"; "n:__all__"].
Proof. eexists. eexists. split; [vm_compute; reflexivity|]. split; vm_compute; reflexivity. Qed.

(*  1 if not TYPE_CHECKING:
    2     import os
    3 else:
    4     import typing            (type-checking-only: the else branch of a negated test)
    5 from pkg import __all__      (the other module's list becomes this module's exports)        *)
Definition negated_sample : list rnode :=
  [RNode "If" (PIf "not TYPE_CHECKING") [[RNode "Import" (PImport 2 2 [("os", "os")]) []];
                                         [RNode "Import" (PImport 4 4 [("typing", "typing")]) []]];
   RNode "ImportFrom" (PImportFrom 5 5 [IName "__all__" "pkg.__all__"]) []].
Example negated_sample_ok :
  exists body r, lower_module negated_sample = Some body /\ run_visit "m" body = Ok r /\
    map (fun p => (fst p, iruntime (snd p))) (minfo (r_members r)) = [("os", true); ("typing", false); ("__all__", true)] /\
    r_exports r = Some ["n:__all__"].
Proof. eexists. eexists. split; [vm_compute; reflexivity|]. split; [vm_compute; reflexivity|]. split; vm_compute; reflexivity. Qed.
