(* C17 proofs, base classes: CPython's __mro_entries__ substitution vs the written bases (when it keeps them, when it
   does not), the visitor's path for a written base (Object.resolve through C04, alias chains through C17_agents),
   and the agreement of the two agents for every base list that class creation keeps. *)
From Coq Require Import List ZArith String Ascii Bool Arith Lia.
From Verif Require Import Lib.Sexp Model.C02_kinds Model.C02_params Model.C17_base Gen.C17_tables Model.C17_agents Proofs.C17_agents Model.C17_bases.
From Verif Require Model.C04_scope Proofs.C04_scope.
Import ListNotations.
Open Scope string_scope.
Open Scope list_scope.
Open Scope nat_scope.

(* ================================================================================================ *)
(* A. class creation                                                                                  *)

Lemma paths_eqb_eq a b : paths_eqb a b = true <-> a = b.
Proof.
  revert b; induction a as [|x a IH]; intros [|y b]; simpl; split; intros H; try discriminate; auto.
  - apply andb_prop in H. destruct H as [H1 H2]. apply path_eqb_eq in H1. apply IH in H2. congruence.
  - inversion H; subst. rewrite path_eqb_refl. simpl. apply IH. reflexivity.
Qed.

Lemma paths_eqb_refl a : paths_eqb a a = true.
Proof. apply paths_eqb_eq. reflexivity. Qed.

(* a base of the safe family stands for itself *)
Lemma safe_entries all later v : safe_base all later v = true -> mro_entries all later v = Some [written_path v].
Proof.
  destruct v; simpl; intros H; try discriminate; auto.
  apply andb_prop in H. destruct H as [H1 H2].
  apply negb_true_iff in H1. apply negb_true_iff in H2. rewrite H1, H2. reflexivity.
Qed.

Lemma resolve_bases_safe all vs : all_safe all vs = true -> resolve_bases all vs = Some (map written_path vs).
Proof.
  induction vs as [|v later IH]; simpl; intros H; auto.
  apply andb_prop in H. destruct H as [H1 H2].
  rewrite (safe_entries _ _ _ H1), (IH H2). reflexivity.
Qed.

(* classes, C[...] of user generics, list[int], Protocol[T], and Generic[T] unless Protocol is a base or a generic
   alias follows: class creation keeps the written bases, for every length *)
Theorem no_rewrite_when_safe vs : all_safe vs vs = true -> rewrites vs = false.
Proof.
  intros H. unfold rewrites. rewrite (resolve_bases_safe vs vs H), paths_eqb_refl. reflexivity.
Qed.

Example safe_nonvacuous :
  all_safe [VUserAlias ["m"; "G"]; VGenericT] [VUserAlias ["m"; "G"]; VGenericT] = true /\
  cpython_bases [VUserAlias ["m"; "G"]; VGenericT] = Some [["m"; "G"]; typing_generic].
Proof. split; reflexivity. Qed.

(* F8: the typing aliases of builtins, and a Generic[T] written before another generic alias *)
Theorem rewrites_typing_alias :
  let vs := [eval_base (BxSub (BxName "List")) (VTypingAlias ["typing"; "List"] ["builtins"; "list"])] in
  rewrites vs = true /\ cpython_bases vs = Some [["builtins"; "list"]; typing_generic].
Proof. split; reflexivity. Qed.

Theorem rewrites_generic_dropped :
  let vs := [eval_base (BxSub (BxName "Generic")) (VClass typing_generic true);
             eval_base (BxSub (BxName "G")) (VClass ["m"; "G"] true)] in
  rewrites vs = true /\ cpython_bases vs = Some [["m"; "G"]].
Proof. split; reflexivity. Qed.

(* subscription keeps the written path *)
Lemma written_subscript v : subscript v <> VErr -> written_path (subscript v) = written_path v.
Proof.
  destruct v as [p g|w o|o| | |o|]; simpl; intros H; auto; try contradiction.
  destruct (path_eqb p typing_generic) eqn:E1; [apply path_eqb_eq in E1; subst; reflexivity|].
  destruct (path_eqb p typing_protocol) eqn:E2; [apply path_eqb_eq in E2; subst; reflexivity|].
  destruct g; [reflexivity|].
  destruct p as [|c r]; [contradiction|].
  destruct (String.eqb c "builtins"); [reflexivity|contradiction].
Qed.

Lemma written_subscript_n k v : subscript_n k v <> VErr -> written_path (subscript_n k v) = written_path v.
Proof.
  induction k as [|k IH]; simpl; intros H; auto.
  rewrite (written_subscript _ H). apply IH. intros E. rewrite E in H. apply H. reflexivity.
Qed.

Lemma resolve_bases_no_err all vs r : resolve_bases all vs = Some r -> ~ In VErr vs.
Proof.
  revert r; induction vs as [|v later IH]; simpl; intros r H; [tauto|].
  destruct (mro_entries all later v) as [e|] eqn:Ee; [|discriminate].
  destruct (resolve_bases all later) as [r'|] eqn:Er; [|discriminate].
  intros [Hv|Hin]; [subst v; discriminate|]. exact (IH r' eq_refl Hin).
Qed.

(* ================================================================================================ *)
(* B. the two agents on a class whose written bases are kept                                         *)

(* the static path of the written base is the path under which its value is known at runtime *)
Definition denotes (sc : list sframe) (b : bexpr) (hv : bval) : Prop :=
  strip_builtins (static_base_path sc b) = strip_builtins (join_dot (written_path (eval_base b hv))).

Lemma strip_join_object : strip_builtins (join_dot builtins_object) = "object".
Proof. reflexivity. Qed.

Lemma norm_inspector r : norm_bases (inspector_bases r) = norm_bases (map join_dot r).
Proof.
  unfold norm_bases, inspector_bases. generalize inspector_skips_object. intros sk.
  induction r as [|p r IH]; [reflexivity|]. cbn [filter map].
  destruct (sk && path_eqb p builtins_object) eqn:E; cbn [negb filter map].
  - apply andb_prop in E. destruct E as [_ E]. apply path_eqb_eq in E. subst p.
    rewrite IH, strip_join_object. reflexivity.
  - rewrite IH. reflexivity.
Qed.

Lemma denotes_map sc (bs : list (bexpr * bval)) :
  Forall (fun bv => denotes sc (fst bv) (snd bv)) bs ->
  map strip_builtins (static_bases sc (map fst bs)) =
  map strip_builtins (map join_dot (map written_path (map (fun bv => eval_base (fst bv) (snd bv)) bs))).
Proof.
  intros Hd. unfold static_bases. rewrite !map_map.
  induction Hd as [|bv l Hb Hl IH]; [reflexivity|]. cbn [map]. rewrite IH. unfold denotes in Hb. rewrite Hb. reflexivity.
Qed.

Theorem bases_agree sc (bs : list (bexpr * bval)) rb :
  Forall (fun bv => denotes sc (fst bv) (snd bv)) bs ->
  cpython_bases (map (fun bv => eval_base (fst bv) (snd bv)) bs) = Some rb ->
  rewrites (map (fun bv => eval_base (fst bv) (snd bv)) bs) = false ->
  norm_bases (static_bases sc (map fst bs)) = norm_bases (inspector_bases rb).
Proof.
  intros Hd Hc Hr. set (vs := map (fun bv => eval_base (fst bv) (snd bv)) bs) in *.
  unfold cpython_bases, rewrites in *.
  destruct (resolve_bases vs vs) as [r|] eqn:Er; [|discriminate].
  apply negb_false_iff in Hr. apply paths_eqb_eq in Hr. subst r.
  assert (Hn : norm_bases (static_bases sc (map fst bs)) = norm_bases (map join_dot (map written_path vs))).
  { unfold norm_bases. f_equal. exact (denotes_map sc bs Hd). }
  rewrite Hn. rewrite norm_inspector.
  destruct (map written_path vs) as [|x r] eqn:Em.
  - inversion Hc; subst rb. reflexivity.
  - destruct (has_dup (x :: r)); [discriminate|]. inversion Hc; subst rb. reflexivity.
Qed.

(* ================================================================================================ *)
(* C. the visitor's path for a written base                                                          *)

Fixpoint find_frame (sc : list sframe) (n : string) : option (sbind * list sframe) :=
  match sc with
  | [] => None
  | f :: rest =>
      match lookup_bind n (sf_tbl f) with
      | Some b => Some (b, f :: rest)
      | None => if sf_class f then find_frame rest n else None
      end
  end.

(* Object.resolve answers with the enclosing class itself when the name is that class' name: excluded below *)
Fixpoint no_own_name (sc : list sframe) (n : string) : bool :=
  match sc with
  | [] => true
  | f :: rest =>
      match lookup_bind n (sf_tbl f) with
      | Some _ => true
      | None =>
          if sf_class f then
            match rest with
            | g :: _ => negb (String.eqb n (sf_name g) && sf_class g) && no_own_name rest n
            | [] => true
            end
          else true
      end
  end.

Lemma find_bind_frame sc n : find_bind sc n = option_map fst (find_frame sc n).
Proof.
  induction sc as [|f rest IH]; simpl; auto.
  destruct (lookup_bind n (sf_tbl f)); simpl; auto. destruct (sf_class f); auto.
Qed.

Lemma lookup_c04 n tbl :
  C04_scope.lookup n (map (fun nb : string * sbind => (fst nb, c04_member (snd nb))) tbl) = option_map c04_member (lookup_bind n tbl).
Proof.
  induction tbl as [|[k v] r IH]; simpl; auto. destruct (String.eqb k n); simpl; auto.
Qed.

Lemma c04_not_function f : C04_scope.is_function (c04_frame f) = false.
Proof. unfold C04_scope.is_function, c04_frame. simpl. destruct (sf_class f); reflexivity. Qed.

Lemma c04_is_module f : C04_scope.is_module (c04_frame f) = negb (sf_class f).
Proof. unfold C04_scope.is_module, c04_frame. simpl. destruct (sf_class f); reflexivity. Qed.

Theorem resolve_spec sc n : no_own_name sc n = true ->
  C04_scope.resolve (c04_chain sc) n =
  match find_frame sc n with
  | Some (b, suffix) => Some (C04_scope.member_path (c04_chain suffix) n (c04_member b))
  | None => None
  end.
Proof.
  induction sc as [|f rest IH]; intros H; [reflexivity|].
  simpl in H. cbn [c04_chain map C04_scope.resolve find_frame].
  rewrite (Proofs.C04_scope.g_bind_nonfunction _ _ _ (c04_not_function f)).
  cbn [c04_frame C04_scope.fmembers]. rewrite lookup_c04.
  destruct (lookup_bind n (sf_tbl f)) as [b|] eqn:El; simpl option_map; cbv iota.
  - reflexivity.
  - rewrite c04_is_module. destruct (sf_class f) eqn:Ec; simpl negb; cbv iota; [|reflexivity].
    destruct rest as [|g r]; [reflexivity|].
    apply andb_prop in H. destruct H as [H1 H2].
    cbn [map]. rewrite c04_is_module. cbn [c04_frame C04_scope.fname].
    apply negb_true_iff in H1. rewrite negb_involutive. rewrite H1. apply IH. exact H2.
Qed.

Lemma join_dot_snoc t a : t <> [] -> join_dot (t ++ [a]) = (join_dot t ++ "." ++ a)%string.
Proof.
  induction t as [|x t IH]; intros H; [contradiction|].
  destruct t as [|y t]; [reflexivity|].
  assert (Hy : y :: t <> []) by discriminate. specialize (IH Hy).
  change (join_dot ((x :: y :: t) ++ [a])) with (x ++ "." ++ join_dot ((y :: t) ++ [a]))%string.
  rewrite IH. change (join_dot (x :: y :: t)) with (x ++ "." ++ join_dot (y :: t))%string.
  rewrite <- !Proofs.C04_scope.sapp_assoc. reflexivity.
Qed.

Lemma dotted_join t segs : t <> [] -> C04_scope.dotted_from (join_dot t) segs = join_dot (t ++ segs).
Proof.
  revert t; induction segs as [|a segs IH]; intros t H; simpl.
  - rewrite app_nil_r. reflexivity.
  - unfold C04_scope.dotted_from in *. simpl.
    replace (t ++ a :: segs) with ((t ++ [a]) ++ segs) by (rewrite <- app_assoc; reflexivity).
    rewrite <- IH by (destruct t; discriminate). rewrite join_dot_snoc by exact H. reflexivity.
Qed.

Lemma anode_root_segs r segs :
  C04_scope.aroot (anode_of r segs) = r /\ C04_scope.asegs (anode_of r segs) = segs.
Proof.
  unfold anode_of.
  assert (G : forall x, C04_scope.aroot (fold_left C04_scope.AAttr segs x) = C04_scope.aroot x /\
                        C04_scope.asegs (fold_left C04_scope.AAttr segs x) = C04_scope.asegs x ++ segs).
  { induction segs as [|a segs IH]; intros x; simpl; [rewrite app_nil_r; auto|].
    destruct (IH (C04_scope.AAttr x a)) as [H1 H2]. rewrite H1, H2. simpl. rewrite <- app_assoc. auto. }
  destruct (G (C04_scope.AName r)) as [H1 H2]. simpl in *. auto.
Qed.

(* ---- the path stored for `Name` / `Name[...]`, per kind of binding *)
Definition chain_ok (c : list hop) (D : list string) (q : string) : Prop := chain_paths_ok c /\ cpy_chain_ok c D q = true.

Theorem static_base_name sc b n :
  bhead b = BxName n -> no_own_name sc n = true ->
  static_base_path sc b =
  match find_frame sc n with
  | None => n                                                              (* unresolved: a builtin *)
  | Some (SLocal, suffix) => (C04_scope.path_of (c04_chain suffix) ++ "." ++ n)%string
  | Some (SExt t, _) => join_dot t
  | Some (SChain c D q, _) =>
      match static_final c (D ++ [q]) with
      | Some f => join_dot f
      | None => match alias_target (SChain c D q) with Some t => join_dot t | None => "" end
      end
  end.
Proof.
  intros Hh Hn. unfold static_base_path, canonical_base. rewrite Hh.
  unfold C04_scope.canonical. rewrite (resolve_spec sc n Hn), find_bind_frame.
  destruct (find_frame sc n) as [[b' suffix]|]; simpl; [|reflexivity].
  destruct b' as [|c D q|t]; simpl; try reflexivity.
  destruct (static_final c (D ++ [q])) as [f|]; [reflexivity|].
  unfold c04_member. destruct c as [|h c']; reflexivity.
Qed.

Corollary static_base_chain sc b n c D q suffix :
  bhead b = BxName n -> no_own_name sc n = true -> find_frame sc n = Some (SChain c D q, suffix) -> chain_ok c D q ->
  static_base_path sc b = join_dot (D ++ [q]).
Proof.
  intros Hh Hn Hf [Hp Hc]. rewrite (static_base_name sc b n Hh Hn), Hf.
  rewrite (chain_static_final c D q Hp Hc). reflexivity.
Qed.

(* `root.seg...` / `root.seg...[...]` with root bound by an external import *)
Theorem static_base_attr sc b r segs t suffix :
  bhead b = BxAttr r segs -> no_own_name sc r = true -> find_frame sc r = Some (SExt t, suffix) -> t <> [] ->
  static_base_path sc b = join_dot (t ++ segs).
Proof.
  intros Hh Hn Hf Ht. unfold static_base_path, canonical_base. rewrite Hh.
  rewrite Proofs.C04_scope.attribute_chain_segmentwise.
  destruct (anode_root_segs r segs) as [H1 H2]. rewrite H1, H2.
  unfold C04_scope.canonical. rewrite (resolve_spec sc r Hn), Hf. simpl.
  apply dotted_join. exact Ht.
Qed.

(* ---- a written base is well bound when the binding of its head, seen statically, leads to the class it denotes *)
Inductive well_bound (sc : list sframe) : bexpr -> bval -> Prop :=
| WBLocal b n suffix p g :
    bhead b = BxName n -> no_own_name sc n = true -> find_frame sc n = Some (SLocal, suffix) ->
    join_dot p = (C04_scope.path_of (c04_chain suffix) ++ "." ++ n)%string ->        (* __module__.__qualname__ of a class defined there *)
    well_bound sc b (VClass p g)
| WBChain b n c D q suffix g :
    bhead b = BxName n -> no_own_name sc n = true -> find_frame sc n = Some (SChain c D q, suffix) -> chain_ok c D q ->
    well_bound sc b (VClass (D ++ [q]) g)
| WBExt b n t suffix hv :
    bhead b = BxName n -> no_own_name sc n = true -> find_frame sc n = Some (SExt t, suffix) -> written_path hv = t ->
    well_bound sc b hv
| WBAttr b r segs t suffix hv :
    bhead b = BxAttr r segs -> no_own_name sc r = true -> find_frame sc r = Some (SExt t, suffix) -> t <> [] ->
    written_path hv = t ++ segs ->
    well_bound sc b hv
| WBBuiltin b n g :
    bhead b = BxName n -> no_own_name sc n = true -> find_frame sc n = None ->
    String.prefix "builtins." n = false ->                                   (* an identifier has no dot *)
    well_bound sc b (VClass ["builtins"; n] g).

Lemma substring_all n : String.substring 0 (String.length n) n = n.
Proof. induction n as [|c n IH]; simpl; [reflexivity|]. rewrite IH. reflexivity. Qed.

Lemma strip_builtins_name n : strip_builtins ("builtins." ++ n)%string = n.
Proof.
  assert (P : String.prefix "builtins." ("builtins." ++ n)%string = true) by (simpl; destruct n; reflexivity).
  unfold strip_builtins. rewrite P.
  change (String.length ("builtins." ++ n)%string) with (9 + String.length n).
  replace (9 + String.length n - 9) with (String.length n) by lia.
  change (String.substring 9 (String.length n) ("builtins." ++ n)%string) with (String.substring 0 (String.length n) n).
  apply substring_all.
Qed.

Lemma well_bound_denotes sc b hv :
  well_bound sc b hv -> eval_base b hv <> VErr -> denotes sc b hv.
Proof.
  intros W He. unfold denotes, eval_base in *. rewrite (written_subscript_n _ _ He).
  destruct W as [b n suffix p g Hh Hn Hf Hp|b n c D q suffix g Hh Hn Hf Hc|b n t suffix hv Hh Hn Hf Hw
                |b r segs t suffix hv Hh Hn Hf Ht Hw|b n g Hh Hn Hf Hpre].
  - rewrite (static_base_name sc b n Hh Hn), Hf. simpl. rewrite Hp. reflexivity.
  - rewrite (static_base_chain sc b n c D q suffix Hh Hn Hf Hc). reflexivity.
  - rewrite (static_base_name sc b n Hh Hn), Hf, Hw. reflexivity.
  - rewrite (static_base_attr sc b r segs t suffix Hh Hn Hf Ht), Hw. reflexivity.
  - rewrite (static_base_name sc b n Hh Hn), Hf. simpl written_path.
    change (join_dot ["builtins"; n]) with ("builtins." ++ n)%string. rewrite strip_builtins_name.
    unfold strip_builtins. rewrite Hpre. reflexivity.
Qed.

(* the theorem: for every class definition, in any scope, with any number of written bases, each well bound: unless
   class creation rewrites the bases (F8), the Visitor's and the Inspector's base lists are the same (builtins without
   module prefix, object left out), and the Inspector's list is CPython's __bases__ without object *)
Theorem bases_agree_well_bound sc (bs : list (bexpr * bval)) rb :
  Forall (fun bv => well_bound sc (fst bv) (snd bv)) bs ->
  cpython_bases (map (fun bv => eval_base (fst bv) (snd bv)) bs) = Some rb ->
  rewrites (map (fun bv => eval_base (fst bv) (snd bv)) bs) = false ->
  norm_bases (static_bases sc (map fst bs)) = norm_bases (inspector_bases rb) /\
  inspector_bases rb = map join_dot (filter (fun p => negb (path_eqb p builtins_object)) rb).
Proof.
  intros Hw Hc Hr. split; [|reflexivity].
  apply bases_agree; auto.
  assert (Hne : ~ In VErr (map (fun bv => eval_base (fst bv) (snd bv)) bs)).
  { unfold cpython_bases in Hc.
    destruct (resolve_bases _ _) as [r|] eqn:Er; [|discriminate]. exact (resolve_bases_no_err _ _ _ Er). }
  apply Forall_forall. intros bv Hin.
  apply well_bound_denotes.
  - exact (proj1 (Forall_forall _ bs) Hw bv Hin).
  - intros E. apply Hne. apply in_map_iff. exists bv. split; auto.
Qed.

(* non-vacuity: `class K(G[T], Imp, typing.Generic[T], Exception)` in module m.a, G defined there, Imp imported through
   a re-export, inside a nested class body *)
Definition ex_hop1 : hop := mkHop (mkMod ["m"; "a"] false) (mkImp 1 ["b"] "Imp" None).
Definition ex_hop2 : hop := mkHop (mkMod ["m"; "b"] false) (mkImp 0 ["m"; "c"] "Base" (Some "Imp")).
Definition ex_scope : list sframe :=
  [mkSF true "Outer" [("x", SLocal)];
   mkSF false "m.a" [("G", SLocal); ("Outer", SLocal); ("Imp", SChain [ex_hop1; ex_hop2] ["m"; "c"] "Base"); ("typing", SExt ["typing"])]].
Definition ex_bases : list (bexpr * bval) :=
  [(BxSub (BxName "G"), VClass ["m"; "a"; "G"] true);
   (BxName "Imp", VClass ["m"; "c"; "Base"] false);
   (BxSub (BxAttr "typing" ["Generic"]), VClass typing_generic true);
   (BxName "Exception", VClass ["builtins"; "Exception"] false)].

Example bases_agree_nonvacuous :
  Forall (fun bv => well_bound ex_scope (fst bv) (snd bv)) ex_bases /\
  cpython_bases (map (fun bv => eval_base (fst bv) (snd bv)) ex_bases) =
    Some [["m"; "a"; "G"]; ["m"; "c"; "Base"]; typing_generic; ["builtins"; "Exception"]] /\
  rewrites (map (fun bv => eval_base (fst bv) (snd bv)) ex_bases) = false /\
  static_bases ex_scope (map fst ex_bases) = ["m.a.G"; "m.c.Base"; "typing.Generic"; "Exception"].
Proof.
  split; [|repeat split; reflexivity].
  apply Forall_cons; [|apply Forall_cons; [|apply Forall_cons; [|apply Forall_cons; [|apply Forall_nil]]]]; cbn [fst snd].
  - eapply WBLocal with (n := "G"); reflexivity.
  - change (VClass ["m"; "c"; "Base"] false) with (VClass (["m"; "c"] ++ ["Base"]) false).
    eapply WBChain with (n := "Imp"); try reflexivity. split; [|reflexivity].
    intros h [H|[H|[]]]; subst h; discriminate.
  - eapply WBAttr with (r := "typing") (segs := ["Generic"]); try reflexivity. discriminate.
  - eapply WBBuiltin with (n := "Exception"); reflexivity.
Qed.

(* ---- the path stored for a base name is the binding CPython's scoping finds (C04's theorem on these chains) *)
Theorem base_name_python_binding sc n :
  C04_scope.wf_chain (c04_chain sc) = true -> C04_scope.gap_class (c04_chain sc) n = false ->
  C04_scope.resolve (c04_chain sc) n = C04_scope.py_lookup (c04_chain sc) n.
Proof. apply Proofs.C04_scope.resolve_eq_python_modulo_known. Qed.

Example base_name_python_binding_nonvacuous :
  C04_scope.wf_chain (c04_chain ex_scope) = true /\ C04_scope.gap_class (c04_chain ex_scope) "G" = false /\
  C04_scope.py_lookup (c04_chain ex_scope) "G" = Some "m.a.G".
Proof. repeat split; reflexivity. Qed.
