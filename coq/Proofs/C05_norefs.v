(* C05: the real traversal against CPython, end to end, for a decidable sub-class: programs whose __all__ statements list strings
   only (no list assembled from another module's __all__) and for which the order in which the wildcard phase of griffe_load completes
   the modules is itself an order in which CPython can import them.  No schedule is assumed: the result of griffe_load itself agrees
   with CPython. *)
From Coq Require Import List ZArith String Ascii Bool Arith Lia.
From Verif Require Import Lib.Sexp Model.C05_imports Model.C05_wf Proofs.C05_imports Proofs.C05_step Proofs.C05_main Proofs.C05_real Proofs.C05_realw.
Import ListNotations.
Open Scope string_scope.
Open Scope list_scope.
Open Scope nat_scope.

Definition no_refs_table (t : table) : Prop :=
  forall q st ex, get_mod t q = Some st -> exports st = Some ex -> only_strings ex.

Lemma set_mod_same_entry t p st : get_mod t p = Some st -> set_mod t p st = t.
Proof.
  induction t as [|[q s] r IH]; simpl; try discriminate.
  destruct (path_eqb q p) eqn:E; intros H.
  - inversion H; subst. reflexivity.
  - f_equal. auto.
Qed.

Lemma fold_sitem_strings fl t top mp st : forall its acc, only_strings its -> fold_left (sitem fl t top mp st) its acc = acc ++ its.
Proof.
  induction its as [|[x|l a] its IH]; intros acc Ho; simpl.
  - rewrite app_nil_r. reflexivity.
  - rewrite IH; [rewrite <- app_assoc; reflexivity|]. intros r0 a0 Hin. apply (Ho r0 a0). right. auto.
  - exfalso. apply (Ho l a). left. auto.
Qed.

(* the exports step is the identity on a table without references *)
Lemma exports_step_id fl top t m : no_refs_table t -> sched_exports_step fl top t m = t.
Proof.
  intros Hn. unfold sched_exports_step. destruct (get_mod t m) as [st|] eqn:Eg; auto.
  destruct (exports st) as [ex|] eqn:Ee; auto.
  rewrite sched_items_fold, (fold_sitem_strings _ _ _ _ _ ex [] (Hn m st ex Eg Ee)). simpl.
  unfold set_exports. rewrite Eg. rewrite <- Ee. destruct st; simpl. apply set_mod_same_entry. exact Eg.
Qed.

Lemma xsteps_id fl top order : forall t, no_refs_table t -> fold_left (sched_exports_step fl top) order t = t.
Proof. induction order as [|m o IH]; intros t Hn; simpl; auto. rewrite exports_step_id; auto. Qed.

Lemma wild_step_no_refs fl top t m : no_refs_table t -> no_refs_table (sched_wild_step fl top t m).
Proof.
  intros Hn q st ex Hg He. unfold sched_wild_step in Hg. destruct (get_mod t m) as [stm|] eqn:Em; [|eapply Hn; eauto].
  unfold set_mod_members in Hg. rewrite Em in Hg. destruct (path_eqb m q) eqn:E.
  - apply path_eqb_eq in E. subst q. rewrite (get_set_same t m _ stm Em) in Hg. inversion Hg; subst st. simpl in He. eapply Hn; eauto.
  - rewrite get_set_other in Hg by (intros Heq; subst; rewrite path_eqb_refl in E; discriminate). eapply Hn; eauto.
Qed.

(* without references the schedule is the wildcard steps alone *)
Lemma sched_is_wild_steps fl top order : forall t, no_refs_table t ->
  fold_left (sched_step fl top) order t = fold_left (sched_wild_step fl top) order t.
Proof.
  induction order as [|m o IH]; intros t Hn; simpl; auto.
  unfold sched_step at 2. rewrite exports_step_id by auto. apply IH. apply wild_step_no_refs. auto.
Qed.

(* the initial table of a program without references *)
Lemma strings_only_ok its : strings_only its = true -> only_strings its.
Proof.
  unfold strings_only. rewrite forallb_forall. intros H r a Hin. specialize (H _ Hin). discriminate.
Qed.

Lemma all_items_strings body : forall acc ex,
  (forall s, In s body -> strings_only (items_of s) = true) ->
  (forall e, acc = Some e -> only_strings e) ->
  all_items acc body = Some ex -> only_strings ex.
Proof.
  induction body as [|s body IH]; intros acc ex Hb Ha H; simpl in H.
  - eapply Ha; eauto.
  - assert (Hs : only_strings (items_of s)) by (apply strings_only_ok; apply Hb; left; auto).
    assert (Hb' : forall s', In s' body -> strings_only (items_of s') = true) by (intros s' Hs'; apply Hb; right; auto).
    assert (Happ : forall e, acc = Some e -> forall its, only_strings its -> only_strings (e ++ its)).
    { intros e He its Hi r a Hin. apply in_app_or in Hin. destruct Hin; [eapply Ha; eauto|eapply Hi; eauto]. }
    destruct s as [ln x k|ln T x asn bare|ln T|ln T asn|ln its|ln its|ln its]; try (eapply IH; eauto; fail).
    + eapply (IH (Some its)); eauto. intros e He. inversion He; subst. exact Hs.
    + eapply IH; [exact Hb'| |exact H]. intros e He. destruct acc as [e0|]; inversion He; subst. apply (Happ e0 eq_refl). exact Hs.
    + eapply IH; [exact Hb'| |exact H]. intros e He. destruct acc as [e0|]; inversion He; subst. apply (Happ e0 eq_refl). exact Hs.
Qed.

Lemma initial_no_refs ms : no_refsb ms = true -> no_refs_table (initial_table ms).
Proof.
  unfold no_refsb. rewrite forallb_forall. intros H q st ex Hg He. rewrite get_mod_initial in Hg.
  destruct (src_of ms q) as [m|] eqn:Es; try discriminate. inversion Hg; subst st.
  unfold visit_module in He. rewrite attach_exports in He. unfold visit_body in He. rewrite visit_exports in He.
  unfold src_of in Es. apply find_some in Es. destruct Es as [Hin _]. specialize (H m Hin). rewrite forallb_forall in H.
  eapply all_items_strings; [exact H| |exact He]. intros e He0. discriminate.
Qed.

(* The real traversal agrees with CPython: for every program without assembled __all__ lists for which the order `o` in which the
   wildcard phase of griffe_load completes the modules satisfies the hypotheses of the composition theorem (in particular CPython can
   import the modules in that order), the table griffe_load produces binds in every module exactly the names CPython binds, to the
   same objects, with the same __all__. *)
Theorem real_traversal_agrees top ms l pt :
  griffe_load top ms = Done l ->
  no_refsb ms = true ->
  let o := load_wild_order top ms in
  ok_runb (S (List.length ms * 8 + 64)) top o (initial_table ms) = true ->
  wf_prog top ms o = true ->
  py_import ms o [] = POk pt ->
  wf_run ms pt = true ->
  agreeb top (l_table l) pt = true.
Proof.
  unfold griffe_load, load_wild_order. intros Hl Hnr.
  destruct (expx (total_fuel ms) top [top] (mkX (initial_table ms) [] false [] [] [] [])) as [x| |] eqn:Ex; try discriminate.
  destruct (expw (total_fuel ms) top [top] (mkW (xt x) [] [] [] (xunsup x) [] [])) as [w| |] eqn:Ew; try discriminate.
  inversion Hl; subst l. simpl. intros Hok Hwf Hpy Hrun.
  pose proof (initial_no_refs ms Hnr) as Hn0.
  destruct (load_phases_decidable top ms x w Ex Ew) as [_ Hw]. simpl in Hw.
  rewrite (xsteps_id _ top (rev (xdone x)) _ Hn0) in Hw. rewrite (Hw Hok).
  rewrite <- (sched_is_wild_steps _ top (rev (wdone w)) _ Hn0).
  apply (sched_agrees_with_cpython top ms (rev (wdone w)) pt Hwf Hpy Hrun).
Qed.

(* non-vacuity: a chain of wildcard re-exports with an override *)
Definition w14 : list modsrc :=
  [mkSrc ["r"] true ["a"; "b"] [SStar 1 ["r"; "b"]; SDef 2 "g" KFunc];
   mkSrc ["r"; "a"] false [] [SSetAll 1 [IStr "f"; IStr "g"]; SDef 2 "f" KFunc; SDef 4 "g" KFunc; SDef 6 "_p" KFunc];
   mkSrc ["r"; "b"] false [] [SDef 1 "f" KFunc; SStar 3 ["r"; "a"]; SDef 4 "K" KClass]].

Example real_traversal_theorem_not_vacuous :
  exists l pt,
    griffe_load "r" w14 = Done l /\ no_refsb w14 = true /\
    load_wild_order "r" w14 = [["r"; "a"]; ["r"; "b"]; ["r"]] /\
    ok_runb (S (List.length w14 * 8 + 64)) "r" (load_wild_order "r" w14) (initial_table w14) = true /\
    wf_prog "r" w14 (load_wild_order "r" w14) = true /\
    py_import w14 (load_wild_order "r" w14) [] = POk pt /\ wf_run w14 pt = true /\
    agreeb "r" (l_table l) pt = true.
Proof.
  eexists. eexists. split; [vm_compute; reflexivity|]. split; [vm_compute; reflexivity|]. split; [vm_compute; reflexivity|].
  split; [vm_compute; reflexivity|]. split; [vm_compute; reflexivity|]. split; [vm_compute; reflexivity|]. split; vm_compute; reflexivity.
Qed.
