(* C13 proofs, part 1: facts about the string functions of Model/C13_strings.v. *)
From Coq Require Import List Ascii String Bool Arith Lia.
From Verif Require Import Model.C13_strings.
Import ListNotations.
Open Scope char_scope.
Open Scope list_scope.
Open Scope nat_scope.

Arguments ceq : simpl never.
Arguments spaces : simpl never.
Arguments is_space : simpl never.
Arguments is_word : simpl never.
Arguments printable : simpl never.
Arguments is_paren : simpl never.

(* ---- characters: facts about all 256 characters are proved by enumeration *)
Ltac all_chars c := destruct c as [[] [] [] [] [] [] [] []]; vm_compute; try reflexivity; try discriminate; try (intros; discriminate); try (intros; reflexivity); auto.

Lemma ceq_eq : forall a b, ceq a b = true <-> a = b.
Proof. intros; unfold ceq; apply Ascii.eqb_eq. Qed.

Lemma ceq_refl : forall a, ceq a a = true.
Proof. intros; apply ceq_eq; reflexivity. Qed.

Lemma ceq_neq : forall a b, ceq a b = false <-> a <> b.
Proof. intros; unfold ceq; apply Ascii.eqb_neq. Qed.

Lemma printable_space : forall c, printable c = true -> is_space c = ceq c sp.
Proof. intro c; all_chars c. Qed.

Lemma printable_not_nl : forall c, printable c = true -> ceq nl c = false.
Proof. intro c; all_chars c. Qed.

Lemma word_printable : forall c, is_word c = true -> printable c = true.
Proof. intro c; all_chars c. Qed.

Lemma word_not_space : forall c, is_word c = true -> is_space c = false.
Proof. intro c; all_chars c. Qed.

Lemma word_not_sp : forall c, is_word c = true -> ceq c sp = false.
Proof. intro c; all_chars c. Qed.

Lemma word_not_colon : forall c, is_word c = true -> ceq c ":" = false.
Proof. intro c; all_chars c. Qed.

Lemma word_not_lparen : forall c, is_word c = true -> ceq c "(" = false.
Proof. intro c; all_chars c. Qed.

Lemma space_not_word : forall c, is_space c = true -> is_word c = false.
Proof. intro c; all_chars c. Qed.

Lemma sp_is_space : is_space sp = true.
Proof. reflexivity. Qed.

(* ---- spaces *)
Lemma spaces_0 : spaces 0 = [].
Proof. reflexivity. Qed.

Lemma spaces_S : forall n, spaces (S n) = sp :: spaces n.
Proof. reflexivity. Qed.

Lemma spaces_app : forall n m, spaces (n + m) = spaces n ++ spaces m.
Proof. intros; unfold spaces; apply repeat_app. Qed.

Lemma skipn_spaces : forall n s, skipn n (spaces n ++ s) = s.
Proof. induction n; intros; [reflexivity|]. rewrite spaces_S. simpl. apply IHn. Qed.

Definition unind (l : str) : bool := negb (startswith [sp] l).

Lemma unind_cons : forall c s, unind (c :: s) = negb (ceq sp c).
Proof. intros; unfold unind; simpl. rewrite andb_true_r. reflexivity. Qed.

(* a string that does not begin with a blank *)
Definition nsp_head (s : str) : bool := match s with c :: _ => negb (is_space c) | [] => false end.

Lemma startswith_spaces_le : forall m n s, m <= n -> startswith (spaces m) (spaces n ++ s) = true.
Proof.
  induction m; intros; [reflexivity|].
  destruct n; [lia|]. rewrite !spaces_S. simpl; rewrite ?ceq_refl; simpl. apply IHm. lia.
Qed.

Lemma nsp_head_ceq : forall c s, nsp_head (c :: s) = true -> ceq sp c = false.
Proof.
  intros. simpl in H. destruct (ceq sp c) eqn:E; auto. apply ceq_eq in E. subst c.
  rewrite ?sp_is_space in H. simpl in H. discriminate.
Qed.

Lemma startswith_spaces_gt : forall m n s, n < m -> nsp_head s = true -> startswith (spaces m) (spaces n ++ s) = false.
Proof.
  induction m; intros; [lia|]. rewrite spaces_S.
  destruct n.
  - rewrite spaces_0. simpl. destruct s as [|c s]; auto.
    rewrite (nsp_head_ceq _ _ H0). reflexivity.
  - rewrite spaces_S. simpl; rewrite ?ceq_refl; simpl. apply IHm; auto. lia.
Qed.

(* a line that does not begin with a blank stops every indented block *)
Lemma startswith_spaces_stop : forall m l, 1 <= m -> unind l = true -> startswith (spaces m) l = false.
Proof.
  destruct m; intros; [lia|]. rewrite spaces_S. simpl. destruct l; auto.
  rewrite unind_cons in H0. destruct (ceq sp a); simpl in *; auto. discriminate.
Qed.

Lemma is_empty_spaces_app : forall n s, is_empty_line (spaces n ++ s) = is_empty_line s.
Proof. induction n; intros; [reflexivity|]. rewrite spaces_S. simpl. rewrite ?sp_is_space. simpl. apply IHn. Qed.

Lemma nsp_head_not_empty : forall s, nsp_head s = true -> is_empty_line s = false.
Proof. destruct s; simpl; intros; [discriminate|]. destruct (is_space a); simpl in *; auto; discriminate. Qed.

Lemma indent_of_nsp : forall s, nsp_head s = true -> indent_of s = 0.
Proof. destruct s; simpl; intros; [discriminate|]. destruct (is_space a); simpl in *; auto; discriminate. Qed.

Lemma indent_of_spaces : forall n s, nsp_head s = true -> indent_of (spaces n ++ s) = n.
Proof.
  induction n; intros.
  - rewrite spaces_0. simpl. apply indent_of_nsp; auto.
  - rewrite spaces_S. simpl. rewrite ?sp_is_space. rewrite IHn; auto.
Qed.

Lemma lstrip_nsp : forall s, nsp_head s = true -> lstrip s = s.
Proof. destruct s; simpl; intros; auto. destruct (is_space a); simpl in *; auto; discriminate. Qed.

Lemma lstrip_spaces : forall n s, lstrip (spaces n ++ s) = lstrip s.
Proof. induction n; intros; [reflexivity|]. rewrite spaces_S. simpl. rewrite ?sp_is_space. apply IHn. Qed.

Lemma lstrip_sp_cons : forall s, lstrip (sp :: s) = lstrip s.
Proof. intros. simpl. rewrite ?sp_is_space. reflexivity. Qed.

(* ---- split at the first occurrence of a character *)
Lemma split_first_app : forall c a b, contains_char c a = false -> split_first c (a ++ c :: b) = Some (a, b).
Proof.
  induction a; intros; simpl.
  - rewrite ceq_refl. reflexivity.
  - simpl in H. apply orb_false_iff in H. destruct H as [H1 H2].
    assert (ceq a c = false). { destruct (ceq a c) eqn:E; auto. apply ceq_eq in E. subst. rewrite ceq_refl in H1. discriminate. }
    rewrite H. rewrite IHa; auto.
Qed.

Lemma split_first_none : forall c s, contains_char c s = false -> split_first c s = None.
Proof.
  induction s; intros; simpl; auto.
  simpl in H. apply orb_false_iff in H. destruct H as [H1 H2].
  assert (ceq a c = false). { destruct (ceq a c) eqn:E; auto. apply ceq_eq in E. subst. rewrite ceq_refl in H1. discriminate. }
  rewrite H, IHs; auto.
Qed.

Lemma contains_char_app : forall c a b, contains_char c (a ++ b) = contains_char c a || contains_char c b.
Proof. intros; unfold contains_char; apply existsb_app. Qed.

(* ---- span *)
Lemma span_app : forall f a b, forallb f a = true -> (match b with c :: _ => f c = false | [] => True end) -> span f (a ++ b) = (a, b).
Proof.
  induction a as [|x a IH]; intros b H H0; simpl.
  - destruct b; auto. simpl. rewrite H0. reflexivity.
  - simpl in H. apply andb_true_iff in H. destruct H as [H1 H2]. rewrite H1. rewrite IH; auto.
Qed.

(* ---- rstrip("\n"), join *)
Lemma rstrip_by_all : forall f s, forallb f s = true -> rstrip_by f s = [].
Proof.
  induction s as [|x s IH]; intros H; simpl; auto. simpl in H. apply andb_true_iff in H. destruct H as [H1 H2].
  rewrite IH; auto. rewrite H1. reflexivity.
Qed.

Lemma rstrip_by_app_drop : forall f s t, forallb f t = true -> rstrip_by f (s ++ t) = rstrip_by f s.
Proof.
  induction s as [|x s IH]; intros t H; simpl.
  - apply rstrip_by_all; auto.
  - rewrite IH; auto.
Qed.

Lemma rstrip_by_snoc_keep : forall f s c, f c = false -> rstrip_by f (s ++ [c]) = s ++ [c].
Proof.
  induction s as [|x s IH]; intros c H; simpl.
  - rewrite H. reflexivity.
  - rewrite IH; auto. destruct (s ++ [c]) eqn:E; auto. destruct s; discriminate.
Qed.

Lemma rstrip_nl_snoc : forall s, rstrip_nl (s ++ [nl]) = rstrip_nl s.
Proof. intros; unfold rstrip_nl; apply rstrip_by_app_drop. reflexivity. Qed.

Lemma all_printable_last : forall s d, s <> [] -> forallb printable s = true -> printable (last s d) = true.
Proof.
  induction s as [|x s IH]; intros d Hn H; [congruence|].
  simpl in H. apply andb_true_iff in H. destruct H as [H1 H2].
  destruct s as [|y s']; simpl; auto. apply IH; auto. discriminate.
Qed.

Lemma join_nl_cons : forall l r, r <> [] -> join_nl (l :: r) = l ++ nl :: join_nl r.
Proof. intros; destruct r; [congruence|reflexivity]. Qed.

Lemma join_nl_snoc_nil : forall L, L <> [] -> join_nl (L ++ [[]]) = join_nl L ++ [nl].
Proof.
  induction L as [|x L IH]; intros Hn; [congruence|].
  destruct L as [|y L'].
  - simpl. reflexivity.
  - rewrite (join_nl_cons x (y :: L')) by discriminate.
    rewrite <- app_comm_cons.
    rewrite (join_nl_cons x ((y :: L') ++ [[]])) by (simpl; discriminate).
    rewrite IH by discriminate.
    rewrite <- app_assoc. reflexivity.
Qed.

Lemma join_last : forall L y c, L <> [] -> last L [] = y ++ [c] -> exists Y, join_nl L = Y ++ [c].
Proof.
  induction L as [|x L IH]; intros y c Hn HL; [congruence|].
  destruct L as [|z L'].
  - simpl in *. exists y. exact HL.
  - rewrite join_nl_cons by discriminate.
    destruct (IH y c) as [Y HY]; [discriminate|exact HL|].
    exists (x ++ nl :: Y). rewrite HY. rewrite <- app_assoc. reflexivity.
Qed.

Lemma last_in : forall (L : list str) d, L <> [] -> In (last L d) L.
Proof.
  induction L as [|x L IH]; intros d Hn; [congruence|].
  destruct L as [|y L']; [left; reflexivity|]. right. apply IH. discriminate.
Qed.

(* lines that are printable, the last one not empty: the joined text does not end in a newline *)
Lemma rstrip_join : forall L, L <> [] -> (forall l, In l L -> forallb printable l = true) -> last L [] <> [] ->
  rstrip_nl (join_nl L) = join_nl L.
Proof.
  intros L Hn HP HL.
  destruct (exists_last HL) as [y [c Hy]].
  destruct (join_last L y c Hn Hy) as [Y HY].
  rewrite HY. unfold rstrip_nl. apply rstrip_by_snoc_keep.
  apply printable_not_nl.
  assert (Hp : forallb printable (last L []) = true) by (apply HP; apply last_in; auto).
  rewrite Hy in Hp. rewrite forallb_app in Hp. apply andb_true_iff in Hp. destruct Hp as [_ Hp].
  simpl in Hp. rewrite andb_true_r in Hp. exact Hp.
Qed.

Lemma rstrip_join_snoc : forall L, L <> [] -> (forall l, In l L -> forallb printable l = true) -> last L [] <> [] ->
  rstrip_nl (join_nl (L ++ [[]])) = join_nl L.
Proof. intros. rewrite join_nl_snoc_nil by auto. rewrite rstrip_nl_snoc. apply rstrip_join; auto. Qed.

Lemma rstrip_by_noop : forall f s, (forall d, s <> [] -> f (last s d) = false) -> rstrip_by f s = s.
Proof.
  intros f s H. destruct s as [|x s']; [reflexivity|].
  assert (Hn : x :: s' <> []) by discriminate.
  destruct (exists_last Hn) as [y [c Hy]]. rewrite Hy. apply rstrip_by_snoc_keep.
  specialize (H c Hn). rewrite Hy in H. rewrite last_last in H. exact H.
Qed.

(* ---- strip("()"), removesuffix *)
Lemma lstrip_by_noop : forall f s, (match s with c :: _ => f c = false | [] => True end) -> lstrip_by f s = s.
Proof. destruct s; simpl; intros; auto. rewrite H. reflexivity. Qed.

Lemma strip_parens_noop : forall a, a <> [] -> is_paren (hd sp a) = false -> is_paren (last a sp) = false -> strip_parens a = a.
Proof.
  intros. unfold strip_parens. rewrite lstrip_by_noop.
  - apply rstrip_by_noop. intros d _. destruct a; [congruence|].
    replace (last (a :: a0) d) with (last (a :: a0) sp); auto.
    clear. revert a. induction a0; intros; simpl; auto. destruct a0; auto. apply (IHa0 a).
  - destruct a; auto.
Qed.

Lemma str_eqb_eq : forall a b, str_eqb a b = true <-> a = b.
Proof.
  induction a; destruct b; simpl; split; intros; try congruence; auto; try discriminate.
  - apply andb_true_iff in H. destruct H. apply ceq_eq in H. apply IHa in H0. congruence.
  - inversion H; subst. rewrite ceq_refl. simpl. apply IHa. reflexivity.
Qed.

Lemma removesuffix_noop : forall suf s, endswith suf s = false -> removesuffix suf s = s.
Proof.
  induction s; intros; simpl; auto.
  simpl in H. apply orb_false_iff in H. destruct H as [H1 H2].
  change (match a :: s with [] => false | _ :: r => endswith suf r end) with (endswith suf s) in H2.
  assert (E : str_eqb (a :: s) suf = false) by exact H1.
  simpl in E.
  destruct suf as [|x suf'].
  - f_equal. apply IHs. exact H2.
  - simpl. simpl in H1. rewrite H1. f_equal. apply IHs. exact H2.
Qed.

(* ---- the non-greedy "(type):" *)
Lemma has_parencolon_cons : forall c r, has_parencolon (c :: r) = false -> starts_pc (c :: r) = false /\ has_parencolon r = false.
Proof. intros c r H. simpl in H. apply orb_false_iff in H. exact H. Qed.

Lemma starts_pc_app : forall x a X, starts_pc (x :: a) = false -> starts_pc ((x :: a) ++ ")" :: ":" :: X) = false.
Proof.
  intros x a X H. destruct a as [|y a'].
  - simpl. apply andb_false_r.
  - exact H.
Qed.

Lemma fpc_app : forall a b, a <> [] -> has_parencolon a = false ->
  first_parencolon (a ++ ")" :: ":" :: b) = Some (a, b).
Proof.
  induction a as [|c a' IH]; intros b Ha Hp; [congruence|].
  destruct a' as [|c' a''].
  - reflexivity.
  - apply has_parencolon_cons in Hp. destruct Hp as [_ Hp].
    assert (Hs := Hp). apply has_parencolon_cons in Hs. destruct Hs as [Hs _].
    change ((c :: c' :: a'') ++ ")" :: ":" :: b) with (c :: ((c' :: a'') ++ ")" :: ":" :: b)).
    change (first_parencolon (c :: ((c' :: a'') ++ ")" :: ":" :: b))) with
      (if starts_pc ((c' :: a'') ++ ")" :: ":" :: b) then Some ([c], skipn 2 ((c' :: a'') ++ ")" :: ":" :: b))
       else match first_parencolon ((c' :: a'') ++ ")" :: ":" :: b) with Some (a, b0) => Some (c :: a, b0) | None => None end).
    rewrite (starts_pc_app c' a'' b Hs).
    rewrite IH; auto. discriminate.
Qed.

(* ---- blank lines at the end of a list of lines *)
Lemma forallb_repeat : forall (f : ascii -> bool) c n, f c = true -> forallb f (repeat c n) = true.
Proof. intros f c n H. induction n; simpl; [reflexivity|rewrite H, IHn; reflexivity]. Qed.


Lemma join_nl_blanks : forall L m, L <> [] -> join_nl (L ++ repeat [] m) = join_nl L ++ repeat nl m.
Proof.
  intros L m HL. induction m.
  - simpl. rewrite !app_nil_r. reflexivity.
  - replace (repeat (A:=str) [] (S m)) with (repeat (A:=str) [] m ++ [[]]).
    2:{ clear. induction m; [reflexivity|]. simpl. rewrite IHm. reflexivity. }
    rewrite app_assoc. rewrite join_nl_snoc_nil.
    2:{ destruct L; [congruence|discriminate]. }
    rewrite IHm. rewrite <- app_assoc. f_equal.
    clear. induction m; [reflexivity|]. simpl. rewrite IHm. reflexivity.
Qed.


Lemma rstrip_blank_split : forall cs, exists k, cs = rstrip_blank cs ++ repeat [] k /\
  (rstrip_blank cs = [] \/ last (rstrip_blank cs) [] <> []).
Proof.
  induction cs as [|c r IH].
  - exists 0. split; [reflexivity|left; reflexivity].
  - destruct IH as [k [E H]]. simpl. destruct (rstrip_blank r) as [|x r'] eqn:Er.
    + destruct c as [|y c'].
      * exists (S k). split; [simpl; simpl in E; rewrite <- E; reflexivity|left; reflexivity].
      * exists k. split; [simpl; simpl in E; rewrite <- E; reflexivity|right; discriminate].
    + exists k. split; [rewrite <- app_comm_cons; rewrite <- E; reflexivity|right].
      destruct H as [H|H]; [discriminate|]. exact H.
Qed.

