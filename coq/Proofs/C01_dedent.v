(* C01: dedent (blanks and tabs) cuts nothing but a common whitespace margin, and the longest one. *)
From Coq Require Import List String Ascii Bool Arith Lia.
From Verif Require Import Lib.Sexp Model.C01_base Gen.C01_tables Model.C01_visitor Model.C01_content Model.C01_layout Model.C01_dedent
  Proofs.C01_visitor Proofs.C01_content Proofs.C01_layout.
Import ListNotations.
Open Scope string_scope.
Open Scope list_scope.

Lemma prefix_refl : forall s, String.prefix s s = true.
Proof. induction s; simpl; auto. destruct (ascii_dec a a); [auto|congruence]. Qed.
Lemma prefix_nil : forall s, String.prefix EmptyString s = true.
Proof. destruct s; reflexivity. Qed.
Lemma prefix_trans : forall a b c, String.prefix a b = true -> String.prefix b c = true -> String.prefix a c = true.
Proof.
  induction a as [|x a IH]; intros b c H1 H2; [apply prefix_nil|].
  destruct b as [|y b]; simpl in H1; [discriminate|]. destruct (ascii_dec x y); [|discriminate]. subst y.
  destruct c as [|z c]; simpl in H2; [discriminate|]. destruct (ascii_dec x z); [|discriminate]. subst z.
  simpl. destruct (ascii_dec x x); [|congruence]. eapply IH; eauto.
Qed.
Lemma prefix_append_drop : forall m l, String.prefix m l = true -> l = String.append m (drop (String.length m) l).
Proof.
  induction m as [|x m IH]; intros l H; [reflexivity|].
  destruct l as [|y l]; simpl in H; [discriminate|]. destruct (ascii_dec x y); [|discriminate]. subst y.
  simpl. f_equal. apply IH. exact H.
Qed.

Lemma cprefix_l : forall a b, String.prefix (cprefix a b) a = true.
Proof.
  induction a as [|x a IH]; intros b; [reflexivity|]. destruct b as [|y b]; [reflexivity|]. simpl.
  destruct (Ascii.eqb x y); [|reflexivity]. simpl. destruct (ascii_dec x x); [apply IH|congruence].
Qed.
Lemma cprefix_r : forall a b, String.prefix (cprefix a b) b = true.
Proof.
  induction a as [|x a IH]; intros b; [apply prefix_nil|]. destruct b as [|y b]; [reflexivity|]. simpl.
  destruct (Ascii.eqb x y) eqn:E; [|reflexivity]. apply Ascii.eqb_eq in E. subst y. simpl.
  destruct (ascii_dec x x); [apply IH|congruence].
Qed.
Lemma cprefix_glb : forall p a b, String.prefix p a = true -> String.prefix p b = true -> String.prefix p (cprefix a b) = true.
Proof.
  induction p as [|z p IH]; intros a b Ha Hb; [apply prefix_nil|].
  destruct a as [|x a]; simpl in Ha; [discriminate|]. destruct (ascii_dec z x); [|discriminate]. subst x.
  destruct b as [|y b]; simpl in Hb; [discriminate|]. destruct (ascii_dec z y); [|discriminate]. subst y.
  simpl. rewrite Ascii.eqb_refl. simpl. destruct (ascii_dec z z); [|congruence]. apply IH; assumption.
Qed.

Lemma lead_prefix : forall l, String.prefix (lead l) l = true.
Proof. induction l as [|c r IH]; [reflexivity|]. simpl. destruct (is_ws c); [|reflexivity]. simpl. destruct (ascii_dec c c); [exact IH|congruence]. Qed.
Lemma lead_ws : forall l, all_ws (lead l) = true.
Proof. induction l as [|c r IH]; [reflexivity|]. simpl. destruct (is_ws c) eqn:E; [|reflexivity]. simpl. rewrite E. exact IH. Qed.
Lemma prefix_ws : forall p s, String.prefix p s = true -> all_ws s = true -> all_ws p = true.
Proof.
  induction p as [|x p IH]; intros s H W; [reflexivity|]. destruct s as [|y s]; simpl in H; [discriminate|].
  destruct (ascii_dec x y); [|discriminate]. subst y. simpl in *. apply andb_prop in W. destruct W as [W1 W2].
  rewrite W1. simpl. eapply IH; eauto.
Qed.

Lemma margin_of_spec : forall ls m, margin_of ls = Some m ->
  all_ws m = true /\
  (forall l, In l ls -> all_ws l = false -> String.prefix m (lead l) = true) /\
  (forall p, (forall l, In l ls -> all_ws l = false -> String.prefix p (lead l) = true) -> String.prefix p m = true).
Proof.
  induction ls as [|x r IH]; intros m H; [discriminate|]. simpl in H.
  destruct (all_ws x) eqn:B.
  - destruct (IH m H) as [W [P G]]. split; [exact W|]. split.
    + intros l [E|I] Bl; [subst; congruence|auto].
    + intros p Hp. apply G. intros l I Bl. apply Hp; [right; exact I|exact Bl].
  - destruct (margin_of r) as [m'|] eqn:M.
    + injection H as H. subst m. destruct (IH m' eq_refl) as [W [P G]]. split; [|split].
      * eapply prefix_ws; [apply cprefix_l|apply lead_ws].
      * intros l [E|I] Bl.
        -- subst l. apply cprefix_l.
        -- eapply prefix_trans; [apply cprefix_r|]. apply P; assumption.
      * intros p Hp. apply cprefix_glb.
        -- apply Hp; [left; reflexivity|exact B].
        -- apply G. intros l I Bl. apply Hp; [right; exact I|exact Bl].
    + injection H as H. subst m. split; [apply lead_ws|]. split.
      * intros l [E|I] Bl; [subst; apply prefix_refl|].
        exfalso. clear - M I Bl. induction r as [|y r IHr]; [destruct I|]. simpl in M. destruct I as [E|I].
        -- subst y. rewrite Bl in M. destruct (margin_of r); discriminate.
        -- destruct (all_ws y); [auto|]. destruct (margin_of r); discriminate.
      * intros p Hp. apply Hp; [left; reflexivity|exact B].
Qed.

(* textwrap.dedent, for every list of lines whatever mixture of blanks and tabs indents them: as many lines; a line of
   whitespace only becomes empty; every other line is the SAME whitespace string [margin_ws ls] followed by what is
   kept, so nothing but that whitespace is ever cut off; and the margin is the longest such string: any whitespace
   prefix common to all the other lines is a prefix of it *)
Theorem dedent_ws_spec : forall ls,
  List.length (dedent_ws ls) = List.length ls /\
  all_ws (margin_ws ls) = true /\
  (forall i l, nth_error ls i = Some l ->
     nth_error (dedent_ws ls) i = Some (if all_ws l then EmptyString else drop (String.length (margin_ws ls)) l) /\
     (all_ws l = false -> l = String.append (margin_ws ls) (drop (String.length (margin_ws ls)) l))) /\
  ((exists l, In l ls /\ all_ws l = false) ->
   forall p, (forall l, In l ls -> all_ws l = false -> String.prefix p (lead l) = true) -> String.prefix p (margin_ws ls) = true).
Proof.
  intros ls. split; [unfold dedent_ws; apply map_length|].
  unfold margin_ws. destruct (margin_of ls) as [m|] eqn:M.
  - destruct (margin_of_spec ls m M) as [W [P G]]. split; [exact W|]. split.
    + intros i l H. split; [unfold dedent_ws, margin_ws; rewrite nth_error_map, H, M; reflexivity|].
      intros B. apply prefix_append_drop. eapply prefix_trans; [apply P; [eapply nth_error_In; eauto|exact B]|apply lead_prefix].
    + intros _ p Hp. apply G. exact Hp.
  - split; [reflexivity|]. split.
    + intros i l H. split; [unfold dedent_ws, margin_ws; rewrite nth_error_map, H, M; reflexivity|]. intros _. reflexivity.
    + intros [l [I B]]. exfalso. clear - M I B. induction ls as [|y r IHr]; [destruct I|]. simpl in M. destruct I as [E|I].
      * subst y. rewrite B in M. destruct (margin_of r); discriminate.
      * destruct (all_ws y); [auto|]. destruct (margin_of r); discriminate.
Qed.

(* lines and source of a reported object, in terms of the item's text *)
Theorem object_lines_source : forall items pre post o,
  In o (occ_list (List.length pre + 1) items) ->
  object_lines (pre ++ render_list items ++ post) (o_first o) (o_last o) = o_text o /\
  object_source (pre ++ render_list items ++ post) (o_first o) (o_last o) = dedent_ws (o_text o).
Proof.
  intros. unfold object_lines, object_source. rewrite (slice_reported_span items pre post o H). auto.
Qed.

Definition TAB : string := String "009"%char EmptyString.
Definition cat (a b : string) : string := String.append a b.
Example dedent_ws_sample :
  dedent_ws ["    def f(self):"; cat "    " (cat TAB "x = 1"); cat "  " TAB; cat TAB "# tab comment"] =
            ["    def f(self):"; cat "    " (cat TAB "x = 1"); ""; cat TAB "# tab comment"] /\
  dedent_ws [cat "  " (cat TAB "a = ("); cat "  " (cat TAB "  1)"); "  b"] = [cat TAB "a = ("; cat TAB "  1)"; "b"] /\
  dedent_ws ["    def g(self):"; "        pass"; ""; "      # c"] = ["def g(self):"; "    pass"; ""; "  # c"].
Proof. repeat split; vm_compute; reflexivity. Qed.
