(* C12: every exception class a look-up on docstring.parent (or the compilation of an annotation) can raise is a
   subclass of a class caught around it -- for every site of the table regenerated from the parsers of /repo. *)
From Coq Require Import List String Bool.
From Verif Require Import Model.C12_guards Gen.C12_guards.
Import ListNotations.
Open Scope list_scope.

Lemma site_ok_sound :
  forall name raised caught, site_ok (name, raised, caught) = true ->
    forall e, In e raised -> exists c, In c caught /\ subclass e c = true.
Proof.
  intros name raised caught H e HIn. unfold site_ok in H. rewrite forallb_forall in H.
  specialize (H e HIn). unfold covered in H. apply existsb_exists in H. exact H.
Qed.

Lemma repo_guards_cover : forallb site_ok guard_sites = true.
Proof. vm_compute. reflexivity. Qed.

Theorem repo_guards_sound :
  forall name raised caught, In (name, raised, caught) guard_sites ->
    forall e, In e raised -> exists c, In c caught /\ subclass e c = true.
Proof.
  intros name raised caught HIn. apply (site_ok_sound name).
  assert (H := repo_guards_cover). rewrite forallb_forall in H. exact (H _ HIn).
Qed.

(* non-vacuity: the table is not empty; an index into the elements of a tuple annotation guarded only against
   attribute / key / value errors is rejected; UnicodeEncodeError counts as the ValueError that is caught *)
Example guards_nonvacuous :
  guard_sites <> [] /\
  site_ok ("x"%string, [EAttributeError; EIndexError], [EAttributeError; EKeyError; EValueError]) = false /\
  site_ok ("y"%string, [EUnicodeEncodeError; EKeyError], [EValueError; ELookupError]) = true.
Proof. split; [discriminate|split; reflexivity]. Qed.
