From Coq Require Import List ZArith String Bool Arith Lia.
From Verif Require Import Lib.Sexp Model.C12_docstrings.
Import ListNotations.
Open Scope list_scope. Open Scope nat_scope.
Lemma stub : True. Proof. exact I. Qed.
