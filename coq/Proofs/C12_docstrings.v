(* C12 proofs: termination, absence of IndexError, plain text, well-formedness for the three parser models. *)
From Coq Require Import List ZArith String Bool Arith Lia.
From Verif Require Import Lib.Sexp Model.C12_docstrings.
Import ListNotations.
Open Scope list_scope. Open Scope nat_scope.

(* ================= generic facts about fuelled loops ================= *)
Section IterFacts.
  Variable St : Type.
  Variable step : St -> outcome St.

  Lemma iter_fuel_sufficient :
    forall (m : St -> nat),
      (forall s s', step s = Next s' -> m s' < m s) ->
      (forall s, step s <> Fail OutOfFuel) ->
      forall fuel s, m s < fuel -> iter step fuel s <> Err OutOfFuel.
  Proof.
    intros m Hm Hnf. induction fuel as [|f IH]; intros s Hlt; [lia|].
    simpl. destruct (step s) as [s'|r|e] eqn:E.
    - apply IH. specialize (Hm _ _ E). lia.
    - discriminate.
    - intro H. inversion H. subst. exact (Hnf s E).
  Qed.

  Lemma iter_invariant :
    forall (P : St -> Prop),
      (forall s s', P s -> step s = Next s' -> P s') ->
      forall fuel s r, P s -> iter step fuel s = Ok r -> exists s0, P s0 /\ step s0 = Done r.
  Proof.
    intros P HP. induction fuel as [|f IH]; intros s r Hs H; simpl in H; [discriminate|].
    destruct (step s) as [s'|r'|e] eqn:E.
    - exact (IH s' r (HP _ _ Hs E) H).
    - inversion H; subst. exists s. auto.
    - discriminate.
  Qed.

  Lemma iter_no_fail :
    forall (P : St -> Prop),
      (forall s s', P s -> step s = Next s' -> P s') ->
      (forall s e, P s -> step s <> Fail e) ->
      forall fuel s e, P s -> iter step fuel s = Err e -> e = OutOfFuel.
  Proof.
    intros P HP HF. induction fuel as [|f IH]; intros s e Hs H; simpl in H.
    - inversion H. reflexivity.
    - destruct (step s) as [s'|r'|e'] eqn:E.
      + exact (IH s' e (HP _ _ Hs E) H).
      + discriminate.
      + exfalso. exact (HF s e' Hs E).
  Qed.
End IterFacts.

(* ================= small list facts ================= *)
Lemma nth_error_skipn : forall {A} (l : list A) k i, nth_error (skipn k l) i = nth_error l (k + i).
Proof.
  induction l as [|x l IH]; intros k i.
  - rewrite skipn_nil. destruct i; destruct (k + _); reflexivity.
  - destruct k; simpl; [reflexivity|]. apply IH.
Qed.

Lemma skipn_length_le : forall {A} (l : list A) k, List.length (skipn k l) = List.length l - k.
Proof. intros. apply skipn_length. Qed.

(* ================= skip_blank ================= *)
Lemma skip_blank_some :
  forall rest o o' l r, skip_blank rest o = Some (o', l, r) ->
    o <= o' /\ o' < o + List.length rest /\ blank l = false /\
    nth_error rest (o' - o) = Some l /\ r = skipn (S (o' - o)) rest /\
    (forall i x, i < o' - o -> nth_error rest i = Some x -> blank x = true).
Proof.
  induction rest as [|x rest IH]; intros o o' l r H; simpl in H; [discriminate|].
  destruct (blank x) eqn:B.
  - apply IH in H. destruct H as (H1 & H2 & H3 & H4 & H5 & H6).
    replace (o' - o) with (S (o' - S o)) by lia.
    split; [lia|]. split; [simpl; lia|]. split; [exact H3|]. split; [exact H4|]. split; [exact H5|].
    intros i y Hi Hy. destruct i as [|i]; simpl in Hy.
    + inversion Hy; subst; exact B.
    + apply (H6 i y); [lia|exact Hy].
  - inversion H; subst. replace (o' - o') with 0 by lia.
    split; [lia|]. split; [simpl; lia|]. split; [exact B|]. split; [reflexivity|]. split; [reflexivity|].
    intros i y Hi. lia.
Qed.

Lemma skip_blank_none :
  forall rest o, skip_blank rest o = None -> forall i x, nth_error rest i = Some x -> blank x = true.
Proof.
  induction rest as [|y rest IH]; intros o H i x Hx.
  - destruct i; discriminate.
  - simpl in H. destruct (blank y) eqn:B; [|discriminate].
    destruct i; simpl in Hx.
    + inversion Hx; subst; auto.
    + eapply IH; eauto.
Qed.

(* ================= Google readers: the offset contract ================= *)
Lemma g_items_loop_off :
  forall rest o ind cur acc items n,
    g_items_loop rest o ind cur acc = (items, n) -> o <= n /\ n <= o + List.length rest.
Proof.
  induction rest as [|l rest IH]; intros o ind cur acc items n H; cbn [g_items_loop] in H.
  - inversion H; subst. simpl. lia.
  - destruct (blank l); [apply IH in H; simpl; lia|].
    destruct (ind * 2 <=? sp l); [apply IH in H; simpl; lia|].
    destruct (S ind <=? sp l); [apply IH in H; simpl; lia|].
    destruct (ind <=? sp l); [apply IH in H; simpl; lia|].
    inversion H; subst. simpl. lia.
Qed.

Lemma g_items_loop_len :
  forall rest o ind cur acc items n,
    g_items_loop rest o ind cur acc = (items, n) -> List.length items >= S (List.length acc).
Proof.
  induction rest as [|l rest IH]; intros o ind cur acc items n H; cbn [g_items_loop] in H.
  - assert (E : items = rev (cur :: acc)) by (inversion H; reflexivity).
    rewrite E, rev_length. simpl. lia.
  - destruct (blank l); [apply IH in H; lia|].
    destruct (ind * 2 <=? sp l); [apply IH in H; lia|].
    destruct (S ind <=? sp l); [apply IH in H; lia|].
    destruct (ind <=? sp l); [apply IH in H; simpl in H; lia|].
    assert (E : items = rev (cur :: acc)) by (inversion H; reflexivity).
    rewrite E, rev_length. simpl. lia.
Qed.

Lemma g_block_loop_off :
  forall rest o ind, o <= g_block_loop rest o ind /\ g_block_loop rest o ind <= o + List.length rest.
Proof.
  induction rest as [|l rest IH]; intros o ind; simpl; [lia|].
  destruct ((ind <=? sp l) || blank l); [|lia].
  specialize (IH (S o) ind). lia.
Qed.

(* reader called at [offset] returns at least offset - 1 and stays inside the docstring *)
Lemma g_read_block_items_off :
  forall lines offset items off',
    g_read_block_items lines offset = Ok (items, off') ->
    offset <= S off' /\ off' <= Nat.max offset (List.length lines).
Proof.
  intros lines offset items off' H. unfold g_read_block_items in H.
  destruct (List.length lines <=? offset) eqn:L.
  - inversion H; subst. lia.
  - apply Nat.leb_gt in L.
    destruct (skip_blank (skipn offset lines) offset) as [[[o l] r]|] eqn:SB; [|discriminate].
    apply skip_blank_some in SB. destruct SB as (S1 & S2 & _ & _ & S5 & _).
    rewrite skipn_length in S2.
    destruct (ws l =? 0).
    + inversion H; subst. lia.
    + destruct (g_items_loop r (S o) (ws l) (o, colon l) []) as [it n] eqn:G.
      inversion H; subst. apply g_items_loop_off in G.
      rewrite skipn_length, skipn_length in G. lia.
Qed.

Lemma g_read_block_off :
  forall lines offset b off',
    g_read_block lines offset = Ok (b, off') ->
    offset <= S off' /\ off' <= Nat.max offset (List.length lines).
Proof.
  intros lines offset b off' H. unfold g_read_block in H.
  destruct (List.length lines <=? offset) eqn:L.
  - inversion H; subst. lia.
  - apply Nat.leb_gt in L.
    destruct (skip_blank (skipn offset lines) offset) as [[[o l] r]|] eqn:SB; [|discriminate].
    apply skip_blank_some in SB. destruct SB as (S1 & S2 & _ & _ & S5 & _).
    rewrite skipn_length in S2.
    destruct (ws l =? 0).
    + inversion H; subst. lia.
    + inversion H; subst.
      pose proof (g_block_loop_off (skipn (S (o - offset)) (skipn offset lines)) (S o) (ws l)) as G.
      rewrite skipn_length, skipn_length in G. lia.
Qed.

Lemma g_items_maybe_off :
  forall lines offset m items off',
    g_items_maybe lines offset m = Ok (items, off') ->
    offset <= S off' /\ off' <= Nat.max offset (List.length lines).
Proof.
  intros lines offset m items off' H. unfold g_items_maybe in H. destruct m.
  - eapply g_read_block_items_off; eauto.
  - destruct (g_read_block lines offset) as [[b off]|e] eqn:R; [|discriminate].
    apply g_read_block_off in R. destruct b; inversion H; subst; auto.
Qed.

Lemma g_reader_off :
  forall lines o k offset n off',
    g_reader lines o k offset = Ok (n, off') ->
    offset <= S off' /\ off' <= Nat.max offset (List.length lines).
Proof.
  intros lines o k offset n off' H. unfold g_reader in H.
  destruct k;
    try (destruct (g_read_block_items lines offset) as [[it off]|e] eqn:R; [|discriminate];
         inversion H; subst; eapply g_read_block_items_off; eauto);
    try (destruct (g_items_maybe lines offset _) as [[it off]|e] eqn:R; [|discriminate];
         inversion H; subst; eapply g_items_maybe_off; eauto).
  destruct (g_read_block lines offset) as [[b off]|e] eqn:R; [|discriminate].
  inversion H; subst. eapply g_read_block_off; eauto.
Qed.

(* readers only fail with IndexError, and only when every remaining line is blank *)
Lemma g_read_block_items_err :
  forall lines offset e, g_read_block_items lines offset = Err e ->
    e = IndexError /\ skip_blank (skipn offset lines) offset = None.
Proof.
  intros lines offset e H. unfold g_read_block_items in H.
  destruct (List.length lines <=? offset); [discriminate|].
  destruct (skip_blank (skipn offset lines) offset) as [[[o l] r]|] eqn:SB.
  - destruct (ws l =? 0); [discriminate|].
    destruct (g_items_loop r (S o) (ws l) (o, colon l) []); discriminate.
  - inversion H; auto.
Qed.

Lemma g_read_block_err :
  forall lines offset e, g_read_block lines offset = Err e ->
    e = IndexError /\ skip_blank (skipn offset lines) offset = None.
Proof.
  intros lines offset e H. unfold g_read_block in H.
  destruct (List.length lines <=? offset); [discriminate|].
  destruct (skip_blank (skipn offset lines) offset) as [[[o l] r]|] eqn:SB.
  - destruct (ws l =? 0); discriminate.
  - inversion H; auto.
Qed.

Lemma g_reader_err :
  forall lines o k offset e, g_reader lines o k offset = Err e ->
    e = IndexError /\ skip_blank (skipn offset lines) offset = None.
Proof.
  intros lines o k offset e H. unfold g_reader, g_items_maybe in H.
  destruct k;
    try (destruct (g_read_block_items lines offset) as [[it off]|e'] eqn:R; [discriminate|];
         inversion H; subst; eapply g_read_block_items_err; eauto).
  - destruct (g_read_block lines offset) as [[b off]|e'] eqn:R; [discriminate|].
    inversion H; subst. eapply g_read_block_err; eauto.
  - destruct (o_ret_multi o).
    + destruct (g_read_block_items lines offset) as [[it off]|e'] eqn:R; [discriminate|].
      inversion H; subst; eapply g_read_block_items_err; eauto.
    + destruct (g_read_block lines offset) as [[b off]|e'] eqn:R.
      * destruct b; discriminate.
      * inversion H; subst. eapply g_read_block_err; eauto.
  - destruct (o_ret_multi o).
    + destruct (g_read_block_items lines offset) as [[it off]|e'] eqn:R; [discriminate|].
      inversion H; subst; eapply g_read_block_items_err; eauto.
    + destruct (g_read_block lines offset) as [[b off]|e'] eqn:R.
      * destruct b; discriminate.
      * inversion H; subst. eapply g_read_block_err; eauto.
  - destruct (o_rec_multi o).
    + destruct (g_read_block_items lines offset) as [[it off]|e'] eqn:R; [discriminate|].
      inversion H; subst; eapply g_read_block_items_err; eauto.
    + destruct (g_read_block lines offset) as [[b off]|e'] eqn:R.
      * destruct b; discriminate.
      * inversion H; subst. eapply g_read_block_err; eauto.
Qed.

(* ================= Google main loop ================= *)
Lemma content_not_all_blank :
  forall lines off,
    indented_at lines (S off) || indented_at lines (S (S off)) = true ->
    skip_blank (skipn (S off) lines) (S off) <> None.
Proof.
  intros lines off H N.
  pose proof (skip_blank_none _ _ N) as A.
  apply orb_true_iff in H. destruct H as [H|H]; unfold indented_at in H.
  - destruct (nth_error lines (S off)) as [x|] eqn:E; [|discriminate].
    specialize (A 0 x). rewrite nth_error_skipn, Nat.add_0_r in A. specialize (A E).
    rewrite A in H. discriminate.
  - destruct (nth_error lines (S (S off))) as [x|] eqn:E; [|discriminate].
    specialize (A 1 x). rewrite nth_error_skipn in A. replace (S off + 1) with (S (S off)) in A by lia.
    specialize (A E). rewrite A in H. discriminate.
Qed.

Ltac break_match_in H :=
  match type of H with
  | context [match ?x with _ => _ end] => destruct x eqn:?
  end.

Lemma g_step_next :
  forall lines o st st', g_step lines o st = Next st' ->
    g_off st < g_off st' /\ g_off st < List.length lines.
Proof.
  intros lines o st st' H. unfold g_step in H. cbv zeta in H.
  destruct (nth_error lines (g_off st)) as [l|] eqn:N; [|discriminate].
  assert (L : g_off st < List.length lines) by (apply nth_error_Some; congruence).
  split; [|exact L].
  repeat break_match_in H; try discriminate; inversion H; subst; simpl; try lia;
    repeat match goal with
           | R : g_reader _ _ _ _ = Ok _ |- _ => apply g_reader_off in R
           | R : g_read_block _ _ = Ok _ |- _ => apply g_read_block_off in R
           end; lia.
Qed.

Lemma line_above_some :
  forall lines off l, nth_error lines off = Some l -> line_above_blank lines off <> None.
Proof.
  intros lines off l H. destruct off as [|p]; simpl; [discriminate|].
  destruct (nth_error lines p) eqn:E; [discriminate|].
  apply nth_error_None in E. assert (S p < List.length lines) by (apply nth_error_Some; congruence). lia.
Qed.

Lemma g_step_no_fail : forall lines o st e, g_step lines o st <> Fail e.
Proof.
  intros lines o st e H. unfold g_step in H. cbv zeta in H.
  destruct (nth_error lines (g_off st)) as [l|] eqn:N; [|discriminate].
  destruct (g_code st); [discriminate|].
  destruct (fence l); [discriminate|].
  destruct (gadm l) eqn:GA; [discriminate| |].
  - destruct (line_above_blank lines (g_off st)) as [above|] eqn:AB; [|exact (line_above_some _ _ _ N AB)].
    destruct (negb (indented_at lines (S (g_off st)) || indented_at lines (S (S (g_off st))))) eqn:C; [discriminate|].
    apply negb_false_iff in C.
    destruct (negb above || _); [discriminate|].
    destruct (g_read_block lines (S (g_off st))) as [[b off']|e'] eqn:R.
    + destruct b as [[[? ?] ?]|]; discriminate.
    + apply g_read_block_err in R. destruct R as [_ R]. exact (content_not_all_blank _ _ C R).
  - destruct (line_above_blank lines (g_off st)) as [above|] eqn:AB; [|exact (line_above_some _ _ _ N AB)].
    destruct (negb (indented_at lines (S (g_off st)) || indented_at lines (S (S (g_off st))))) eqn:C; [discriminate|].
    apply negb_false_iff in C.
    destruct (negb above || _); [discriminate|].
    destruct (g_reader lines o k (S (g_off st))) as [[n off']|e'] eqn:R; [discriminate|].
    apply g_reader_err in R. destruct R as [_ R]. exact (content_not_all_blank _ _ C R).
Qed.

Lemma google_terminates : forall lines o p, g_parse lines o p <> Err OutOfFuel.
Proof.
  intros lines o p H. unfold g_parse in H.
  destruct (iter (g_step lines o) (S (List.length lines)) (mkGst (g_start o p) false [] [])) as [st|e] eqn:I; [discriminate|].
  inversion H; subst.
  revert I. apply (iter_fuel_sufficient gst (g_step lines o) (fun st => List.length lines - g_off st)).
  - intros s s' E. apply g_step_next in E. lia.
  - intros s. apply g_step_no_fail.
  - simpl. lia.
Qed.

Lemma google_total : forall lines o p, exists secs, g_parse lines o p = Ok secs.
Proof.
  intros lines o p. destruct (g_parse lines o p) as [secs|e] eqn:G; [eauto|].
  exfalso. unfold g_parse in G.
  destruct (iter (g_step lines o) (S (List.length lines)) (mkGst (g_start o p) false [] [])) as [st|e'] eqn:I; [discriminate|].
  assert (e' = OutOfFuel).
  { apply (iter_no_fail gst (g_step lines o) (fun _ => True)) with (fuel := S (List.length lines)) (s := mkGst (g_start o p) false [] []); auto.
    intros s e0 _. apply g_step_no_fail. }
  subst. apply (google_terminates lines o p). unfold g_parse. rewrite I. reflexivity.
Qed.

(* ================= Numpy readers and main loop ================= *)
Lemma n_items_loop_off :
  forall rest o cur acc items n,
    n_items_loop rest o cur acc = (items, n) -> o <= n /\ n <= o + List.length rest.
Proof.
  induction rest as [|l rest IH]; intros o cur acc items n H; cbn [n_items_loop] in H.
  - inversion H; subst. simpl. lia.
  - destruct (blank l); [apply IH in H; simpl; lia|].
    destruct (4 <=? sp l); [apply IH in H; simpl; lia|].
    destruct (1 <=? sp l); [apply IH in H; simpl; lia|].
    destruct (next_is_dash rest); [inversion H; subst; simpl; lia|].
    apply IH in H; simpl; lia.
Qed.

Lemma n_items_loop_len :
  forall rest o cur acc items n,
    n_items_loop rest o cur acc = (items, n) -> List.length items >= S (List.length acc).
Proof.
  induction rest as [|l rest IH]; intros o cur acc items n H; cbn [n_items_loop] in H.
  - assert (E : items = rev (cur :: acc)) by (inversion H; reflexivity).
    rewrite E, rev_length. simpl. lia.
  - destruct (blank l); [apply IH in H; lia|].
    destruct (4 <=? sp l); [apply IH in H; lia|].
    destruct (1 <=? sp l); [apply IH in H; lia|].
    destruct (next_is_dash rest).
    + assert (E : items = rev (cur :: acc)) by (inversion H; reflexivity).
      rewrite E, rev_length. simpl. lia.
    + apply IH in H. simpl in H. lia.
Qed.

Lemma n_block_loop_off :
  forall rest o, o <= n_block_loop rest o /\ n_block_loop rest o <= o + List.length rest.
Proof.
  induction rest as [|l rest IH]; intros o; cbn [n_block_loop]; [simpl; lia|].
  destruct (blank l && next_is_dash rest); [simpl; lia|].
  destruct (blank l && next2_is_dash rest); [simpl; lia|].
  specialize (IH (S o)). simpl. lia.
Qed.

Lemma n_read_block_items_off :
  forall lines offset items off',
    n_read_block_items lines offset = Ok (items, off') ->
    offset <= S off' /\ off' <= Nat.max offset (List.length lines).
Proof.
  intros lines offset items off' H. unfold n_read_block_items in H.
  destruct (List.length lines <=? offset) eqn:L.
  - inversion H; subst. lia.
  - apply Nat.leb_gt in L.
    destruct (skip_blank (skipn offset lines) offset) as [[[o l] r]|] eqn:SB; [|discriminate].
    apply skip_blank_some in SB. destruct SB as (S1 & S2 & _ & _ & S5 & _).
    rewrite skipn_length in S2.
    destruct (n_items_loop r (S o) (npnames l) []) as [it n] eqn:G.
    inversion H; subst. apply n_items_loop_off in G.
    rewrite skipn_length, skipn_length in G. lia.
Qed.

Lemma n_read_block_off :
  forall lines offset off',
    n_read_block lines offset = Ok off' ->
    offset <= S off' /\ off' <= Nat.max offset (List.length lines).
Proof.
  intros lines offset off' H. unfold n_read_block in H.
  destruct (List.length lines <=? offset) eqn:L.
  - inversion H; subst. lia.
  - apply Nat.leb_gt in L.
    destruct (skip_blank (skipn offset lines) offset) as [[[o l] r]|] eqn:SB; [|discriminate].
    apply skip_blank_some in SB. destruct SB as (S1 & S2 & _ & _ & S5 & _).
    rewrite skipn_length in S2.
    pose proof (n_block_loop_off (l :: r) o) as G.
    assert (LR : List.length r = List.length lines - offset - S (o - offset)).
    { rewrite S5, skipn_length, skipn_length. reflexivity. }
    change (List.length (l :: r)) with (S (List.length r)) in G.
    assert (E : off' = Nat.pred (n_block_loop (l :: r) o)) by congruence.
    rewrite E. lia.
Qed.

Lemma n_reader_off :
  forall lines k offset n off',
    n_reader lines k offset = Ok (n, off') ->
    offset <= S off' /\ off' <= Nat.max offset (List.length lines).
Proof.
  intros lines k offset n off' H. unfold n_reader in H.
  destruct k;
    try (destruct (n_read_block_items lines offset) as [[it off]|e] eqn:R; [|discriminate];
         inversion H; subst; eapply n_read_block_items_off; eauto).
  destruct (n_read_block lines offset) as [off|e] eqn:R; [|discriminate].
  inversion H; subst. eapply n_read_block_off; eauto.
Qed.

Lemma n_reader_err :
  forall lines k offset e, n_reader lines k offset = Err e ->
    e = IndexError /\ List.length lines > offset /\ skip_blank (skipn offset lines) offset = None.
Proof.
  intros lines k offset e H.
  assert (A : n_read_block_items lines offset = Err e \/ n_read_block lines offset = Err e).
  { unfold n_reader in H.
    destruct k;
      try (destruct (n_read_block_items lines offset) as [[it off]|e'] eqn:R; [discriminate|];
           inversion H; subst; left; reflexivity).
    destruct (n_read_block lines offset) as [off|e'] eqn:R; [discriminate|].
    inversion H; subst; right; reflexivity. }
  destruct A as [A|A]; [unfold n_read_block_items in A|unfold n_read_block in A];
    destruct (List.length lines <=? offset) eqn:L; try discriminate;
    apply Nat.leb_gt in L;
    destruct (skip_blank (skipn offset lines) offset) as [[[o l] r]|] eqn:SB.
  - destruct (n_items_loop r (S o) (npnames l) []); discriminate.
  - inversion A; auto.
  - discriminate.
  - inversion A; auto.
Qed.

Lemma n_step_next :
  forall lines st st', n_step lines st = Next st' ->
    n_off st < n_off st' /\ n_off st < List.length lines.
Proof.
  intros lines st st' H. unfold n_step in H. cbv zeta in H.
  destruct (nth_error lines (n_off st)) as [l|] eqn:N; [|discriminate].
  assert (L : n_off st < List.length lines) by (apply nth_error_Some; congruence).
  split; [|exact L].
  repeat break_match_in H; try discriminate; inversion H; subst; simpl; try lia;
    repeat match goal with
           | R : n_reader _ _ _ = Ok _ |- _ => apply n_reader_off in R
           end; lia.
Qed.

(* under the cleandoc post-condition a non-blank line follows every offset >= 1 inside the docstring *)
Lemma skip_blank_app_nonblank :
  forall pre l o, blank l = false -> skip_blank (pre ++ [l]) o <> None.
Proof.
  induction pre as [|x pre IH]; intros l o B; simpl.
  - rewrite B. discriminate.
  - destruct (blank x); [apply IH; exact B|discriminate].
Qed.

Lemma cleandoc_post_skip :
  forall lines k, cleandoc_post lines = true -> 1 <= k -> k < List.length lines ->
    skip_blank (skipn k lines) k <> None.
Proof.
  intros lines k P K1 K2. unfold cleandoc_post in P.
  destruct (rev lines) as [|l t] eqn:R; [discriminate|].
  assert (E : lines = rev t ++ [l]).
  { rewrite <- (rev_involutive lines), R. reflexivity. }
  assert (B : blank l = false).
  { destruct t as [|y t].
    - subst lines. simpl in K2. lia.
    - apply negb_true_iff in P. exact P. }
  subst lines. rewrite app_length in K2. simpl in K2.
  rewrite skipn_app. replace (k - List.length (rev t)) with 0 by lia. simpl.
  apply skip_blank_app_nonblank. exact B.
Qed.

Lemma n_step_no_fail :
  forall lines st e, cleandoc_post lines = true -> n_step lines st <> Fail e.
Proof.
  intros lines st e P H. unfold n_step in H. cbv zeta in H.
  destruct (nth_error lines (n_off st)) as [l|] eqn:N; [|discriminate].
  assert (L : n_off st < List.length lines) by (apply nth_error_Some; congruence).
  destruct (n_code st); [discriminate|].
  destruct (fence l); [discriminate|].
  destruct (blank l); [discriminate|].
  destruct (S (n_off st) =? List.length lines) eqn:EQ; [discriminate|].
  apply Nat.eqb_neq in EQ.
  destruct (nth_error lines (S (n_off st))) as [d|] eqn:N1.
  - destruct (dash d); [|discriminate].
    destruct (nkind l) as [k|]; [|discriminate].
    destruct (n_reader lines k (S (S (n_off st)))) as [[n off']|e'] eqn:R; [discriminate|].
    apply n_reader_err in R. destruct R as (_ & R1 & R2).
    exact (cleandoc_post_skip lines (S (S (n_off st))) P ltac:(lia) R1 R2).
  - apply nth_error_None in N1. lia.
Qed.

Lemma n_step_no_fuel_fail : forall lines st, n_step lines st <> Fail OutOfFuel.
Proof.
  intros lines st H. unfold n_step in H. cbv zeta in H.
  repeat break_match_in H; try discriminate.
  inversion H; subst.
  match goal with R : n_reader _ _ _ = Err _ |- _ => apply n_reader_err in R; destruct R as [R _]; discriminate end.
Qed.

Lemma numpy_terminates : forall lines o p, n_parse lines o p <> Err OutOfFuel.
Proof.
  intros lines o p H. unfold n_parse in H.
  destruct (iter (n_step lines) (S (List.length lines)) (mkNst (g_start o p) false [] None [])) as [st|e] eqn:I; [discriminate|].
  inversion H; subst.
  revert I. apply (iter_fuel_sufficient nst (n_step lines) (fun st => List.length lines - n_off st)).
  - intros s s' E. apply n_step_next in E. lia.
  - intros s. apply n_step_no_fuel_fail.
  - simpl. lia.
Qed.

Lemma numpy_total :
  forall lines o p, cleandoc_post lines = true -> exists secs, n_parse lines o p = Ok secs.
Proof.
  intros lines o p P. destruct (n_parse lines o p) as [secs|e] eqn:G; [eauto|].
  exfalso. unfold n_parse in G.
  destruct (iter (n_step lines) (S (List.length lines)) (mkNst (g_start o p) false [] None [])) as [st|e'] eqn:I; [discriminate|].
  assert (e' = OutOfFuel).
  { apply (iter_no_fail nst (n_step lines) (fun _ => True)) with (fuel := S (List.length lines)) (s := mkNst (g_start o p) false [] None []); auto.
    intros s e0 _. apply n_step_no_fail. exact P. }
  subst. apply (numpy_terminates lines o p). unfold n_parse. rewrite I. reflexivity.
Qed.

(* the hypothesis is needed: "Parameters / --- / <blank>" can only arise by assigning Docstring.value directly *)
Definition lf_plain (b : bool) : lf := mkLf b b 0 0 false false ANone false None 0 false None 0 0 0.
Definition lf_dash : lf := mkLf false false 0 0 false false ANone true None 0 false None 0 0 0.
Definition lf_nhdr (k : skind) : lf := mkLf false false 0 0 false false ANone false (Some k) 1 false None 0 0 0.
Definition gopts_default : gopts := mkGopts false true true true false true true true.
Definition no_parent : parent := mkParent false false.

Lemma numpy_index_error_without_cleandoc :
  exists lines, cleandoc_post lines = false /\ n_parse lines gopts_default no_parent = Err IndexError.
Proof. exists [lf_nhdr KParams; lf_dash; lf_plain true]. split; reflexivity. Qed.

(* ================= Sphinx main loop ================= *)
Lemma s_cont_off :
  forall rest o acc j c, s_cont rest o acc = (j, c) -> o <= j /\ j <= o + List.length rest.
Proof.
  induction rest as [|l rest IH]; intros o acc j c H; cbn [s_cont] in H.
  - inversion H; subst. simpl. lia.
  - destruct (colon0 l); [inversion H; subst; simpl; lia|].
    apply IH in H. simpl. lia.
Qed.

Lemma s_step_next :
  forall lines st st', s_step lines st = Next st' ->
    s_off st < s_off st' /\ s_off st < List.length lines /\ s_off st' <= List.length lines.
Proof.
  intros lines st st' H. unfold s_step in H. cbv zeta in H.
  destruct (nth_error lines (s_off st)) as [l|] eqn:N; [|discriminate].
  assert (L : s_off st < List.length lines) by (apply nth_error_Some; congruence).
  destruct (sfield l) as [f|].
  - destruct (s_cont (skipn (S (s_off st)) lines) (S (s_off st)) []) as [j conts] eqn:C.
    apply s_cont_off in C. rewrite skipn_length in C.
    destruct f; inversion H; subst; simpl; lia.
  - inversion H; subst; simpl; lia.
Qed.

Lemma s_step_no_fail : forall lines st e, s_step lines st <> Fail e.
Proof.
  intros lines st e H. unfold s_step in H. cbv zeta in H.
  destruct (nth_error lines (s_off st)) as [l|]; [|discriminate].
  destruct (sfield l) as [f|]; [|discriminate].
  destruct (s_cont (skipn (S (s_off st)) lines) (S (s_off st)) []) as [j conts].
  destruct f; discriminate.
Qed.

Lemma sphinx_terminates : forall lines, s_parse lines <> Err OutOfFuel.
Proof.
  intros lines H. unfold s_parse in H.
  destruct (iter (s_step lines) (S (List.length lines)) (mkSst 0 [] 0 0 0 false)) as [st|e] eqn:I; [discriminate|].
  inversion H; subst.
  revert I. apply (iter_fuel_sufficient sst (s_step lines) (fun st => List.length lines - s_off st)).
  - intros s s' E. apply s_step_next in E. lia.
  - intros s. apply s_step_no_fail.
  - simpl. lia.
Qed.

Lemma sphinx_total : forall lines, exists secs, s_parse lines = Ok secs.
Proof.
  intros lines. destruct (s_parse lines) as [secs|e] eqn:G; [eauto|].
  exfalso. unfold s_parse in G.
  destruct (iter (s_step lines) (S (List.length lines)) (mkSst 0 [] 0 0 0 false)) as [st|e'] eqn:I; [discriminate|].
  assert (e' = OutOfFuel).
  { apply (iter_no_fail sst (s_step lines) (fun _ => True)) with (fuel := S (List.length lines)) (s := mkSst 0 [] 0 0 0 false); auto.
    intros s e0 _. apply s_step_no_fail. }
  subst. apply (sphinx_terminates lines). unfold s_parse. rewrite I. reflexivity.
Qed.

(* ================= plain text: Google ================= *)
Lemma text_of_cons : forall e cur, text_of (e :: cur) = text_of cur ++ [t_out e].
Proof. intros. unfold text_of. simpl. rewrite map_app. reflexivity. Qed.

Lemma text_of_nil_inv : forall cur, text_of cur = [] -> cur = [].
Proof.
  intros cur H. unfold text_of in H. apply map_eq_nil in H.
  destruct cur as [|e c]; [reflexivity|]. simpl in H. destruct (rev c); discriminate.
Qed.

Lemma idx_text_S : forall a k, idx_text a (S k) = idx_text a k ++ [(a + k, false)].
Proof. intros. unfold idx_text. rewrite seq_S, map_app. reflexivity. Qed.

Lemma firstn_S_nth :
  forall {A} (xs : list A) k x, nth_error xs k = Some x -> firstn (S k) xs = firstn k xs ++ [x].
Proof.
  induction xs as [|y xs IH]; intros k x H; [destruct k; discriminate|].
  destruct k as [|k]; simpl in H.
  - inversion H; subst. reflexivity.
  - change (firstn (S (S k)) (y :: xs)) with (y :: firstn (S k) xs).
    rewrite (IH k x H). reflexivity.
Qed.

Lemma first_nonblank_colon_lines :
  forall es, first_nonblank_colon es = fnc_lines (map t_line es).
Proof. induction es as [|e es IH]; simpl; [reflexivity|]. rewrite IH. reflexivity. Qed.

Definition g_plain_inv (lines : list lf) (start : nat) (st : gst) : Prop :=
  g_secs st = [] /\ start <= g_off st /\ g_off st <= Nat.max start (List.length lines) /\
  text_of (g_cur st) = idx_text start (g_off st - start) /\
  map t_line (rev (g_cur st)) = firstn (g_off st - start) (skipn start lines).

Lemma g_plain_inv_cons :
  forall lines start st l c,
    g_plain_inv lines start st -> nth_error lines (g_off st) = Some l ->
    g_plain_inv lines start (mkGst (S (g_off st)) c ((g_off st, false, l) :: g_cur st) (g_secs st)).
Proof.
  intros lines start st l c (I1 & I2 & I3 & I4 & I5) N.
  assert (L : g_off st < List.length lines) by (apply nth_error_Some; congruence).
  unfold g_plain_inv. cbn [g_off g_cur g_secs rev].
  replace (S (g_off st) - start) with (S (g_off st - start)) by lia.
  split; [exact I1|]. split; [lia|]. split; [lia|]. split.
  - rewrite text_of_cons, I4, idx_text_S. unfold t_out, t_idx, t_blanked. simpl.
    replace (start + (g_off st - start)) with (g_off st) by lia. reflexivity.
  - rewrite map_app, I5. simpl. symmetry. apply firstn_S_nth.
    rewrite nth_error_skipn. replace (start + (g_off st - start)) with (g_off st) by lia. exact N.
Qed.

Lemma g_plain_step :
  forall lines o start st st',
    (forall l, In l lines -> gadm l = ANone) ->
    g_plain_inv lines start st -> g_step lines o st = Next st' -> g_plain_inv lines start st'.
Proof.
  intros lines o start st st' Hp I H. unfold g_step in H. cbv zeta in H.
  destruct (nth_error lines (g_off st)) as [l|] eqn:N; [|discriminate].
  rewrite (Hp l (nth_error_In _ _ N)) in H.
  destruct (g_code st); [|destruct (fence l)]; inversion H; subst; apply g_plain_inv_cons; assumption.
Qed.

Lemma g_step_done :
  forall lines o st r, g_step lines o st = Done r -> r = st /\ nth_error lines (g_off st) = None.
Proof.
  intros lines o st r H. unfold g_step in H. cbv zeta in H.
  destruct (nth_error lines (g_off st)) as [l|] eqn:N.
  - exfalso. repeat break_match_in H; discriminate.
  - inversion H. auto.
Qed.

Lemma google_plain_text :
  forall lines o p,
    (forall l, In l lines -> gadm l = ANone) ->
    g_parse lines o p =
    Ok (if List.length lines <=? g_start o p then []
        else if o_ret_prop o && p_property p && fnc_lines (skipn (g_start o p) lines)
             then [SText (idx_text (g_start o p) (List.length lines - g_start o p)) true true; SSec KReturns 0 1]
             else [SText (idx_text (g_start o p) (List.length lines - g_start o p))
                         (fnc_lines (skipn (g_start o p) lines)) false]).
Proof.
  intros lines o p Hp. set (start := g_start o p).
  destruct (google_total lines o p) as [secs G]. rewrite G. f_equal.
  unfold g_parse in G. fold start in G.
  destruct (iter (g_step lines o) (S (List.length lines)) (mkGst start false [] [])) as [st|e] eqn:I; [|discriminate].
  inversion G; subst secs. clear G.
  apply (iter_invariant gst (g_step lines o) (g_plain_inv lines start)) in I.
  - destruct I as (s0 & (I1 & I2 & I3 & I4 & I5) & D). apply g_step_done in D. destruct D as [-> D].
    apply nth_error_None in D. unfold g_finish. rewrite I1.
    destruct (List.length lines <=? start) eqn:L.
    + apply Nat.leb_le in L. assert (E : g_off s0 = start) by lia.
      rewrite E, Nat.sub_diag in I4. apply text_of_nil_inv in I4. rewrite I4. simpl.
      destruct (o_ret_prop o && p_property p); reflexivity.
    + apply Nat.leb_gt in L. assert (E : g_off s0 = List.length lines) by lia.
      rewrite E in I4, I5.
      rewrite firstn_all2 in I5 by (rewrite skipn_length; lia).
      destruct (g_cur s0) as [|e c] eqn:C.
      * exfalso. unfold text_of in I4. simpl in I4.
        replace (List.length lines - start) with (S (List.length lines - start - 1)) in I4 by lia.
        rewrite idx_text_S in I4. destruct (idx_text start (List.length lines - start - 1)); discriminate.
      * unfold mk_text. rewrite first_nonblank_colon_lines, I5, I4. simpl rev.
        destruct (o_ret_prop o && p_property p); simpl; [|reflexivity].
        destruct (fnc_lines (skipn start lines)); reflexivity.
  - intros s s' Hs E. exact (g_plain_step lines o start s s' Hp Hs E).
  - unfold g_plain_inv. simpl. rewrite Nat.sub_diag. simpl. repeat split; try lia; reflexivity.
Qed.

(* ================= plain text: Sphinx ================= *)
Fixpoint index_from (a : nat) (ls : list lf) : list tentry :=
  match ls with
  | [] => []
  | l :: r => (a, false, l) :: index_from (S a) r
  end.

Lemma index_from_app :
  forall xs a x, index_from a (xs ++ [x]) = index_from a xs ++ [(a + List.length xs, false, x)].
Proof.
  induction xs as [|y xs IH]; intros a x; simpl.
  - rewrite Nat.add_0_r. reflexivity.
  - rewrite IH. replace (S a + List.length xs) with (a + S (List.length xs)) by lia. reflexivity.
Qed.

Lemma index_from_out : forall ls a, map t_out (index_from a ls) = idx_text a (List.length ls).
Proof.
  induction ls as [|l ls IH]; intros a; [reflexivity|].
  simpl. rewrite IH. reflexivity.
Qed.

Lemma drop_blank_index_from :
  forall ls a, drop_blank (index_from a ls) =
               index_from (a + leading_blank ls) (skipn (leading_blank ls) ls).
Proof.
  induction ls as [|l ls IH]; intros a; simpl.
  - reflexivity.
  - unfold t_line. simpl. destruct (blank l) eqn:B.
    + rewrite IH. cbn [skipn]. f_equal. lia.
    + simpl. rewrite Nat.add_0_r. reflexivity.
Qed.

Lemma cleandoc_post_cases :
  forall lines, cleandoc_post lines = true ->
    (exists l, lines = [l] /\ blank l = true) \/ (exists pre l, lines = pre ++ [l] /\ blank l = false).
Proof.
  intros lines P. unfold cleandoc_post in P.
  destruct (rev lines) as [|l t] eqn:R; [discriminate|].
  assert (E : lines = rev t ++ [l]) by (rewrite <- (rev_involutive lines), R; reflexivity).
  destruct (blank l) eqn:B.
  - destruct t as [|y t]; [|simpl in P; discriminate].
    left. exists l. simpl in E. auto.
  - right. exists (rev t), l. auto.
Qed.

Definition s_plain_inv (lines : list lf) (st : sst) : Prop :=
  s_off st <= List.length lines /\ rev (s_desc st) = index_from 0 (firstn (s_off st) lines) /\
  s_params st = 0 /\ s_attrs st = 0 /\ s_excs st = 0 /\ s_ret st = false.

Lemma s_plain_step :
  forall lines st st',
    (forall l, In l lines -> sfield l = None) ->
    s_plain_inv lines st -> s_step lines st = Next st' -> s_plain_inv lines st'.
Proof.
  intros lines st st' Hp (I1 & I2 & I3 & I4 & I5 & I6) H. unfold s_step in H. cbv zeta in H.
  destruct (nth_error lines (s_off st)) as [l|] eqn:N; [|discriminate].
  assert (L : s_off st < List.length lines) by (apply nth_error_Some; congruence).
  rewrite (Hp l (nth_error_In _ _ N)) in H. inversion H; subst. unfold s_plain_inv. cbn [s_off s_desc s_params s_attrs s_excs s_ret rev].
  split; [lia|]. split; [|auto].
  rewrite I2, (firstn_S_nth _ _ _ N), index_from_app, firstn_length, Nat.min_l by lia. reflexivity.
Qed.

Lemma s_step_done :
  forall lines st r, s_step lines st = Done r -> r = st /\ nth_error lines (s_off st) = None.
Proof.
  intros lines st r H. unfold s_step in H. cbv zeta in H.
  destruct (nth_error lines (s_off st)) as [l|] eqn:N.
  - exfalso. repeat break_match_in H; discriminate.
  - inversion H. auto.
Qed.

Lemma sphinx_plain_text :
  forall lines,
    (forall l, In l lines -> sfield l = None) -> cleandoc_post lines = true ->
    s_parse lines =
    Ok [SText (idx_text (leading_blank lines) (List.length lines - leading_blank lines)) false false].
Proof.
  intros lines Hp P.
  destruct (sphinx_total lines) as [secs G]. rewrite G. f_equal.
  unfold s_parse in G.
  destruct (iter (s_step lines) (S (List.length lines)) (mkSst 0 [] 0 0 0 false)) as [st|e] eqn:I; [|discriminate].
  inversion G; subst secs. clear G.
  apply (iter_invariant sst (s_step lines) (s_plain_inv lines)) in I.
  - destruct I as (s0 & (I1 & I2 & I3 & I4 & I5 & I6) & D). apply s_step_done in D. destruct D as [-> D].
    apply nth_error_None in D. assert (E : s_off s0 = List.length lines) by lia.
    rewrite E, firstn_all in I2.
    unfold s_finish. rewrite I3, I4, I5, I6. simpl. f_equal. f_equal.
    assert (DS : s_desc s0 = rev (index_from 0 lines)) by (rewrite <- I2, rev_involutive; reflexivity).
    unfold strip_blank. rewrite DS.
    destruct (cleandoc_post_cases lines P) as [(l & -> & B)|(pre & l & -> & B)].
    + simpl. unfold t_line. simpl. rewrite B. reflexivity.
    + rewrite index_from_app, rev_app_distr. simpl. rewrite B. cbn [rev]. rewrite rev_involutive.
      change (List.length pre) with (0 + List.length pre) at 1. rewrite <- index_from_app.
      rewrite drop_blank_index_from, index_from_out, skipn_length. reflexivity.
  - intros s s' Hs E. exact (s_plain_step lines s s' Hp Hs E).
  - unfold s_plain_inv. simpl. repeat split; lia.
Qed.

(* ================= plain text: Numpy ================= *)
Definition entry_ok (lines : list lf) (e : tentry) : Prop :=
  nth_error lines (t_idx e) = Some (t_line e) /\ (t_blanked e = true -> blank (t_line e) = true).

Definition text_ok (lines : list lf) (start n : nat) (ls : list (nat * bool)) : Prop :=
  map fst ls = seq start n /\
  forall i b, In (i, b) ls -> b = true -> exists l, nth_error lines i = Some l /\ blank l = true.

Definition n_running (lines : list lf) (start : nat) (st : nst) : Prop :=
  n_secs st = [] /\ n_adm st = None /\ start <= n_off st /\ n_off st <= Nat.max start (List.length lines) /\
  map t_idx (rev (n_cur st)) = seq start (n_off st - start) /\ Forall (entry_ok lines) (n_cur st).

Definition n_finished (lines : list lf) (start : nat) (st : nst) : Prop :=
  n_off st = List.length lines /\ start < List.length lines /\ n_cur st = [] /\ n_adm st = None /\
  exists ls fc, n_secs st = [SText ls fc false] /\ text_ok lines start (List.length lines - start) ls.

Lemma text_of_ok :
  forall lines start n cur,
    map t_idx (rev cur) = seq start n -> Forall (entry_ok lines) cur -> text_ok lines start n (text_of cur).
Proof.
  intros lines start n cur M F. unfold text_ok, text_of. split.
  - rewrite map_map. rewrite <- M. apply map_ext. intros e. reflexivity.
  - intros i b I Hb. apply in_map_iff in I. destruct I as (e & E & I).
    apply in_rev in I. rewrite Forall_forall in F. destruct (F e I) as [F1 F2].
    unfold t_out in E. inversion E; subst. exists (t_line e). auto.
Qed.

Lemma n_running_cons :
  forall lines start st l b,
    n_running lines start st -> nth_error lines (n_off st) = Some l -> (b = true -> blank l = true) ->
    n_off st < List.length lines /\
    map t_idx (rev ((n_off st, b, l) :: n_cur st)) = seq start (S (n_off st) - start) /\
    Forall (entry_ok lines) ((n_off st, b, l) :: n_cur st).
Proof.
  intros lines start st l b (R1 & R2 & R3 & R4 & R5 & R6) N Hb.
  assert (L : n_off st < List.length lines) by (apply nth_error_Some; congruence).
  split; [exact L|]. split.
  - unfold tentry in *. cbn [rev]. rewrite map_app, R5. replace (S (n_off st) - start) with (S (n_off st - start)) by lia.
    rewrite seq_S. simpl. unfold t_idx. simpl. f_equal. f_equal. lia.
  - constructor; [|exact R6]. split; [exact N|exact Hb].
Qed.

Lemma n_plain_step :
  forall lines start st st',
    (forall l, In l lines -> dash l = false) -> lines_wf lines = true ->
    n_running lines start st \/ n_finished lines start st ->
    n_step lines st = Next st' ->
    n_running lines start st' \/ n_finished lines start st'.
Proof.
  intros lines start st st' Hp W [R|F] H.
  - unfold n_step in H. cbv zeta in H.
    destruct (nth_error lines (n_off st)) as [l|] eqn:N; [|discriminate].
    pose proof R as (R1 & R2 & R3 & R4 & R5 & R6).
    assert (KEEP : forall c b, (b = true -> blank l = true) ->
              n_running lines start (mkNst (S (n_off st)) c ((n_off st, b, l) :: n_cur st) (n_adm st) (n_secs st))).
    { intros c b Hb. destruct (n_running_cons lines start st l b R N Hb) as (L & M & FA).
      unfold n_running. cbn [n_off n_code n_cur n_adm n_secs]. repeat split; auto; lia. }
    destruct (n_code st); [inversion H; subst; left; apply KEEP; discriminate|].
    destruct (fence l); [inversion H; subst; left; apply KEEP; discriminate|].
    destruct (blank l) eqn:B; [inversion H; subst; left; apply KEEP; auto|].
    destruct (S (n_off st) =? List.length lines) eqn:EQ.
    + apply Nat.eqb_eq in EQ. inversion H; subst. right.
      destruct (n_running_cons lines start st l false R N ltac:(discriminate)) as (L & M & FA).
      unfold n_finished. cbn [n_off n_code n_cur n_adm n_secs].
      split; [exact EQ|]. split; [lia|]. split; [reflexivity|]. split; [reflexivity|].
      rewrite R1, R2. unfold n_append.
      assert (NN : null l = false).
      { unfold lines_wf in W. rewrite forallb_forall in W. specialize (W l (nth_error_In _ _ N)).
        unfold lf_wf in W. rewrite B in W. destruct (null l); [discriminate|reflexivity]. }
      unfold any_nonnull. cbn [existsb]. unfold t_null at 1, t_blanked, t_line. simpl. rewrite NN. simpl.
      eexists. eexists. split; [reflexivity|].
      rewrite <- EQ. apply text_of_ok; assumption.
    + destruct (nth_error lines (S (n_off st))) as [d|] eqn:N1; [|discriminate].
      rewrite (Hp d (nth_error_In _ _ N1)) in H. inversion H; subst. left. apply KEEP. discriminate.
  - exfalso. destruct F as (F1 & _). unfold n_step in H.
    assert (N : nth_error lines (n_off st) = None) by (apply nth_error_None; lia).
    rewrite N in H. discriminate.
Qed.

Lemma n_step_done :
  forall lines st r, n_step lines st = Done r -> r = st /\ nth_error lines (n_off st) = None.
Proof.
  intros lines st r H. unfold n_step in H. cbv zeta in H.
  destruct (nth_error lines (n_off st)) as [l|] eqn:N.
  - exfalso. repeat break_match_in H; discriminate.
  - inversion H. auto.
Qed.

Lemma map_rev_nil : forall {A B} (f : A -> B) l, map f (rev l) = [] -> l = [].
Proof.
  intros A B f l H. apply map_eq_nil in H. destruct l as [|x l]; [reflexivity|].
  simpl in H. destruct (rev l); discriminate.
Qed.

Lemma numpy_plain_text :
  forall lines o p,
    (forall l, In l lines -> dash l = false) ->
    cleandoc_post lines = true -> lines_wf lines = true ->
    exists ls fc,
      n_parse lines o p = Ok (if List.length lines <=? g_start o p then [] else [SText ls fc false]) /\
      (g_start o p < List.length lines ->
       map fst ls = seq (g_start o p) (List.length lines - g_start o p) /\
       forall i b, In (i, b) ls -> b = true -> exists l, nth_error lines i = Some l /\ blank l = true).
Proof.
  intros lines o p Hp P W. set (start := g_start o p).
  destruct (numpy_total lines o p P) as [secs G]. rewrite G.
  unfold n_parse in G. fold start in G.
  destruct (iter (n_step lines) (S (List.length lines)) (mkNst start false [] None [])) as [st|e] eqn:I; [|discriminate].
  inversion G; subst secs. clear G.
  apply (iter_invariant nst (n_step lines) (fun s => n_running lines start s \/ n_finished lines start s)) in I.
  - destruct I as (s0 & Inv & D). apply n_step_done in D. destruct D as [-> D].
    apply nth_error_None in D. unfold n_finish.
    destruct Inv as [(R1 & R2 & R3 & R4 & R5 & R6)|(F1 & F2 & F3 & F4 & ls & fc & F5 & F6)].
    + rewrite R1, R2.
      destruct (List.length lines <=? start) eqn:L.
      * apply Nat.leb_le in L. assert (E : n_off s0 = start) by lia.
        rewrite E, Nat.sub_diag in R5. apply map_rev_nil in R5. rewrite R5.
        exists [], false. split; [reflexivity|]. intros. lia.
      * apply Nat.leb_gt in L. assert (E : n_off s0 = List.length lines) by lia.
        rewrite E in R5.
        destruct (n_cur s0) as [|e c] eqn:C.
        { exfalso. simpl in R5. replace (List.length lines - start) with (S (List.length lines - start - 1)) in R5 by lia.
          simpl in R5. discriminate. }
        unfold mk_text. cbn [rev app].
        eexists. eexists. split; [reflexivity|]. intros _.
        apply text_of_ok; [exact R5|exact R6].
    + rewrite F3, F4, F5. simpl.
      assert (L : (List.length lines <=? start) = false) by (apply Nat.leb_gt; lia).
      rewrite L. exists ls, fc. split; [reflexivity|]. intros _. exact F6.
  - intros s s' Hs E. exact (n_plain_step lines start s s' Hp W Hs E).
  - left. unfold n_running. simpl. rewrite Nat.sub_diag. simpl. repeat split; try lia; auto.
Qed.

(* the empty docstring: one empty text section (C12-F1 repaired) *)
Example numpy_empty_docstring :
  n_parse [lf_plain true] gopts_default no_parent = Ok [SText [(0, true)] false false].
Proof. vm_compute. reflexivity. Qed.

(* ================= well-formed sections ================= *)
Definition cur_ok (n : nat) (cur : list tentry) : bool := forallb (fun e => t_idx e <? n) cur.

Lemma text_of_wf : forall n cur, cur_ok n cur = true -> forallb (fun ib => fst ib <? n) (text_of cur) = true.
Proof.
  intros n cur H. unfold cur_ok in H. rewrite forallb_forall in *. intros ib I.
  unfold text_of in I. apply in_map_iff in I. destruct I as (e & <- & I). apply in_rev in I.
  exact (H e I).
Qed.

Lemma mk_text_wf : forall n cur, cur_ok n cur = true -> wf_section n (mk_text cur) = true.
Proof. intros. unfold mk_text. simpl. apply text_of_wf. assumption. Qed.

Lemma flush_text_wf :
  forall n cur secs, cur_ok n cur = true -> wf_sections n secs = true -> wf_sections n (flush_text cur secs) = true.
Proof.
  intros n cur secs C S. unfold flush_text. destruct cur as [|e c]; [exact S|].
  destruct (any_nonnull (e :: c)); [|exact S].
  unfold wf_sections. cbn [forallb]. rewrite mk_text_wf by exact C. exact S.
Qed.

Lemma wf_sections_rev : forall n secs, wf_sections n secs = true -> wf_sections n (rev secs) = true.
Proof.
  intros n secs H. unfold wf_sections in *. rewrite forallb_forall in *. intros s I. apply in_rev in I. auto.
Qed.

Lemma wf_sections_app :
  forall n a b, wf_sections n a = true -> wf_sections n b = true -> wf_sections n (a ++ b) = true.
Proof. intros n a b A B. unfold wf_sections in *. rewrite forallb_app, A, B. reflexivity. Qed.

Lemma g_read_block_some :
  forall lines offset f la ind off',
    g_read_block lines offset = Ok (Some (f, la, ind), off') ->
    offset <= f /\ f <= la /\ la < List.length lines /\ 1 <= ind.
Proof.
  intros lines offset f la ind off' H. unfold g_read_block in H.
  destruct (List.length lines <=? offset) eqn:L; [discriminate|].
  apply Nat.leb_gt in L.
  destruct (skip_blank (skipn offset lines) offset) as [[[o l] r]|] eqn:SB; [|discriminate].
  apply skip_blank_some in SB. destruct SB as (S1 & S2 & _ & _ & S5 & _).
  rewrite skipn_length in S2.
  destruct (ws l =? 0) eqn:W; [discriminate|]. apply Nat.eqb_neq in W.
  pose proof (g_block_loop_off r (S o) (ws l)) as G.
  assert (LR : List.length r = List.length lines - offset - S (o - offset)).
  { rewrite S5, skipn_length, skipn_length. reflexivity. }
  assert (E : f = o /\ la = Nat.pred (g_block_loop r (S o) (ws l)) /\ ind = ws l).
  { inversion H. auto. }
  destruct E as (-> & -> & ->). lia.
Qed.

(* shapes of one Google iteration *)
Lemma g_step_shape :
  forall lines o st st', g_step lines o st = Next st' ->
    exists l, nth_error lines (g_off st) = Some l /\
    ((g_cur st' = (g_off st, false, l) :: g_cur st /\ g_secs st' = g_secs st) \/
     (exists k n, g_cur st' = [] /\
        g_secs st' = (if 0 <? n then SSec k (g_off st) n :: flush_text (g_cur st) (g_secs st)
                      else flush_text (g_cur st) (g_secs st))) \/
     (exists f la ind off', g_read_block lines (S (g_off st)) = Ok (Some (f, la, ind), off') /\
        g_cur st' = [] /\ g_secs st' = SAdm (g_off st) f la ind :: flush_text (g_cur st) (g_secs st)) \/
     (exists off' x, nth_error lines off' = Some x /\
        g_cur st' = (off', false, x) :: g_cur st /\ g_secs st' = g_secs st) \/
     (g_cur st' = g_cur st /\ g_secs st' = g_secs st)).
Proof.
  intros lines o st st' H. unfold g_step in H. cbv zeta in H.
  destruct (nth_error lines (g_off st)) as [l|] eqn:N; [|discriminate].
  exists l. split; [reflexivity|].
  repeat break_match_in H; try discriminate; inversion H; subst; cbn [g_cur g_secs];
    first [ left; split; reflexivity
          | match goal with E : (0 <? ?m) = _, k0 : skind |- _ =>
              right; left; exists k0, m; split; [reflexivity|rewrite E; reflexivity] end
          | right; right; left; do 4 eexists; split; [first [eassumption|reflexivity]|split; reflexivity]
          | right; right; right; left; do 2 eexists; split; [first [eassumption|reflexivity]|split; reflexivity]
          | right; right; right; right; split; reflexivity ].
Qed.

Definition g_wf_inv (n : nat) (st : gst) : Prop :=
  cur_ok n (g_cur st) = true /\ wf_sections n (g_secs st) = true.

Lemma g_wf_step :
  forall lines o st st', g_wf_inv (List.length lines) st -> g_step lines o st = Next st' ->
    g_wf_inv (List.length lines) st'.
Proof.
  intros lines o st st' (C & S) H. apply g_step_shape in H.
  destruct H as (l & N & H).
  assert (L : g_off st < List.length lines) by (apply nth_error_Some; congruence).
  assert (Lb : (g_off st <? List.length lines) = true) by (apply Nat.ltb_lt; exact L).
  unfold g_wf_inv.
  destruct H as [(-> & ->)|[(k & n & -> & ->)|[(f & la & ind & off' & R & -> & ->)|[(off' & x & X & -> & ->)|(-> & ->)]]]].
  - split; [|exact S]. unfold cur_ok. cbn [forallb]. unfold t_idx at 1. simpl. rewrite Lb. exact C.
  - split; [reflexivity|].
    pose proof (flush_text_wf _ _ _ C S) as F.
    destruct (0 <? n) eqn:Z; [|exact F].
    unfold wf_sections. cbn [forallb wf_section]. apply Nat.ltb_lt in Z.
    replace (1 <=? n) with true by (symmetry; apply Nat.leb_le; lia). rewrite Lb. exact F.
  - split; [reflexivity|].
    pose proof (flush_text_wf _ _ _ C S) as F.
    apply g_read_block_some in R. destruct R as (R1 & R2 & R3 & R4).
    unfold wf_sections. cbn [forallb wf_section].
    replace (g_off st <? f) with true by (symmetry; apply Nat.ltb_lt; lia).
    replace (f <=? la) with true by (symmetry; apply Nat.leb_le; lia).
    replace (la <? List.length lines) with true by (symmetry; apply Nat.ltb_lt; lia).
    replace (1 <=? ind) with true by (symmetry; apply Nat.leb_le; lia). exact F.
  - split; [|exact S]. unfold cur_ok. cbn [forallb]. unfold t_idx at 1. simpl.
    replace (off' <? List.length lines) with true
      by (symmetry; apply Nat.ltb_lt; apply nth_error_Some; congruence). exact C.
  - split; assumption.
Qed.

Lemma google_sections_well_formed :
  forall lines o p secs, g_parse lines o p = Ok secs -> wf_sections (List.length lines) secs = true.
Proof.
  intros lines o p secs G.
  destruct lines as [|l0 lines'].
  { (* no line at all: nothing is produced *)
    unfold g_parse, g_start in G.
    destruct (o_ignore_init o && p_init_method p); simpl in G; unfold g_finish in G; simpl in G;
      destruct (o_ret_prop o && p_property p); inversion G; reflexivity. }
  remember (l0 :: lines') as lines eqn:EL.
  assert (NZ : 0 < List.length lines) by (subst lines; simpl; lia).
  clear EL l0 lines'.
  unfold g_parse in G.
  destruct (iter (g_step lines o) (S (List.length lines)) (mkGst (g_start o p) false [] [])) as [st|e] eqn:I; [|discriminate].
  inversion G; subst secs. clear G.
  apply (iter_invariant gst (g_step lines o) (g_wf_inv (List.length lines))) in I.
  - destruct I as (s0 & (C & S) & D). apply g_step_done in D. destruct D as [-> D].
    assert (W : wf_sections (List.length lines)
                  (rev match g_cur s0 with [] => g_secs s0 | e :: c => mk_text (e :: c) :: g_secs s0 end) = true).
    { apply wf_sections_rev. destruct (g_cur s0) as [|e c] eqn:E; [exact S|].
      unfold wf_sections. cbn [forallb]. rewrite mk_text_wf by exact C. exact S. }
    unfold g_finish. destruct (o_ret_prop o && p_property p); [|exact W].
    destruct (rev match g_cur s0 with [] => g_secs s0 | e :: c => mk_text (e :: c) :: g_secs s0 end) as [|s rest] eqn:R; [reflexivity|].
    destruct s as [ls fc sp| | |]; try exact W.
    destruct fc; [|exact W]. destruct sp; [exact W|].
    unfold wf_sections in *. cbn [forallb] in W |- *. rewrite forallb_app. cbn [forallb wf_section].
    apply andb_true_iff in W. destruct W as [W1 W2]. simpl in W1. rewrite W1, W2.
    replace (0 <? List.length lines) with true by (symmetry; apply Nat.ltb_lt; exact NZ). reflexivity.
  - intros s s' Hs E. exact (g_wf_step lines o s s' Hs E).
  - split; reflexivity.
Qed.

(* ---- Numpy ---- *)
Definition adm_ok (n : nat) (a : option nat) : Prop := match a with Some h => (h <? n) = true | None => True end.

Lemma n_append_wf :
  forall n secs cur a, cur_ok n cur = true -> wf_sections n secs = true -> adm_ok n a ->
    wf_sections n (n_append secs cur a) = true.
Proof.
  intros n secs cur a C S A. unfold n_append. destruct a as [h|].
  - unfold wf_sections. cbn [forallb wf_section]. simpl in A. rewrite A, (text_of_wf n cur C). exact S.
  - destruct cur as [|e c]; [exact S|]. destruct (any_nonnull (e :: c)); [|exact S].
    unfold wf_sections. cbn [forallb]. rewrite mk_text_wf by exact C. exact S.
Qed.

Lemma n_step_shape :
  forall lines st st', n_step lines st = Next st' ->
    exists l, nth_error lines (n_off st) = Some l /\
    ((exists b, n_cur st' = (n_off st, b, l) :: n_cur st /\ n_secs st' = n_secs st /\ n_adm st' = n_adm st) \/
     (n_cur st' = [] /\ n_adm st' = None /\
        n_secs st' = n_append (n_secs st) ((n_off st, false, l) :: n_cur st) (n_adm st)) \/
     (exists k n, n_cur st' = [] /\ n_adm st' = None /\
        n_secs st' = (if 0 <? n then SSec k (n_off st) n :: n_append (n_secs st) (n_cur st) (n_adm st)
                      else n_append (n_secs st) (n_cur st) (n_adm st))) \/
     (n_cur st' = [] /\ n_adm st' = Some (n_off st) /\
        n_secs st' = n_append (n_secs st) (n_cur st) (n_adm st))).
Proof.
  intros lines st st' H. unfold n_step in H. cbv zeta in H.
  destruct (nth_error lines (n_off st)) as [l|] eqn:N; [|discriminate].
  exists l. split; [reflexivity|].
  repeat break_match_in H; try discriminate; inversion H; subst; cbn [n_cur n_secs n_adm];
    first [ left; eexists; split; [reflexivity|split; reflexivity]
          | right; left; split; [reflexivity|split; reflexivity]
          | match goal with E : (0 <? ?m) = _, k0 : skind |- _ =>
              right; right; left; exists k0, m; split; [reflexivity|split; [reflexivity|rewrite E; reflexivity]] end
          | right; right; right; split; [reflexivity|split; reflexivity] ].
Qed.

Definition n_wf_inv (n : nat) (st : nst) : Prop :=
  cur_ok n (n_cur st) = true /\ wf_sections n (n_secs st) = true /\ adm_ok n (n_adm st).

Lemma n_wf_step :
  forall lines st st', n_wf_inv (List.length lines) st -> n_step lines st = Next st' ->
    n_wf_inv (List.length lines) st'.
Proof.
  intros lines st st' (C & S & A) H. apply n_step_shape in H.
  destruct H as (l & N & H).
  assert (L : n_off st < List.length lines) by (apply nth_error_Some; congruence).
  assert (Lb : (n_off st <? List.length lines) = true) by (apply Nat.ltb_lt; exact L).
  assert (C1 : forall b, cur_ok (List.length lines) ((n_off st, b, l) :: n_cur st) = true).
  { intros b. unfold cur_ok. cbn [forallb]. unfold t_idx at 1. simpl. rewrite Lb. exact C. }
  unfold n_wf_inv.
  destruct H as [(b & -> & -> & ->)|[(-> & -> & ->)|[(k & n & -> & -> & ->)|(-> & -> & ->)]]].
  - split; [apply C1|]. split; assumption.
  - split; [reflexivity|]. split; [|simpl; trivial]. apply n_append_wf; auto.
  - split; [reflexivity|]. split; [|simpl; trivial].
    pose proof (n_append_wf _ _ _ _ C S A) as F.
    destruct (0 <? n) eqn:Z; [|exact F].
    unfold wf_sections. cbn [forallb wf_section]. apply Nat.ltb_lt in Z.
    replace (1 <=? n) with true by (symmetry; apply Nat.leb_le; lia). rewrite Lb. exact F.
  - split; [reflexivity|]. split; [|exact Lb]. apply n_append_wf; auto.
Qed.

Lemma numpy_sections_well_formed :
  forall lines o p secs, n_parse lines o p = Ok secs -> wf_sections (List.length lines) secs = true.
Proof.
  intros lines o p secs G. unfold n_parse in G.
  destruct (iter (n_step lines) (S (List.length lines)) (mkNst (g_start o p) false [] None [])) as [st|e] eqn:I; [|discriminate].
  inversion G; subst secs. clear G.
  apply (iter_invariant nst (n_step lines) (n_wf_inv (List.length lines))) in I.
  - destruct I as (s0 & (C & S & A) & D). apply n_step_done in D. destruct D as [-> D].
    unfold n_finish. apply wf_sections_rev.
    destruct (n_adm s0) as [h|] eqn:EA; [apply n_append_wf; [assumption|assumption|exact A]|].
    destruct (n_cur s0) as [|e c] eqn:EC; [exact S|].
    unfold wf_sections. cbn [forallb]. rewrite mk_text_wf by exact C. exact S.
  - intros s s' Hs E. exact (n_wf_step lines s s' Hs E).
  - split; [reflexivity|]. split; [reflexivity|simpl; trivial].
Qed.

(* ---- Sphinx ---- *)
Lemma drop_blank_incl : forall l e, In e (drop_blank l) -> In e l.
Proof.
  induction l as [|x l IH]; intros e H; simpl in H; [contradiction|].
  destruct (blank (t_line x)); [right; apply IH; exact H|exact H].
Qed.

Lemma strip_blank_ok : forall n desc, cur_ok n desc = true -> cur_ok n (strip_blank desc) = true.
Proof.
  intros n desc C. unfold cur_ok, strip_blank in *. rewrite forallb_forall in *. intros e I.
  apply drop_blank_incl in I. apply in_rev in I. apply drop_blank_incl in I. auto.
Qed.

Lemma s_wf_step :
  forall lines st st', cur_ok (List.length lines) (s_desc st) = true -> s_step lines st = Next st' ->
    cur_ok (List.length lines) (s_desc st') = true.
Proof.
  intros lines st st' C H. unfold s_step in H. cbv zeta in H.
  destruct (nth_error lines (s_off st)) as [l|] eqn:N; [|discriminate].
  assert (Lb : (s_off st <? List.length lines) = true)
    by (apply Nat.ltb_lt; apply nth_error_Some; congruence).
  destruct (sfield l) as [f|].
  - destruct (s_cont (skipn (S (s_off st)) lines) (S (s_off st)) []) as [j conts].
    destruct f; inversion H; subst; exact C.
  - inversion H; subst. unfold cur_ok. cbn [s_desc forallb]. unfold t_idx at 1. simpl. rewrite Lb. exact C.
Qed.

Lemma sphinx_sections_well_formed :
  forall lines secs, s_parse lines = Ok secs ->
    wf_sections (List.length lines) secs = true /\ exists ls rest, secs = SText ls false false :: rest.
Proof.
  intros lines secs G.
  destruct lines as [|l0 lines'].
  { vm_compute in G. inversion G. split; [reflexivity|eexists; eexists; reflexivity]. }
  remember (l0 :: lines') as lines eqn:EL.
  assert (NZ : (0 <? List.length lines) = true) by (subst lines; reflexivity).
  clear EL l0 lines'.
  unfold s_parse in G.
  destruct (iter (s_step lines) (S (List.length lines)) (mkSst 0 [] 0 0 0 false)) as [st|e] eqn:I; [|discriminate].
  inversion G; subst secs. clear G. split; [|unfold s_finish; eauto].
  apply (iter_invariant sst (s_step lines) (fun s => cur_ok (List.length lines) (s_desc s) = true)) in I.
  - destruct I as (s0 & C & D). apply s_step_done in D. destruct D as [-> D].
    unfold s_finish, wf_sections. cbn [forallb wf_section].
    apply strip_blank_ok in C. unfold cur_ok in C.
    assert (T : forallb (fun ib => fst ib <? List.length lines) (map t_out (strip_blank (s_desc s0))) = true).
    { rewrite forallb_forall in *. intros ib I. apply in_map_iff in I. destruct I as (e & <- & I). exact (C e I). }
    rewrite T. cbn [andb]. rewrite !forallb_app.
    destruct (0 <? s_params s0) eqn:Z1; destruct (0 <? s_attrs s0) eqn:Z2; destruct (s_ret s0);
      destruct (0 <? s_excs s0) eqn:Z3; cbn [forallb wf_section andb]; rewrite ?NZ;
      repeat match goal with Z : (0 <? ?x) = true |- _ =>
               replace (1 <=? x) with true by (symmetry; apply Nat.leb_le; apply Nat.ltb_lt in Z; lia); clear Z end;
      reflexivity.
  - intros s s' Hs E. exact (s_wf_step lines s s' Hs E).
  - reflexivity.
Qed.

(* ================= non-vacuity: the models do produce sections, and the hypotheses are satisfiable ================= *)
Definition lf_text : lf := mkLf false false 0 0 false false ANone false None 1 false None 0 0 0.
Definition lf_ghdr (k : skind) : lf := mkLf false false 0 0 false true (ASec k) false None 1 false None 1 0 0.
Definition lf_gadm : lf := mkLf false false 0 0 false true AAdm false None 1 false None 1 0 0.
Definition lf_item (ind : nat) (c : bool) : lf := mkLf false false ind ind false c ANone false None 0 false None (if c then 1 else 0) 0 0.
Definition lf_field (f : sfld) (nc sp2 : nat) : lf := mkLf false false 0 0 false true ANone false None 0 true (Some f) nc 0 sp2.

(* "Summary." / "" / "Args:" / "    x: d" / "    nocolon" / "        continued" / "Note:" / "    body" *)
Example google_example :
  g_parse [lf_text; lf_plain true; lf_ghdr KParams; lf_item 4 true; lf_item 4 false; lf_item 8 false;
           lf_plain true; lf_gadm; lf_item 4 false] gopts_default no_parent =
  Ok [SText [(0, false); (1, false)] false false; SSec KParams 2 1; SAdm 7 8 8 4].
Proof. vm_compute. reflexivity. Qed.

(* "Returns:" at the end of the docstring with returns_multiple_items=False: the repaired empty-block case *)
Example google_empty_single_block :
  g_parse [lf_text; lf_plain true; lf_ghdr KReturns]
          (mkGopts false true false true false true true true) no_parent =
  Ok [SText [(0, false); (1, false); (2, false)] false false].
Proof. vm_compute. reflexivity. Qed.

(* "Parameters" / "---" / "x : int" / "    described" / "y" / "Notes" / "-----" / "text" *)
Example numpy_example :
  n_parse [lf_nhdr KParams; lf_dash; lf_text; lf_item 4 false; lf_text; lf_text; lf_dash; lf_text]
          gopts_default no_parent =
  Ok [SSec KParams 0 2; SNAdm 5 [(7, false)]].
Proof. vm_compute. reflexivity. Qed.

(* "Summary." / ":param x: d" / "    continued" / ":raises E: e" / ":returns: r" *)
Example sphinx_example :
  s_parse [lf_text; lf_field FParam 2 1; lf_item 4 false; lf_field FExc 2 1; lf_field FRet 2 0] =
  Ok [SText [(0, false)] false false; SSec KParams 0 1; SSec KReturns 0 1; SSec KRaises 0 1].
Proof. vm_compute. reflexivity. Qed.

Example cleandoc_post_satisfiable :
  cleandoc_post [lf_nhdr KParams; lf_dash; lf_plain true; lf_text] = true /\
  lines_wf [lf_nhdr KParams; lf_dash; lf_plain true; lf_text] = true /\
  cleandoc_post [lf_plain true] = true.
Proof. repeat split; reflexivity. Qed.
